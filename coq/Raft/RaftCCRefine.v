(* C15 — membership changes, the proved part: every step of the membership-change system
   (RaftCC.cxstep) is a sequence of micro steps of RaftSys.mstep F, PROVIDED every configuration
   that is used lies in the family F.  "Used": every configuration obtained by applying a prefix of
   a node's log up to its commit index to the boot configuration ([lenv]).
   Together with RaftInvMain.mreachable_inv this gives the safety theorems for all runs whose
   configurations stay inside a family with pairwise intersecting quorums (RaftCCSafety.v). *)
Require Import List Arith Bool Lia.
Require Import Raft.Quorum Raft.RaftModel Raft.RaftSys Raft.RaftLog Raft.RaftInv Raft.RaftInvBase
               Raft.RaftInvMain Raft.RaftRefine Raft.RaftStepProps Raft.RaftCC Raft.RaftCCInv.
Import ListNotations.

Definition st_node (st : nstate * conf * nat * nat) : nstate := fst (fst (fst st)).

(* HardState monotonicity of the Ready loop (no restriction on the configurations) *)
Section CCLoopHS.
  Variable page1 : bool.
  Variable id : nat.

  Lemma apply_entry_hs : forall n c e, let n' := fst (apply_entry id (n, c) e) in
    n_term n' = n_term n /\ n_vote n' = n_vote n /\ n_commit n <= n_commit n'.
  Proof.
    intros n c e. unfold apply_entry.
    destruct (cc_of_payload (snd e)) as [op|]; [|cbn; repeat split; lia].
    destruct (apply_cc c op) as [c'|]; [|cbn; repeat split; lia]. cbn [fst].
    destruct (role_eqb _ Leader && member c' id && _); [|cbn; repeat split; lia].
    destruct (maybe_commit_props (c_in c') (c_out c') (set_match (reset_match c c' (n_match n)) n)) as (A & B & _ & _ & E & _).
    cbn zeta in *. cbn [set_match n_term n_vote n_commit] in *. repeat split; assumption.
  Qed.

  Lemma fold_apply_hs : forall ents n c, let n' := fst (fold_left (apply_entry id) ents (n, c)) in
    n_term n' = n_term n /\ n_vote n' = n_vote n /\ n_commit n <= n_commit n'.
  Proof.
    induction ents as [|e ents IH]; intros n c; [cbn; repeat split; lia|].
    cbn [fold_left]. destruct (apply_entry id (n, c) e) as [n1 c1] eqn:Ea.
    destruct (apply_entry_hs n c e) as (A & B & C). cbn zeta in *. rewrite Ea in A, B, C. cbn [fst] in *.
    destruct (IH n1 c1) as (A' & B' & C'). cbn zeta in *. repeat split; try congruence; try lia.
  Qed.

  Lemma ready_iter_hs : forall st, let st' := ready_iter page1 id st in
    n_term (st_node st') = n_term (st_node st) /\ n_vote (st_node st') = n_vote (st_node st) /\
    n_commit (st_node st) <= n_commit (st_node st').
  Proof.
    intros [[[n c] pend] applied]. unfold ready_iter, st_node. cbn [fst].
    set (rdc := if applied <? n_commit n then (if page1 then S applied else n_commit n) else applied).
    set (ents := firstn (rdc - applied) (skipn applied (n_log n))).
    destruct (fold_left (apply_entry id) ents (n, c)) as [n1 c1] eqn:Ef.
    destruct (fold_apply_hs ents n c) as (A & B & C). cbn zeta in *. rewrite Ef in A, B, C. cbn [fst] in *.
    destruct ((applied <? rdc) && c_auto c1 && (applied <=? pend) && (pend <=? rdc) && role_eqb (n_role n1) Leader);
      cbv beta iota zeta; cbn [fst snd].
    - destruct (role_eqb _ Leader && tracked c1 id).
      + destruct (leader_ack_props (c_in c1) (c_out c1) id (length (n_log n)) (set_log (n_log n1 ++ [(n_term n1, 120)]) n1)) as (T & V & _ & _ & Cm & _).
        cbn zeta in *. cbn [set_log n_term n_vote n_commit] in *. repeat split; try congruence; try lia.
      + cbn. repeat split; try congruence; try lia.
    - destruct (role_eqb _ Leader && tracked c1 id); [|repeat split; try congruence; lia].
      destruct (leader_ack_props (c_in c1) (c_out c1) id (length (n_log n)) n1) as (T & V & _ & _ & Cm & _).
      cbn zeta in *. repeat split; try congruence; try lia.
  Qed.

  Lemma iter_hs : forall k st, let st' := iter k (ready_iter page1 id) st in
    n_term (st_node st') = n_term (st_node st) /\ n_vote (st_node st') = n_vote (st_node st) /\
    n_commit (st_node st) <= n_commit (st_node st').
  Proof.
    induction k as [|k IH]; intros st; [cbn; repeat split; lia|].
    cbn [iter]. destruct (ready_iter_hs st) as (A & B & C). destruct (IH (ready_iter page1 id st)) as (A' & B' & C').
    cbn zeta in *. repeat split; try congruence; try lia.
  Qed.

End CCLoopHS.

Section CCRefine.
  Variable F : list (list nat * list nat).
  Hypothesis HF : inter_family F.
  Variable boot : conf.
  Variable page1 : bool.

  Definition used_ok (c : conf) : Prop := In (c_in c, c_out c) F.

  (* every configuration along the log lies in the family *)
  (* every configuration along the COMMITTED part of the log lies in the family (c = the commit index) *)
  Definition lenv (L : elog) (c : nat) : Prop := forall j, j <= c -> used_ok (cfg_of boot (firstn j L)).

  Definition stepf (c : conf) (e : entry) : conf := apply_payload c (snd e).

  Lemma cfg_of_app : forall l1 l2, cfg_of boot (l1 ++ l2) = fold_left stepf l2 (cfg_of boot l1).
  Proof. intros l1 l2. unfold cfg_of. rewrite fold_left_app. reflexivity. Qed.


  (* ---------------------------------------------------------------- single micro steps, by node value *)
  Lemma reaches_selfack : forall s id n k,
    nodes s id = n -> n_role n = Leader -> k <= length (n_log n) ->
    reaches F s id (set_match (upd (n_match n) id k) n) [] (set_node s id (set_match (upd (n_match n) id k) n)).
  Proof.
    intros s id n k Hn Hr Hk. subst n.
    eapply reaches_step; [apply (M_selfack F s id k); assumption|reflexivity|cbn; rewrite app_nil_r; reflexivity].
  Qed.

  Lemma reaches_commit : forall s id n c,
    nodes s id = n -> n_role n = Leader -> used_ok c ->
    reaches F s id (maybe_commit (c_in c) (c_out c) n) [] (set_node s id (maybe_commit (c_in c) (c_out c) n)).
  Proof.
    intros s id n c Hn Hr Hok. subst n.
    eapply reaches_step; [apply (M_commit F s id (c_in c, c_out c) Hok); assumption|reflexivity|cbn; rewrite app_nil_r; reflexivity].
  Qed.

  Lemma reaches_propose : forall s id n p,
    nodes s id = n -> n_role n = Leader ->
    exists s', reaches F s id (set_log (n_log n ++ [(n_term n, p)]) n) [] s'.
  Proof.
    intros s id n p Hn Hr. subst n. eexists.
    eapply reaches_step; [apply (M_propose F s id p); assumption| |cbn; rewrite app_nil_r; reflexivity].
    unfold propose. rewrite Hr. reflexivity.
  Qed.

  Lemma reaches_leader_ack : forall s id n c from k,
    nodes s id = n -> n_role n = Leader -> used_ok c -> from = id -> k <= length (n_log n) ->
    exists s', reaches F s id (leader_ack (c_in c) (c_out c) from k n) [] s'.
  Proof.
    intros s id n c from k Hn Hr Hok -> Hk. unfold leader_ack.
    destruct (n_match n id <? k); [|exists s; rewrite <- Hn; apply reaches_refl].
    pose proof (reaches_selfack s id n k Hn Hr Hk) as R3.
    set (n1 := set_match (upd (n_match n) id k) n) in *. set (s1 := set_node s id n1) in *.
    pose proof (reaches_commit s1 id n1 c (proj1 (proj2 R3)) Hr Hok) as R4.
    eexists. exact (reaches_trans F s id _ [] s1 _ [] _ R3 R4).
  Qed.

  (* ---------------------------------------------------------------- applying committed entries *)
  Lemma apply_entry_conf : forall id n c e, snd (apply_entry id (n, c) e) = stepf c e.
  Proof.
    intros id n c e. unfold apply_entry, stepf, apply_payload.
    destruct (cc_of_payload (snd e)) as [op|]; [|reflexivity].
    destruct (apply_cc c op); reflexivity.
  Qed.

  Lemma apply_entry_props : forall id n c e, let n' := fst (apply_entry id (n, c) e) in
    n_log n' = n_log n /\ n_term n' = n_term n /\ n_role n' = n_role n /\ n_commit n <= n_commit n'.
  Proof.
    intros id n c e. unfold apply_entry.
    destruct (cc_of_payload (snd e)) as [op|]; [|cbn; repeat split; lia].
    destruct (apply_cc c op) as [c'|]; [|cbn; repeat split; lia]. cbn [fst].
    destruct (role_eqb _ Leader && member c' id && _); [|cbn; repeat split; lia].
    destruct (maybe_commit_props (c_in c') (c_out c') (set_match (reset_match c c' (n_match n)) n)) as (A & _ & C & D & E & _).
    cbn zeta in *. cbn [set_match n_term n_log n_role n_commit] in *. repeat split; assumption.
  Qed.

  Lemma reaches_apply_entry : forall s id n c e,
    nodes s id = n -> used_ok (stepf c e) ->
    exists s', reaches F s id (fst (apply_entry id (n, c) e)) [] s'.
  Proof.
    intros s id n c e Hn Hok. subst n. unfold apply_entry, stepf, apply_payload in *.
    destruct (cc_of_payload (snd e)) as [op|]; [|exists s; apply reaches_refl].
    destruct (apply_cc c op) as [c'|]; [|exists s; apply reaches_refl]. cbn [fst].
    set (n := nodes s id) in *.
    set (n1 := set_match (reset_match c c' (n_match n)) n).
    assert (R1 : reaches F s id n1 [] (set_node s id n1)).
    { eapply reaches_step; [apply (M_lower F s id (reset_match c c' (n_match n)))|reflexivity|cbn; rewrite app_nil_r; reflexivity].
      intros x. fold n. unfold reset_match. destruct (tracked c' x && tracked c x); lia. }
    destruct (role_eqb (n_role n1) Leader && member c' id && match c_in c' with [] => false | _ :: _ => true end) eqn:Ec;
      [|eexists; exact R1].
    apply andb_true_iff in Ec as [Ec _]. apply andb_true_iff in Ec as [Er _].
    assert (Hr : n_role n1 = Leader) by (destruct (n_role n1); try discriminate; reflexivity).
    set (s1 := set_node s id n1) in *.
    assert (Hn1 : nodes s1 id = n1) by (apply (proj1 (proj2 R1))).
    assert (R2 : reaches F s1 id (maybe_commit (c_in c') (c_out c') n1) []
                   (set_node s1 id (maybe_commit (c_in c') (c_out c') (nodes s1 id)))).
    { eapply reaches_step; [apply (M_commit F s1 id (c_in c', c_out c') Hok); rewrite Hn1; exact Hr|rewrite Hn1; reflexivity|cbn; rewrite app_nil_r; reflexivity]. }
    eexists. apply (reaches_trans F s id n1 [] s1 _ [] _ R1 R2).
  Qed.

  Lemma reaches_apply_entries : forall ents s id n c,
    nodes s id = n ->
    (forall k, used_ok (fold_left stepf (firstn k ents) c)) ->
    exists s', reaches F s id (fst (fold_left (apply_entry id) ents (n, c))) [] s' /\
               snd (fold_left (apply_entry id) ents (n, c)) = fold_left stepf ents c.
  Proof.
    induction ents as [|e ents IH]; intros s id n c Hn Hok.
    - exists s. split; [rewrite <- Hn; apply reaches_refl|reflexivity].
    - cbn [fold_left].
      destruct (apply_entry id (n, c) e) as [n1 c1] eqn:Ea.
      assert (Ec1 : c1 = stepf c e) by (rewrite <- (apply_entry_conf id n c e), Ea; reflexivity).
      destruct (reaches_apply_entry s id n c e Hn) as [s1 R1].
      { specialize (Hok 1). cbn in Hok. exact Hok. }
      rewrite Ea in R1. cbn [fst] in R1.
      destruct (IH s1 id n1 c1 (proj1 (proj2 R1))) as (s2 & R2 & E2).
      { intros k. specialize (Hok (S k)). cbn [firstn fold_left] in Hok. rewrite Ec1. exact Hok. }
      exists s2. split; [apply (reaches_trans F s id n1 [] s1 _ [] s2 R1 R2)|]. rewrite E2, Ec1. reflexivity.
  Qed.

  Lemma fold_apply_props : forall id ents n c, let n' := fst (fold_left (apply_entry id) ents (n, c)) in
    n_log n' = n_log n /\ n_term n' = n_term n /\ n_role n' = n_role n /\ n_commit n <= n_commit n'.
  Proof.
    intros id. induction ents as [|e ents IH]; intros n c; [cbn; repeat split; lia|].
    cbn [fold_left]. destruct (apply_entry id (n, c) e) as [n1 c1] eqn:Ea.
    destruct (apply_entry_props id n c e) as (A & B & C & D). cbn zeta in *. rewrite Ea in A, B, C, D. cbn [fst] in *.
    destruct (IH n1 c1) as (A' & B' & C' & D'). cbn zeta in *. repeat split; try congruence. lia.
  Qed.

  (* ---------------------------------------------------------------- one round of the Ready loop *)
  Definition loop_inv (st : nstate * conf * nat * nat) : Prop :=
    let '(n, c, _, applied) := st in
    c = cfg_of boot (firstn applied (n_log n)) /\ applied <= n_commit n.

  Lemma firstn_seg : forall (l : elog) a b, a <= b ->
    firstn b l = firstn a l ++ firstn (b - a) (skipn a l).
  Proof. intros l a b H. replace b with (a + (b - a)) at 1 by lia. apply firstn_plus. Qed.

  Lemma ready_iter_spec : forall id s n c pend applied,
    mreachable F s -> nodes s id = n -> loop_inv (n, c, pend, applied) -> lenv (n_log n) (n_commit n) ->
    True ->
    let st' := ready_iter page1 id (n, c, pend, applied) in
    let n' := fst (fst (fst st')) in
    (True ->
     exists s', reaches F s id n' [] s' /\ loop_inv st') /\
    (exists suf, n_log n' = n_log n ++ suf).
  Proof.
    intros id s n c pend applied Hreach Hn [Hc Happ] Henv _. unfold ready_iter.
    set (rdc := if applied <? n_commit n then (if page1 then S applied else n_commit n) else applied).
    assert (Hrdc : applied <= rdc /\ rdc <= n_commit n).
    { unfold rdc. destruct (Nat.ltb_spec applied (n_commit n)); [destruct page1; lia|lia]. }
    assert (H9 : n_commit n <= length (n_log n)).
    { pose proof (hK9 _ _ (mreachable_inv F HF s Hreach) id) as [H9 _]. unfold nd in H9. rewrite Hn in H9. exact H9. }
    set (ents := firstn (rdc - applied) (skipn applied (n_log n))).
    assert (Hfold : forall k, fold_left stepf (firstn k ents) c = cfg_of boot (firstn (applied + Nat.min k (rdc - applied)) (n_log n))).
    { intros k. rewrite Hc. unfold ents. rewrite firstn_firstn.
      rewrite (firstn_seg (n_log n) applied (applied + Nat.min k (rdc - applied))) by lia.
      rewrite cfg_of_app. replace (applied + Nat.min k (rdc - applied) - applied) with (Nat.min k (rdc - applied)) by lia.
      reflexivity. }
    destruct (fold_left (apply_entry id) ents (n, c)) as [n1 c1] eqn:Ef.
    destruct (fold_apply_props id ents n c) as (Al & At & Ar & Ac). cbn zeta in *. rewrite Ef in Al, At, Ar, Ac. cbn [fst] in *.
    assert (Ec1 : c1 = cfg_of boot (firstn rdc (n_log n))).
    { destruct (reaches_apply_entries ents s id n c Hn) as (_ & _ & E2).
      - intros k. rewrite Hfold. apply Henv. lia.
      - rewrite Ef in E2. cbn [snd] in E2. rewrite E2.
        rewrite <- (firstn_all ents) at 1. rewrite Hfold. f_equal. f_equal.
        unfold ents. rewrite firstn_length, skipn_length. lia. }
    (* the log after this round *)
    set (auto := (applied <? rdc) && c_auto c1 && (applied <=? pend) && (pend <=? rdc) && role_eqb (n_role n1) Leader).
    destruct auto eqn:Eauto.
    - (* the leave entry is appended *)
      cbv beta iota zeta. cbn [fst snd]. set (n2 := set_log (n_log n1 ++ [(n_term n1, 120)]) n1).
      assert (Hr1 : n_role n1 = Leader).
      { unfold auto in Eauto. apply andb_true_iff in Eauto as [_ E]. destruct (n_role n1); try discriminate; reflexivity. }
      set (n3 := if role_eqb (n_role n2) Leader && tracked c1 id then leader_ack (c_in c1) (c_out c1) id (length (n_log n)) n2 else n2).
      assert (Hl3 : n_log n3 = n_log n ++ [(n_term n1, 120)]).
      { unfold n3. destruct (role_eqb (n_role n2) Leader && tracked c1 id).
        - destruct (leader_ack_props (c_in c1) (c_out c1) id (length (n_log n)) n2) as (_ & _ & L & _). cbn zeta in L. rewrite L. cbn. rewrite Al. reflexivity.
        - cbn. rewrite Al. reflexivity. }
      split; [|exists [(n_term n1, 120)]; exact Hl3].
      intros _.
      destruct (reaches_apply_entries ents s id n c Hn) as (s1 & R1 & _).
      { intros k. rewrite Hfold. apply Henv. lia. }
      rewrite Ef in R1. cbn [fst] in R1.
      pose proof (proj1 (proj2 R1)) as Hn1.
      destruct (reaches_propose s1 id n1 120 Hn1 Hr1) as [s2 R2]. fold n2 in R2.
      pose proof (proj1 (proj2 R2)) as Hn2.
      pose proof (reaches_trans F s id n1 [] s1 _ [] s2 R1 R2) as R12. cbn [app] in R12.
      assert (Hok1 : used_ok c1) by (rewrite Ec1; apply Henv; lia).
      assert (Hreach2 : mreachable F s2) by (eapply msteps_reachable; [exact Hreach|exact (proj1 R12)]).
      assert (Hlinv : loop_inv (n3, c1, S (length (n_log n1)), rdc)).
      { unfold loop_inv. rewrite Hl3. split.
        - rewrite Ec1. f_equal. symmetry. apply firstn_app_le. lia.
        - unfold n3. destruct (role_eqb (n_role n2) Leader && tracked c1 id).
          + destruct (leader_ack_props (c_in c1) (c_out c1) id (length (n_log n)) n2) as (_ & _ & _ & _ & C & _). cbn zeta in C. cbn in C. lia.
          + cbn. lia. }
      unfold n3 in *. destruct (role_eqb (n_role n2) Leader && tracked c1 id) eqn:Eack; [|exists s2; split; [exact R12|exact Hlinv]].
      destruct (reaches_leader_ack s2 id n2 c1 id (length (n_log n)) Hn2 Hr1 Hok1 eq_refl) as [s3 R3].
      { cbn. rewrite Al, app_length. lia. }
      exists s3. split; [|exact Hlinv].
      pose proof (reaches_trans F s id _ [] s2 _ [] _ R12 R3) as R. exact R.
    - (* no leave entry *)
      cbv beta iota zeta. cbn [fst snd].
      set (n3 := if role_eqb (n_role n1) Leader && tracked c1 id then leader_ack (c_in c1) (c_out c1) id (length (n_log n)) n1 else n1).
      assert (Hl3 : n_log n3 = n_log n).
      { unfold n3. destruct (role_eqb (n_role n1) Leader && tracked c1 id); [|exact Al].
        destruct (leader_ack_props (c_in c1) (c_out c1) id (length (n_log n)) n1) as (_ & _ & L & _). cbn zeta in L. rewrite L. exact Al. }
      split; [|exists []; rewrite app_nil_r; exact Hl3].
      intros _.
      destruct (reaches_apply_entries ents s id n c Hn) as (s1 & R1 & _).
      { intros k. rewrite Hfold. apply Henv. lia. }
      rewrite Ef in R1. cbn [fst] in R1.
      pose proof (proj1 (proj2 R1)) as Hn1.
      assert (Hok1 : used_ok c1) by (rewrite Ec1; apply Henv; lia).
      assert (Hlinv : loop_inv (n3, c1, pend, rdc)).
      { unfold loop_inv. rewrite Hl3. split; [exact Ec1|].
        unfold n3. destruct (role_eqb (n_role n1) Leader && tracked c1 id); [|lia].
        destruct (leader_ack_props (c_in c1) (c_out c1) id (length (n_log n)) n1) as (_ & _ & _ & _ & C & _). cbn zeta in C. lia. }
      unfold n3 in *. destruct (role_eqb (n_role n1) Leader && tracked c1 id) eqn:Eack; [|exists s1; split; [exact R1|exact Hlinv]].
      apply andb_true_iff in Eack as [Er _].
      assert (Hr1 : n_role n1 = Leader) by (destruct (n_role n1); try discriminate; reflexivity).
      destruct (reaches_leader_ack s1 id n1 c1 id (length (n_log n)) Hn1 Hr1 Hok1 eq_refl) as [s3 R3].
      { rewrite Al. lia. }
      exists s3. split; [|exact Hlinv].
      pose proof (reaches_trans F s id _ [] s1 _ [] _ R1 R3) as R. exact R.
  Qed.

  (* ---------------------------------------------------------------- the whole Ready loop *)

  Lemma ready_iter_log : forall id st, exists suf, n_log (st_node (ready_iter page1 id st)) = n_log (st_node st) ++ suf.
  Proof.
    intros id [[[n c] pend] applied]. unfold ready_iter, st_node. cbn [fst].
    set (rdc := if applied <? n_commit n then (if page1 then S applied else n_commit n) else applied).
    set (ents := firstn (rdc - applied) (skipn applied (n_log n))).
    destruct (fold_left (apply_entry id) ents (n, c)) as [n1 c1] eqn:Ef.
    destruct (fold_apply_props id ents n c) as (Al & _). cbn zeta in Al. rewrite Ef in Al. cbn [fst] in Al.
    destruct ((applied <? rdc) && c_auto c1 && (applied <=? pend) && (pend <=? rdc) && role_eqb (n_role n1) Leader);
      cbv beta iota zeta; cbn [fst snd].
    - exists [(n_term n1, 120)].
      destruct (role_eqb _ Leader && tracked c1 id).
      + destruct (leader_ack_props (c_in c1) (c_out c1) id (length (n_log n)) (set_log (n_log n1 ++ [(n_term n1, 120)]) n1)) as (_ & _ & L & _).
        cbn zeta in L. rewrite L. cbn. rewrite Al. reflexivity.
      + cbn. rewrite Al. reflexivity.
    - exists []. rewrite app_nil_r.
      destruct (role_eqb _ Leader && tracked c1 id); [|exact Al].
      destruct (leader_ack_props (c_in c1) (c_out c1) id (length (n_log n)) n1) as (_ & _ & L & _). cbn zeta in L. rewrite L. exact Al.
  Qed.

  Lemma iter_log : forall id k st, exists suf, n_log (st_node (iter k (ready_iter page1 id) st)) = n_log (st_node st) ++ suf.
  Proof.
    intros id. induction k as [|k IH]; intros st; [exists []; rewrite app_nil_r; reflexivity|].
    cbn [iter]. destruct (ready_iter_log id st) as [s1 E1]. destruct (IH (ready_iter page1 id st)) as [s2 E2].
    exists (s1 ++ s2). rewrite E2, E1, app_assoc. reflexivity.
  Qed.

  Lemma iter_spec : forall id k s st,
    mreachable F s -> nodes s id = st_node st -> loop_inv st ->
    lenv (n_log (st_node (iter k (ready_iter page1 id) st))) (n_commit (st_node (iter k (ready_iter page1 id) st))) ->
    exists s', reaches F s id (st_node (iter k (ready_iter page1 id) st)) [] s'.
  Proof.
    intros id. induction k as [|k IH]; intros s st Hreach Hn Hinv Henv.
    - exists s. cbn [iter]. rewrite <- Hn. apply reaches_refl.
    - cbn [iter] in *. destruct st as [[[n c] pend] applied]. unfold st_node in Hn. cbn [fst] in Hn.
      destruct (iter_log id k (ready_iter page1 id (n, c, pend, applied))) as [suf2 E2].
      destruct (ready_iter_log id (n, c, pend, applied)) as [suf1 E1]. unfold st_node in E1 at 2. cbn [fst] in E1.
      destruct (iter_hs page1 id k (ready_iter page1 id (n, c, pend, applied))) as (_ & _ & C2). cbn zeta in C2.
      destruct (ready_iter_hs page1 id (n, c, pend, applied)) as (_ & _ & C1). cbn zeta in C1. unfold st_node in C1 at 1. cbn [fst] in C1.
      assert (H9 : n_commit n <= length (n_log n)).
      { pose proof (hK9 _ _ (mreachable_inv F HF s Hreach) id) as [H9 _]. unfold nd in H9. rewrite Hn in H9. exact H9. }
      assert (Henv0 : lenv (n_log n) (n_commit n)).
      { intros j Hj. specialize (Henv j ltac:(lia)). rewrite E2, E1 in Henv.
        rewrite <- app_assoc in Henv. rewrite firstn_app_le in Henv by lia. exact Henv. }
      destruct (ready_iter_spec id s n c pend applied Hreach Hn Hinv Henv0 I) as [Hspec _].
      destruct (Hspec I) as (s1 & R1 & Hinv1).
      assert (Hreach1 : mreachable F s1) by (eapply msteps_reachable; [exact Hreach|exact (proj1 R1)]).
      destruct (IH s1 (ready_iter page1 id (n, c, pend, applied)) Hreach1 (proj1 (proj2 R1)) Hinv1 Henv) as [s2 R2].
      exists s2. exact (reaches_trans F s id _ [] s1 _ [] s2 R1 R2).
  Qed.

  (* ---------------------------------------------------------------- the call into the node keeps the committed prefix *)
  Lemma step_msg_snap_log : forall c0 c1 id m n, m_type m = MsgSnap ->
    n_log (fst (step_msg c0 c1 id m n)) = n_log n \/
    (n_log (fst (step_msg c0 c1 id m n)) = m_ents m /\ n_term n <= m_term m /\ n_commit n < m_index m).
  Proof.
    intros c0 c1 id m n Hty.
    assert (Hsnap : forall n0, n_log n0 = n_log n -> n_commit n0 = n_commit n ->
              n_log (fst (handle_snapshot id m n0)) = n_log n \/
              (n_log (fst (handle_snapshot id m n0)) = m_ents m /\ n_commit n < m_index m)).
    { intros n0 Hl0 Hc0. unfold handle_snapshot.
      destruct ((m_index m <=? n_commit n0) || m_reject m) eqn:E1; [left; exact Hl0|].
      apply orb_false_iff in E1 as [E1 _]. apply Nat.leb_gt in E1.
      destruct (term_at (n_log n0) (m_index m) =? m_logterm m).
      - destruct (commit_to (n_log n0) (n_commit n0) (m_index m)); left; exact Hl0.
      - right. cbn [fst n_log]. split; [reflexivity|lia]. }
    unfold step_msg. destruct (n_term n <? m_term m) eqn:E1.
    - apply Nat.ltb_lt in E1. unfold step_same. rewrite Hty. cbn [become_follower n_role].
      destruct (Hsnap (set_lead (Some (m_from m)) (become_follower id (m_term m) (Some (m_from m)) n))) as [H|[H1 H2]];
        [reflexivity|reflexivity|left; exact H|right; split; [exact H1|split; [lia|exact H2]]].
    - destruct (m_term m <? n_term n) eqn:E2; [left; reflexivity|].
      apply Nat.ltb_ge in E1. apply Nat.ltb_ge in E2. unfold step_same. rewrite Hty.
      destruct (n_role n).
      + destruct (Hsnap (set_lead (Some (m_from m)) n)) as [H|[H1 H2]];
          [reflexivity|reflexivity|left; exact H|right; split; [exact H1|split; [lia|exact H2]]].
      + destruct (Hsnap (become_follower id (n_term n) (Some (m_from m)) n)) as [H|[H1 H2]];
          [reflexivity|reflexivity|left; exact H|right; split; [exact H1|split; [lia|exact H2]]].
      + left. reflexivity.
  Qed.

  Lemma handle_keeps : forall c0 c1 s id ev,
    Inv F s -> (forall m, ev = EvRecv m -> In m (msgs s) /\ m_to m = id) ->
    let n := nodes s id in
    let n1 := fst (handle c0 c1 id ev n) in
    firstn (n_commit n) (n_log n1) = firstn (n_commit n) (n_log n) /\ n_commit n <= n_commit n1.
  Proof.
    intros c0 c1 s id ev I Hev n n1.
    destruct (hK9 _ _ I id) as [H9a H9b]. unfold nd in H9a, H9b. fold n in H9a, H9b.
    destruct (handle_good c0 c1 id ev n) as ((_ & _ & Hc) & Hk & _). fold n1 in Hc, Hk.
    split; [|exact Hc].
    assert (Hsnapdec : not_snap ev \/ exists m, ev = EvRecv m /\ m_type m = MsgSnap).
    { destruct ev as [|p|m| |]; try (left; intros m' Hm'; discriminate Hm').
      destruct (m_type m) eqn:Ety; try (left; intros m' Hm'; injection Hm' as <-; congruence).
      right. exists m. split; [reflexivity|exact Ety]. }
    destruct Hsnapdec as [Hns|(m & -> & Hty)]; [apply (Hk Hns H9a)|].
    destruct (Hev m eq_refl) as [Hm _]. unfold n1. cbn [handle].
    destruct (step_msg_snap_log c0 c1 id m n Hty) as [H|(H1 & H2 & H3)]; [rewrite H; reflexivity|].
    rewrite H1.
    destruct (hW13 _ _ I m Hm Hty) as (HXne & Hents & Hlen & _ & _).
    rewrite Hents. rewrite firstn_firstn. rewrite Nat.min_l by lia.
    destruct H9b as [Hz|(t0 & k0 & Ht0 & Hc0 & Hk0 & Hf)]; [rewrite Hz; reflexivity|].
    destruct (LC_le F HF s I t0 k0 (m_term m) Hc0 ltac:(lia) HXne) as [_ Hhas].
    rewrite Hf. apply (firstn_agree_le _ _ _ k0); [exact Hhas|exact Hk0].
  Qed.

  (* ---------------------------------------------------------------- one event of the membership-change system *)
  Lemma exec_cc_sim : forall s id ev pend,
    mreachable F s ->
    (forall m, ev = EvRecv m -> In m (msgs s) /\ m_to m = id) ->
    lenv (n_log (nodes s id)) (n_commit (nodes s id)) ->
    lenv (n_log (fst (fst (exec_cc boot page1 id ev (nodes s id, pend)))))
         (n_commit (fst (fst (exec_cc boot page1 id ev (nodes s id, pend))))) ->
    exists s', reaches F s id (fst (fst (exec_cc boot page1 id ev (nodes s id, pend))))
                       (snd (exec_cc boot page1 id ev (nodes s id, pend))) s'.
  Proof.
    intros s id ev pend Hreach Hev Henv0 Henv'. set (n := nodes s id) in *.
    pose proof (mreachable_inv F HF s Hreach) as I.
    unfold exec_cc in *. fold n in Henv'. fold n.
    set (c := node_cfg boot n) in *.
    assert (Hokc : used_ok c) by (unfold c, node_cfg; apply Henv0; apply le_n).
    destruct (match ev with EvRecv m => is_response (m_type m) && negb (tracked c (m_from m)) | _ => false end) eqn:Ed.
    { cbn [fst snd]. exists s. apply reaches_refl. }
    (* the call itself *)
    assert (Hcall : exists s1, reaches F s id (fst (fst (handle_cc id c ev n pend))) (snd (fst (handle_cc id c ev n pend))) s1 /\
                     firstn (n_commit n) (n_log (fst (fst (handle_cc id c ev n pend)))) = firstn (n_commit n) (n_log n) /\
                     n_commit n <= n_commit (fst (fst (handle_cc id c ev n pend)))).
    { destruct (hK9 _ _ I id) as [H9a _]. unfold nd in H9a. fold n in H9a.
      assert (Hgen : exists s1, reaches F s id (fst (handle (c_in c) (c_out c) id ev n)) (snd (handle (c_in c) (c_out c) id ev n)) s1 /\
                       firstn (n_commit n) (n_log (fst (handle (c_in c) (c_out c) id ev n))) = firstn (n_commit n) (n_log n) /\
                       n_commit n <= n_commit (fst (handle (c_in c) (c_out c) id ev n))).
      { destruct (reaches_handle (c_in c) (c_out c) F Hokc s id ev Hev) as [s1 R1]. exists s1. split; [exact R1|].
        apply (handle_keeps (c_in c) (c_out c) s id ev I Hev). }
      assert (Hprop : forall p, n_role n = Leader ->
                exists s1, reaches F s id (propose p n) [] s1 /\
                  firstn (n_commit n) (n_log (propose p n)) = firstn (n_commit n) (n_log n) /\ n_commit n <= n_commit (propose p n)).
      { intros p Hr. destruct (reaches_propose s id n p eq_refl Hr) as [s1 R1]. unfold propose. rewrite Hr.
        exists s1. split; [exact R1|]. cbn [set_log n_log n_commit]. split; [apply firstn_app_le; exact H9a|lia]. }
      assert (Hnop : exists s1, reaches F s id n [] s1 /\ firstn (n_commit n) (n_log n) = firstn (n_commit n) (n_log n) /\ n_commit n <= n_commit n).
      { exists s. split; [apply reaches_refl|split; [reflexivity|lia]]. }
      unfold handle_cc. destruct ev as [|p|m| |]; try exact Hgen.
      2:{ (* a message: possibly the acknowledgement of a learner *)
          cbn [fst snd]. unfold learner_ack.
          destruct (msg_is_appresp m && negb (m_reject m) && negb (member c (m_from m))
                    && role_eqb (n_role (fst (handle (c_in c) (c_out c) id (EvRecv m) n))) Leader
                    && (m_term m =? n_term (fst (handle (c_in c) (c_out c) id (EvRecv m) n)))) eqn:Ecase; [|exact Hgen].
          apply andb_true_iff in Ecase as [Ecase Et]. apply andb_true_iff in Ecase as [Ecase Erl].
          apply andb_true_iff in Ecase as [Ecase _]. apply andb_true_iff in Ecase as [Ety Erej].
          apply Nat.eqb_eq in Et. apply negb_true_iff in Erej.
          destruct Hgen as (s1 & R1 & Hk1 & Hc1).
          set (n1 := fst (handle (c_in c) (c_out c) id (EvRecv m) n)) in *.
          assert (Hrl : n_role n1 = Leader) by (destruct (n_role n1); try discriminate; reflexivity).
          assert (Hty : m_type m = MsgAppResp) by (unfold msg_is_appresp in Ety; destruct (m_type m); try discriminate; reflexivity).
          destruct (Hev m eq_refl) as [Hin Hto].
          pose proof (proj1 (proj2 R1)) as Hn1.
          assert (Hin1 : In m (msgs s1)) by (rewrite (proj2 (proj2 (proj2 R1))); apply in_or_app; left; exact Hin).
          destruct (leader_ack_props (c_in c) (c_out c) (m_from m) (m_index m) n1) as (_ & _ & Al & _ & Ac & _). cbn zeta in Al, Ac.
          assert (R2 : exists s2, reaches F s1 id (leader_ack (c_in c) (c_out c) (m_from m) (m_index m) n1) [] s2).
          { unfold leader_ack. destruct (n_match n1 (m_from m) <? m_index m); [|exists s1; rewrite <- Hn1; apply reaches_refl].
            assert (R3 : reaches F s1 id (set_match (upd (n_match n1) (m_from m) (m_index m)) n1) []
                           (set_node s1 id (set_match (upd (n_match (nodes s1 id)) (m_from m) (m_index m)) (nodes s1 id)))).
            { eapply reaches_step; [apply (M_ack F s1 id m Hin1 Hty Erej Hto); rewrite Hn1; [exact Et|exact Hrl]|rewrite Hn1; reflexivity|cbn; rewrite app_nil_r; reflexivity]. }
            pose proof (reaches_commit _ id _ c (proj1 (proj2 R3)) Hrl Hokc) as R4.
            eexists. exact (reaches_trans F s1 id _ [] _ _ [] _ R3 R4). }
          destruct R2 as [s2 R2]. exists s2. split.
          - pose proof (reaches_trans F s id n1 _ s1 _ [] s2 R1 R2) as R. rewrite app_nil_r in R. exact R.
          - rewrite Al. split; [exact Hk1|lia]. }
      destruct (n_role n) eqn:Er; cbn [fst snd]; try exact Hnop.
      destruct (negb (tracked c id)); cbn [fst snd]; [exact Hnop|].
      destruct (cc_of_payload p) as [op|]; cbn [fst snd]; [|apply Hprop; reflexivity].
      destruct ((n_commit n <? pend) || joint c && negb match op with CcLeave => true | _ => false end
                || negb (joint c) && match op with CcLeave => true | _ => false end); cbn [fst snd]; apply Hprop; reflexivity. }
    destruct (handle_cc id c ev n pend) as [[n1 out] pend1] eqn:Eh. cbn [fst snd] in Hcall.
    destruct Hcall as (s1 & R1 & Hkeep & Hcom).
    set (fuel := 2 * length (n_log n1) + 8) in *.
    destruct (iter fuel (ready_iter page1 id) (n1, c, pend1, n_commit n)) as [[[n2 c2] pend2] a2] eqn:Ei.
    cbn [fst snd] in *.
    assert (Hreach1 : mreachable F s1) by (eapply msteps_reachable; [exact Hreach|exact (proj1 R1)]).
    assert (Hinv : loop_inv (n1, c, pend1, n_commit n)).
    { unfold loop_inv. split; [|exact Hcom]. unfold c, node_cfg. rewrite Hkeep. reflexivity. }
    destruct (iter_spec id fuel s1 (n1, c, pend1, n_commit n) Hreach1 (proj1 (proj2 R1)) Hinv) as [s2 R2].
    { rewrite Ei. unfold st_node. cbn [fst]. exact Henv'. }
    rewrite Ei in R2. unfold st_node in R2. cbn [fst] in R2.
    exists s2. pose proof (reaches_trans F s id n1 out s1 n2 [] s2 R1 R2) as R. rewrite app_nil_r in R. exact R.
  Qed.

  (* ---------------------------------------------------------------- a batched proposal *)
  Lemma reaches_propose_cc : forall s id c p n pend, nodes s id = n ->
    exists s1, reaches F s id (fst (fst (handle_cc id c (EvPropose p) n pend))) [] s1.
  Proof.
    intros s id c p n pend Hn.
    assert (Hnop : exists s1, reaches F s id n [] s1) by (exists s; rewrite <- Hn; apply reaches_refl).
    assert (Hprop : forall q, n_role n = Leader -> exists s1, reaches F s id (propose q n) [] s1).
    { intros q Hr. destruct (reaches_propose s id n q Hn Hr) as [s1 R1]. unfold propose. rewrite Hr. exists s1. exact R1. }
    unfold handle_cc. destruct (n_role n) eqn:Er; cbn [fst]; try exact Hnop.
    destruct (negb (tracked c id)); cbn [fst]; [exact Hnop|].
    destruct (cc_of_payload p) as [op|]; cbn [fst]; [|apply Hprop; reflexivity].
    destruct ((n_commit n <? pend) || joint c && negb match op with CcLeave => true | _ => false end
              || negb (joint c) && match op with CcLeave => true | _ => false end); cbn [fst]; apply Hprop; reflexivity.
  Qed.

  Lemma reaches_batch : forall id c ps s n pend, nodes s id = n ->
    exists s1, reaches F s id (fst (batch_cc id c ps n pend)) [] s1.
  Proof.
    intros id c. induction ps as [|p ps IH]; intros s n pend Hn; [exists s; cbn; rewrite <- Hn; apply reaches_refl|].
    cbn [batch_cc]. destruct (reaches_propose_cc s id c p n pend Hn) as [s1 R1].
    destruct (handle_cc id c (EvPropose p) n pend) as [[n1 out] pend1]. cbn [fst] in R1.
    destruct (IH s1 n1 pend1 (proj1 (proj2 R1))) as [s2 R2]. exists s2.
    exact (reaches_trans F s id n1 [] s1 _ [] s2 R1 R2).
  Qed.

  Lemma exec_batch_sim : forall s id ps pend,
    mreachable F s ->
    lenv (n_log (nodes s id)) (n_commit (nodes s id)) ->
    lenv (n_log (fst (fst (exec_batch boot page1 id ps (nodes s id, pend)))))
         (n_commit (fst (fst (exec_batch boot page1 id ps (nodes s id, pend))))) ->
    exists s', reaches F s id (fst (fst (exec_batch boot page1 id ps (nodes s id, pend)))) [] s'.
  Proof.
    intros s id ps pend Hreach Henv0 Henv'. set (n := nodes s id) in *.
    pose proof (mreachable_inv F HF s Hreach) as I.
    destruct (hK9 _ _ I id) as [H9a _]. unfold nd in H9a. fold n in H9a.
    unfold exec_batch in *. set (c := node_cfg boot n) in *.
    destruct (reaches_batch id c ps s n pend eq_refl) as [s1 R1].
    destruct (batch_cc_shape id c ps n pend) as (_ & _ & Hc & _ & suf & Hl). cbn zeta in Hc, Hl.
    destruct (batch_cc id c ps n pend) as [n1 pend1]. cbn [fst snd] in *.
    set (fuel := 2 * length (n_log n1) + 8) in *.
    destruct (iter fuel (ready_iter page1 id) (n1, c, pend1, n_commit n)) as [[[n2 c2] pend2] a2] eqn:Ei.
    cbn [fst snd] in *.
    assert (Hreach1 : mreachable F s1) by (eapply msteps_reachable; [exact Hreach|exact (proj1 R1)]).
    assert (Hinv : loop_inv (n1, c, pend1, n_commit n)).
    { unfold loop_inv. split; [|lia]. unfold c, node_cfg. rewrite Hl. rewrite firstn_app_le by exact H9a. reflexivity. }
    destruct (iter_spec id fuel s1 (n1, c, pend1, n_commit n) Hreach1 (proj1 (proj2 R1)) Hinv) as [s2 R2].
    { rewrite Ei. unfold st_node. cbn [fst]. exact Henv'. }
    rewrite Ei in R2. unfold st_node in R2. cbn [fst] in R2.
    exists s2. exact (reaches_trans F s id n1 [] s1 n2 [] s2 R1 R2).
  Qed.
End CCRefine.

(* ------------------------------------------------------------------ HardState monotonicity of the
   membership-change model, for EVERY step (no restriction on the configurations) *)
Section CCHardState.
  Variable boot : conf.
  Variable page1 : bool.
  Variable id : nat.

  (* term and commit never regress; the vote changes only with a term increase or from none *)
  Theorem exec_cc_hs_mono : forall ev n pend,
    hs_mono n (fst (fst (exec_cc boot page1 id ev (n, pend)))).
  Proof.
    intros ev n pend. unfold exec_cc. set (c := node_cfg boot n).
    destruct (match ev with EvRecv m => is_response (m_type m) && negb (tracked c (m_from m)) | _ => false end);
      [cbn [fst]; apply hs_mono_refl|].
    assert (Hh : hs_mono n (fst (fst (handle_cc id c ev n pend)))).
    { assert (Hg : forall ev', hs_mono n (fst (handle (c_in c) (c_out c) id ev' n)))
        by (intros ev'; destruct (handle_good (c_in c) (c_out c) id ev' n) as (H & _); exact H).
      unfold handle_cc. destruct ev as [|p|m| |]; try (cbn [fst]; apply Hg).
      2:{ cbn [fst]. eapply hs_mono_trans; [apply (Hg (EvRecv m))|].
          destruct (learner_ack_props c (EvRecv m) (fst (handle (c_in c) (c_out c) id (EvRecv m) n))) as (A & B & _ & _ & E).
          cbn zeta in A, B, E. split; [lia|split; [intros _; left; exact B|exact E]]. }
      destruct (n_role n) eqn:Er; cbn [fst]; try apply hs_mono_refl.
      assert (Hp : forall q, hs_mono n (propose q n)).
      { intros q. destruct (propose_good q n) as (H & _). exact H. }
      destruct (negb (tracked c id)); cbn [fst]; [apply hs_mono_refl|].
      destruct (cc_of_payload p) as [op|]; cbn [fst]; [|apply Hp].
      destruct ((n_commit n <? pend) || joint c && negb match op with CcLeave => true | _ => false end
                || negb (joint c) && match op with CcLeave => true | _ => false end); cbn [fst]; apply Hp. }
    destruct (handle_cc id c ev n pend) as [[n1 out] pend1]. cbn [fst] in Hh.
    destruct (iter_hs page1 id (2 * length (n_log n1) + 8) (n1, c, pend1, n_commit n)) as (A & B & C). cbn zeta in *.
    destruct (iter (2 * length (n_log n1) + 8) (ready_iter page1 id) (n1, c, pend1, n_commit n)) as [[[n2 c2] pend2] a2].
    unfold st_node in *. cbn [fst] in *.
    eapply hs_mono_trans; [exact Hh|]. split; [lia|split; [intros _; left; exact B|exact C]].
  Qed.

  Lemma batch_cc_hs : forall c ps n pend, hs_mono n (fst (batch_cc id c ps n pend)).
  Proof.
    intros c ps n pend. destruct (batch_cc_shape id c ps n pend) as (A & B & C & _). cbn zeta in A, B, C.
    split; [lia|split; [intros _; left; exact B|lia]].
  Qed.

  Theorem exec_batch_hs_mono : forall ps n pend,
    hs_mono n (fst (fst (exec_batch boot page1 id ps (n, pend)))).
  Proof.
    intros ps n pend. unfold exec_batch. set (c := node_cfg boot n).
    pose proof (batch_cc_hs c ps n pend) as Hh.
    destruct (batch_cc id c ps n pend) as [n1 pend1]. cbn [fst] in Hh.
    destruct (iter_hs page1 id (2 * length (n_log n1) + 8) (n1, c, pend1, n_commit n)) as (A & B & C). cbn zeta in *.
    destruct (iter (2 * length (n_log n1) + 8) (ready_iter page1 id) (n1, c, pend1, n_commit n)) as [[[n2 c2] pend2] a2].
    unfold st_node in *. cbn [fst] in *.
    eapply hs_mono_trans; [exact Hh|]. split; [lia|split; [intros _; left; exact B|exact C]].
  Qed.

  Theorem exec_cce_hs_mono : forall cev n pend,
    hs_mono n (fst (fst (exec_cce boot page1 id cev (n, pend)))).
  Proof. intros [ev|ps] n pend; cbn [exec_cce]; [apply exec_cc_hs_mono|apply exec_batch_hs_mono]. Qed.
End CCHardState.
