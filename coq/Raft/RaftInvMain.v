(* C15 — the invariant holds in every reachable state of the micro-step system. *)
Require Import List Arith Bool Lia.
Require Import Raft.Quorum Raft.QuorumProofs Raft.RaftModel Raft.RaftSys Raft.RaftLog
               Raft.RaftInv Raft.RaftInvBase Raft.RaftInvFrame Raft.RaftInvExt
               Raft.RaftInvSteps1 Raft.RaftInvSteps2 Raft.RaftInvAppend Raft.RaftInvLeader.
Import ListNotations.

Section Main.
  Variable F : list (list nat * list nat).
  Hypothesis HF : inter_family F.

  Lemma step_win : forall s id cfg,
    Inv F s -> In cfg F -> n_role (nodes s id) = Candidate -> tally (fst cfg) (snd cfg) (nodes s id) = VoteWon ->
    Inv F (set_leader_log (set_node s id (become_leader id (nodes s id)))
                              id (n_term (nodes s id)) (n_log (become_leader id (nodes s id)))).
  Proof.
    intros s id cfg I Hin Hr Hw.
    apply (inv_leader_log F HF s id (become_leader id (nodes s id)) 0 I); try reflexivity.
    - intros x. cbn [become_leader n_match]. rewrite app_length. destruct (x =? id); cbn [length]; lia.
    - right. split; [exact Hr|]. unfold tally in Hw.
      apply (Qr_intro F cfg _ Hin). apply (proj1 (joint_vote_result_spec (fst cfg) (snd cfg) _)). exact Hw.
  Qed.

  Lemma step_propose : forall s id p,
    Inv F s -> n_role (nodes s id) = Leader ->
    Inv F (set_leader_log (set_node s id (propose p (nodes s id)))
                              id (n_term (nodes s id)) (n_log (propose p (nodes s id)))).
  Proof.
    intros s id p I Hr. unfold propose. rewrite Hr.
    apply (inv_leader_log F HF s id _ p I); try reflexivity; try assumption.
    - intros x. cbn [set_log n_match]. pose proof (hK5 _ _ I id x Hr) as H5. unfold nd in H5.
      destruct (Nat.eqb_spec x id) as [->|Hx]; [|exact H5].
      pose proof (hK11 _ _ I id Hr) as H11. unfold nd in H11. rewrite app_length. lia.
    - left. exact Hr.
  Qed.

  Lemma inv_init : Inv F m_init.
  Proof.
    constructor; unfold m_init;
      try (intro; intros; cbn in *; try discriminate; try contradiction; try reflexivity; try lia; fail).
    - intros x. apply wf_nil.
    - intros t. apply wf_nil.
    - intros t. cbn. split; [|split]; intro; intros; cbn in *; try contradiction; lia.
    - intros x e H. cbn in H. contradiction.
    - intros x. cbn. split; [lia|reflexivity].
    - intros x t k [[H1 H2] _] _. cbn in H2. lia.
  Qed.

  Theorem mstep_inv : forall s s', Inv F s -> mstep F s s' -> Inv F s'.
  Proof.
    intros s s' I H. destruct H.
    - apply step_bump; assumption.
    - apply step_demote; assumption.
    - apply step_setlead; assumption.
    - apply step_campaign; assumption.
    - apply step_grant; assumption.
    - apply step_record; assumption.
    - eapply step_win; eassumption.
    - apply step_propose; assumption.
    - apply step_ack; assumption.
    - apply step_selfack; assumption.
    - apply step_setvotes; assumption.
    - apply step_lower; assumption.
    - eapply step_commit; eassumption.
    - apply step_append; assumption.
    - apply step_heartbeat; assumption.
    - apply step_snapshot; assumption.
    - eapply step_emit; eassumption.
    - apply step_junk; assumption.
  Qed.

  Theorem mreachable_inv : forall s, mreachable F s -> Inv F s.
  Proof.
    intros s H. induction H as [|s s' _ IH Hs]; [apply inv_init|eapply mstep_inv; eassumption].
  Qed.
End Main.
