(* C15 — executable model of the etcd/raft core (raft.go, log.go), fixed membership.
   No proofs in this file.

   What is modelled (names of the Go functions in comments):
     node state  = HardState (term, vote, commit) + log (list of (term, payload); index is the
                   1-based position) + role, lead, votes received, Match per peer;
     everything persisted (term, vote, log, commit) survives [restart], the rest is reset;
     raft.Step term handling, vote granting (canVote && isUpToDate), stepCandidate poll ->
     becomeLeader/becomeFollower, becomeLeader appending the empty entry, MsgProp on a leader,
     handleAppendEntries -> maybeAppend / findConflict / truncate-and-append / commitTo,
     handleHeartbeat -> commitTo, MsgAppResp -> MaybeUpdate + maybeCommit
     (= quorum CommittedIndex over Match + current-term test), the leader's self-ack issued
     by raft.advance, and restart from persisted state (newRaft -> becomeFollower).
   The quorum is a *joint* configuration (c0, c1) fixed for the whole run; with c1 = [] it is
   the plain majority configuration c0 (quorum/joint.go: an empty half is neutral).
   One [event] = one call into RawNode (Campaign / Propose / Step(m) / Tick / rebuild from
   storage) followed by the Ready/Advance loop run to quiescence with everything persisted
   before anything is sent (the contract of raft.Ready).  A crash in the middle of that loop
   is the same as losing the event (and its messages) followed by a restart.
   Replies (MsgVoteResp, MsgAppResp, MsgHeartbeatResp) are computed; the *emission* of
   MsgVote / MsgApp / MsgHeartbeat is a relation ([emit_okb]): any message consistent with
   the sender's state may be sent after any event, so nothing depends on the
   progress-tracking heuristics (Next, inflights, probing, MaxSizePerMsg).
   The network (RaftSys.v) is a monotonically growing bag: a message once sent can be
   delivered any number of times, in any order, or never.

   Log compaction and snapshots: the model keeps whole logs (compaction changes no handler's
   behaviour: everything compacted is committed); MsgSnap carries, as a ghost field, the prefix
   it stands for, and raft.restore replaces the log by it.
   Not in this model: PreVote, CheckQuorum/leases, leader transfer, ReadIndex, learners,
   configuration changes, the uncommitted-size quota.
   Go panics (conflict at or below commit, commitTo beyond the log) are modelled as "the
   node does nothing and sends nothing". *)
Require Import List Arith Bool.
Require Import Raft.Quorum.
Import ListNotations.

(* ------------------------------------------------------------------ logs *)

Definition entry : Type := (nat * nat)%type.      (* (term, payload id); payload 0 = empty entry *)
Definition elog : Type := list entry.

Definition entry_eqb (a b : entry) : bool :=
  Nat.eqb (fst a) (fst b) && Nat.eqb (snd a) (snd b).

Fixpoint log_eqb (a b : elog) : bool :=
  match a, b with
  | [], [] => true
  | x :: a', y :: b' => entry_eqb x y && log_eqb a' b'
  | _, _ => false
  end.

(* raftLog.term(i): 0 for the dummy index 0 and for anything beyond lastIndex *)
Definition term_at (l : elog) (i : nat) : nat :=
  match i with
  | 0 => 0
  | S j => match nth_error l j with Some e => fst e | None => 0 end
  end.

Definition last_index (l : elog) : nat := length l.
Definition last_term (l : elog) : nat := term_at l (length l).

(* raftLog.isUpToDate(lasti, term) *)
Definition is_up_to_date (l : elog) (lasti term : nat) : bool :=
  (last_term l <? term) || ((term =? last_term l) && (last_index l <=? lasti)).

(* raftLog.findConflict: ents are the entries at indexes idx, idx+1, ...; 0 = no conflict
   and nothing new *)
Fixpoint find_conflict (l : elog) (idx : nat) (ents : list entry) : nat :=
  match ents with
  | [] => 0
  | e :: t => if term_at l idx =? fst e then find_conflict l (S idx) t else idx
  end.

Inductive app_result : Type :=
| AppReject
| AppPanic
| AppOk (l' : elog) (commit' lastnewi : nat).

(* raftLog.commitTo *)
Definition commit_to (l : elog) (committed tocommit : nat) : option nat :=
  if committed <? tocommit then
    if length l <? tocommit then None (* panic: tocommit out of range *)
    else Some tocommit
  else Some committed.

(* raftLog.maybeAppend(index, logTerm, committed, ents...) *)
Definition maybe_append (l : elog) (committed index logterm mcommit : nat) (ents : list entry)
  : app_result :=
  if term_at l index =? logterm then     (* matchTerm; raftLog.term is 0 beyond lastIndex *)
    let lastnewi := index + length ents in
    let ci := find_conflict l (index + 1) ents in
    if ci =? 0 then
      match commit_to l committed (Nat.min mcommit lastnewi) with
      | Some c => AppOk l c lastnewi
      | None => AppPanic
      end
    else if ci <=? committed then AppPanic   (* "entry %d conflict with committed entry" *)
    else
      (* l.append(ents[ci-offset:]) -> unstable.truncateAndAppend: keep [1, ci-1], then the new ones *)
      let l' := firstn (ci - 1) l ++ skipn (ci - (index + 1)) ents in
      match commit_to l' committed (Nat.min mcommit lastnewi) with
      | Some c => AppOk l' c lastnewi
      | None => AppPanic
      end
  else AppReject.

(* ------------------------------------------------------------------ node state *)

Inductive role : Type := Follower | Candidate | Leader.

Definition role_eqb (a b : role) : bool :=
  match a, b with
  | Follower, Follower | Candidate, Candidate | Leader, Leader => true
  | _, _ => false
  end.

Record nstate : Type := mkN {
  n_term : nat;
  n_vote : option nat;
  n_log : elog;
  n_commit : nat;
  n_role : role;
  n_lead : option nat;
  n_votes : nat -> option bool;     (* tracker.Votes *)
  n_match : nat -> nat              (* tracker.Progress[id].Match *)
}.

Definition set_vote v n := mkN (n_term n) v (n_log n) (n_commit n) (n_role n) (n_lead n) (n_votes n) (n_match n).
Definition set_log l n := mkN (n_term n) (n_vote n) l (n_commit n) (n_role n) (n_lead n) (n_votes n) (n_match n).
Definition set_commit c n := mkN (n_term n) (n_vote n) (n_log n) c (n_role n) (n_lead n) (n_votes n) (n_match n).
Definition set_role r n := mkN (n_term n) (n_vote n) (n_log n) (n_commit n) r (n_lead n) (n_votes n) (n_match n).
Definition set_lead ld n := mkN (n_term n) (n_vote n) (n_log n) (n_commit n) (n_role n) ld (n_votes n) (n_match n).
Definition set_votes vs n := mkN (n_term n) (n_vote n) (n_log n) (n_commit n) (n_role n) (n_lead n) vs (n_match n).
Definition set_match mt n := mkN (n_term n) (n_vote n) (n_log n) (n_commit n) (n_role n) (n_lead n) (n_votes n) mt.

Definition upd {A : Type} (f : nat -> A) (k : nat) (v : A) : nat -> A :=
  fun x => if x =? k then v else f x.

Definition init_node : nstate :=
  mkN 0 None [] 0 Follower None (fun _ => None) (fun _ => 0).

Definition opt_nat_eqb (a b : option nat) : bool :=
  match a, b with
  | None, None => true
  | Some x, Some y => x =? y
  | _, _ => false
  end.

(* ------------------------------------------------------------------ messages *)

Inductive mtype : Type :=
| MsgVote | MsgVoteResp | MsgApp | MsgAppResp | MsgHeartbeat | MsgHeartbeatResp | MsgSnap.

Definition mtype_eqb (a b : mtype) : bool :=
  match a, b with
  | MsgVote, MsgVote | MsgVoteResp, MsgVoteResp | MsgApp, MsgApp
  | MsgAppResp, MsgAppResp | MsgHeartbeat, MsgHeartbeat | MsgHeartbeatResp, MsgHeartbeatResp
  | MsgSnap, MsgSnap => true
  | _, _ => false
  end.

Record msg : Type := mkMsg {
  m_type : mtype;
  m_from : nat;
  m_to : nat;
  m_term : nat;
  m_logterm : nat;
  m_index : nat;
  m_ents : list entry;
  m_commit : nat;
  m_reject : bool
}.

(* nested conditionals rather than a conjunction: the extracted code stops at the first
   differing field *)
Definition msg_eqb (a b : msg) : bool :=
  if mtype_eqb (m_type a) (m_type b) then
  if m_from a =? m_from b then
  if m_to a =? m_to b then
  if m_term a =? m_term b then
  if m_index a =? m_index b then
  if m_logterm a =? m_logterm b then
  if m_commit a =? m_commit b then
  if Bool.eqb (m_reject a) (m_reject b) then log_eqb (m_ents a) (m_ents b)
  else false else false else false else false else false else false else false else false.

(* ------------------------------------------------------------------ transitions of one node *)

Section Node.
  Variables c0 c1 : list nat.   (* incoming and outgoing voters (c1 = [] : not joint) *)
  Variable id : nat.            (* this node *)

  (* raft.reset(term) followed by the role/lead assignment of becomeFollower *)
  Definition become_follower (t : nat) (lead : option nat) (n : nstate) : nstate :=
    mkN t (if n_term n =? t then n_vote n else None) (n_log n) (n_commit n) Follower lead
        (fun _ => None)
        (fun i => if i =? id then length (n_log n) else 0).

  (* becomeCandidate: reset(Term+1); Vote = id *)
  Definition become_candidate (n : nstate) : nstate :=
    mkN (S (n_term n)) (Some id) (n_log n) (n_commit n) Candidate None
        (fun _ => None)
        (fun i => if i =? id then length (n_log n) else 0).

  (* becomeLeader: reset(Term), lead = id, then append the empty entry of the term *)
  Definition become_leader (n : nstate) : nstate :=
    mkN (n_term n) (n_vote n) (n_log n ++ [(n_term n, 0)]) (n_commit n) Leader (Some id)
        (fun _ => None)
        (fun i => if i =? id then length (n_log n) else 0).

  (* ProgressTracker.RecordVote: the first answer of a voter counts *)
  Definition record_vote (from : nat) (v : bool) (n : nstate) : nstate :=
    match n_votes n from with
    | None => set_votes (upd (n_votes n) from (Some v)) n
    | Some _ => n
    end.

  Definition tally (n : nstate) : vote_result := joint_vote_result c0 c1 (n_votes n).

  Definition is_voter (x : nat) : bool := existsb (Nat.eqb x) c0 || existsb (Nat.eqb x) c1.

  (* the tail of campaign() and of stepCandidate's vote-response case *)
  Definition poll_result (n : nstate) : nstate :=
    match tally n with
    | VoteWon => become_leader n
    | VoteLost => become_follower (n_term n) None n
    | VotePending => n
    end.

  (* raft.hup/campaign(campaignElection); after the self-vote the tally can only be Won
     (single voter) or Pending *)
  Definition hup (n : nstate) : nstate :=
    match n_role n with
    | Leader => n
    | _ =>
        if is_voter id then
          let n1 := record_vote id true (become_candidate n) in
          match tally n1 with
          | VoteWon => become_leader n1
          | _ => n1
          end
        else n
    end.

  (* stepLeader MsgProp / appendEntry *)
  Definition propose (payload : nat) (n : nstate) : nstate :=
    match n_role n with
    | Leader => set_log (n_log n ++ [(n_term n, payload)]) n
    | _ => n
    end.

  (* raft.maybeCommit + raftLog.maybeCommit *)
  Definition maybe_commit (n : nstate) : nstate :=
    match joint_committed_index c0 c1 (fun i => Some (n_match n i)) with
    | Fin mci =>
        if (n_commit n <? mci) && (term_at (n_log n) mci =? n_term n)
        then set_commit mci n else n
    | Top => n
    end.

  (* stepLeader MsgAppResp, not rejected: pr.MaybeUpdate(m.Index) and, if it moved, maybeCommit *)
  Definition leader_ack (from k : nat) (n : nstate) : nstate :=
    if n_match n from <? k
    then maybe_commit (set_match (upd (n_match n) from k) n)
    else n.

  Definition reply (ty : mtype) (to term index : nat) (rej : bool) : msg :=
    mkMsg ty id to term 0 index [] 0 rej.

  (* raft.handleAppendEntries *)
  Definition handle_append (m : msg) (n : nstate) : nstate * list msg :=
    if m_index m <? n_commit n then
      (n, [reply MsgAppResp (m_from m) (n_term n) (n_commit n) false])
    else
      match maybe_append (n_log n) (n_commit n) (m_index m) (m_logterm m) (m_commit m) (m_ents m) with
      | AppOk l' c' lastnewi =>
          (set_commit c' (set_log l' n), [reply MsgAppResp (m_from m) (n_term n) lastnewi false])
      | AppReject => (n, [reply MsgAppResp (m_from m) (n_term n) (m_index m) true])
      | AppPanic => (n, [])
      end.

  (* raft.handleHeartbeat *)
  Definition handle_heartbeat (m : msg) (n : nstate) : nstate * list msg :=
    match commit_to (n_log n) (n_commit n) (m_commit m) with
    | Some c => (set_commit c n, [reply MsgHeartbeatResp (m_from m) (n_term n) 0 false])
    | None => (n, [])
    end.

  (* raft.handleSnapshot / raft.restore.  m_index, m_logterm = Snapshot.Metadata.Index, .Term;
     m_ents is ghost: the log prefix the snapshot stands for (the model keeps whole logs;
     compaction is invisible to every handler).  After an actual restore the progress tracker
     is rebuilt from the snapshot's ConfState (same voters): votes and Match are reset. *)
  (* m_reject is ghost too: "the receiver is not in the snapshot's ConfState" (restore refuses such
     a snapshot before anything else: "should never happen") *)
  Definition handle_snapshot (m : msg) (n : nstate) : nstate * list msg :=
    if (m_index m <=? n_commit n) || m_reject m then
      (n, [reply MsgAppResp (m_from m) (n_term n) (n_commit n) false])
    else if term_at (n_log n) (m_index m) =? m_logterm m then          (* matchTerm: fast-forward commit *)
      match commit_to (n_log n) (n_commit n) (m_index m) with
      | Some c => (set_commit c n, [reply MsgAppResp (m_from m) (n_term n) c false])
      | None => (n, [])
      end
    else
      (mkN (n_term n) (n_vote n) (m_ents m) (m_index m) (n_role n) (n_lead n)
           (fun _ => None) (fun i => if i =? id then m_index m else 0),
       [reply MsgAppResp (m_from m) (n_term n) (m_index m) false]).

  Definition can_vote (m : msg) (n : nstate) : bool :=
    opt_nat_eqb (n_vote n) (Some (m_from m))
    || (opt_nat_eqb (n_vote n) None && opt_nat_eqb (n_lead n) None).

  (* the part of raft.Step after the term comparison; here m_term m = n_term n *)
  Definition step_same (m : msg) (n : nstate) : nstate * list msg :=
    match m_type m with
    | MsgVote =>
        if can_vote m n && is_up_to_date (n_log n) (m_index m) (m_logterm m) then
          (set_vote (Some (m_from m)) n, [reply MsgVoteResp (m_from m) (m_term m) 0 false])
        else (n, [reply MsgVoteResp (m_from m) (n_term n) 0 true])
    | MsgVoteResp =>
        match n_role n with
        | Candidate => (poll_result (record_vote (m_from m) (negb (m_reject m)) n), [])
        | _ => (n, [])
        end
    | MsgApp =>
        match n_role n with
        | Leader => (n, [])
        | Candidate => handle_append m (become_follower (n_term n) (Some (m_from m)) n)
        | Follower => handle_append m (set_lead (Some (m_from m)) n)
        end
    | MsgHeartbeat =>
        match n_role n with
        | Leader => (n, [])
        | Candidate => handle_heartbeat m (become_follower (n_term n) (Some (m_from m)) n)
        | Follower => handle_heartbeat m (set_lead (Some (m_from m)) n)
        end
    | MsgAppResp =>
        match n_role n with
        | Leader =>
            if m_reject m || negb (is_voter (m_from m)) then (n, [])   (* no Progress: ignored *)
            else (leader_ack (m_from m) (m_index m) n, [])
        | _ => (n, [])
        end
    | MsgHeartbeatResp => (n, [])
    | MsgSnap =>
        match n_role n with
        | Leader => (n, [])
        | Candidate => handle_snapshot m (become_follower (n_term n) (Some (m_from m)) n)
        | Follower => handle_snapshot m (set_lead (Some (m_from m)) n)
        end
    end.

  (* raft.Step for a network message *)
  Definition step_msg (m : msg) (n : nstate) : nstate * list msg :=
    if n_term n <? m_term m then
      let lead := match m_type m with
                  | MsgApp | MsgHeartbeat | MsgSnap => Some (m_from m)
                  | _ => None
                  end in
      step_same m (become_follower (m_term m) lead n)
    else if m_term m <? n_term n then (n, [])
    else step_same m n.

  (* raft.advance: "the leader needs to self-ack the entries just appended":
     Step(MsgAppResp{From: r.id, Index: lastIndex}) once they are persisted *)
  Definition advance (n : nstate) : nstate :=
    match n_role n with
    | Leader => leader_ack id (length (n_log n)) n
    | _ => n
    end.

  (* newRaft on the persisted state: becomeFollower(term, None) *)
  Definition restart (n : nstate) : nstate := become_follower (n_term n) None n.

  (* one call into the RawNode, Ready loop run to quiescence *)
  Inductive event : Type :=
  | EvCampaign
  | EvPropose (payload : nat)
  | EvRecv (m : msg)
  | EvRestart
  | EvTick.                      (* election timer never fires (or is an EvCampaign); a leader may send heartbeats *)

  Definition handle (ev : event) (n : nstate) : nstate * list msg :=
    match ev with
    | EvCampaign => (hup n, [])
    | EvPropose p => (propose p n, [])
    | EvRecv m => step_msg m n
    | EvRestart => (restart n, [])
    | EvTick => (n, [])
    end.

  Definition exec_node (ev : event) (n : nstate) : nstate * list msg :=
    let (n1, out) := handle ev n in (advance n1, out).

  (* messages a node may put on the wire on its own initiative, given its (new) state *)
  Definition is_segment (ents : list entry) (index : nat) (l : elog) : bool :=
    log_eqb ents (firstn (length ents) (skipn index l)) && (index + length ents <=? length l).

  Definition emit_okb (n : nstate) (m : msg) : bool :=
    (m_from m =? id) && (m_term m =? n_term n) &&
    match m_type m with
    | MsgVote =>
        role_eqb (n_role n) Candidate && (m_index m =? last_index (n_log n))
        && (m_logterm m =? last_term (n_log n))
    | MsgApp =>
        role_eqb (n_role n) Leader
        && (m_logterm m =? term_at (n_log n) (m_index m))
        && is_segment (m_ents m) (m_index m) (n_log n)
        && (m_commit m <=? n_commit n)
    | MsgHeartbeat =>
        role_eqb (n_role n) Leader
        && (m_commit m <=? Nat.min (n_match n (m_to m)) (n_commit n))
    | MsgSnap =>
        (* a snapshot of a committed prefix of the leader's log (storage.Snapshot after a compaction) *)
        role_eqb (n_role n) Leader && (m_index m <=? n_commit n)
        && (m_logterm m =? term_at (n_log n) (m_index m))
        && log_eqb (m_ents m) (firstn (m_index m) (n_log n))
    | _ => false
    end.
End Node.
