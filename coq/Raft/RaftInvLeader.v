(* C15 — a node appending to its own log as leader (becomeLeader's empty entry, MsgProp)
   preserves the invariant.  The win case establishes leader completeness for the new term. *)
Require Import List Arith Bool Lia.
Require Import Raft.Quorum Raft.QuorumProofs Raft.RaftModel Raft.RaftSys Raft.RaftLog
               Raft.RaftInv Raft.RaftInvBase Raft.RaftInvFrame Raft.RaftInvExt.
Import ListNotations.

Section Leader.
  Variable F : list (list nat * list nat).
  Hypothesis HF : inter_family F.

  Lemma inv_leader_log : forall s id n' p,
    Inv F s ->
    let n := nodes s id in
    let t := n_term n in
    let L := n_log n in
    let L' := L ++ [(t, p)] in
    n_term n' = t -> n_vote n' = n_vote n -> n_commit n' = n_commit n -> n_log n' = L' -> n_role n' = Leader ->
    (forall x, n_match n' x <= (if x =? id then length L' else ga s x t)) ->
    (n_role n = Leader \/ (n_role n = Candidate /\ Qr F (granted (n_votes n)))) ->
    Inv F (mkM (upd (nodes s) id n') (msgs s) (gv s) (upd2 (ga s) id t (length L'))
                   (upd (LL s) t L') (upd (lof s) t (Some id))).
  Proof.
    intros s id n' p I n t L L' Hterm Hvote Hcommit Hlog Hrole Hmatch Hpre.
    set (s' := mkM (upd (nodes s) id n') (msgs s) (gv s) (upd2 (ga s) id t (length L'))
                   (upd (LL s) t L') (upd (lof s) t (Some id))).
    assert (HlenL' : length L' = S (length L)) by (unfold L'; rewrite app_length; cbn; lia).
    (* ---- preliminary facts *)
    assert (P2 : Qr F (votedp s t id)).
    { destruct Hpre as [Hl|[Hc Hq]].
      - apply (hA6a _ _ I). apply (hA6b _ _ I id Hl).
      - eapply Qr_mono; [|exact Hq]. intros x Hx. unfold granted in Hx. unfold votedp. apply opt_nat_eqb_eq.
        apply (hA5 _ _ I id x Hc). unfold nd. fold n. destruct (n_votes n x) as [[|]|]; try discriminate. reflexivity. }
    assert (Pun : forall l, lof s t = Some l -> l = id).
    { intros l Hl. pose proof (hA6a _ _ I t l Hl) as Hq.
      destruct (Qr_inter F HF _ _ Hq P2) as (v & Hv1 & Hv2). unfold votedp in *.
      apply opt_nat_eqb_eq in Hv1. apply opt_nat_eqb_eq in Hv2. congruence. }
    assert (P3 : forall l, l <> id -> n_role (nodes s l) = Leader -> n_term (nodes s l) <> t).
    { intros l Hl Hr Ht. apply Hl. apply Pun. rewrite <- Ht. apply (hA6b _ _ I l Hr). }
    assert (P1 : (LL s t = L /\ n_role n = Leader) \/ (LL s t = [] /\ n_role n = Candidate)).
    { destruct Hpre as [Hl|[Hc Hq]]; [left; split; [apply (hW5 _ _ I id Hl)|exact Hl]|right].
      split; [|exact Hc]. apply (hW7 _ _ I). destruct (lof s t) as [l|] eqn:El; [|reflexivity].
      exfalso. pose proof (Pun l eq_refl) as ->. apply (hA7 _ _ I t id El); [reflexivity|exact Hc]. }
    assert (Psuf : exists suf, L' = LL s t ++ suf).
    { destruct P1 as [[-> _]|[-> _]]; [exists [(t, p)]; reflexivity|exists L'; reflexivity]. }
    assert (PlenLL : length (LL s t) <= length L) by (destruct P1 as [[-> _]|[-> _]]; cbn; lia).
    assert (P6 : 1 <= t).
    { apply (hA8 _ _ I id). unfold nd. fold n. destruct Hpre as [H|[H _]]; congruence. }
    assert (PleL : terms_le L t) by (apply (hW4 _ _ I id)).
    assert (P7 : ga s id t <= length L) by (pose proof (hK1 _ _ I id t); lia).
    assert (Hnd : forall x, x <> id -> nodes s' x = nodes s x).
    { intros x Hx. unfold s'. cbn [nodes]. apply upd_other. exact Hx. }
    assert (Hid : nodes s' id = n') by (unfold s'; cbn [nodes]; apply upd_same).
    assert (Hterm' : forall x, n_term (nodes s' x) = n_term (nodes s x)).
    { intros x. destruct (Nat.eq_dec x id) as [->|Hx]; [rewrite Hid; exact Hterm|rewrite Hnd by exact Hx; reflexivity]. }
    assert (HLLt : LL s' t = L') by (unfold s'; cbn [LL]; apply upd_same).
    assert (HLLo : forall t', t' <> t -> LL s' t' = LL s t').
    { intros t' Ht'. unfold s'. cbn [LL]. apply upd_other. exact Ht'. }
    assert (Hgat : ga s' id t = length L') by (unfold s'; cbn [ga]; apply upd2_same).
    assert (Hgao : forall x t', x <> id \/ t' <> t -> ga s' x t' = ga s x t').
    { intros x t' H. unfold s'. cbn [ga]. apply upd2_other. exact H. }
    assert (E : ext s s').
    { constructor.
      - intros x. rewrite Hterm'. lia.
      - intros x t'. destruct (upd2_cases _ (ga s) id t (length L') x t') as [(-> & -> & Eq)|[_ Eq]];
          unfold s'; cbn [ga]; rewrite Eq; lia.
      - intros x t' Hlt. apply Hgao. destruct (Nat.eq_dec x id) as [->|Hx]; [right; fold n in Hlt; fold t in Hlt; lia|left; exact Hx].
      - intros t'. destruct (Nat.eq_dec t' t) as [->|Ht'].
        + rewrite HLLt. exact Psuf.
        + exists []. rewrite HLLo by exact Ht'. rewrite app_nil_r. reflexivity. }
    assert (Hneverq : forall t' k', neverq F s t' k' -> neverq F s' t' k') by (intros; eapply ext_neverq; eassumption).
    assert (HwfL' : wf (LL s') L').
    { apply wf_app_last; [|exact HLLt]. apply (wf_ext s s' L E). apply (hW1 _ _ I id). }
    (* a new valid index of term t is the last one *)
    assert (P5 : forall k, valid s' t k -> length (LL s t) < k -> k = length L').
    { intros k [[Hk1 Hk2] Hk3] Hgt. rewrite HLLt in Hk2, Hk3.
      destruct P1 as [[E1 _]|[E1 Hc]].
      - rewrite E1 in Hgt. lia.
      - destruct (le_lt_dec k (length L)) as [Hle|Hlt]; [|lia]. exfalso.
        unfold L' in Hk3. rewrite term_at_app_l in Hk3 by lia.
        destruct (term_at_in L k ltac:(lia)) as (e & He & Hfe).
        pose proof (hW11 _ _ I id Hc e He) as H11. unfold nd in H11. fold n in H11. fold t in H11. lia. }
    (* the voters of a later term never acknowledge the new index *)
    assert (Pnever : forall t3, t < t3 -> LL s t3 <> [] -> neverq F s' t (length L')).
    { intros t3 Hlt Hne. destruct (lof s t3) as [l3|] eqn:El3; [|exfalso; apply Hne; apply (hW7 _ _ I); exact El3].
      eapply Qr_mono; [|exact (hA6a _ _ I t3 l3 El3)].
      intros x Hx. unfold votedp in Hx. apply opt_nat_eqb_eq in Hx.
      assert (Htx : t3 <= n_term (nodes s x)).
      { destruct (le_lt_dec t3 (n_term (nodes s x))) as [H|H]; [exact H|].
        pose proof (hA1 _ _ I x t3 H). congruence. }
      assert (Hxid : x <> id) by (intros ->; fold n in Htx; fold t in Htx; lia).
      unfold neverp, nd. rewrite Hterm'. apply andb_true_iff. split; [apply Nat.ltb_lt; lia|].
      apply Nat.ltb_lt. rewrite Hgao by (left; exact Hxid). pose proof (hK1 _ _ I x t). lia. }
    constructor.
    - (* iA1 *) intros x t' Ht'. unfold nd in Ht'. rewrite Hterm' in Ht'. apply (hA1 _ _ I x t' Ht').
    - (* iA2 *) intros x. unfold nd. change (gv s x (n_term (nodes s' x)) = n_vote (nodes s' x)). rewrite Hterm'.
      destruct (Nat.eq_dec x id) as [->|Hx]; [rewrite Hid, Hvote|rewrite Hnd by exact Hx]; apply (hA2 _ _ I).
    - (* iA3 *) intros x t' c Hg. unfold nd. rewrite Hterm'. apply (hA3 _ _ I x t' c Hg).
    - exact (hA4 _ _ I).
    - (* iA5 *) intros c x Hr Hv. unfold nd in *. rewrite Hterm'.
      destruct (Nat.eq_dec c id) as [->|Hc']; [rewrite Hid in Hr; congruence|].
      rewrite Hnd in Hr, Hv by exact Hc'. apply (hA5 _ _ I c x Hr Hv).
    - (* iA6a *) intros t' l Hl. change (upd (lof s) t (Some id) t' = Some l) in Hl.
      change (Qr F (votedp s t' l)).
      destruct (Nat.eq_dec t' t) as [->|Ht'].
      + rewrite upd_same in Hl. injection Hl as <-. exact P2.
      + rewrite upd_other in Hl by exact Ht'. apply (hA6a _ _ I t' l Hl).
    - (* iA6b *) intros l Hr. unfold nd in *. rewrite Hterm'. change (upd (lof s) t (Some id) (n_term (nodes s l)) = Some l).
      destruct (Nat.eq_dec l id) as [->|Hl].
      + fold n. fold t. apply upd_same.
      + rewrite Hnd in Hr by exact Hl. rewrite upd_other by (apply P3; assumption). apply (hA6b _ _ I l Hr).
    - (* iA7 *) intros t' l Hl Ht'. unfold nd in *. rewrite Hterm' in Ht'. change (upd (lof s) t (Some id) t' = Some l) in Hl.
      destruct (Nat.eq_dec l id) as [->|Hl'].
      + rewrite Hid. congruence.
      + rewrite Hnd by exact Hl'. destruct (Nat.eq_dec t' t) as [->|Ht''].
        * rewrite upd_same in Hl. congruence.
        * rewrite upd_other in Hl by exact Ht''. apply (hA7 _ _ I t' l Hl Ht').
    - (* iA8 *) intros x Hr. unfold nd in *. rewrite Hterm'.
      destruct (Nat.eq_dec x id) as [->|Hx]; [fold n; fold t; exact P6|].
      rewrite Hnd in Hr by exact Hx. apply (hA8 _ _ I x Hr).
    - (* iW1 *) intros x. unfold nd.
      destruct (Nat.eq_dec x id) as [->|Hx]; [rewrite Hid, Hlog; exact HwfL'|].
      rewrite Hnd by exact Hx. apply (wf_ext s s' _ E). apply (hW1 _ _ I x).
    - (* iW2 *) intros t'. destruct (Nat.eq_dec t' t) as [->|Ht']; [rewrite HLLt; exact HwfL'|].
      rewrite HLLo by exact Ht'. apply (wf_ext s s' _ E). apply (hW2 _ _ I t').
    - (* iW3 *) intros t'. destruct (Nat.eq_dec t' t) as [->|Ht']; [rewrite HLLt|rewrite HLLo by exact Ht'; apply (hW3 _ _ I t')].
      split; [|split].
      + intros e He. unfold L' in He. apply in_app_or in He as [He|[<-|[]]]; [|cbn; exact P6].
        apply (wf_terms_pos F s I L (hW1 _ _ I id) e He).
      + intros e He. unfold L' in He. apply in_app_or in He as [He|[<-|[]]]; [apply PleL; exact He|cbn; lia].
      + unfold L'. apply sorted_app_last; [apply (wf_sorted F s I L (hW1 _ _ I id))|exact PleL].
    - (* iW4 *) intros x e He. unfold nd in *. rewrite Hterm'.
      destruct (Nat.eq_dec x id) as [->|Hx]; [|rewrite Hnd in He by exact Hx; apply (hW4 _ _ I x e He)].
      rewrite Hid, Hlog in He. fold n. fold t. unfold L' in He.
      apply in_app_or in He as [He|[<-|[]]]; [apply PleL; exact He|cbn; lia].
    - (* iW5 *) intros x Hr. unfold nd in *. rewrite Hterm'.
      destruct (Nat.eq_dec x id) as [->|Hx].
      + rewrite Hid, Hlog. fold n. fold t. exact HLLt.
      + rewrite Hnd in Hr |- * by exact Hx. rewrite HLLo by (apply P3; assumption). apply (hW5 _ _ I x Hr).
    - (* iW7 *) intros t' Hl. change (upd (lof s) t (Some id) t' = None) in Hl.
      destruct (Nat.eq_dec t' t) as [->|Ht']; [rewrite upd_same in Hl; discriminate|].
      rewrite upd_other in Hl by exact Ht'. rewrite HLLo by exact Ht'. apply (hW7 _ _ I t' Hl).
    - (* iW8 *) intros t' l Hl. change (upd (lof s) t (Some id) t' = Some l) in Hl.
      destruct (Nat.eq_dec t' t) as [->|Ht'].
      + rewrite HLLt. unfold L'. destruct L; discriminate.
      + rewrite upd_other in Hl by exact Ht'. rewrite HLLo by exact Ht'. apply (hW8 _ _ I t' l Hl).
    - (* iW9 *) apply (iW9_ext F s s' E); [reflexivity|exact (hW9 _ _ I)].
    - (* iW10 *) intros m Hm Hty Hr Htm. unfold nd in *. rewrite Hterm' in Htm.
      destruct (Nat.eq_dec (m_from m) id) as [Hx|Hx]; [rewrite Hx, Hid in Hr; congruence|].
      rewrite Hnd in Hr |- * by exact Hx. apply (hW10 _ _ I m Hm Hty Hr Htm).
    - (* iW11 *) intros x Hr. unfold nd in *. rewrite Hterm'.
      destruct (Nat.eq_dec x id) as [->|Hx]; [rewrite Hid in Hr; congruence|].
      rewrite Hnd in Hr |- * by exact Hx. apply (hW11 _ _ I x Hr).
    - (* iW12 *) intros m Hm Hty. unfold nd. rewrite Hterm'. apply (hW12 _ _ I m Hm Hty).
    - (* iW13 *) apply (iW13_ext F s s' E); [reflexivity|exact (hW13 _ _ I)].
    - (* iK1 *) intros x t'. destruct (Nat.eq_dec t' t) as [->|Ht'].
      + rewrite HLLt. destruct (Nat.eq_dec x id) as [->|Hx]; [rewrite Hgat; lia|].
        rewrite Hgao by (left; exact Hx). pose proof (hK1 _ _ I x t). lia.
      + rewrite HLLo by exact Ht'. rewrite Hgao by (right; exact Ht'). apply (hK1 _ _ I).
    - (* iK2 *) intros x t' Hg. unfold nd. rewrite Hterm'.
      destruct (Nat.eq_dec x id) as [->|Hx].
      + destruct (Nat.eq_dec t' t) as [->|Ht']; [fold n; fold t; lia|].
        rewrite Hgao in Hg by (right; exact Ht'). apply (hK2 _ _ I id t' Hg).
      + rewrite Hgao in Hg by (left; exact Hx). apply (hK2 _ _ I x t' Hg).
    - (* iK3 *) intros x. unfold nd. rewrite Hterm'.
      destruct (Nat.eq_dec x id) as [->|Hx].
      + rewrite Hid, Hlog. fold n. fold t. rewrite Hgat, HLLt. split; [lia|reflexivity].
      + rewrite Hnd by exact Hx. rewrite Hgao by (left; exact Hx).
        destruct (hK3 _ _ I x) as [H1 H2]. unfold nd in H1, H2. split; [exact H1|].
        rewrite (ext_LL_firstn s s' E) by (apply (hK1 _ _ I)). exact H2.
    - (* iK4 *) apply (iK4_ext s s' E); [reflexivity|exact (hK4 _ _ I)].
    - (* iK5 *) intros l x Hr. unfold nd in *. rewrite Hterm'.
      destruct (Nat.eq_dec l id) as [->|Hl].
      + rewrite Hid. fold n. fold t. pose proof (Hmatch x) as Hm.
        destruct (Nat.eqb_spec x id) as [->|Hx]; [rewrite Hgat; exact Hm|rewrite Hgao by (left; exact Hx); exact Hm].
      + rewrite Hnd in Hr |- * by exact Hl. rewrite Hgao by (right; apply P3; assumption). apply (hK5 _ _ I l x Hr).
    - (* iK6 *) intros x t' k Hv Hk. unfold nd.
      destruct (Nat.eq_dec x id) as [->|Hx].
      + rewrite Hid, Hlog. destruct (Nat.eq_dec t' t) as [->|Ht'].
        * left. rewrite Hgat in Hk. split; [exact Hk|rewrite HLLt; reflexivity].
        * rewrite Hgao in Hk by (right; exact Ht').
          assert (HkLL : k <= length (LL s t')) by (pose proof (hK1 _ _ I id t'); lia).
          pose proof (ext_valid_back s s' E t' k Hv HkLL) as Hv0.
          destruct (hK6 _ _ I id t' k Hv0 Hk) as [Hh|Hn]; [|right; apply Hneverq; exact Hn].
          left. apply (ext_has s s' E); [|exact HkLL]. unfold L'. apply has_app. exact Hh.
      + rewrite Hnd by exact Hx. rewrite Hgao in Hk by (left; exact Hx).
        assert (HkLL : k <= length (LL s t')) by (pose proof (hK1 _ _ I x t'); lia).
        pose proof (ext_valid_back s s' E t' k Hv HkLL) as Hv0.
        apply (ext_has_or_never F s s' E); [exact HkLL|]. apply (hK6 _ _ I x t' k Hv0 Hk).
    - (* iK7 *) intros t' t3 k Hlt Hne Hv.
      destruct (le_lt_dec k (length (LL s t'))) as [HkLL|HkLL].
      + (* an index that was already valid *)
        pose proof (ext_valid_back s s' E t' k Hv HkLL) as Hv0.
        destruct (Nat.eq_dec t3 t) as [->|Ht3].
        * rewrite HLLt. destruct P1 as [[E1 Hl]|[E1 Hc]].
          -- (* propose: the leader log already existed *)
             assert (Hne0 : LL s t <> []) by (apply (hW8 _ _ I t id); apply (hA6b _ _ I id Hl)).
             destruct (hK7 _ _ I t' t k Hlt Hne0 Hv0) as [Hh|Hn]; [|right; apply Hneverq; exact Hn].
             left. apply (ext_has s s' E); [|exact HkLL]. rewrite E1 in Hh. unfold L'. apply has_app. exact Hh.
          -- (* win: leader completeness for the new term *)
             destruct Hpre as [Hl|[_ Hq]]; [unfold nd in Hc; congruence|].
             destruct (Qr_dec F (neverp s t' k)) as [Hn|Hn]; [right; apply Hneverq; exact Hn|].
             destruct (Qr_witness F _ _ Hq Hn) as (x & Hgx & Hnx).
             assert (Hvx : gv s x t = Some id).
             { apply (hA5 _ _ I id x Hc). unfold nd. fold n. unfold granted in Hgx.
               destruct (n_votes n x) as [[|]|]; try discriminate. reflexivity. }
             assert (Htx : t <= n_term (nodes s x)).
             { destruct (le_lt_dec t (n_term (nodes s x))) as [H|H]; [exact H|].
               pose proof (hA1 _ _ I x t H). congruence. }
             unfold neverp, nd in Hnx. apply andb_false_iff in Hnx as [Hnx|Hnx];
               [apply Nat.ltb_ge in Hnx; lia|apply Nat.ltb_ge in Hnx].
             destruct (hK8 _ _ I id x t' k Hc Hvx Hlt Hv0 Hnx) as [Hh|Hn']; [|contradiction].
             left. apply (ext_has s s' E); [|exact HkLL]. unfold nd in Hh. fold n in Hh. fold L in Hh.
             unfold L'. apply has_app. exact Hh.
        * rewrite HLLo in Hne |- * by exact Ht3.
          apply (ext_has_or_never F s s' E); [exact HkLL|]. apply (hK7 _ _ I t' t3 k Hlt Hne Hv0).
      + (* a new index: t' = t and k is the entry just appended *)
        assert (Et' : t' = t).
        { destruct (Nat.eq_dec t' t) as [Eq|Nq]; [exact Eq|]. destruct Hv as [[_ Hk2] _]. rewrite HLLo in Hk2 by exact Nq. lia. }
        subst t'. rewrite (P5 k Hv HkLL). right.
        rewrite HLLo in Hne by lia. apply (Pnever t3 Hlt Hne).
    - (* iK8 *) intros c x t' k Hr Hg Ht' Hv Hk. unfold nd in *. rewrite Hterm' in Hg, Ht'.
      destruct (Nat.eq_dec c id) as [->|Hc']; [rewrite Hid in Hr; congruence|].
      rewrite Hnd in Hr |- * by exact Hc'.
      assert (Hk' : ga s' x t' = ga s x t').
      { apply Hgao. destruct (Nat.eq_dec x id) as [->|Hx]; [|left; exact Hx]. right. intros ->.
        destruct (le_lt_dec (n_term (nodes s c)) t) as [Hle|Hgt]; [lia|].
        pose proof (hA1 _ _ I id (n_term (nodes s c))) as H1. unfold nd in H1. fold n in H1. fold t in H1.
        change (gv s id (n_term (nodes s c)) = Some c) in Hg. rewrite H1 in Hg by exact Hgt. discriminate. }
      rewrite Hk' in Hk.
      assert (HkLL : k <= length (LL s t')) by (pose proof (hK1 _ _ I x t'); lia).
      pose proof (ext_valid_back s s' E t' k Hv HkLL) as Hv0.
      apply (ext_has_or_never F s s' E); [exact HkLL|]. apply (hK8 _ _ I c x t' k Hr Hg Ht' Hv0 Hk).
    - (* iK9 *) intros x. unfold nd. rewrite Hterm'.
      assert (Hgen : forall Lx, n_commit (nodes s x) <= length Lx ->
                (n_commit (nodes s x) = 0 \/ exists t0 k0, t0 <= n_term (nodes s x) /\ committed_at F s t0 k0 /\
                   n_commit (nodes s x) <= k0 /\ firstn (n_commit (nodes s x)) Lx = firstn (n_commit (nodes s x)) (LL s t0)) ->
                (n_commit (nodes s x) = 0 \/ exists t0 k0, t0 <= n_term (nodes s x) /\ committed_at F s' t0 k0 /\
                   n_commit (nodes s x) <= k0 /\ firstn (n_commit (nodes s x)) Lx = firstn (n_commit (nodes s x)) (LL s' t0))).
      { intros Lx _ [Hz|(t0 & k0 & Ht0 & Hc0 & Hk0 & Hf)]; [left; exact Hz|].
        right. exists t0, k0. split; [exact Ht0|]. split; [apply (ext_committed_at F s s' E); exact Hc0|].
        split; [exact Hk0|]. rewrite (ext_LL_firstn s s' E); [exact Hf|]. destruct Hc0 as [[[_ Hb] _] _]. lia. }
      destruct (hK9 _ _ I x) as [H1 H2]. unfold nd in H1, H2.
      destruct (Nat.eq_dec x id) as [->|Hx].
      + rewrite Hid, Hlog, Hcommit. fold n in H1, H2 |- *. fold L in H1, H2. split; [lia|].
        assert (Hpre' : firstn (n_commit n) L' = firstn (n_commit n) L) by (unfold L'; apply firstn_app_le; exact H1).
        destruct (Hgen L H1 H2) as [Hz|(t0 & k0 & Ht0 & Hc0 & Hk0 & Hf)]; [left; exact Hz|].
        right. exists t0, k0. split; [exact Ht0|split; [exact Hc0|split; [exact Hk0|]]]. rewrite Hpre'. exact Hf.
      + rewrite Hnd by exact Hx. split; [exact H1|]. apply (Hgen _ H1 H2).
    - (* iK10 *) apply (iK10_ext F s s' E); [reflexivity|exact (hK10 _ _ I)].
    - (* iK11 *) intros l Hr. unfold nd in *. rewrite Hterm'.
      destruct (Nat.eq_dec l id) as [->|Hl].
      + rewrite Hid, Hlog. fold n. fold t. exact Hgat.
      + rewrite Hnd in Hr |- * by exact Hl. rewrite Hgao by (left; exact Hl). apply (hK11 _ _ I l Hr).
  Qed.
End Leader.
