(* C15 — membership change: "no log holds two uncommitted configuration changes", for every
   state of the membership-change system reachable inside a family F of configurations with
   pairwise intersecting quorums (RaftCCSafety.cxreachableF).

     C1  every node:   cc_ok (log) (commit index)
     C2  every MsgApp: cc_ok (the prefix of the sender's leader log the message stands for)
                             (the commit index the message carries)
   C1 is kept by a leader through pendingConfIndex (RaftCCInv.PD) and by a follower through C2 and
   log matching (RaftCCInv.append_cc_ok; this is where the envelope is needed: log matching is
   part of the invariant of RaftInv.v, proved for pairwise intersecting quorums); C2 holds for a
   new message by the emission rule RaftCC.emit_cc_okb (checked on every real message by the
   trace validator) and for an old one because leader logs only grow. *)
Require Import List Arith Bool Lia.
Require Import Raft.Quorum Raft.QuorumProofs Raft.RaftModel Raft.RaftSys Raft.RaftLog Raft.RaftInv Raft.RaftInvBase
               Raft.RaftInvMain Raft.RaftRefine Raft.RaftStepProps Raft.RaftCC Raft.RaftCCRefine Raft.RaftCCSafety
               Raft.RaftCCInv.
Import ListNotations.

(* ------------------------------------------------------------------ the boolean test *)
Lemma nth_error_skipn_plus : forall (A : Type) (l : list A) c i, nth_error (skipn c l) i = nth_error l (c + i).
Proof.
  intros A l. induction l as [|x l IH]; intros c i.
  - rewrite skipn_nil. destruct i; destruct (c + _); reflexivity.
  - destruct c; [reflexivity|]. cbn. apply IH.
Qed.

Lemma nconf_one : forall l a e, nth_error l a = Some e -> isconf (snd e) = true -> 1 <= nconf l.
Proof.
  induction l as [|x l IH]; intros a e Ha He; [destruct a; discriminate|].
  cbn [nconf]. destruct a as [|a].
  - cbn in Ha. injection Ha as ->. rewrite He. lia.
  - cbn in Ha. pose proof (IH a e Ha He). lia.
Qed.

Lemma nconf_two : forall l a b e e', a < b -> nth_error l a = Some e -> nth_error l b = Some e' ->
  isconf (snd e) = true -> isconf (snd e') = true -> 2 <= nconf l.
Proof.
  induction l as [|x l IH]; intros a b e e' Hlt Ha Hb He He'; [destruct a; discriminate|].
  cbn [nconf]. destruct b as [|b]; [lia|]. cbn in Hb. destruct a as [|a].
  - cbn in Ha. injection Ha as ->. rewrite He. pose proof (nconf_one l b e' Hb He'). lia.
  - cbn in Ha. pose proof (IH a b e e' ltac:(lia) Ha Hb He He'). lia.
Qed.

Lemma cc_okb_spec : forall l c, cc_okb l c = true -> cc_ok l c.
Proof.
  intros l c H j j' e e' Hlt Hj Hj' He He'. unfold cc_okb in H. apply Nat.leb_le in H.
  destruct (le_lt_dec (S j) c) as [Hle|Hgt]; [exact Hle|]. exfalso.
  assert (H2 : 2 <= nconf (skipn c l)).
  { apply (nconf_two _ (j - c) (j' - c) e e'); try assumption; try lia.
    - rewrite nth_error_skipn_plus. replace (c + (j - c)) with j by lia. exact Hj.
    - rewrite nth_error_skipn_plus. replace (c + (j' - c)) with j' by lia. exact Hj'. }
  lia.
Qed.

(* ------------------------------------------------------------------ shapes that keep cc_ok *)
Definition nok (n : nstate) : Prop := cc_ok (n_log n) (n_commit n).

Definition plain (n n' : nstate) : Prop :=
  (n_log n' = n_log n /\ n_commit n <= n_commit n') \/
  (exists t, n_log n' = n_log n ++ [(t, 0)] /\ n_commit n' = n_commit n).

Lemma cc_ok_app_plain : forall L c t p, cc_ok L c -> isconf p = false -> cc_ok (L ++ [(t, p)]) c.
Proof.
  intros L c t p H Hp j j' e e' Hlt Hj Hj' He He'.
  assert (Hl : j' < length (L ++ [(t, p)])) by (apply nth_error_Some; congruence).
  rewrite app_length in Hl. cbn in Hl.
  destruct (Nat.eq_dec j' (length L)) as [->|Hne].
  - rewrite nth_error_app2 in Hj' by lia. rewrite Nat.sub_diag in Hj'. cbn in Hj'. injection Hj' as <-. cbn in He'. congruence.
  - rewrite nth_error_app1 in Hj, Hj' by lia. exact (H j j' e e' Hlt Hj Hj' He He').
Qed.

Lemma plain_nok : forall n n', plain n n' -> nok n -> nok n'.
Proof.
  intros n n' [[Hl Hc]|(t & Hl & Hc)] H; unfold nok in *; rewrite Hl.
  - eapply cc_ok_mono; eassumption.
  - rewrite Hc. apply cc_ok_app_plain; [exact H|reflexivity].
Qed.

Lemma plain_same : forall n n', n_log n' = n_log n -> n_commit n' = n_commit n -> plain n n'.
Proof. intros n n' Hl Hc. left. split; [exact Hl|lia]. Qed.

Lemma plain_trans_same : forall a b c, n_log b = n_log a -> n_commit b = n_commit a -> plain b c -> plain a c.
Proof. intros a b c Hl Hc H. unfold plain in *. rewrite <- Hl, <- Hc. exact H. Qed.

(* ------------------------------------------------------------------ one call of raft.Step etc. keeps cc_ok *)
Section Call.
  Variable F : list (list nat * list nat).
  Hypothesis HF : inter_family F.
  Variable s : mstate.
  Hypothesis I : Inv F s.

  Definition C2 (s0 : mstate) : Prop :=
    forall m, In m (msgs s0) -> m_type m = MsgApp ->
      cc_ok (firstn (m_index m + length (m_ents m)) (LL s0 (m_term m))) (m_commit m).

  Hypothesis H2 : C2 s.
  Variables c0 c1 : list nat.
  Variable id : nat.

  (* what the handlers need to know about the node they work on *)
  Definition fit (n : nstate) : Prop := wf (LL s) (n_log n) /\ n_commit n <= length (n_log n).

  Lemma fit_same : forall n n', fit n -> n_log n' = n_log n -> n_commit n' = n_commit n -> fit n'.
  Proof. intros n n' [A B] Hl Hc. unfold fit. rewrite Hl, Hc. split; assumption. Qed.

  Lemma handle_append_nok : forall m n, In m (msgs s) -> m_type m = MsgApp -> fit n -> nok n ->
    nok (fst (handle_append id m n)).
  Proof.
    intros m n Hm Hty [Hwf Hcom] Hn. unfold handle_append.
    destruct (m_index m <? n_commit n); [exact Hn|].
    destruct (maybe_append (n_log n) (n_commit n) (m_index m) (m_logterm m) (m_commit m) (m_ents m)) as [| |L' c' lni] eqn:E;
      try exact Hn.
    cbn [fst]. unfold nok. cbn [set_commit set_log n_log n_commit].
    destruct (hW9 _ _ I m Hm Hty) as (HXne & Hseg & Hlen & Hlt & _).
    destruct (hW3 _ _ I (m_term m)) as (Hpos & _ & _).
    rewrite Hlt in E.
    apply (append_cc_ok (LL s) (n_log n) (LL s (m_term m)) (n_commit n) (m_index m) (m_commit m) (m_ents m) L' c' lni
             Hwf (hW2 _ _ I (m_term m)) Hpos Hseg Hlen Hcom E Hn (H2 m Hm Hty)).
  Qed.

  Lemma handle_heartbeat_plain : forall m n, plain n (fst (handle_heartbeat id m n)).
  Proof.
    intros m n. unfold handle_heartbeat.
    destruct (commit_to (n_log n) (n_commit n) (m_commit m)) as [c|] eqn:Ec; [|apply plain_same; reflexivity].
    cbn [fst]. left. cbn. split; [reflexivity|].
    destruct (commit_to_spec _ _ _ _ Ec) as [[-> _]|(-> & Hl & _)]; lia.
  Qed.

  Lemma handle_snapshot_nok : forall m n, In m (msgs s) -> m_type m = MsgSnap -> nok n ->
    nok (fst (handle_snapshot id m n)).
  Proof.
    intros m n Hm Hty Hn. unfold handle_snapshot.
    destruct ((m_index m <=? n_commit n) || m_reject m); [exact Hn|].
    destruct (term_at (n_log n) (m_index m) =? m_logterm m).
    - destruct (commit_to (n_log n) (n_commit n) (m_index m)) as [c|] eqn:Ec; [|exact Hn].
      cbn [fst]. unfold nok in *. cbn. eapply cc_ok_mono; [exact Hn|].
      destruct (commit_to_spec _ _ _ _ Ec) as [[-> _]|(-> & Hl & _)]; lia.
    - cbn [fst]. unfold nok. cbn [n_log n_commit].
      destruct (hW13 _ _ I m Hm Hty) as (_ & Hents & Hlen & _).
      intros j j' e e' Hlt Hj Hj' _ _.
      assert (j' < length (m_ents m)) by (apply nth_error_Some; congruence).
      rewrite Hents, firstn_length in H. lia.
  Qed.

  Lemma poll_result_plain : forall n, plain n (poll_result c0 c1 id n).
  Proof.
    intros n. unfold poll_result. destruct (tally c0 c1 n).
    - apply plain_same; reflexivity.
    - apply plain_same; reflexivity.
    - right. exists (n_term n). split; reflexivity.
  Qed.

  Lemma step_same_nok : forall m n, In m (msgs s) -> fit n -> nok n -> nok (fst (step_same c0 c1 id m n)).
  Proof.
    intros m n Hm Hfit Hn. unfold step_same. destruct (m_type m) eqn:Ety.
    - destruct (can_vote m n && is_up_to_date (n_log n) (m_index m) (m_logterm m)); exact Hn.
    - destruct (n_role n); try exact Hn. cbn [fst].
      destruct (record_vote_props (m_from m) (negb (m_reject m)) n) as (_ & _ & C & _ & E). cbn zeta in *.
      apply (plain_nok n); [|exact Hn]. eapply plain_trans_same; [exact C|exact E|apply poll_result_plain].
    - destruct (n_role n); try exact Hn.
      + apply handle_append_nok; [exact Hm|exact Ety|eapply fit_same; [exact Hfit|reflexivity|reflexivity]|exact Hn].
      + apply handle_append_nok; [exact Hm|exact Ety|eapply fit_same; [exact Hfit|reflexivity|reflexivity]|exact Hn].
    - destruct (n_role n); try exact Hn.
      destruct (m_reject m || negb (is_voter c0 c1 (m_from m))); [exact Hn|]. cbn [fst].
      destruct (leader_ack_props c0 c1 (m_from m) (m_index m) n) as (_ & _ & C & _ & E & _). cbn zeta in *.
      apply (plain_nok n); [left; split; assumption|exact Hn].
    - destruct (n_role n); try exact Hn.
      + apply (plain_nok n); [|exact Hn]. eapply plain_trans_same; [| |apply handle_heartbeat_plain]; reflexivity.
      + apply (plain_nok n); [|exact Hn]. eapply plain_trans_same; [| |apply handle_heartbeat_plain]; reflexivity.
    - exact Hn.
    - destruct (n_role n); try exact Hn.
      + apply handle_snapshot_nok; [exact Hm|exact Ety|exact Hn].
      + apply handle_snapshot_nok; [exact Hm|exact Ety|exact Hn].
  Qed.

  Lemma hup_plain : forall n, plain n (hup c0 c1 id n).
  Proof.
    intros n. unfold hup. destruct (n_role n); try (apply plain_same; reflexivity);
      (destruct (is_voter c0 c1 id); [|apply plain_same; reflexivity]).
    all: set (n1 := record_vote id true (become_candidate id n)).
    all: destruct (record_vote_props id true (become_candidate id n)) as (_ & _ & C & _ & E); cbn zeta in *; fold n1 in C, E.
    all: destruct (tally c0 c1 n1); try (apply plain_same; [rewrite C|rewrite E]; reflexivity).
    all: right; exists (n_term n1); cbn [become_leader n_log n_commit]; rewrite C, E; split; reflexivity.
  Qed.

  Lemma handle_nok : forall ev, (forall p, ev <> EvPropose p) ->
    (forall m, ev = EvRecv m -> In m (msgs s) /\ m_to m = id) ->
    nok (nodes s id) -> nok (fst (handle c0 c1 id ev (nodes s id))).
  Proof.
    intros ev Hnp Hev Hn. set (n := nodes s id) in *.
    assert (Hfit : fit n).
    { split; [apply (hW1 _ _ I id)|]. destruct (hK9 _ _ I id) as [H _]. exact H. }
    destruct ev as [|p|m| |]; cbn [handle fst].
    - apply (plain_nok n); [apply hup_plain|exact Hn].
    - exfalso. apply (Hnp p). reflexivity.
    - destruct (Hev m eq_refl) as [Hm _]. unfold step_msg.
      destruct (n_term n <? m_term m).
      + apply step_same_nok; [exact Hm|eapply fit_same; [exact Hfit|reflexivity|reflexivity]|exact Hn].
      + destruct (m_term m <? n_term n); [exact Hn|]. apply step_same_nok; assumption.
    - exact Hn.
    - exact Hn.
  Qed.
End Call.

(* ------------------------------------------------------------------ the Ready loop *)
Section Loop.
  Variable page1 : bool.
  Variable id : nat.

  Lemma ready_iter_both : forall n c pend applied,
    PD n pend -> nok n ->
    let '(n', _, pend', _) := ready_iter page1 id (n, c, pend, applied) in PD n' pend' /\ nok n'.
  Proof.
    intros n c pend applied H Hn. unfold ready_iter.
    set (rdc := if applied <? n_commit n then (if page1 then S applied else n_commit n) else applied).
    set (ents := firstn (rdc - applied) (skipn applied (n_log n))).
    destruct (fold_left (apply_entry id) ents (n, c)) as [n1 cc1] eqn:Ef.
    pose proof (fold_apply_keeps id ents n c) as (A & B & C & D). cbn zeta in *. rewrite Ef in A, B, C, D. cbn [fst] in *.
    assert (H1 : PD n1 pend) by (apply (PD_weaken n); [exact H|exact A|congruence|exact D]).
    assert (Hn1 : nok n1) by (apply (plain_nok n); [left; split; assumption|exact Hn]).
    assert (Hrdc : rdc <= n_commit n \/ rdc = applied).
    { unfold rdc. destruct (applied <? n_commit n) eqn:E; [|right; reflexivity]. apply Nat.ltb_lt in E.
      destruct page1; left; lia. }
    destruct ((applied <? rdc) && c_auto cc1 && (applied <=? pend) && (pend <=? rdc) && role_eqb (n_role n1) Leader) eqn:Eauto.
    - apply andb_true_iff in Eauto as [Eauto Erl]. apply andb_true_iff in Eauto as [Eauto Epr].
      apply andb_true_iff in Eauto as [Eauto _]. apply andb_true_iff in Eauto as [Ear _].
      apply Nat.ltb_lt in Ear. apply Nat.leb_le in Epr.
      assert (Hlead : n_role n1 = Leader) by (destruct (n_role n1); try discriminate; reflexivity).
      set (n2 := set_log (n_log n1 ++ [(n_term n1, 120)]) n1).
      assert (H2 : PD n2 (S (length (n_log n1)))).
      { apply PD_full. unfold n2. cbn. rewrite app_length. cbn. lia. }
      assert (Hnp : no_pending n1).
      { intros j e Hj Hc. destruct (Nat.lt_ge_cases j (n_commit n1)) as [Hlt|Hge]; [exact Hlt|].
        pose proof (H1 Hlead j e Hj Hc Hge). lia. }
      assert (Hn2 : nok n2) by (unfold nok, n2; cbn [set_log n_log n_commit]; apply cc_ok_pending; assumption).
      destruct (role_eqb (n_role n2) Leader && tracked cc1 id).
      + destruct (leader_ack_props (c_in cc1) (c_out cc1) id (length (n_log n)) n2) as (A' & B' & C' & D' & E' & _). cbn zeta in *.
        split; [apply (PD_weaken n2); [exact H2|exact C'|congruence|exact E']|].
        apply (plain_nok n2); [left; split; assumption|exact Hn2].
      + split; assumption.
    - destruct (role_eqb (n_role n1) Leader && tracked cc1 id).
      + destruct (leader_ack_props (c_in cc1) (c_out cc1) id (length (n_log n)) n1) as (A' & B' & C' & D' & E' & _). cbn zeta in *.
        split; [apply (PD_weaken n1); [exact H1|exact C'|congruence|exact E']|].
        apply (plain_nok n1); [left; split; assumption|exact Hn1].
      + split; assumption.
  Qed.

  Lemma iter_both : forall k n c pend applied,
    PD n pend -> nok n ->
    let '(n', _, pend', _) := iter k (ready_iter page1 id) (n, c, pend, applied) in PD n' pend' /\ nok n'.
  Proof.
    induction k as [|k IH]; intros n c pend applied H Hn; [cbn; split; assumption|].
    cbn [iter]. pose proof (ready_iter_both n c pend applied H Hn) as R.
    destruct (ready_iter page1 id (n, c, pend, applied)) as [[[n1 cc1] pend1] a1]. destruct R as [R1 R2].
    apply IH; assumption.
  Qed.
End Loop.

(* ------------------------------------------------------------------ one event *)
Section Event.
  Variable F : list (list nat * list nat).
  Hypothesis HF : inter_family F.
  Variable boot : conf.
  Variable page1 : bool.

  Lemma handle_cc_nok : forall s id c ev pend,
    Inv F s -> C2 s ->
    (forall m, ev = EvRecv m -> In m (msgs s) /\ m_to m = id) ->
    PD (nodes s id) pend -> nok (nodes s id) ->
    nok (fst (fst (handle_cc id c ev (nodes s id) pend))).
  Proof.
    intros s id c ev pend I H2 Hev Hpd Hn. set (n := nodes s id) in *. unfold handle_cc.
    destruct ev as [|p|m| |];
      try (cbn [fst];
           match goal with |- nok (learner_ack ?cc ?e ?nn) =>
             destruct (learner_ack_props cc e nn) as (_ & _ & LA & _ & LC); cbn zeta in LA, LC;
             apply (plain_nok nn); [left; split; [exact LA|exact LC]|] end;
           apply (handle_nok F s I H2 (c_in c) (c_out c) id); [intros q; discriminate|exact Hev|exact Hn]).
    destruct (n_role n) eqn:Er; try exact Hn.
    destruct (negb (tracked c id)); [exact Hn|].
    assert (Hplain : forall q, isconf q = false -> nok (propose q n)).
    { intros q Hq. unfold propose. rewrite Er. unfold nok. cbn [set_log n_log n_commit]. apply cc_ok_app_plain; assumption. }
    destruct (cc_of_payload p) as [op|] eqn:Ep; cbn [fst].
    - destruct ((n_commit n <? pend) || (joint c && negb match op with CcLeave => true | _ => false end)
                || (negb (joint c) && match op with CcLeave => true | _ => false end)) eqn:Eref; cbn [fst].
      + apply Hplain. reflexivity.
      + apply orb_false_iff in Eref as [Eref _]. apply orb_false_iff in Eref as [Eref _]. apply Nat.ltb_ge in Eref.
        unfold propose. rewrite Er. unfold nok. cbn [set_log n_log n_commit]. apply cc_ok_pending; [|exact Hn].
        intros j e Hj Hc. destruct (Nat.lt_ge_cases j (n_commit n)) as [Hlt|Hge]; [exact Hlt|].
        pose proof (Hpd Er j e Hj Hc Hge). lia.
    - apply Hplain. unfold isconf. rewrite Ep. reflexivity.
  Qed.

  (* one examined entry of a (batched) proposal, on any node value *)
  Lemma propose_cc_nok : forall id c p n pend,
    PD n pend -> nok n -> nok (fst (fst (handle_cc id c (EvPropose p) n pend))).
  Proof.
    intros id c p n pend Hpd Hn. unfold handle_cc.
    destruct (n_role n) eqn:Er; try exact Hn.
    destruct (negb (tracked c id)); [exact Hn|].
    assert (Hplain : forall q, isconf q = false -> nok (propose q n)).
    { intros q Hq. unfold propose. rewrite Er. unfold nok. cbn [set_log n_log n_commit]. apply cc_ok_app_plain; assumption. }
    destruct (cc_of_payload p) as [op|] eqn:Ep; cbn [fst].
    - destruct ((n_commit n <? pend) || (joint c && negb match op with CcLeave => true | _ => false end)
                || (negb (joint c) && match op with CcLeave => true | _ => false end)) eqn:Eref; cbn [fst].
      + apply Hplain. reflexivity.
      + apply orb_false_iff in Eref as [Eref _]. apply orb_false_iff in Eref as [Eref _]. apply Nat.ltb_ge in Eref.
        unfold propose. rewrite Er. unfold nok. cbn [set_log n_log n_commit]. apply cc_ok_pending; [|exact Hn].
        intros j e Hj Hc. destruct (Nat.lt_ge_cases j (n_commit n)) as [Hlt|Hge]; [exact Hlt|].
        pose proof (Hpd Er j e Hj Hc Hge). lia.
    - apply Hplain. unfold isconf. rewrite Ep. reflexivity.
  Qed.

  (* the step generalised to batched proposals: whatever the positions of the configuration changes
     among the entries of one MsgProp, the node still holds at most one uncommitted change *)
  Lemma batch_cc_nok : forall id c ps n pend,
    PD n pend -> nok n ->
    PD (fst (batch_cc id c ps n pend)) (snd (batch_cc id c ps n pend)) /\ nok (fst (batch_cc id c ps n pend)).
  Proof.
    intros id c. induction ps as [|p ps IH]; intros n pend Hpd Hn; [split; assumption|].
    cbn [batch_cc]. pose proof (handle_cc_PD id c (EvPropose p) n pend Hpd) as P1.
    pose proof (propose_cc_nok id c p n pend Hpd Hn) as N1.
    destruct (handle_cc id c (EvPropose p) n pend) as [[n1 out] pend1]. cbn [fst] in N1. apply IH; assumption.
  Qed.

  Lemma exec_batch_nok : forall id ps n pend,
    PD n pend -> nok n -> nok (fst (fst (exec_batch boot page1 id ps (n, pend)))).
  Proof.
    intros id ps n pend Hpd Hn. unfold exec_batch.
    destruct (batch_cc_nok id (node_cfg boot n) ps n pend Hpd Hn) as [P1 N1].
    destruct (batch_cc id (node_cfg boot n) ps n pend) as [n1 pend1]. cbn [fst snd] in P1, N1.
    pose proof (iter_both page1 id (2 * length (n_log n1) + 8) n1 (node_cfg boot n) pend1 (n_commit n) P1 N1) as R.
    destruct (iter (2 * length (n_log n1) + 8) (ready_iter page1 id) (n1, node_cfg boot n, pend1, n_commit n)) as [[[n2 c2] pend2] a2].
    cbn. exact (proj2 R).
  Qed.

  Lemma exec_cc_nok : forall s id ev pend,
    Inv F s -> C2 s ->
    (forall m, ev = EvRecv m -> In m (msgs s) /\ m_to m = id) ->
    PD (nodes s id) pend -> nok (nodes s id) ->
    nok (fst (fst (exec_cc boot page1 id ev (nodes s id, pend)))).
  Proof.
    intros s id ev pend I H2 Hev Hpd Hn. unfold exec_cc.
    destruct (match ev with EvRecv m => is_response (m_type m) && negb (tracked (node_cfg boot (nodes s id)) (m_from m)) | _ => false end);
      [cbn; exact Hn|].
    pose proof (handle_cc_nok s id (node_cfg boot (nodes s id)) ev pend I H2 Hev Hpd Hn) as N1.
    pose proof (handle_cc_PD id (node_cfg boot (nodes s id)) ev (nodes s id) pend Hpd) as P1.
    destruct (handle_cc id (node_cfg boot (nodes s id)) ev (nodes s id) pend) as [[n1 out] pend1]. cbn [fst] in N1.
    pose proof (iter_both page1 id (2 * length (n_log n1) + 8) n1 (node_cfg boot (nodes s id)) pend1 (n_commit (nodes s id)) P1 N1) as R.
    destruct (iter (2 * length (n_log n1) + 8) (ready_iter page1 id) (n1, node_cfg boot (nodes s id), pend1, n_commit (nodes s id))) as [[[n2 c2] pend2] a2].
    cbn. exact (proj2 R).
  Qed.

  (* the replies of a call are never MsgApp *)
  Lemma handle_out_noapp : forall c0 c1 id ev n m, In m (snd (handle c0 c1 id ev n)) -> m_type m <> MsgApp.
  Proof.
    intros c0 c1 id ev n m H.
    assert (Hs : forall n0 m0, In m (snd (step_same c0 c1 id m0 n0)) -> m_type m <> MsgApp).
    { intros n0 m0 Hin. unfold step_same, handle_append, handle_heartbeat, handle_snapshot in Hin.
      repeat match type of Hin with
             | context [match ?x with _ => _ end] => destruct x
             | context [if ?x then _ else _] => destruct x
             end;
        cbn in Hin; try contradiction;
        destruct Hin as [<-|[]]; cbn; discriminate. }
    destruct ev as [|p|m0| |]; cbn [handle snd] in H; try contradiction.
    unfold step_msg in H. destruct (n_term n <? m_term m0); [eapply Hs; exact H|].
    destruct (m_term m0 <? n_term n); [contradiction|eapply Hs; exact H].
  Qed.

  Lemma exec_cc_out_noapp : forall id ev st m, In m (snd (exec_cc boot page1 id ev st)) -> m_type m <> MsgApp.
  Proof.
    intros id ev [n pend] m H. unfold exec_cc in H.
    destruct (match ev with EvRecv m0 => is_response (m_type m0) && negb (tracked (node_cfg boot n) (m_from m0)) | _ => false end);
      [contradiction|].
    assert (Hh : forall m', In m' (snd (fst (handle_cc id (node_cfg boot n) ev n pend))) -> m_type m' <> MsgApp).
    { intros m' Hm'. unfold handle_cc in Hm'. destruct ev as [|p|m0| |];
        try (cbn [fst snd] in Hm'; eapply handle_out_noapp; exact Hm').
      destruct (n_role n); try contradiction.
      destruct (negb (tracked (node_cfg boot n) id)); [contradiction|].
      destruct (cc_of_payload p); [|contradiction].
      destruct (_ || _ || _); contradiction. }
    destruct (handle_cc id (node_cfg boot n) ev n pend) as [[n1 out] pend1]. cbn [fst snd] in Hh.
    destruct (iter (2 * length (n_log n1) + 8) (ready_iter page1 id) (n1, node_cfg boot n, pend1, n_commit n)) as [[[n2 c2] pend2] a2].
    cbn [snd] in H. apply Hh. exact H.
  Qed.

  (* leader logs only grow *)
  Lemma mstep_LL : forall s s', Inv F s -> mstep F s s' -> forall t, exists suf, LL s' t = LL s t ++ suf.
  Proof.
    intros s s' I H t. destruct H; try (exists []; cbn; rewrite app_nil_r; reflexivity).
    - (* win *)
      cbn [set_leader_log set_node LL]. unfold upd. destruct (t =? n_term (nodes s id)) eqn:E; [|exists []; rewrite app_nil_r; reflexivity].
      apply Nat.eqb_eq in E. subst t.
      assert (Hnil : LL s (n_term (nodes s id)) = []).
      { apply (hW7 _ _ I). destruct (lof s (n_term (nodes s id))) as [l|] eqn:El; [|reflexivity]. exfalso.
        assert (P2 : Qr F (votedp s (n_term (nodes s id)) id)).
        { unfold tally in H1. pose proof (proj1 (proj1 (joint_vote_result_spec (fst cfg) (snd cfg) _)) H1) as Hsat.
          eapply Qr_mono; [|exact (Qr_intro F cfg _ H Hsat)]. intros x Hx. unfold granted in Hx. unfold votedp. apply opt_nat_eqb_eq.
          apply (hA5 _ _ I id x H0). unfold nd. destruct (n_votes (nodes s id) x) as [[|]|]; try discriminate. reflexivity. }
        pose proof (hA6a _ _ I _ l El) as Hq.
        destruct (Qr_inter F HF _ _ Hq P2) as (v & Hv1 & Hv2). unfold votedp in *.
        apply opt_nat_eqb_eq in Hv1. apply opt_nat_eqb_eq in Hv2.
        assert (l = id) by congruence. subst l.
        apply (hA7 _ _ I _ id El); [reflexivity|exact H0]. }
      rewrite Hnil. eexists. reflexivity.
    - (* propose *)
      cbn [set_leader_log set_node LL]. unfold upd. destruct (t =? n_term (nodes s id)) eqn:E; [|exists []; rewrite app_nil_r; reflexivity].
      apply Nat.eqb_eq in E. subst t. pose proof (hW5 _ _ I id H) as E5. unfold nd in E5. rewrite E5.
      unfold propose. rewrite H. cbn. eexists. reflexivity.
  Qed.

  Lemma msteps_LL : forall s s', mreachable F s -> msteps F s s' -> forall t, exists suf, LL s' t = LL s t ++ suf.
  Proof.
    intros s s' Hr H. induction H as [|s1 s2 H12 IH Hs]; intros t; [exists []; rewrite app_nil_r; reflexivity|].
    destruct (IH t) as [suf1 E1].
    assert (Hr1 : mreachable F s1) by (eapply msteps_reachable; eassumption).
    destruct (mstep_LL s1 s2 (mreachable_inv F HF s1 Hr1) Hs t) as [suf2 E2].
    exists (suf1 ++ suf2). rewrite E2, E1, app_assoc. reflexivity.
  Qed.

  (* ---------------------------------------------------------------- the invariant along a run *)
  Notation nodeof x a := (fst (cx_nodes x a)).

  Lemma cxreachableF_cxreachable : forall x, cxreachableF F boot page1 x -> cxreachable boot page1 x.
  Proof. intros x H. induction H; [apply CXR_init|eapply CXR_step; eassumption]. Qed.

  Theorem cc_one_sim : forall x, cxreachableF F boot page1 x ->
    (exists s, mreachable F s /\ cxsim s x /\ C2 s) /\ (forall y, nok (nodeof x y)).
  Proof.
    intros x H. induction H as [Hb|x x' Hx [[s [Hr [[Hn Hm] H2]]] Hnok] Hstep Henv'].
    - split.
      + exists m_init. split; [apply MR_init|]. split; [split; reflexivity|]. intros m Hm. cbn in Hm. contradiction.
      + intros y j j' e e' _ Hj. cbn in Hj. destruct j; discriminate.
    - pose proof (cxreachableF_cenv F boot page1 x Hx) as Henv.
      pose proof (cc_pending_discipline boot page1 x (cxreachableF_cxreachable x Hx)) as Hpd.
      pose proof (mreachable_inv F HF s Hr) as I.
      destruct Hstep as [id cev extra Hev Hemit].
      destruct (cx_nodes x id) as [nx pend] eqn:Enode.
      assert (Hnid : nodes s id = nx) by (rewrite Hn, Enode; reflexivity).
      rewrite <- Hm in Hev.
      assert (Henv0 : lenv F boot (n_log (nodes s id)) (n_commit (nodes s id))).
      { rewrite Hnid. specialize (Henv id). rewrite Enode in Henv. exact Henv. }
      assert (Henv1 : lenv F boot (n_log (fst (fst (exec_cce boot page1 id cev (nodes s id, pend))))) (n_commit (fst (fst (exec_cce boot page1 id cev (nodes s id, pend)))))).
      { rewrite Hnid. specialize (Henv' id). cbn [cx_nodes] in Henv'. rewrite upd_same in Henv'. exact Henv'. }
      assert (Hpd0 : PD (nodes s id) pend) by (specialize (Hpd id); rewrite Enode in Hpd; rewrite Hnid; exact Hpd).
      assert (Hnok0 : nok (nodes s id)) by (specialize (Hnok id); rewrite Enode in Hnok; rewrite Hnid; exact Hnok).
      assert (Hboth : nok (fst (fst (exec_cce boot page1 id cev (nodes s id, pend)))) /\
                      (forall m, In m (snd (exec_cce boot page1 id cev (nodes s id, pend))) -> m_type m <> MsgApp) /\
                      exists s1, reaches F s id (fst (fst (exec_cce boot page1 id cev (nodes s id, pend))))
                                         (snd (exec_cce boot page1 id cev (nodes s id, pend))) s1).
      { destruct cev as [ev|ps]; cbn [exec_cce] in *.
        - assert (Hev' : forall m, ev = EvRecv m -> In m (msgs s) /\ m_to m = id) by (intros m Em; apply Hev; rewrite Em; reflexivity).
          split; [exact (exec_cc_nok s id ev pend I H2 Hev' Hpd0 Hnok0)|]. split.
          + intros m Hin. exact (exec_cc_out_noapp id ev (nodes s id, pend) m Hin).
          + exact (exec_cc_sim F HF boot page1 s id ev pend Hr Hev' Henv0 Henv1).
        - assert (Eout : snd (exec_batch boot page1 id ps (nodes s id, pend)) = []).
          { unfold exec_batch. destruct (batch_cc id (node_cfg boot (nodes s id)) ps (nodes s id) pend) as [n1 pend1].
            destruct (iter _ _ _) as [[[n2 c2] pend2] a2]. reflexivity. }
          split; [exact (exec_batch_nok id ps (nodes s id) pend Hpd0 Hnok0)|]. split.
          + intros m Hin. rewrite Eout in Hin. destruct Hin.
          + rewrite Eout. exact (exec_batch_sim F HF boot page1 s id ps pend Hr Henv0 Henv1). }
      destruct Hboth as (Hnok1 & Hnoapp & s1 & R1).
      rewrite Hnid in R1, Hnok1.
      pose proof (proj1 (proj2 R1)) as Hn1.
      assert (Hemit' : forallb (emit_okb id (nodes s1 id)) extra = true).
      { rewrite Hn1. rewrite forallb_forall in Hemit. apply forallb_forall. intros m0 Hm0.
        specialize (Hemit m0 Hm0). unfold emit_cc_okb in Hemit. apply andb_true_iff in Hemit as [Hemit _]. exact Hemit. }
      destruct (reaches_emit F extra s1 id Hemit') as [s2 R2]. rewrite Hn1 in R2.
      pose proof (reaches_trans F _ _ _ _ _ _ _ _ R1 R2) as (A1 & A2 & A3 & A4).
      assert (Hr2 : mreachable F s2) by (eapply msteps_reachable; eassumption).
      pose proof (mreachable_inv F HF s2 Hr2) as I2.
      split.
      + exists s2. split; [exact Hr2|]. split; [split|].
        * intros y. cbn [cx_nodes]. destruct (Nat.eq_dec y id) as [->|Hy].
          -- rewrite upd_same. exact A2.
          -- rewrite upd_other by exact Hy. rewrite A3 by exact Hy. apply Hn.
        * cbn [cx_msgs]. rewrite A4, Hm. reflexivity.
        * intros m Hin Hty. rewrite A4 in Hin. apply in_app_or in Hin as [Hin|Hin].
          -- (* an old message *)
             destruct (hW9 _ _ I m Hin Hty) as (_ & _ & Hlen & _).
             destruct (msteps_LL s s2 Hr A1 (m_term m)) as [suf E]. rewrite E.
             rewrite firstn_app_le by exact Hlen. apply (H2 m Hin Hty).
          -- apply in_app_or in Hin as [Hin|Hin].
             ++ exfalso. apply (Hnoapp m); [rewrite Hnid; exact Hin|exact Hty].
             ++ rewrite forallb_forall in Hemit. specialize (Hemit m Hin). unfold emit_cc_okb in Hemit.
                apply andb_true_iff in Hemit as [He Hc]. rewrite Hty in Hc.
                unfold emit_okb in He. rewrite Hty in He.
                apply andb_true_iff in He as [He0 He]. apply andb_true_iff in He0 as [_ Het]. apply Nat.eqb_eq in Het.
                apply andb_true_iff in He as [He _]. apply andb_true_iff in He as [He _]. apply andb_true_iff in He as [Hrl _].
                set (n' := fst (fst (exec_cce boot page1 id cev (nx, pend)))) in *.
                assert (Hlead : n_role (nodes s2 id) = Leader) by (rewrite A2; destruct (n_role n'); try discriminate; reflexivity).
                pose proof (hW5 _ _ I2 id Hlead) as E5. unfold nd in E5. rewrite A2 in E5.
                rewrite Het, E5. apply cc_okb_spec. exact Hc.
      + intros y. cbn [cx_nodes]. destruct (Nat.eq_dec y id) as [->|Hy].
        * rewrite upd_same. exact Hnok1.
        * rewrite upd_other by exact Hy. apply Hnok.
  Qed.

  Theorem cc_at_most_one_uncommitted : forall x, cxreachableF F boot page1 x ->
    forall y j j' e e', j < j' ->
      nth_error (n_log (nodeof x y)) j = Some e -> nth_error (n_log (nodeof x y)) j' = Some e' ->
      isconf (snd e) = true -> isconf (snd e') = true -> S j <= n_commit (nodeof x y).
  Proof. intros x H y. exact (proj2 (cc_one_sim x H) y). Qed.
End Event.
