(* C15 — a follower handling MsgApp of its term preserves the invariant. *)
Require Import List Arith Bool Lia.
Require Import Raft.Quorum Raft.QuorumProofs Raft.RaftModel Raft.RaftSys Raft.RaftLog
               Raft.RaftInv Raft.RaftInvBase Raft.RaftInvFrame Raft.RaftInvExt.
Import ListNotations.

Section Append.
  Variable F : list (list nat * list nat).
  Hypothesis HF : inter_family F.

  Lemma inv_append_gen : forall s id n' ga' k L' c',
    Inv F s ->
    let n := nodes s id in
    let t := n_term n in
    let X := LL s t in
    let L := n_log n in
    let com := n_commit n in
    n_role n = Follower ->
    n_term n' = t -> n_vote n' = n_vote n -> n_role n' = Follower -> n_log n' = L' -> n_commit n' = c' ->
    X <> [] ->
    (forall x t', ga' x t' = if (x =? id) && (t' =? t) then Nat.max (ga s id t) k else ga s x t') ->
    (L' = L \/
     exists lni, L' = firstn lni X /\ lni <= length X /\
       exists ci, com < ci /\ ci <= lni /\ ci - 1 <= length L /\
                  firstn (ci - 1) L = firstn (ci - 1) X /\ term_at L ci <> term_at X ci) ->
    (k <= length L' /\ k <= length X /\ firstn k L' = firstn k X) ->
    (c' <= length L' /\ (c' = com \/ (com < c' /\ c' <= k /\ CP F s t c'))) ->
    Inv F (mkM (upd (nodes s) id n') (msgs s) (gv s) ga' (LL s) (lof s)).
  Proof.
    intros s id n' ga' k L' c' I n t X L com Hrole Hterm Hvote Hrole' Hlog Hcommit HXne Hga HL Hk Hc.
    set (s' := mkM (upd (nodes s) id n') (msgs s) (gv s) ga' (LL s) (lof s)).
    assert (Hga_id : ga' id t = Nat.max (ga s id t) k).
    { rewrite Hga. rewrite !Nat.eqb_refl. reflexivity. }
    assert (Hga_o : forall x t', x <> id \/ t' <> t -> ga' x t' = ga s x t').
    { intros x t' H. rewrite Hga. destruct (Nat.eqb_spec x id), (Nat.eqb_spec t' t); cbn [andb]; try reflexivity.
      exfalso. destruct H; contradiction. }
    assert (Hga_le : forall x t', ga s x t' <= ga' x t').
    { intros x t'. rewrite Hga. destruct ((x =? id) && (t' =? t)) eqn:Eb; [|lia].
      apply andb_true_iff in Eb as [E1 E2]. apply Nat.eqb_eq in E1. apply Nat.eqb_eq in E2. subst. lia. }
    assert (Hnd : forall x, x <> id -> nodes s' x = nodes s x).
    { intros x Hx. unfold s'. cbn [nodes]. apply upd_other. exact Hx. }
    assert (Hid : nodes s' id = n') by (unfold s'; cbn [nodes]; apply upd_same).
    assert (Hterm' : forall x, n_term (nodes s' x) = n_term (nodes s x)).
    { intros x. destruct (Nat.eq_dec x id) as [->|Hx]; [rewrite Hid; exact Hterm|rewrite Hnd by exact Hx; reflexivity]. }
    assert (Hrole'' : forall x, n_role (nodes s' x) = n_role (nodes s x)).
    { intros x. destruct (Nat.eq_dec x id) as [->|Hx]; [rewrite Hid; fold n; congruence|rewrite Hnd by exact Hx; reflexivity]. }
    assert (E : ext s s').
    { constructor.
      - intros x. rewrite Hterm'. lia.
      - exact Hga_le.
      - intros x t' Hlt. apply Hga_o. destruct (Nat.eq_dec x id) as [->|Hx]; [right; fold n in Hlt; fold t in Hlt; lia|left; exact Hx].
      - intros t'. exists []. rewrite app_nil_r. reflexivity. }
    assert (Hneverq : forall t' k', neverq F s t' k' -> neverq F s' t' k') by (intros; eapply ext_neverq; eassumption).
    (* facts about the old state of id *)
    destruct (hK3 _ _ I id) as [HoK3a HoK3b]. unfold nd in HoK3a, HoK3b. fold n in HoK3a, HoK3b. fold t in HoK3a, HoK3b. fold L in HoK3a, HoK3b. fold X in HoK3b.
    destruct (hK9 _ _ I id) as [HoK9a HoK9b]. unfold nd in HoK9a, HoK9b. fold n in HoK9a, HoK9b. fold L in HoK9a, HoK9b. fold com in HoK9a, HoK9b. fold t in HoK9b.
    destruct Hk as (Hk1 & Hk2 & Hk3). destruct Hc as [Hc1 Hc2].
    (* what the old log and the new one share *)
    assert (Hkeep : forall j, j <= length L -> firstn j L = firstn j X -> j <= length L' /\ firstn j L' = firstn j X).
    { intros j Hj HjX. destruct HL as [->|(lni & -> & Hlni & ci & Hci1 & Hci2 & Hci3 & Hci4 & Hci5)]; [split; assumption|].
      assert (Hjc : j < ci).
      { destruct (le_lt_dec ci j) as [Hle|Hlt]; [|exact Hlt]. exfalso. apply Hci5. apply (term_at_agree L X j ci HjX Hle). }
      rewrite firstn_length. split; [lia|]. rewrite firstn_firstn. rewrite Nat.min_l by lia. reflexivity. }
    (* committed prefix survives *)
    assert (Hcomkeep : com <= length L' /\ firstn com L' = firstn com L).
    { destruct HL as [->|(lni & -> & Hlni & ci & Hci1 & Hci2 & Hci3 & Hci4 & Hci5)]; [split; [exact HoK9a|reflexivity]|].
      rewrite firstn_length. split; [lia|]. rewrite firstn_firstn. rewrite Nat.min_l by lia.
      symmetry. apply (firstn_agree_le _ _ _ (ci - 1)); [exact Hci4|lia]. }
    assert (HnK3 : ga' id t <= length L' /\ firstn (ga' id t) L' = firstn (ga' id t) X).
    { rewrite Hga_id. destruct (Hkeep (ga s id t) HoK3a HoK3b) as [Ha Hb].
      destruct (Nat.max_spec (ga s id t) k) as [[_ ->]|[_ ->]]; split; assumption. }
    assert (HwfL' : wf (LL s) L').
    { destruct HL as [->|(lni & -> & _)]; [apply (hW1 _ _ I id)|apply wf_firstn; apply (hW2 _ _ I)]. }
    constructor.
    - (* iA1 *) intros x t' Ht'. unfold nd in Ht'. rewrite Hterm' in Ht'. apply (hA1 _ _ I x t' Ht').
    - (* iA2 *) intros x. unfold nd. change (gv s x (n_term (nodes s' x)) = n_vote (nodes s' x)). rewrite Hterm'.
      destruct (Nat.eq_dec x id) as [->|Hx]; [rewrite Hid, Hvote|rewrite Hnd by exact Hx]; apply (hA2 _ _ I).
    - (* iA3 *) intros x t' c Hg. unfold nd. rewrite Hterm'. apply (hA3 _ _ I x t' c Hg).
    - exact (hA4 _ _ I).
    - (* iA5 *) intros c x Hr Hv. unfold nd in *. rewrite Hterm'. rewrite Hrole'' in Hr.
      destruct (Nat.eq_dec c id) as [->|Hc']; [fold n in Hr; congruence|].
      rewrite Hnd in Hv by exact Hc'. apply (hA5 _ _ I c x Hr Hv).
    - exact (hA6a _ _ I).
    - (* iA6b *) intros l Hr. unfold nd in *. rewrite Hterm'. rewrite Hrole'' in Hr. apply (hA6b _ _ I l Hr).
    - (* iA7 *) intros t' l Hl Ht'. unfold nd in *. rewrite Hterm' in Ht'. rewrite Hrole''. apply (hA7 _ _ I t' l Hl Ht').
    - (* iA8 *) intros x Hr. unfold nd in *. rewrite Hterm'. rewrite Hrole'' in Hr. apply (hA8 _ _ I x Hr).
    - (* iW1 *) intros x. unfold nd. change (wf (LL s) (n_log (nodes s' x))).
      destruct (Nat.eq_dec x id) as [->|Hx]; [rewrite Hid, Hlog; exact HwfL'|rewrite Hnd by exact Hx; apply (hW1 _ _ I)].
    - exact (hW2 _ _ I).
    - exact (hW3 _ _ I).
    - (* iW4 *) intros x e He. unfold nd in *. rewrite Hterm'.
      destruct (Nat.eq_dec x id) as [->|Hx]; [|rewrite Hnd in He by exact Hx; apply (hW4 _ _ I x e He)].
      rewrite Hid, Hlog in He. fold n. fold t.
      destruct HL as [->|(lni & -> & _)]; [apply (hW4 _ _ I id e He)|].
      destruct (hW3 _ _ I t) as (_ & Hle & _). apply Hle. eapply In_firstn. exact He.
    - (* iW5 *) intros x Hr. unfold nd in *. rewrite Hrole'' in Hr.
      destruct (Nat.eq_dec x id) as [->|Hx]; [fold n in Hr; congruence|].
      rewrite Hnd by exact Hx. apply (hW5 _ _ I x Hr).
    - exact (hW7 _ _ I).
    - exact (hW8 _ _ I).
    - (* iW9 *) apply (iW9_ext F s s' E); [reflexivity|exact (hW9 _ _ I)].
    - (* iW10 *) intros m Hm Hty Hr Htm. unfold nd in *. rewrite Hrole'' in Hr. rewrite Hterm' in Htm.
      destruct (Nat.eq_dec (m_from m) id) as [Hx|Hx]; [rewrite Hx in Hr; fold n in Hr; congruence|].
      rewrite Hnd by exact Hx. apply (hW10 _ _ I m Hm Hty Hr Htm).
    - (* iW11 *) intros x Hr. unfold nd in *. rewrite Hrole'' in Hr.
      destruct (Nat.eq_dec x id) as [->|Hx]; [fold n in Hr; congruence|].
      rewrite Hnd by exact Hx. apply (hW11 _ _ I x Hr).
    - (* iW12 *) intros m Hm Hty. unfold nd. rewrite Hterm'. apply (hW12 _ _ I m Hm Hty).
    - (* iW13 *) apply (iW13_ext F s s' E); [reflexivity|exact (hW13 _ _ I)].
    - (* iK1 *) intros x t'. change (ga' x t' <= length (LL s t')).
      destruct (Nat.eq_dec x id) as [->|Hx].
      + destruct (Nat.eq_dec t' t) as [->|Ht'].
        * rewrite Hga_id. pose proof (hK1 _ _ I id t). fold X. fold X in H. lia.
        * rewrite Hga_o by (right; exact Ht'). apply (hK1 _ _ I).
      + rewrite Hga_o by (left; exact Hx). apply (hK1 _ _ I).
    - (* iK2 *) intros x t' Hg. unfold nd. rewrite Hterm'. change (0 < ga' x t') in Hg.
      destruct (Nat.eq_dec x id) as [->|Hx].
      + destruct (Nat.eq_dec t' t) as [->|Ht']; [fold n; fold t; lia|].
        rewrite Hga_o in Hg by (right; exact Ht'). apply (hK2 _ _ I id t' Hg).
      + rewrite Hga_o in Hg by (left; exact Hx). apply (hK2 _ _ I x t' Hg).
    - (* iK3 *) intros x. unfold nd. rewrite Hterm'.
      change (ga' x (n_term (nodes s x)) <= length (n_log (nodes s' x)) /\
              firstn (ga' x (n_term (nodes s x))) (n_log (nodes s' x)) = firstn (ga' x (n_term (nodes s x))) (LL s (n_term (nodes s x)))).
      destruct (Nat.eq_dec x id) as [->|Hx].
      + rewrite Hid, Hlog. fold n. fold t. fold X. exact HnK3.
      + rewrite Hnd by exact Hx. rewrite Hga_o by (left; exact Hx). apply (hK3 _ _ I x).
    - (* iK4 *) apply (iK4_ext s s' E); [reflexivity|exact (hK4 _ _ I)].
    - (* iK5 *) intros l x Hr. unfold nd in *. rewrite Hrole'' in Hr. rewrite Hterm'.
      destruct (Nat.eq_dec l id) as [->|Hl]; [fold n in Hr; congruence|].
      rewrite Hnd by exact Hl. pose proof (hK5 _ _ I l x Hr) as H. unfold nd in H.
      change (n_match (nodes s l) x <= ga' x (n_term (nodes s l))). pose proof (Hga_le x (n_term (nodes s l))). lia.
    - (* iK6 *) intros x t' k' Hv Hk'. change (valid s t' k') in Hv. change (k' <= ga' x t') in Hk'. unfold nd.
      destruct (Nat.eq_dec x id) as [->|Hx].
      + rewrite Hid, Hlog. destruct (Nat.eq_dec t' t) as [->|Ht'].
        * left. destruct HnK3 as [Ha Hb]. split; [lia|]. apply (firstn_agree_le _ _ _ (ga' id t)); [exact Hb|exact Hk'].
        * rewrite Hga_o in Hk' by (right; exact Ht').
          destruct (hK6 _ _ I id t' k' Hv Hk') as [Hh|Hn]; [|right; apply Hneverq; exact Hn].
          unfold nd in Hh. fold n in Hh. fold L in Hh.
          destruct HL as [->|(lni & -> & Hlni & ci & Hci1 & Hci2 & Hci3 & Hci4 & Hci5)]; [left; exact Hh|].
          assert (Hlt : t' < t).
          { pose proof (hK2 _ _ I id t' ltac:(destruct Hv as [[? ?] _]; lia)) as H2. unfold nd in H2. fold n in H2. fold t in H2. lia. }
          destruct (hK7 _ _ I t' t k' Hlt HXne Hv) as [[HhX1 HhX2]|Hn]; [|right; apply Hneverq; exact Hn].
          left. destruct Hh as [Hh1 Hh2]. fold X in HhX1, HhX2.
          assert (Hjc : k' < ci).
          { destruct (le_lt_dec ci k') as [Hle|Hlt']; [|exact Hlt']. exfalso. apply Hci5.
            apply (term_at_agree L X k' ci); [congruence|exact Hle]. }
          split; [rewrite firstn_length; lia|]. rewrite firstn_firstn. rewrite Nat.min_l by lia. exact HhX2.
      + rewrite Hnd by exact Hx. rewrite Hga_o in Hk' by (left; exact Hx).
        destruct (hK6 _ _ I x t' k' Hv Hk') as [Hh|Hn]; [left; exact Hh|right; apply Hneverq; exact Hn].
    - (* iK7 *) intros t' t3 k' Hlt Hne Hv.
      destruct (hK7 _ _ I t' t3 k' Hlt Hne Hv) as [H|H]; [left; exact H|right; apply Hneverq; exact H].
    - (* iK8 *) intros c x t' k' Hr Hg Ht' Hv Hk'. unfold nd in *. rewrite Hrole'' in Hr. rewrite Hterm' in Hg, Ht'.
      change (valid s t' k') in Hv. change (k' <= ga' x t') in Hk'. change (gv s x (n_term (nodes s c)) = Some c) in Hg.
      destruct (Nat.eq_dec c id) as [->|Hc']; [fold n in Hr; congruence|]. rewrite Hnd by exact Hc'.
      assert (Hk'' : k' <= ga s x t').
      { destruct (Nat.eq_dec x id) as [->|Hx]; [|rewrite Hga_o in Hk' by (left; exact Hx); exact Hk'].
        destruct (Nat.eq_dec t' t) as [->|Ht'']; [|rewrite Hga_o in Hk' by (right; exact Ht''); exact Hk'].
        exfalso. destruct (Nat.le_gt_cases (n_term (nodes s c)) t) as [Hle|Hgt]; [lia|].
        pose proof (hA1 _ _ I id (n_term (nodes s c))) as H1. unfold nd in H1. fold n in H1. fold t in H1.
        rewrite H1 in Hg by exact Hgt. discriminate. }
      destruct (hK8 _ _ I c x t' k' Hr Hg Ht' Hv Hk'') as [H|H]; [left; exact H|right; apply Hneverq; exact H].
    - (* iK9 *) intros x. unfold nd. rewrite Hterm'.
      destruct (Nat.eq_dec x id) as [->|Hx].
      + rewrite Hid, Hlog, Hcommit. fold n. fold t. split; [exact Hc1|].
        destruct Hc2 as [->|(Hc2a & Hc2b & HCP)].
        * destruct Hcomkeep as [Hck1 Hck2].
          destruct HoK9b as [Hz|(t0 & k0 & Ht0 & Hc0 & Hk0 & Hf)]; [left; exact Hz|].
          right. exists t0, k0. split; [exact Ht0|]. split; [apply (ext_committed_at F s s' E); exact Hc0|].
          split; [exact Hk0|]. rewrite Hck2. exact Hf.
        * right. destruct HCP as [_ [Hz|(t0 & k0 & Ht0 & Hc0 & Hk0)]]; [lia|].
          exists t0, k0. split; [exact Ht0|]. split; [apply (ext_committed_at F s s' E); exact Hc0|].
          split; [exact Hk0|].
          rewrite (firstn_agree_le _ _ _ _ _ Hk3 Hc2b).
          destruct (LC_le F HF s I t0 k0 t Hc0 Ht0 HXne) as [_ Hhas]. fold X in Hhas.
          apply (firstn_agree_le _ _ _ k0); [exact Hhas|exact Hk0].
      + rewrite Hnd by exact Hx. destruct (hK9 _ _ I x) as [H1 H2]. unfold nd in H1, H2. split; [exact H1|].
        destruct H2 as [Hz|(t0 & k0 & Ht0 & Hc0 & Hk0 & Hf)]; [left; exact Hz|].
        right. exists t0, k0. split; [exact Ht0|]. split; [apply (ext_committed_at F s s' E); exact Hc0|].
        split; [exact Hk0|exact Hf].
    - (* iK10 *) apply (iK10_ext F s s' E); [reflexivity|exact (hK10 _ _ I)].
    - (* iK11 *) intros l Hr. unfold nd in *. rewrite Hrole'' in Hr. rewrite Hterm'.
      destruct (Nat.eq_dec l id) as [->|Hl]; [fold n in Hr; congruence|].
      rewrite Hnd by exact Hl. change (ga' l (n_term (nodes s l)) = length (n_log (nodes s l))).
      rewrite Hga_o by (left; exact Hl). apply (hK11 _ _ I l Hr).
  Qed.
End Append.

Section AppendStep.
  Variable F : list (list nat * list nat).
  Hypothesis HF : inter_family F.

  Lemma CP_le : forall s t c c2, CP F s t c -> c2 <= c -> CP F s t c2.
  Proof.
    intros s t c c2 [H1 H2] Hle. split; [lia|].
    destruct H2 as [->|(t0 & k0 & Ht0 & Hc0 & Hk0)]; [left; lia|].
    right. exists t0, k0. split; [exact Ht0|]. split; [exact Hc0|lia].
  Qed.

  Lemma step_append : forall s id m,
    Inv F s ->
    In m (msgs s) -> m_type m = MsgApp -> m_to m = id -> m_term m = n_term (nodes s id) ->
    n_role (nodes s id) = Follower ->
    Inv F (set_ga (add_msgs (set_node s id (fst (handle_append id m (nodes s id))))
                                (snd (handle_append id m (nodes s id))))
                      id (n_term (nodes s id))
                      (Nat.max (ga s id (n_term (nodes s id))) (app_ack (snd (handle_append id m (nodes s id)))))).
  Proof.
    intros s id m I Hm Hty Hto Htm Hr. set (n := nodes s id) in *. set (t := n_term n) in *.
    destruct (hW9 _ _ I m Hm Hty) as (HXne & Hseg & Hlen & Hlt & HCP). rewrite Htm in HXne, Hseg, Hlen, Hlt, HCP.
    set (X := LL s t) in *.
    destruct (hK9 _ _ I id) as [HoK9a HoK9b]. unfold nd in HoK9a, HoK9b. fold n in HoK9a, HoK9b. fold t in HoK9b.
    (* the shape of the final state *)
    assert (Hshape : forall n' out,
      set_ga (add_msgs (set_node s id n') out) id t (Nat.max (ga s id t) (app_ack out))
      = add_msgs (mkM (upd (nodes s) id n') (msgs s) (gv s)
                      (upd2 (ga s) id t (Nat.max (ga s id t) (app_ack out))) (LL s) (lof s)) out) by reflexivity.
    assert (Hgaspec : forall k x t', upd2 (ga s) id t (Nat.max (ga s id t) k) x t'
              = if (x =? id) && (t' =? t) then Nat.max (ga s id t) k else ga s x t') by reflexivity.
    (* the committed prefix of id is a prefix of X *)
    assert (HcomX : n_commit n <= length X /\ firstn (n_commit n) (n_log n) = firstn (n_commit n) X).
    { destruct HoK9b as [Hz|(t0 & k0 & Ht0 & Hc0 & Hk0 & Hf)]; [rewrite Hz; split; [lia|reflexivity]|].
      destruct (LC_le F HF s I t0 k0 t Hc0 Ht0 HXne) as [Hh1 Hh2]. fold X in Hh1, Hh2.
      split; [lia|]. rewrite Hf. symmetry. apply (firstn_agree_le _ _ _ k0); [exact Hh2|exact Hk0]. }
    unfold handle_append. fold n.
    destruct (m_index m <? n_commit n) eqn:Eic.
    - (* (a) below the commit index: acknowledge the commit index *)
      cbn [fst snd]. rewrite Hshape. cbn [app_ack reply m_reject m_index].
      apply inv_add_msgs.
      + apply (inv_append_gen F HF s id n _ (n_commit n) (n_log n) (n_commit n) I); fold n; fold t; fold X;
          try reflexivity; try assumption.
        * left. reflexivity.
        * destruct HcomX as [H1 H2]. split; [exact HoK9a|split; assumption].
        * split; [exact HoK9a|left; reflexivity].
      + intros m' [<-|[]]. unfold msg_ok. cbn [reply m_type m_reject m_from m_term m_to m_index].
        split; [intros H0; discriminate H0|]. split; [intros H0; discriminate H0|]. split; [intros H0; discriminate H0|].
        split; [|split; [intros H0; discriminate H0|split; intros H0; discriminate H0]].
        intros _ _. cbn [ga]. rewrite upd2_same. lia.
    - destruct (maybe_append (n_log n) (n_commit n) (m_index m) (m_logterm m) (m_commit m) (m_ents m))
        as [| |L' c' lni] eqn:Ema.
      + (* (c) reject *)
        cbn [fst snd]. rewrite Hshape. cbn [app_ack reply m_reject].
        apply inv_add_msgs.
        * apply (inv_append_gen F HF s id n _ 0 (n_log n) (n_commit n) I); fold n; fold t; fold X;
            try reflexivity; try assumption.
          -- left. reflexivity.
          -- split; [lia|split; [lia|reflexivity]].
          -- split; [exact HoK9a|left; reflexivity].
        * intros m' [<-|[]]. apply harmless_msg_ok. reflexivity.
      + (* (d) panic *)
        cbn [fst snd]. rewrite Hshape. cbn [app_ack].
        apply inv_add_msgs; [|intros m' []].
        apply (inv_append_gen F HF s id n _ 0 (n_log n) (n_commit n) I); fold n; fold t; fold X;
          try reflexivity; try assumption.
        * left. reflexivity.
        * split; [lia|split; [lia|reflexivity]].
        * split; [exact HoK9a|left; reflexivity].
      + (* (b) appended *)
        cbn [fst snd]. rewrite Hshape. cbn [app_ack reply m_reject m_index].
        rewrite Hlt in Ema.
        destruct (maybe_append_spec (LL s) (n_log n) X (n_commit n) (m_index m) (m_commit m) (m_ents m) L' c' lni
                    (hW1 _ _ I id) (hW2 _ _ I t) (proj1 (hW3 _ _ I t)) Hseg Hlen HoK9a Ema)
          as (Elni & HlniL' & Hagree & HLcase & Hccase).
        apply inv_add_msgs.
        * apply (inv_append_gen F HF s id (set_commit c' (set_log L' n)) _ lni L' c' I); fold n; fold t; fold X;
            try reflexivity; try assumption.
          -- destruct HLcase as [->|(-> & ci & H1 & H2 & H3 & H4 & H5)]; [left; reflexivity|].
             right. exists lni. split; [reflexivity|]. split; [lia|]. exists ci. repeat split; assumption.
          -- split; [exact HlniL'|split; [lia|exact Hagree]].
          -- destruct Hccase as [[-> Hmin]|(-> & Hgt & HleL')].
             ++ split; [|left; reflexivity].
                destruct HLcase as [->|(-> & ci & H1 & H2 & H3 & H4 & H5)]; [exact HoK9a|].
                rewrite firstn_length. lia.
             ++ split; [exact HleL'|]. right. split; [exact Hgt|]. split; [lia|].
                apply (CP_le s t (m_commit m)); [exact HCP|lia].
        * intros m' [<-|[]]. unfold msg_ok. cbn [reply m_type m_reject m_from m_term m_to m_index].
          split; [intros H0; discriminate H0|]. split; [intros H0; discriminate H0|]. split; [intros H0; discriminate H0|].
          split; [|split; [intros H0; discriminate H0|split; intros H0; discriminate H0]].
          intros _ _. cbn [ga]. rewrite upd2_same. lia.
  Qed.
End AppendStep.

Section SnapshotStep.
  Variable F : list (list nat * list nat).
  Hypothesis HF : inter_family F.

  Lemma below_all_or_ex : forall (L X : elog) idx,
    (forall j, 1 <= j < idx -> term_at L j = term_at X j) \/
    (exists j, 1 <= j < idx /\ term_at L j <> term_at X j).
  Proof.
    intros L X idx. induction idx as [|k IH]; [left; intros j Hj; lia|].
    destruct IH as [IH|(j & Hj & Hd)]; [|right; exists j; split; [lia|exact Hd]].
    destruct (Nat.eq_dec k 0) as [->|Hk]; [left; intros j Hj; lia|].
    destruct (Nat.eq_dec (term_at L k) (term_at X k)) as [E|N].
    - left. intros j Hj. destruct (Nat.eq_dec j k) as [->|Hjk]; [exact E|apply IH; lia].
    - right. exists k. split; [lia|exact N].
  Qed.

  Lemma first_diff : forall (L X : elog) idx, term_at L idx <> term_at X idx ->
    exists ci, 1 <= ci <= idx /\ term_at L ci <> term_at X ci /\
               forall j, 1 <= j < ci -> term_at L j = term_at X j.
  Proof.
    intros L X idx. induction idx as [idx IH] using lt_wf_ind. intros Hd.
    assert (Hpos : 1 <= idx) by (destruct idx; [exfalso; apply Hd; reflexivity|lia]).
    destruct (below_all_or_ex L X idx) as [Hall|(j & Hj & Hdj)].
    - exists idx. split; [lia|split; [exact Hd|exact Hall]].
    - destruct (IH j ltac:(lia) Hdj) as (ci & Hci & Hdc & Hb). exists ci. split; [lia|split; assumption].
  Qed.

  Lemma step_snapshot : forall s id m,
    Inv F s ->
    In m (msgs s) -> m_type m = MsgSnap -> m_to m = id -> m_term m = n_term (nodes s id) ->
    n_role (nodes s id) = Follower ->
    Inv F (set_ga (add_msgs (set_node s id (fst (handle_snapshot id m (nodes s id))))
                                (snd (handle_snapshot id m (nodes s id))))
                      id (n_term (nodes s id))
                      (Nat.max (ga s id (n_term (nodes s id))) (app_ack (snd (handle_snapshot id m (nodes s id)))))).
  Proof.
    intros s id m I Hm Hty Hto Htm Hr. set (n := nodes s id) in *. set (t := n_term n) in *.
    destruct (hW13 _ _ I m Hm Hty) as (HXne & Hents & Hlen & Hlt & HCP). rewrite Htm in HXne, Hents, Hlen, Hlt, HCP.
    set (X := LL s t) in *.
    destruct (hK9 _ _ I id) as [HoK9a HoK9b]. unfold nd in HoK9a, HoK9b. fold n in HoK9a, HoK9b. fold t in HoK9b.
    assert (Hshape : forall n' out,
      set_ga (add_msgs (set_node s id n') out) id t (Nat.max (ga s id t) (app_ack out))
      = add_msgs (mkM (upd (nodes s) id n') (msgs s) (gv s)
                      (upd2 (ga s) id t (Nat.max (ga s id t) (app_ack out))) (LL s) (lof s)) out) by reflexivity.
    assert (HcomX : n_commit n <= length X /\ firstn (n_commit n) (n_log n) = firstn (n_commit n) X).
    { destruct HoK9b as [Hz|(t0 & k0 & Ht0 & Hc0 & Hk0 & Hf)]; [rewrite Hz; split; [lia|reflexivity]|].
      destruct (LC_le F HF s I t0 k0 t Hc0 Ht0 HXne) as [Hh1 Hh2]. fold X in Hh1, Hh2.
      split; [lia|]. rewrite Hf. symmetry. apply (firstn_agree_le _ _ _ k0); [exact Hh2|exact Hk0]. }
    assert (Hack_ok : forall s' k, k <= ga s' id t ->
              msg_ok F s' (reply id MsgAppResp (m_from m) t k false)).
    { intros s' k Hk. unfold msg_ok. cbn [reply m_type m_reject m_from m_term m_to m_index].
      split; [intros H0; discriminate H0|]. split; [intros H0; discriminate H0|]. split; [intros H0; discriminate H0|].
      split; [|split; [intros H0; discriminate H0|split; intros H0; discriminate H0]].
      intros _ _. exact Hk. }
    unfold handle_snapshot. fold n. fold t.
    destruct ((m_index m <=? n_commit n) || m_reject m) eqn:Eic.
    - (* at or below the commit index: acknowledge the commit index *)
      cbn [fst snd]. rewrite Hshape. cbn [app_ack reply m_reject m_index].
      apply inv_add_msgs.
      + apply (inv_append_gen F HF s id n _ (n_commit n) (n_log n) (n_commit n) I); fold n; fold t; fold X;
          try reflexivity; try assumption.
        * left. reflexivity.
        * destruct HcomX as [H1 H2]. split; [exact HoK9a|split; assumption].
        * split; [exact HoK9a|left; reflexivity].
      + intros m' [<-|[]]. apply Hack_ok. cbn [ga]. rewrite upd2_same. lia.
    - apply orb_false_iff in Eic as [Eic _]. apply Nat.leb_gt in Eic.
      destruct (term_at (n_log n) (m_index m) =? m_logterm m) eqn:Emt.
      + (* matchTerm: the commit index is fast-forwarded *)
        apply Nat.eqb_eq in Emt.
        destruct (commit_to (n_log n) (n_commit n) (m_index m)) as [c|] eqn:Ec.
        * destruct (commit_to_spec _ _ _ _ Ec) as [[-> Hle]|(-> & Hgt & HleL)]; [lia|].
          cbn [fst snd]. rewrite Hshape. cbn [app_ack reply m_reject m_index].
          assert (Hagree : firstn (m_index m) (n_log n) = firstn (m_index m) X).
          { apply (wf_match (LL s)); [apply (hW1 _ _ I id)|apply (hW2 _ _ I t)|lia|exact Hlen|]. rewrite Emt. exact Hlt. }
          apply inv_add_msgs.
          -- apply (inv_append_gen F HF s id (set_commit (m_index m) n) _ (m_index m) (n_log n) (m_index m) I); fold n; fold t; fold X;
               try reflexivity; try assumption.
             ++ left. reflexivity.
             ++ split; [exact HleL|split; [exact Hlen|exact Hagree]].
             ++ split; [exact HleL|right; split; [exact Hgt|split; [lia|exact HCP]]].
          -- intros m' [<-|[]]. apply Hack_ok. cbn [ga]. rewrite upd2_same. lia.
        * (* panic: nothing happens *)
          cbn [fst snd]. rewrite Hshape. cbn [app_ack].
          apply inv_add_msgs; [|intros m' []].
          apply (inv_append_gen F HF s id n _ 0 (n_log n) (n_commit n) I); fold n; fold t; fold X;
            try reflexivity; try assumption.
          -- left. reflexivity.
          -- split; [lia|split; [lia|reflexivity]].
          -- split; [exact HoK9a|left; reflexivity].
      + (* the log is replaced by the snapshot's prefix *)
        apply Nat.eqb_neq in Emt. rewrite Hlt in Emt.
        cbn [fst snd]. rewrite Hshape. cbn [app_ack reply m_reject m_index].
        destruct (first_diff (n_log n) X (m_index m) Emt) as (ci & Hci & Hdc & Hbelow).
        assert (Hpre : ci - 1 <= length (n_log n) /\ firstn (ci - 1) (n_log n) = firstn (ci - 1) X).
        { destruct (Nat.eq_dec ci 1) as [->|Hc1]; [split; [cbn; lia|reflexivity]|].
          assert (Heq : term_at (n_log n) (ci - 1) = term_at X (ci - 1)) by (apply Hbelow; lia).
          assert (Hp : 1 <= term_at X (ci - 1)) by (apply terms_pos_term_at; [apply (hW3 _ _ I t)|lia]).
          assert (Hrng : 1 <= ci - 1 <= length (n_log n)) by (apply term_at_range; lia).
          split; [lia|]. apply (wf_match (LL s)); [apply (hW1 _ _ I id)|apply (hW2 _ _ I t)|exact Hrng|lia|exact Heq]. }
        assert (Hcomci : n_commit n < ci).
        { destruct (le_lt_dec ci (n_commit n)) as [Hle|Hgt]; [|exact Hgt]. exfalso. apply Hdc.
          destruct HcomX as [_ Hx]. apply (term_at_agree _ _ (n_commit n) ci Hx Hle). }
        assert (HlenE : length (m_ents m) = m_index m) by (rewrite Hents, firstn_length; lia).
        apply inv_add_msgs.
        * apply (inv_append_gen F HF s id _ _ (m_index m) (m_ents m) (m_index m) I); fold n; fold t; fold X;
            try reflexivity; try assumption.
          -- right. exists (m_index m). split; [exact Hents|split; [exact Hlen|]].
             exists ci. destruct Hpre as [Hp1 Hp2]. repeat split; try assumption; lia.
          -- split; [lia|split; [exact Hlen|]]. rewrite Hents. rewrite firstn_firstn, Nat.min_id. reflexivity.
          -- split; [lia|right; split; [exact Eic|split; [lia|exact HCP]]].
        * intros m' [<-|[]]. apply Hack_ok. cbn [ga]. rewrite upd2_same. lia.
  Qed.
End SnapshotStep.
