(* C15 — the inductive invariant of the micro-step system (RaftSys.mstep), definitions.
   DESIGN.md Appendix A.5.  Each component is a separate definition; [Inv] is their
   conjunction.  Proof of preservation: RaftInvProofs*.v. *)
Require Import List Arith Bool Lia.
Require Import Raft.Quorum Raft.QuorumProofs Raft.RaftModel Raft.RaftSys Raft.RaftLog.
Import ListNotations.

Section Inv.
  (* F = the family of (joint) configurations (incoming voters, outgoing voters) that nodes may
     use for their decisions.  With fixed membership it is the singleton of the configuration. *)
  Variable F : list (list nat * list nat).

  (* "the nodes satisfying p contain a quorum of some configuration of the family" *)
  Definition Qr (p : nat -> bool) : Prop :=
    exists cfg, In cfg F /\ joint_sat (fst cfg) (snd cfg) p.

  Definition sorted_terms (l : elog) : Prop :=
    forall i j, 1 <= i -> i <= j -> j <= length l -> term_at l i <= term_at l j.

  Definition terms_le (l : elog) (t : nat) : Prop := forall e, In e l -> fst e <= t.
  Definition terms_lt (l : elog) (t : nat) : Prop := forall e, In e l -> fst e < t.

  Section S.
  Variable s : mstate.

  Definition nd (x : nat) : nstate := nodes s x.

  (* log L holds the first k entries of the leader log of term t *)
  Definition has (L : elog) (t k : nat) : Prop :=
    k <= length L /\ firstn k L = firstn k (LL s t).

  (* k is the index of an entry created in term t by the leader of t *)
  Definition valid (t k : nat) : Prop :=
    1 <= k <= length (LL s t) /\ term_at (LL s t) k = t.

  (* a quorum has left term t without acknowledging index k: (t,k) can never be committed *)
  Definition neverp (t k x : nat) : bool := (t <? n_term (nd x)) && (ga s x t <? k).
  Definition neverq (t k : nat) : Prop := Qr (neverp t k).

  Definition ackedp (t k x : nat) : bool := k <=? ga s x t.
  Definition committed_at (t k : nat) : Prop := valid t k /\ Qr (ackedp t k).

  (* c is covered by a committed entry of a term <= t *)
  Definition CP (t c : nat) : Prop :=
    c <= length (LL s t) /\
    (c = 0 \/ exists t0 k0, t0 <= t /\ committed_at t0 k0 /\ c <= k0).

  (* ---- A: terms and votes *)
  Definition iA1 := forall x t, n_term (nd x) < t -> gv s x t = None.
  Definition iA2 := forall x, gv s x (n_term (nd x)) = n_vote (nd x).
  Definition iA3 := forall x t c, gv s x t = Some c -> t <= n_term (nd c).
  Definition iA4 := forall m, In m (msgs s) -> m_type m = MsgVoteResp -> m_reject m = false ->
                      gv s (m_from m) (m_term m) = Some (m_to m).
  Definition iA5 := forall c x, n_role (nd c) = Candidate -> n_votes (nd c) x = Some true ->
                      gv s x (n_term (nd c)) = Some c.
  Definition votedp (t l x : nat) : bool := opt_nat_eqb (gv s x t) (Some l).
  Definition iA6a := forall t l, lof s t = Some l -> Qr (votedp t l).
  Definition iA6b := forall l, n_role (nd l) = Leader -> lof s (n_term (nd l)) = Some l.
  Definition iA7 := forall t l, lof s t = Some l -> n_term (nd l) = t -> n_role (nd l) <> Candidate.
  Definition iA8 := forall x, n_role (nd x) <> Follower -> 1 <= n_term (nd x).

  (* ---- W: structure of logs *)
  Definition iW1 := forall x, wf (LL s) (n_log (nd x)).
  Definition iW2 := forall t, wf (LL s) (LL s t).
  Definition iW3 := forall t, terms_pos (LL s t) /\ terms_le (LL s t) t /\ sorted_terms (LL s t).
  Definition iW4 := forall x, terms_le (n_log (nd x)) (n_term (nd x)).
  Definition iW5 := forall x, n_role (nd x) = Leader -> LL s (n_term (nd x)) = n_log (nd x).
  Definition iW7 := forall t, lof s t = None -> LL s t = [].
  Definition iW8 := forall t l, lof s t = Some l -> LL s t <> [].
  Definition iW9 := forall m, In m (msgs s) -> m_type m = MsgApp ->
      LL s (m_term m) <> [] /\
      firstn (m_index m) (LL s (m_term m)) ++ m_ents m
        = firstn (m_index m + length (m_ents m)) (LL s (m_term m)) /\
      m_index m + length (m_ents m) <= length (LL s (m_term m)) /\
      m_logterm m = term_at (LL s (m_term m)) (m_index m) /\
      CP (m_term m) (m_commit m).
  Definition iW10 := forall m, In m (msgs s) -> m_type m = MsgVote ->
      n_role (nd (m_from m)) = Candidate -> n_term (nd (m_from m)) = m_term m ->
      m_index m = length (n_log (nd (m_from m))) /\ m_logterm m = last_term (n_log (nd (m_from m))).
  Definition iW12 := forall m, In m (msgs s) -> m_type m = MsgVote -> m_term m <= n_term (nd (m_from m)).
  Definition iW13 := forall m, In m (msgs s) -> m_type m = MsgSnap ->
      LL s (m_term m) <> [] /\
      m_ents m = firstn (m_index m) (LL s (m_term m)) /\
      m_index m <= length (LL s (m_term m)) /\
      m_logterm m = term_at (LL s (m_term m)) (m_index m) /\
      CP (m_term m) (m_index m).
  Definition iW11 := forall x, n_role (nd x) = Candidate -> terms_lt (n_log (nd x)) (n_term (nd x)).

  (* ---- K: acknowledgements and commitment *)
  Definition iK1 := forall x t, ga s x t <= length (LL s t).
  Definition iK2 := forall x t, 0 < ga s x t -> t <= n_term (nd x).
  Definition iK3 := forall x, ga s x (n_term (nd x)) <= length (n_log (nd x)) /\
      firstn (ga s x (n_term (nd x))) (n_log (nd x)) = firstn (ga s x (n_term (nd x))) (LL s (n_term (nd x))).
  Definition iK4 := forall m, In m (msgs s) -> m_type m = MsgAppResp -> m_reject m = false ->
      m_index m <= ga s (m_from m) (m_term m).
  Definition iK5 := forall l x, n_role (nd l) = Leader -> n_match (nd l) x <= ga s x (n_term (nd l)).
  Definition iK6 := forall x t k, valid t k -> k <= ga s x t -> has (n_log (nd x)) t k \/ neverq t k.
  Definition iK7 := forall t t3 k, t < t3 -> LL s t3 <> [] -> valid t k -> has (LL s t3) t k \/ neverq t k.
  Definition iK8 := forall c x t k, n_role (nd c) = Candidate -> gv s x (n_term (nd c)) = Some c ->
      t < n_term (nd c) -> valid t k -> k <= ga s x t -> has (n_log (nd c)) t k \/ neverq t k.
  Definition iK9 := forall x, n_commit (nd x) <= length (n_log (nd x)) /\
      (n_commit (nd x) = 0 \/
       exists t0 k0, t0 <= n_term (nd x) /\ committed_at t0 k0 /\ n_commit (nd x) <= k0 /\
         firstn (n_commit (nd x)) (n_log (nd x)) = firstn (n_commit (nd x)) (LL s t0)).
  Definition iK10 := forall m, In m (msgs s) -> m_type m = MsgHeartbeat ->
      m_commit m <= ga s (m_to m) (m_term m) /\ CP (m_term m) (m_commit m).

  Definition iK11 := forall l, n_role (nd l) = Leader -> ga s l (n_term (nd l)) = length (n_log (nd l)).

  Record Inv : Prop := mkInv {
    hA1 : iA1; hA2 : iA2; hA3 : iA3; hA4 : iA4; hA5 : iA5; hA6a : iA6a; hA6b : iA6b; hA7 : iA7; hA8 : iA8;
    hW1 : iW1; hW2 : iW2; hW3 : iW3; hW4 : iW4; hW5 : iW5; hW7 : iW7; hW8 : iW8; hW9 : iW9; hW10 : iW10; hW11 : iW11; hW12 : iW12; hW13 : iW13;
    hK1 : iK1; hK2 : iK2; hK3 : iK3; hK4 : iK4; hK5 : iK5; hK6 : iK6; hK7 : iK7; hK8 : iK8; hK9 : iK9; hK10 : iK10; hK11 : iK11
  }.
  End S.
End Inv.
