(* C15 — membership change, two more ingredients of the chain argument.

   [chain_adjacent]: along ANY log, the configuration after a prefix P and the configuration after
   P ++ S, where S holds at most one configuration-change entry, are equal or one change apart:
   all their quorums pairwise intersect (boot configuration well formed).

   [node_cfg_one_step_behind] (inside the envelope of RaftCCSafety): the configuration a node
   decides with — that of its committed prefix — and the configuration of ANY longer prefix of its
   own log, its whole log included, are such a pair: "a node is at most one configuration change
   behind its own log".  Follows from RaftCCOne.cc_at_most_one_uncommitted. *)
Require Import List Arith Bool Lia.
Require Import Raft.Quorum Raft.QuorumProofs Raft.RaftModel Raft.RaftSys Raft.RaftLog Raft.RaftInvBase
               Raft.RaftCC Raft.RaftCCQuorum Raft.RaftCCRefine Raft.RaftCCSafety Raft.RaftCCInv Raft.RaftCCOne.
Import ListNotations.

Lemma skipn_add : forall (A : Type) c a (l : list A), skipn a (skipn c l) = skipn (c + a) l.
Proof.
  intros A c. induction c as [|c IH]; intros a l; [reflexivity|].
  destruct l as [|x l]; [cbn; rewrite skipn_nil; reflexivity|]. cbn. apply IH.
Qed.

Definition cpair (c : conf) : list nat * list nat := (c_in c, c_out c).

Lemma inter_self : forall c, wfc c -> inter_family [cpair c; cpair c].
Proof.
  intros c Hw a b Ha Hb.
  assert (Ea : a = cpair c) by (destruct Ha as [<-|[<-|[]]]; reflexivity).
  assert (Eb : b = cpair c) by (destruct Hb as [<-|[<-|[]]]; reflexivity).
  subst a b. apply (inter_family_single (c_in c) (c_out c)); [left; apply (wf_ne _ Hw)|left; reflexivity|left; reflexivity].
Qed.

Section Chain.
  Variable boot : conf.
  Hypothesis Hboot : wfc boot.

  Lemma cfg_snoc : forall P e, cfg_of boot (P ++ [e]) = apply_payload (cfg_of boot P) (snd e).
  Proof. intros P e. unfold cfg_of. rewrite fold_left_app. reflexivity. Qed.

  Lemma cfg_snoc_nonconf : forall P e, isconf (snd e) = false -> cfg_of boot (P ++ [e]) = cfg_of boot P.
  Proof.
    intros P e H. rewrite cfg_snoc. unfold apply_payload. unfold isconf in H.
    destruct (cc_of_payload (snd e)); [discriminate|reflexivity].
  Qed.

  Lemma cfg_nonconf : forall S P, nconf S = 0 -> cfg_of boot (P ++ S) = cfg_of boot P.
  Proof.
    induction S as [|e S IH]; intros P H; [rewrite app_nil_r; reflexivity|].
    cbn [nconf] in H. destruct (isconf (snd e)) eqn:E; [lia|].
    replace (P ++ e :: S) with ((P ++ [e]) ++ S) by (rewrite <- app_assoc; reflexivity).
    rewrite IH by lia. apply cfg_snoc_nonconf. exact E.
  Qed.

  Theorem chain_adjacent : forall S P, nconf S <= 1 ->
    inter_family [cpair (cfg_of boot P); cpair (cfg_of boot (P ++ S))].
  Proof.
    induction S as [|e S IH]; intros P H.
    - rewrite app_nil_r. apply inter_self. apply cfg_of_wf. exact Hboot.
    - replace (P ++ e :: S) with ((P ++ [e]) ++ S) by (rewrite <- app_assoc; reflexivity).
      cbn [nconf] in H. destruct (isconf (snd e)) eqn:E.
      + rewrite cfg_nonconf by lia. rewrite cfg_snoc. unfold apply_payload.
        destruct (cc_of_payload (snd e)) as [op|]; [|apply inter_self; apply cfg_of_wf; exact Hboot].
        destruct (apply_cc (cfg_of boot P) op) as [c'|] eqn:Ea; [|apply inter_self; apply cfg_of_wf; exact Hboot].
        exact (conf_step_inter (cfg_of boot P) op c' (cfg_of_wf boot P Hboot) Ea).
      + rewrite <- (cfg_snoc_nonconf P e E). apply IH. lia.
  Qed.

  (* ---------------------------------------------------------------- counting *)
  Lemma nconf_pos : forall l, 1 <= nconf l -> exists a e, nth_error l a = Some e /\ isconf (snd e) = true.
  Proof.
    induction l as [|x l IH]; intros H; [cbn in H; lia|]. cbn [nconf] in H.
    destruct (isconf (snd x)) eqn:E.
    - exists 0, x. split; [reflexivity|exact E].
    - destruct (IH ltac:(lia)) as (a & e & Ha & He). exists (S a), e. split; assumption.
  Qed.

  Lemma nconf_two_pos : forall l, 2 <= nconf l ->
    exists a b e e', a < b /\ nth_error l a = Some e /\ nth_error l b = Some e' /\
                     isconf (snd e) = true /\ isconf (snd e') = true.
  Proof.
    induction l as [|x l IH]; intros H; [cbn in H; lia|]. cbn [nconf] in H.
    destruct (isconf (snd x)) eqn:E.
    - destruct (nconf_pos l ltac:(lia)) as (b & e' & Hb & He'). exists 0, (S b), x, e'.
      split; [lia|]. split; [reflexivity|]. split; [exact Hb|]. split; assumption.
    - destruct (IH ltac:(lia)) as (a & b & e & e' & Hlt & Ha & Hb & He & He').
      exists (S a), (S b), e, e'. split; [lia|]. split; [exact Ha|]. split; [exact Hb|]. split; assumption.
  Qed.

  Lemma cc_ok_nconf : forall L c, cc_ok L c -> nconf (skipn c L) <= 1.
  Proof.
    intros L c H. destruct (le_lt_dec (nconf (skipn c L)) 1) as [Hle|Hgt]; [exact Hle|]. exfalso.
    destruct (nconf_two_pos _ Hgt) as (a & b & e & e' & Hlt & Ha & Hb & He & He').
    rewrite nth_error_skipn_plus in Ha, Hb.
    pose proof (H (c + a) (c + b) e e' ltac:(lia) Ha Hb He He'). lia.
  Qed.

  Lemma nconf_app : forall a b, nconf (a ++ b) = nconf a + nconf b.
  Proof. induction a as [|x a IH]; intros b; [reflexivity|]. cbn [app nconf]. rewrite IH. lia. Qed.

  Lemma nconf_firstn_le : forall k l, nconf (firstn k l) <= nconf l.
  Proof. intros k l. rewrite <- (firstn_skipn k l) at 2. rewrite nconf_app. lia. Qed.

  (* the configuration of a committed prefix against the configuration of any longer prefix *)
  Lemma cc_ok_adjacent : forall L c j, cc_ok L c -> c <= j ->
    inter_family [cpair (cfg_of boot (firstn c L)); cpair (cfg_of boot (firstn j L))].
  Proof.
    intros L c j H Hj.
    assert (E : firstn j L = firstn c L ++ firstn (j - c) (skipn c L)).
    { apply firstn_seg. exact Hj. }
    rewrite E. apply chain_adjacent.
    pose proof (nconf_firstn_le (j - c) (skipn c L)). pose proof (cc_ok_nconf L c H). lia.
  Qed.

  (* any two prefixes at or beyond c of a log that holds at most one change above c *)
  Lemma cc_ok_adjacent2 : forall L c j1 j2, cc_ok L c -> c <= j1 -> j1 <= j2 ->
    inter_family [cpair (cfg_of boot (firstn j1 L)); cpair (cfg_of boot (firstn j2 L))].
  Proof.
    intros L c j1 j2 H H1 H2.
    assert (E : firstn j2 L = firstn j1 L ++ firstn (j2 - j1) (skipn j1 L)) by (apply firstn_seg; exact H2).
    rewrite E. apply chain_adjacent.
    pose proof (nconf_firstn_le (j2 - j1) (skipn j1 L)). pose proof (cc_ok_nconf L c H).
    assert (Hs : nconf (skipn j1 L) <= nconf (skipn c L)).
    { rewrite <- (firstn_skipn (j1 - c) (skipn c L)). rewrite nconf_app. rewrite skipn_add.
      replace (c + (j1 - c)) with j1 by lia. lia. }
    lia.
  Qed.

  (* the distance analysis of the chain argument, at the level of one log: two prefixes of a log
     are one change apart at most (their quorums intersect), or the log holds two
     configuration-change entries between them *)
  Lemma prefix_distance : forall L c c3, c <= c3 ->
    inter_family [cpair (cfg_of boot (firstn c L)); cpair (cfg_of boot (firstn c3 L))] \/
    exists j1 j2 e1 e2, c <= j1 /\ j1 < j2 /\ j2 < c3 /\
      nth_error L j1 = Some e1 /\ nth_error L j2 = Some e2 /\ isconf (snd e1) = true /\ isconf (snd e2) = true.
  Proof.
    intros L c c3 Hc.
    assert (E : firstn c3 L = firstn c L ++ firstn (c3 - c) (skipn c L)) by (apply firstn_seg; exact Hc).
    destruct (le_lt_dec (nconf (firstn (c3 - c) (skipn c L))) 1) as [Hle|Hgt].
    - left. rewrite E. apply chain_adjacent. exact Hle.
    - right. destruct (nconf_two_pos _ Hgt) as (a & b & e & e' & Hlt & Ha & Hb & He & He').
      assert (Hbl : b < c3 - c).
      { assert (b < length (firstn (c3 - c) (skipn c L))) by (apply nth_error_Some; congruence).
        rewrite firstn_length in H. lia. }
      rewrite nth_error_firstn_lt in Ha, Hb by lia. rewrite nth_error_skipn_plus in Ha, Hb.
      exists (c + a), (c + b), e, e'. repeat split; try assumption; lia.
  Qed.

  (* hence: against a log that holds at most one change above c, a prefix beyond c is adjacent *)
  Corollary prefix_distance_cc_ok : forall L c c3, c <= c3 -> cc_ok L c ->
    inter_family [cpair (cfg_of boot (firstn c L)); cpair (cfg_of boot (firstn c3 L))].
  Proof. intros L c c3 Hc H. apply (cc_ok_adjacent L c c3 H Hc). Qed.
End Chain.

Section Behind.
  Variable F : list (list nat * list nat).
  Hypothesis HF : inter_family F.
  Variable boot : conf.
  Hypothesis Hboot : wfc boot.
  Variable page1 : bool.

  Theorem node_cfg_one_step_behind : forall x, cxreachableF F boot page1 x ->
    forall y j, n_commit (fst (cx_nodes x y)) <= j ->
      inter_family [cpair (node_cfg boot (fst (cx_nodes x y)));
                    cpair (cfg_of boot (firstn j (n_log (fst (cx_nodes x y)))))].
  Proof.
    intros x Hx y j Hj. unfold node_cfg. apply cc_ok_adjacent; [exact Hboot| |exact Hj].
    exact (proj2 (cc_one_sim F HF boot page1 x Hx) y).
  Qed.

  (* all configurations "active" at a node — the one it decides with and those of every longer
     prefix of its log — pairwise intersect *)
  Theorem node_active_family : forall x, cxreachableF F boot page1 x ->
    forall y j1 j2, n_commit (fst (cx_nodes x y)) <= j1 -> j1 <= j2 ->
      inter_family [cpair (cfg_of boot (firstn j1 (n_log (fst (cx_nodes x y)))));
                    cpair (cfg_of boot (firstn j2 (n_log (fst (cx_nodes x y)))))].
  Proof.
    intros x Hx y j1 j2 H1 H2. apply (cc_ok_adjacent2 boot Hboot _ (n_commit (fst (cx_nodes x y)))); try assumption.
    exact (proj2 (cc_one_sim F HF boot page1 x Hx) y).
  Qed.
End Behind.
