(* C15 — basic lemmas for the invariant proofs: quorums of the fixed configuration,
   function updates, stability of the ghost predicates under extension of the history. *)
Require Import List Arith Bool Lia.
Require Import Raft.Quorum Raft.QuorumProofs Raft.RaftModel Raft.RaftSys Raft.RaftLog Raft.RaftInv.
Import ListNotations.

(* ------------------------------------------------------------------ updates *)

Lemma upd_same : forall (A : Type) (f : nat -> A) k v, upd f k v k = v.
Proof. intros A f k v. unfold upd. rewrite Nat.eqb_refl. reflexivity. Qed.

Lemma upd_other : forall (A : Type) (f : nat -> A) k v x, x <> k -> upd f k v x = f x.
Proof. intros A f k v x H. unfold upd. apply Nat.eqb_neq in H. rewrite H. reflexivity. Qed.

Lemma upd2_same : forall (A : Type) (f : nat -> nat -> A) a b v, upd2 f a b v a b = v.
Proof. intros A f a b v. unfold upd2. rewrite !Nat.eqb_refl. reflexivity. Qed.

Lemma upd2_other : forall (A : Type) (f : nat -> nat -> A) a b v x y,
  x <> a \/ y <> b -> upd2 f a b v x y = f x y.
Proof.
  intros A f a b v x y H. unfold upd2.
  destruct (Nat.eqb_spec x a), (Nat.eqb_spec y b); cbn [andb]; try reflexivity. exfalso. destruct H; contradiction.
Qed.

Lemma upd2_cases : forall (A : Type) (f : nat -> nat -> A) a b v x y,
  (x = a /\ y = b /\ upd2 f a b v x y = v) \/ ((x <> a \/ y <> b) /\ upd2 f a b v x y = f x y).
Proof.
  intros A f a b v x y. destruct (Nat.eq_dec x a) as [->|Hx].
  - destruct (Nat.eq_dec y b) as [->|Hy].
    + left. rewrite upd2_same. auto.
    + right. split; [right; exact Hy|]. apply upd2_other. right. exact Hy.
  - right. split; [left; exact Hx|]. apply upd2_other. left. exact Hx.
Qed.

Lemma opt_nat_eqb_eq : forall a b, opt_nat_eqb a b = true <-> a = b.
Proof.
  intros [a|] [b|]; cbn; split; intros H; try discriminate; try reflexivity.
  - apply Nat.eqb_eq in H. subst. reflexivity.
  - injection H as ->. apply Nat.eqb_refl.
Qed.

(* ------------------------------------------------------------------ quorums *)

Section Quorum.
  Variable F : list (list nat * list nat).
  Hypothesis HF : inter_family F.

  Lemma Qr_intro : forall cfg p, In cfg F -> joint_sat (fst cfg) (snd cfg) p -> Qr F p.
  Proof. intros cfg p Hin H. exists cfg. split; assumption. Qed.

  Lemma joint_sat_mono : forall c0 c1 p q, (forall x, p x = true -> q x = true) -> joint_sat c0 c1 p -> joint_sat c0 c1 q.
  Proof.
    intros c0 c1 p q H [H0 H1]. split; (eapply maj_sat_mono; [|eassumption]); intros x _; apply H.
  Qed.

  Lemma Qr_mono : forall p q, (forall x, p x = true -> q x = true) -> Qr F p -> Qr F q.
  Proof.
    intros p q H (cfg & Hin & Hs). exists cfg. split; [exact Hin|]. eapply joint_sat_mono; eassumption.
  Qed.

  Lemma Qr_inter : forall p q, Qr F p -> Qr F q -> exists v, p v = true /\ q v = true.
  Proof.
    intros p q (a & Ha & Hp) (b & Hb & Hq). exact (HF a b Ha Hb p q Hp Hq).
  Qed.

  Lemma Qr_dec : forall p, Qr F p \/ ~ Qr F p.
  Proof.
    intros p. destruct (existsb (fun cfg => joint_satb (fst cfg) (snd cfg) p) F) eqn:E.
    - left. apply existsb_exists in E as (cfg & Hin & Hs). exists cfg. split; [exact Hin|apply joint_satb_spec; exact Hs].
    - right. intros (cfg & Hin & Hs). apply joint_satb_spec in Hs.
      assert (Ht : existsb (fun cfg => joint_satb (fst cfg) (snd cfg) p) F = true) by (apply existsb_exists; exists cfg; split; assumption).
      congruence.
  Qed.

  (* within one configuration: if every member of a quorum satisfies p or fails it *)
  Lemma joint_all_or_witness : forall c0 c1 g p, joint_sat c0 c1 g ->
    joint_sat c0 c1 p \/ exists x, g x = true /\ p x = false.
  Proof.
    intros c0 c1 g p Hg.
    destruct (forallb (fun x => implb (g x) (p x)) (c0 ++ c1)) eqn:Fb.
    - left. rewrite forallb_forall in Fb. destruct Hg as [H0 H1]. split.
      + eapply maj_sat_mono; [|exact H0]. intros x Hx Hgx.
        specialize (Fb x (in_or_app _ _ _ (or_introl Hx))). rewrite Hgx in Fb. exact Fb.
      + eapply maj_sat_mono; [|exact H1]. intros x Hx Hgx.
        specialize (Fb x (in_or_app _ _ _ (or_intror Hx))). rewrite Hgx in Fb. exact Fb.
    - right. clear - Fb. induction (c0 ++ c1) as [|y l IH]; [discriminate|].
      cbn [forallb] in Fb. destruct (implb (g y) (p y)) eqn:E.
      + apply IH. exact Fb.
      + exists y. destruct (g y), (p y); try discriminate. split; reflexivity.
  Qed.

  (* if every member of a quorum satisfies p, or else p already has a quorum, p has a quorum *)
  Lemma Qr_all_or : forall g p,
    Qr F g -> (forall x, g x = true -> p x = true \/ Qr F p) -> Qr F p.
  Proof.
    intros g p (cfg & Hin & Hg) H.
    destruct (joint_all_or_witness (fst cfg) (snd cfg) g p Hg) as [Hp|(x & Hgx & Hpx)].
    - exists cfg. split; assumption.
    - destruct (H x Hgx) as [Hp|Hq]; [congruence|exact Hq].
  Qed.

  Lemma Qr_witness : forall g p, Qr F g -> ~ Qr F p -> exists x, g x = true /\ p x = false.
  Proof.
    intros g p (cfg & Hin & Hg) Hn.
    destruct (joint_all_or_witness (fst cfg) (snd cfg) g p Hg) as [Hp|Hw]; [|exact Hw].
    exfalso. apply Hn. exists cfg. split; assumption.
  Qed.

  (* the family of one non-empty configuration *)
  Lemma inter_family_single : forall c0 c1, c0 <> [] \/ c1 <> [] -> inter_family [(c0, c1)].
  Proof.
    intros c0 c1 Hne a b [<-|[]] [<-|[]] p q Hp Hq. cbn [fst snd] in *.
    destruct (joint_intersect c0 c1 p q Hne Hp Hq) as (v & _ & H). exists v. exact H.
  Qed.
End Quorum.

(* ------------------------------------------------------------------ extension of the history *)

Record ext (s s' : mstate) : Prop := mkExt {
  e_term : forall x, n_term (nodes s x) <= n_term (nodes s' x);
  e_ga : forall x t, ga s x t <= ga s' x t;
  e_ga_frozen : forall x t, t < n_term (nodes s x) -> ga s' x t = ga s x t;
  e_LL : forall t, exists suf, LL s' t = LL s t ++ suf
}.

Lemma ext_refl_like : forall s s',
  (forall x, n_term (nodes s x) <= n_term (nodes s' x)) -> ga s' = ga s -> LL s' = LL s -> ext s s'.
Proof.
  intros s s' Ht Hg Hl. constructor.
  - exact Ht.
  - intros x t. rewrite Hg. lia.
  - intros x t _. rewrite Hg. reflexivity.
  - intros t. exists []. rewrite Hl, app_nil_r. reflexivity.
Qed.

Section Ext.
  Variable F : list (list nat * list nat).
  Variables s s' : mstate.
  Hypothesis E : ext s s'.

  Lemma ext_LL_len : forall t, length (LL s t) <= length (LL s' t).
  Proof. intros t. destruct (e_LL _ _ E t) as (suf & ->). rewrite app_length. lia. Qed.

  Lemma ext_LL_firstn : forall t k, k <= length (LL s t) -> firstn k (LL s' t) = firstn k (LL s t).
  Proof. intros t k H. destruct (e_LL _ _ E t) as (suf & ->). apply firstn_app_le. exact H. Qed.

  Lemma ext_LL_term_at : forall t k, k <= length (LL s t) -> term_at (LL s' t) k = term_at (LL s t) k.
  Proof. intros t k H. destruct (e_LL _ _ E t) as (suf & ->). apply term_at_app_l. exact H. Qed.

  Lemma ext_LL_nonnil : forall t, LL s t <> [] -> LL s' t <> [].
  Proof.
    intros t H. destruct (e_LL _ _ E t) as (suf & ->). destruct (LL s t); [contradiction|discriminate].
  Qed.

  Lemma ext_valid : forall t k, valid s t k -> valid s' t k.
  Proof.
    intros t k [[H1 H2] H3]. pose proof (ext_LL_len t). split; [lia|].
    rewrite ext_LL_term_at by lia. exact H3.
  Qed.

  Lemma ext_valid_back : forall t k, valid s' t k -> k <= length (LL s t) -> valid s t k.
  Proof.
    intros t k [[H1 H2] H3] Hk. split; [lia|]. rewrite <- ext_LL_term_at by lia. exact H3.
  Qed.

  Lemma ext_has : forall L t k, has s L t k -> k <= length (LL s t) -> has s' L t k.
  Proof. intros L t k [H1 H2] Hk. split; [exact H1|]. rewrite ext_LL_firstn by lia. exact H2. Qed.

  Lemma ext_has_back : forall L t k, has s' L t k -> k <= length (LL s t) -> has s L t k.
  Proof. intros L t k [H1 H2] Hk. split; [exact H1|]. rewrite <- ext_LL_firstn by lia. exact H2. Qed.

  Lemma ext_neverp : forall t k x, neverp s t k x = true -> neverp s' t k x = true.
  Proof.
    intros t k x H. unfold neverp, nd in *. apply andb_true_iff in H as [H1 H2].
    apply Nat.ltb_lt in H1. apply Nat.ltb_lt in H2. apply andb_true_iff. split.
    - apply Nat.ltb_lt. pose proof (e_term _ _ E x). lia.
    - apply Nat.ltb_lt. rewrite (e_ga_frozen _ _ E x t H1). exact H2.
  Qed.

  Lemma ext_neverq : forall t k, neverq F s t k -> neverq F s' t k.
  Proof. intros t k H. unfold neverq in *. eapply Qr_mono; [|exact H]. apply ext_neverp. Qed.

  Lemma ext_ackedp : forall t k x, ackedp s t k x = true -> ackedp s' t k x = true.
  Proof.
    intros t k x H. unfold ackedp in *. apply Nat.leb_le in H. apply Nat.leb_le.
    pose proof (e_ga _ _ E x t). lia.
  Qed.

  Lemma ext_committed_at : forall t k, committed_at F s t k -> committed_at F s' t k.
  Proof.
    intros t k [Hv Hq]. split; [apply ext_valid; exact Hv|].
    eapply Qr_mono; [|exact Hq]. apply ext_ackedp.
  Qed.

  Lemma ext_CP : forall t c, CP F s t c -> CP F s' t c.
  Proof.
    intros t c [H1 H2]. split; [pose proof (ext_LL_len t); lia|].
    destruct H2 as [->|(t0 & k0 & Ht & Hc & Hk)]; [left; reflexivity|].
    right. exists t0, k0. split; [exact Ht|]. split; [apply ext_committed_at; exact Hc|exact Hk].
  Qed.

  Lemma ext_has_or_never : forall L t k,
    k <= length (LL s t) -> has s L t k \/ neverq F s t k -> has s' L t k \/ neverq F s' t k.
  Proof.
    intros L t k Hk [H|H]; [left; apply ext_has; assumption|right; apply ext_neverq; exact H].
  Qed.
End Ext.

(* ------------------------------------------------------------------ consequences of Inv *)

Section Cons.
  Variable F : list (list nat * list nat).
  Hypothesis HF : inter_family F.
  Variable s : mstate.
  Hypothesis I : Inv F s.

  Lemma committed_not_never : forall t k, committed_at F s t k -> neverq F s t k -> False.
  Proof.
    intros t k [_ Hq] Hn. destruct (Qr_inter F HF _ _ Hq Hn) as (v & Ha & Hb).
    unfold ackedp in Ha. unfold neverp in Hb. apply Nat.leb_le in Ha.
    apply andb_true_iff in Hb as [_ Hb]. apply Nat.ltb_lt in Hb. lia.
  Qed.

  (* leader completeness, ghost form *)
  Lemma LC : forall t k t3, committed_at F s t k -> t < t3 -> LL s t3 <> [] -> has s (LL s t3) t k.
  Proof.
    intros t k t3 Hc Hlt Hne. destruct (hK7 _ _ I t t3 k Hlt Hne (proj1 Hc)) as [H|H]; [exact H|].
    exfalso. eapply committed_not_never; eassumption.
  Qed.

  Lemma LC_le : forall t k t3, committed_at F s t k -> t <= t3 -> LL s t3 <> [] -> has s (LL s t3) t k.
  Proof.
    intros t k t3 Hc Hle Hne. destruct (Nat.eq_dec t t3) as [->|Hn].
    - split; [exact (proj2 (proj1 (proj1 Hc)))|reflexivity].
    - apply LC; [exact Hc|lia|exact Hne].
  Qed.

  (* a well-formed non-empty log is a prefix of the leader log of its last term *)
  Lemma wf_last : forall L, wf (LL s) L -> L <> [] -> L = firstn (length L) (LL s (last_term L)).
  Proof.
    intros L Hw Hne. assert (Hl : 1 <= length L) by (destruct L; [contradiction|cbn; lia]).
    unfold last_term. rewrite <- (Hw (length L) ltac:(lia)). rewrite firstn_all. reflexivity.
  Qed.

  Lemma wf_in_LL : forall L i, wf (LL s) L -> 1 <= i <= length L ->
    i <= length (LL s (term_at L i)) /\ term_at (LL s (term_at L i)) i = term_at L i.
  Proof.
    intros L i Hw Hi. pose proof (Hw i Hi) as H. split.
    - eapply firstn_len_le; [exact H|lia].
    - symmetry. eapply term_at_agree; [exact H|lia].
  Qed.

  Lemma wf_terms_pos : forall L, wf (LL s) L -> terms_pos L.
  Proof.
    intros L Hw e He. apply In_nth_error in He as (j & Hj).
    assert (Hlt : j < length L) by (apply nth_error_Some; congruence).
    assert (Hi : 1 <= S j <= length L) by lia.
    destruct (wf_in_LL L (S j) Hw Hi) as [Hlen Ht].
    assert (E : term_at L (S j) = fst e) by (rewrite term_at_S, Hj; reflexivity).
    rewrite <- E. rewrite <- Ht. apply terms_pos_term_at; [apply (hW3 _ _ I)|lia].
  Qed.

  Lemma wf_sorted : forall L, wf (LL s) L -> sorted_terms L.
  Proof.
    intros L Hw i j Hi Hij Hj.
    pose proof (Hw j ltac:(lia)) as H.
    destruct (wf_in_LL L j Hw ltac:(lia)) as [Hlen Ht].
    rewrite (term_at_agree L (LL s (term_at L j)) j i H Hij).
    rewrite <- Ht at 2.
    destruct (hW3 _ _ I (term_at L j)) as (_ & _ & Hs). apply Hs; lia.
  Qed.
End Cons.
