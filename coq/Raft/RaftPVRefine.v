(* C15 — PreVote is transparent: every step of the PreVote system (RaftPV.pxstep) is a sequence of
   micro steps of RaftSys.mstep; pre-vote traffic changes no persisted state and its messages carry
   no authority (they are not even part of the micro level's network).  Hence the inductive
   invariant, and with it all safety theorems, hold for every run with Config.PreVote = true. *)
Require Import List Arith Bool Lia.
Require Import Raft.Quorum Raft.QuorumProofs Raft.RaftModel Raft.RaftSys Raft.RaftLog Raft.RaftInv Raft.RaftInvBase
               Raft.RaftInvMain Raft.RaftRefine Raft.RaftStepProps Raft.RaftPV.
Import ListNotations.

Fixpoint base_of (l : list pmsg) : list msg :=
  match l with
  | [] => []
  | PB m :: t => m :: base_of t
  | _ :: t => base_of t
  end.

Lemma base_of_app : forall a b, base_of (a ++ b) = base_of a ++ base_of b.
Proof. induction a as [|[m|? ? ? ? ?|? ? ? ?|? ? ?|? ? ?] a IH]; intros b; cbn; rewrite ?IH; reflexivity. Qed.

Lemma base_of_map : forall l, base_of (map PB l) = l.
Proof. induction l as [|m l IH]; cbn; [reflexivity|rewrite IH; reflexivity]. Qed.

Lemma base_of_in : forall m l, In (PB m) l -> In m (base_of l).
Proof.
  intros m l. induction l as [|[x|? ? ? ? ?|? ? ? ?|? ? ?|? ? ?] l IH]; cbn; intros H; try (destruct H as [H|H]; [discriminate|auto]); [destruct H|].
  destruct H as [H|H]; [injection H as ->; left; reflexivity|right; auto].
Qed.

Section PVRefine.
  Variables c0 c1 : list nat.
  Variable F : list (list nat * list nat).
  Hypothesis HinF : In (c0, c1) F.

  (* ---------------------------------------------------------------- pre-candidates are followers underneath *)
  Definition pre_ok (st : nstate * bool) : Prop := snd st = true -> n_role (fst st) = Follower.

  Lemma step_same_role_follower : forall id m n, n_role n = Follower ->
    n_role (fst (step_same c0 c1 id m n)) = Follower.
  Proof.
    intros id m n Hr. unfold step_same. rewrite Hr.
    destruct (m_type m); try exact Hr.
    - destruct (can_vote m n && is_up_to_date (n_log n) (m_index m) (m_logterm m)); exact Hr.
    - destruct (handle_append_good id m (set_lead (Some (m_from m)) n) Hr) as [_ H]. exact H.
    - unfold handle_heartbeat. destruct (commit_to _ _ _); exact Hr.
    - destruct (handle_snapshot_props id m (set_lead (Some (m_from m)) n) Hr) as [_ H]. exact H.
  Qed.

  Lemma exec_pv_pre_ok : forall id ev st, pre_ok st -> pre_ok (fst (exec_pv c0 c1 id ev st)).
  Proof.
    intros id ev [n pre] Hp. unfold exec_pv, pre_ok in *. cbn [fst snd] in *.
    assert (Hadv : forall n1, n_role n1 = Follower -> n_role (advance c0 c1 id n1) = Follower).
    { intros n1 H. unfold advance. rewrite H. exact H. }
    intros Hpre. apply Hadv. revert Hpre.
    unfold handle_pv. destruct ev as [|p|[m|from to mt lt idx|from to mt rej|from to mt|from to mt]| | |]; cbn [fst snd].
    - unfold hup_pv. destruct (n_role n); try discriminate;
        (destruct (is_voter c0 c1 id); [|discriminate]);
        (destruct (tally c0 c1 (become_precandidate id n)); cbn [fst snd]; try discriminate; intros _; reflexivity).
    - intros H. unfold propose. rewrite (Hp H). exact (Hp H).
    - destruct (m_term m <? n_term n) eqn:E1.
      + destruct (m_type m); cbn [fst snd]; exact Hp.
      + cbn [fst snd]. intros H. apply andb_true_iff in H as [H1 H2]. apply negb_true_iff in H2.
        apply orb_false_iff in H2 as [H2 H3]. unfold step_msg. rewrite H2, E1.
        apply step_same_role_follower. exact (Hp H1).
    - destruct (mt <? n_term n); [exact Hp|].
      destruct ((can_vote_for from n || (n_term n <? mt)) && is_up_to_date (n_log n) idx lt); exact Hp.
    - destruct (mt <? n_term n); [exact Hp|].
      destruct ((n_term n <? mt) && rej); [discriminate|].
      destruct pre; [|exact Hp].
      destruct (tally c0 c1 (record_vote from (negb rej) n)); cbn [fst snd]; try discriminate.
      intros _. unfold record_vote. destruct (n_votes n from); cbn; exact (Hp eq_refl).
    - destruct (mt <? n_term n); [exact Hp|].
      destruct (n_term n <? mt); cbn [fst snd]; [discriminate|].
      destruct (n_role n) eqn:Er; cbn [fst snd].
      + destruct pre; cbn [fst snd]; [intros _; exact Er|discriminate].
      + intros H; pose proof (Hp H) as Hf; discriminate Hf.
      + intros H; pose proof (Hp H) as Hf; discriminate Hf.
    - destruct (n_term n <? mt); cbn [fst snd]; [discriminate|exact Hp].
    - discriminate.
    - exact Hp.
    - destruct (n_role n) eqn:Er; cbn [fst snd]; try discriminate; intros H; pose proof (Hp H) as Hf; congruence.
  Qed.

  (* ---------------------------------------------------------------- one event *)
  Lemma reaches_precandidate : forall s id,
    exists s', reaches F s id (become_precandidate id (nodes s id)) [] s'.
  Proof.
    intros s id. set (n := nodes s id).
    assert (R1 : reaches F s id (become_follower id (n_term n) None n) [] (set_node s id (become_follower id (n_term n) None n))).
    { eapply reaches_step; [apply (M_demote F s id None)|reflexivity|cbn; rewrite app_nil_r; reflexivity]. }
    set (s1 := set_node s id (become_follower id (n_term n) None n)) in *.
    pose proof (proj1 (proj2 R1)) as Hn1.
    assert (R2 : reaches F s1 id (become_precandidate id n) [] (set_node s1 id (set_votes (upd (fun _ => None) id (Some true)) (nodes s1 id)))).
    { eapply reaches_step; [apply (M_setvotes F s1 id); rewrite Hn1; discriminate|rewrite Hn1; reflexivity|cbn; rewrite app_nil_r; reflexivity]. }
    eexists. exact (reaches_trans F s id _ [] s1 _ [] _ R1 R2).
  Qed.

  Lemma reaches_hup_at : forall s id n, nodes s id = n ->
    exists s', reaches F s id (hup c0 c1 id n) [] s'.
  Proof.
    intros s id n Hn. subst n.
    destruct (reaches_handle c0 c1 F HinF s id EvCampaign) as [s' R]; [intros m Hm; discriminate Hm|].
    exists s'. exact R.
  Qed.

  Lemma exec_pv_sim : forall s id ev pre (bag : list pmsg),
    msgs s = base_of bag ->
    (forall m, ev = PvRecv m -> In m bag /\ pmsg_to m = id) ->
    pre_ok (nodes s id, pre) ->
    exists s', reaches F s id (fst (fst (exec_pv c0 c1 id ev (nodes s id, pre))))
                       (base_of (snd (exec_pv c0 c1 id ev (nodes s id, pre)))) s'.
  Proof.
    intros s id ev pre bag Hm Hev Hpre. set (n := nodes s id) in *.
    (* the call *)
    assert (Hcall : exists s1, reaches F s id (fst (fst (handle_pv c0 c1 id ev (n, pre))))
                                   (base_of (snd (handle_pv c0 c1 id ev (n, pre)))) s1).
    { assert (Hnop : exists s1, reaches F s id n (base_of []) s1) by (exists s; apply reaches_refl).
      unfold handle_pv. destruct ev as [|p|[m|from to mt lt idx|from to mt rej|from to mt|from to mt]| | |]; cbn [fst snd].
      - (* campaign *)
        unfold hup_pv. fold n. destruct (n_role n) eqn:Er; cbn [fst]; try exact Hnop;
          (destruct (is_voter c0 c1 id); cbn [fst]; [|exact Hnop]);
          destruct (reaches_precandidate s id) as [s1 R1]; fold n in R1;
          (destruct (tally c0 c1 (become_precandidate id n)); cbn [fst]; try (exists s1; exact R1);
           destruct (reaches_hup_at s1 id _ (proj1 (proj2 R1))) as [s2 R2]; exists s2;
           exact (reaches_trans F s id _ [] s1 _ [] s2 R1 R2)).
      - destruct (reaches_handle c0 c1 F HinF s id (EvPropose p)) as [s1 R1]; [intros m Hm'; discriminate Hm'|].
        exists s1. exact R1.
      - (* a base message *)
        destruct (Hev (PB m) eq_refl) as [Hin Hto]. cbn in Hto.
        assert (Hin' : In m (msgs s)) by (rewrite Hm; apply base_of_in; exact Hin).
        destruct (m_term m <? n_term n) eqn:E1.
        + destruct (m_type m); cbn [fst snd base_of]; try exact Hnop;
            (exists (add_msgs s [reply id MsgAppResp (m_from m) (n_term n) 0 false]);
             split; [apply msteps_one; apply (M_junk F s (reply id MsgAppResp (m_from m) (n_term n) 0 false)); reflexivity|];
             split; [reflexivity|split; reflexivity]).
        + cbn [fst snd]. rewrite base_of_map.
          destruct (reaches_handle c0 c1 F HinF s id (EvRecv m)) as [s1 R1].
          { intros m' Hm'. injection Hm' as <-. split; assumption. }
          exists s1. exact R1.
      - (* a pre-vote request: answered, nothing changes *)
        destruct (mt <? n_term n); [exact Hnop|].
        destruct ((can_vote_for from n || (n_term n <? mt)) && is_up_to_date (n_log n) idx lt); exact Hnop.
      - (* a pre-vote response *)
        destruct (mt <? n_term n); [exact Hnop|].
        destruct ((n_term n <? mt) && rej) eqn:E2; cbn [fst snd base_of].
        + apply andb_true_iff in E2 as [E2 _]. apply Nat.ltb_lt in E2.
          eexists. eapply reaches_step; [apply (M_bump F s id mt None); exact E2|reflexivity|cbn; rewrite app_nil_r; reflexivity].
        + destruct pre; [|exact Hnop].
          set (n1 := record_vote from (negb rej) n).
          assert (R1 : exists s1, reaches F s id n1 [] s1).
          { unfold n1, record_vote. destruct (n_votes n from); [exists s; apply reaches_refl|].
            eexists. pose proof (Hpre eq_refl) as Hrf. cbn [fst] in Hrf.
            eapply reaches_step; [apply (M_setvotes F s id); fold n; rewrite Hrf; discriminate|reflexivity|cbn; rewrite app_nil_r; reflexivity]. }
          destruct R1 as [s1 R1].
          destruct (tally c0 c1 n1); cbn [fst snd base_of].
          * exists s1. exact R1.
          * assert (R2 : reaches F s1 id (become_follower id (n_term n1) None n1) []
                           (set_node s1 id (become_follower id (n_term (nodes s1 id)) None (nodes s1 id)))).
            { eapply reaches_step; [apply (M_demote F s1 id None)|rewrite (proj1 (proj2 R1)); reflexivity|cbn; rewrite app_nil_r; reflexivity]. }
            eexists. exact (reaches_trans F s id _ [] s1 _ [] _ R1 R2).
          * destruct (reaches_hup_at s1 id _ (proj1 (proj2 R1))) as [s2 R2]. exists s2.
            exact (reaches_trans F s id _ [] s1 _ [] s2 R1 R2).
      - (* MsgTimeoutNow *)
        destruct (mt <? n_term n); [exact Hnop|].
        destruct (n_term n <? mt) eqn:E2; cbn [fst snd base_of].
        + apply Nat.ltb_lt in E2.
          assert (R1 : reaches F s id (become_follower id mt None n) [] (set_node s id (become_follower id mt None n))).
          { eapply reaches_step; [apply (M_bump F s id mt None); exact E2|reflexivity|cbn; rewrite app_nil_r; reflexivity]. }
          destruct (reaches_hup_at _ id _ (proj1 (proj2 R1))) as [s2 R2]. exists s2.
          exact (reaches_trans F s id _ [] _ _ [] s2 R1 R2).
        + destruct (n_role n) eqn:Er; cbn [fst snd base_of]; try exact Hnop.
          destruct pre; cbn [fst snd base_of]; [exact Hnop|].
          destruct (reaches_hup_at s id n eq_refl) as [s2 R2]. exists s2. exact R2.
      - (* a forwarded MsgTransferLeader *)
        destruct (n_term n <? mt) eqn:E2; cbn [fst snd base_of]; [|exact Hnop].
        apply Nat.ltb_lt in E2.
        eexists. eapply reaches_step; [apply (M_bump F s id mt None); exact E2|reflexivity|cbn; rewrite app_nil_r; reflexivity].
      - destruct (reaches_handle c0 c1 F HinF s id EvRestart) as [s1 R1]; [intros m Hm'; discriminate Hm'|].
        exists s1. exact R1.
      - exact Hnop.
      - (* CheckQuorum: the leader steps down *)
        fold n. destruct (n_role n); cbn [fst snd base_of]; try exact Hnop.
        eexists. eapply reaches_step; [apply (M_demote F s id None)|reflexivity|cbn; rewrite app_nil_r; reflexivity]. }
    unfold exec_pv. destruct (handle_pv c0 c1 id ev (n, pre)) as [[n1 pre1] out]. cbn [fst snd] in *.
    destruct Hcall as [s1 R1].
    destruct (reaches_advance c0 c1 F HinF s1 id) as [s2 R2]. rewrite (proj1 (proj2 R1)) in R2.
    exists s2. pose proof (reaches_trans F s id n1 _ s1 _ [] s2 R1 R2) as R. rewrite app_nil_r in R. exact R.
  Qed.

  Lemma reaches_emit_pv : forall extra s id pre,
    forallb (emit_pv_okb id (nodes s id, pre)) extra = true ->
    exists s', reaches F s id (nodes s id) (base_of extra) s'.
  Proof.
    induction extra as [|m extra IH]; intros s id pre H.
    - exists s. apply reaches_refl.
    - cbn [forallb] in H. apply andb_true_iff in H as [H1 H2].
      destruct m as [b|from to term lt idx|from to term rej|from to term|from to term]; cbn [base_of].
      + cbn [emit_pv_okb fst] in H1.
        assert (R1 : reaches F s id (nodes s id) [b] (add_msgs s [b])).
        { split; [apply msteps_one; eapply M_emit; exact H1|]. split; [reflexivity|]. split; reflexivity. }
        destruct (IH (add_msgs s [b]) id pre H2) as [s' R2]. exists s'.
        exact (reaches_trans F s id _ [b] _ _ _ s' R1 R2).
      + apply (IH s id pre H2).
      + cbn in H1. discriminate.
      + apply (IH s id pre H2).
      + apply (IH s id pre H2).
  Qed.

  (* ---------------------------------------------------------------- the simulation *)
  Definition pxsim (s : mstate) (x : pxstate) : Prop :=
    (forall y, nodes s y = fst (px_nodes x y)) /\ msgs s = base_of (px_msgs x) /\
    (forall y, pre_ok (px_nodes x y)).

  Theorem pv_sim : forall x, pxreachable c0 c1 x -> exists s, mreachable F s /\ pxsim s x.
  Proof.
    intros x H. induction H as [|x x' Hx [s [Hr [Hn [Hm Hp]]]] Hstep].
    - exists m_init. split; [apply MR_init|]. split; [reflexivity|]. split; [reflexivity|]. intros y H. discriminate H.
    - destruct Hstep as [id ev extra Hev Hemit].
      destruct (px_nodes x id) as [nx pre] eqn:Enode.
      assert (Hnid : nodes s id = nx) by (rewrite Hn, Enode; reflexivity).
      assert (Hpre : pre_ok (nodes s id, pre)) by (rewrite Hnid, <- Enode; apply Hp).
      destruct (exec_pv_sim s id ev pre (px_msgs x) Hm Hev Hpre) as [s1 R1]. rewrite Hnid in R1.
      pose proof (proj1 (proj2 R1)) as Hn1.
      set (st' := fst (exec_pv c0 c1 id ev (nx, pre))) in *.
      assert (Hemit' : forallb (emit_pv_okb id (nodes s1 id, snd st')) extra = true).
      { rewrite Hn1. destruct st'. exact Hemit. }
      destruct (reaches_emit_pv extra s1 id (snd st') Hemit') as [s2 R2]. rewrite Hn1 in R2.
      pose proof (reaches_trans F _ _ _ _ _ _ _ _ R1 R2) as (A1 & A2 & A3 & A4).
      exists s2. split; [eapply msteps_reachable; eassumption|]. split; [|split].
      + intros y. cbn [px_nodes]. destruct (Nat.eq_dec y id) as [->|Hy].
        * rewrite upd_same. exact A2.
        * rewrite upd_other by exact Hy. rewrite A3 by exact Hy. apply Hn.
      + cbn [px_msgs]. rewrite A4, Hm, !base_of_app. reflexivity.
      + intros y. cbn [px_nodes]. destruct (Nat.eq_dec y id) as [->|Hy].
        * rewrite upd_same. apply exec_pv_pre_ok. rewrite <- Enode. apply Hp.
        * rewrite upd_other by exact Hy. apply Hp.
  Qed.
End PVRefine.

(* ------------------------------------------------------------------ safety with PreVote *)
Section PVSafety.
  Variables c0 c1 : list nat.
  Hypothesis Hcfg : c0 <> [] \/ c1 <> [].
  Let F := [(c0, c1)].
  Let HF : inter_family F := inter_family_single c0 c1 Hcfg.
  Let HinF : In (c0, c1) F := or_introl eq_refl.

  Notation nodeof x a := (fst (px_nodes x a)).

  Lemma px_inv : forall x, pxreachable c0 c1 x ->
    exists s, Inv F s /\ (forall y, nodes s y = nodeof x y).
  Proof.
    intros x H. destruct (pv_sim c0 c1 F HinF x H) as (s & Hr & Hn & _). exists s.
    split; [apply (mreachable_inv F HF); exact Hr|exact Hn].
  Qed.

  Theorem pv_election_safety : forall x, pxreachable c0 c1 x ->
    forall a b, n_role (nodeof x a) = Leader -> n_role (nodeof x b) = Leader ->
      n_term (nodeof x a) = n_term (nodeof x b) -> a = b.
  Proof.
    intros x Hx a b Ha Hb Ht. destruct (px_inv x Hx) as (s & I & Hn).
    rewrite <- (Hn a) in Ha, Ht. rewrite <- (Hn b) in Hb, Ht.
    pose proof (hA6b _ _ I a Ha) as La. pose proof (hA6b _ _ I b Hb) as Lb. unfold nd in La, Lb.
    rewrite Ht in La. congruence.
  Qed.

  Theorem pv_log_matching : forall x, pxreachable c0 c1 x ->
    forall a b i, 1 <= i -> i <= length (n_log (nodeof x a)) -> i <= length (n_log (nodeof x b)) ->
      term_at (n_log (nodeof x a)) i = term_at (n_log (nodeof x b)) i ->
      firstn i (n_log (nodeof x a)) = firstn i (n_log (nodeof x b)).
  Proof.
    intros x Hx a b i Hi Ha Hb Ht. destruct (px_inv x Hx) as (s & I & Hn).
    rewrite <- (Hn a) in *. rewrite <- (Hn b) in *.
    apply (wf_match (LL s)); try assumption; try lia; [apply (hW1 _ _ I a)|apply (hW1 _ _ I b)].
  Qed.

  Lemma committed_nonnil' : forall s t k, committed_at F s t k -> LL s t <> [].
  Proof. intros s t k [[[H1 H2] _] _] E. rewrite E in H2. cbn in H2. lia. Qed.

  Theorem pv_state_machine_safety : forall x, pxreachable c0 c1 x ->
    forall a b i, i <= n_commit (nodeof x a) -> i <= n_commit (nodeof x b) ->
      i <= length (n_log (nodeof x a)) /\ i <= length (n_log (nodeof x b)) /\
      firstn i (n_log (nodeof x a)) = firstn i (n_log (nodeof x b)).
  Proof.
    intros x Hx a b i Ha Hb. destruct (px_inv x Hx) as (s & I & Hn).
    rewrite <- (Hn a) in *. rewrite <- (Hn b) in *.
    destruct (hK9 _ _ I a) as [Ha1 Ha2]. destruct (hK9 _ _ I b) as [Hb1 Hb2]. unfold nd in *.
    split; [lia|]. split; [lia|].
    destruct (Nat.eq_dec i 0) as [->|Hi]; [reflexivity|].
    destruct Ha2 as [Hz|(ta & ka & _ & Hca & Hka & Hfa)]; [lia|].
    destruct Hb2 as [Hz|(tb & kb & _ & Hcb & Hkb & Hfb)]; [lia|].
    rewrite (firstn_agree_le _ _ _ _ i Hfa Ha). rewrite (firstn_agree_le _ _ _ _ i Hfb Hb).
    destruct (le_lt_dec ta tb) as [Hle|Hlt].
    - destruct (LC_le F HF s I ta ka tb Hca Hle (committed_nonnil' s tb kb Hcb)) as [_ H].
      symmetry. apply (firstn_agree_le _ _ _ ka); [exact H|lia].
    - destruct (LC_le F HF s I tb kb ta Hcb ltac:(lia) (committed_nonnil' s ta ka Hca)) as [_ H].
      apply (firstn_agree_le _ _ _ kb); [exact H|lia].
  Qed.

  Theorem pv_leader_completeness : forall x, pxreachable c0 c1 x ->
    forall l y, n_role (nodeof x l) = Leader -> n_term (nodeof x y) <= n_term (nodeof x l) ->
      n_commit (nodeof x y) <= length (n_log (nodeof x l)) /\
      firstn (n_commit (nodeof x y)) (n_log (nodeof x l)) = firstn (n_commit (nodeof x y)) (n_log (nodeof x y)).
  Proof.
    intros x Hx l y Hl Ht. destruct (px_inv x Hx) as (s & I & Hn).
    rewrite <- (Hn l) in *. rewrite <- (Hn y) in *.
    destruct (hK9 _ _ I y) as [Hy1 Hy2]. unfold nd in *.
    destruct Hy2 as [Hz|(t0 & k0 & Ht0 & Hc0 & Hk0 & Hf)]; [rewrite Hz; split; [lia|reflexivity]|].
    pose proof (hW5 _ _ I l Hl) as HLL. unfold nd in HLL.
    assert (Hne : LL s (n_term (nodes s l)) <> []) by (apply (hW8 _ _ I _ l); apply (hA6b _ _ I l Hl)).
    destruct (LC_le F HF s I t0 k0 (n_term (nodes s l)) Hc0 ltac:(lia) Hne) as [H1 H2].
    rewrite HLL in H1, H2. split; [lia|]. rewrite Hf. apply (firstn_agree_le _ _ _ k0); assumption.
  Qed.
End PVSafety.
