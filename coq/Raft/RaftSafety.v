(* C15 — the safety theorems, for every state reachable by the executable system
   (RaftSys.xreachable: any schedule of Campaign / Propose / Step(any message ever sent) /
   Tick / crash-restart events, any node count, fixed voter configuration). *)
Require Import List Arith Bool Lia.
Require Import Raft.Quorum Raft.QuorumProofs Raft.RaftModel Raft.RaftSys Raft.RaftLog
               Raft.RaftInv Raft.RaftInvBase Raft.RaftInvMain Raft.RaftRefine.
Import ListNotations.

Section Safety.
  Variables c0 c1 : list nat.
  Hypothesis Hcfg : c0 <> [] \/ c1 <> [].
  (* fixed membership: the family of configurations is the single configuration (c0, c1) *)
  Let F := [(c0, c1)].
  Let HF : inter_family F := inter_family_single c0 c1 Hcfg.
  Let HinF : In (c0, c1) F := or_introl eq_refl.

  Lemma x_inv : forall x, xreachable c0 c1 x ->
    exists s, Inv F s /\ (forall y, nodes s y = x_nodes x y) /\ msgs s = x_msgs x.
  Proof.
    intros x H. destruct (xreachable_sim c0 c1 F HinF x H) as (s & Hr & Hn & Hm).
    exists s. split; [apply (mreachable_inv F HF); exact Hr|split; assumption].
  Qed.

  (* ---------------------------------------------------------------- election safety *)
  Theorem election_safety : forall x, xreachable c0 c1 x ->
    forall a b, n_role (x_nodes x a) = Leader -> n_role (x_nodes x b) = Leader ->
      n_term (x_nodes x a) = n_term (x_nodes x b) -> a = b.
  Proof.
    intros x Hx a b Ha Hb Ht. destruct (x_inv x Hx) as (s & I & Hn & _).
    rewrite <- (Hn a) in Ha, Ht. rewrite <- (Hn b) in Hb, Ht.
    pose proof (hA6b _ _ I a Ha) as La. pose proof (hA6b _ _ I b Hb) as Lb. unfold nd in La, Lb.
    rewrite Ht in La. congruence.
  Qed.

  (* ---------------------------------------------------------------- log matching *)
  Theorem log_matching : forall x, xreachable c0 c1 x ->
    forall a b i, 1 <= i -> i <= length (n_log (x_nodes x a)) -> i <= length (n_log (x_nodes x b)) ->
      term_at (n_log (x_nodes x a)) i = term_at (n_log (x_nodes x b)) i ->
      firstn i (n_log (x_nodes x a)) = firstn i (n_log (x_nodes x b)).
  Proof.
    intros x Hx a b i Hi Ha Hb Ht. destruct (x_inv x Hx) as (s & I & Hn & _).
    rewrite <- (Hn a) in *. rewrite <- (Hn b) in *.
    apply (wf_match (LL s)); try assumption; try lia; [apply (hW1 _ _ I a)|apply (hW1 _ _ I b)].
  Qed.

  (* entries of a log carry non-decreasing terms, none above the holder's term *)
  Theorem log_terms_sorted : forall x, xreachable c0 c1 x ->
    forall a i j, 1 <= i -> i <= j -> j <= length (n_log (x_nodes x a)) ->
      term_at (n_log (x_nodes x a)) i <= term_at (n_log (x_nodes x a)) j /\
      term_at (n_log (x_nodes x a)) j <= n_term (x_nodes x a).
  Proof.
    intros x Hx a i j Hi Hij Hj. destruct (x_inv x Hx) as (s & I & Hn & _). rewrite <- (Hn a) in *.
    split; [apply (wf_sorted F s I _ (hW1 _ _ I a)); assumption|].
    destruct (term_at_in (n_log (nodes s a)) j ltac:(lia)) as (e & He & <-). apply (hW4 _ _ I a e He).
  Qed.

  (* ---------------------------------------------------------------- state machine safety *)
  Lemma committed_valid_nonnil : forall s t k, committed_at F s t k -> LL s t <> [].
  Proof. intros s t k [[[H1 H2] _] _] E. rewrite E in H2. cbn in H2. lia. Qed.

  Lemma committed_prefix_agree : forall s, Inv F s ->
    forall ta ka tb kb i, committed_at F s ta ka -> committed_at F s tb kb -> i <= ka -> i <= kb ->
      firstn i (LL s ta) = firstn i (LL s tb).
  Proof.
    intros s I ta ka tb kb i Ha Hb Hia Hib.
    destruct (le_lt_dec ta tb) as [Hle|Hlt].
    - destruct (LC_le F HF s I ta ka tb Ha Hle (committed_valid_nonnil s tb kb Hb)) as [_ H].
      symmetry. apply (firstn_agree_le _ _ _ ka); assumption.
    - destruct (LC_le F HF s I tb kb ta Hb ltac:(lia) (committed_valid_nonnil s ta ka Ha)) as [_ H].
      apply (firstn_agree_le _ _ _ kb); assumption.
  Qed.

  Theorem state_machine_safety : forall x, xreachable c0 c1 x ->
    forall a b i, i <= n_commit (x_nodes x a) -> i <= n_commit (x_nodes x b) ->
      i <= length (n_log (x_nodes x a)) /\ i <= length (n_log (x_nodes x b)) /\
      firstn i (n_log (x_nodes x a)) = firstn i (n_log (x_nodes x b)).
  Proof.
    intros x Hx a b i Ha Hb. destruct (x_inv x Hx) as (s & I & Hn & _).
    rewrite <- (Hn a) in *. rewrite <- (Hn b) in *.
    destruct (hK9 _ _ I a) as [Ha1 Ha2]. destruct (hK9 _ _ I b) as [Hb1 Hb2]. unfold nd in *.
    split; [lia|]. split; [lia|].
    destruct (Nat.eq_dec i 0) as [->|Hi]; [reflexivity|].
    destruct Ha2 as [Hz|(ta & ka & _ & Hca & Hka & Hfa)]; [lia|].
    destruct Hb2 as [Hz|(tb & kb & _ & Hcb & Hkb & Hfb)]; [lia|].
    rewrite (firstn_agree_le _ _ _ _ i Hfa Ha). rewrite (firstn_agree_le _ _ _ _ i Hfb Hb).
    apply (committed_prefix_agree s I ta ka tb kb); try assumption; lia.
  Qed.

  (* ---------------------------------------------------------------- leader completeness *)
  (* ghost form, micro level: an entry committed in term t (acknowledged by a quorum while it
     was the current-term entry k of the leader of t) is in the log of the leader of every
     later term *)
  Theorem leader_completeness_ghost : forall s, mreachable F s ->
    forall t k t3, committed_at F s t k -> t < t3 -> LL s t3 <> [] ->
      k <= length (LL s t3) /\ firstn k (LL s t3) = firstn k (LL s t).
  Proof.
    intros s Hs t k t3 Hc Hlt Hne. apply (LC F HF s (mreachable_inv F HF s Hs) t k t3 Hc Hlt Hne).
  Qed.

  (* observable form: whoever is leader holds every entry committed by any node whose term
     is not above the leader's term (a stale leader of an old term need not hold what was
     committed later, and can itself commit nothing) *)
  Theorem leader_completeness : forall x, xreachable c0 c1 x ->
    forall l y, n_role (x_nodes x l) = Leader -> n_term (x_nodes x y) <= n_term (x_nodes x l) ->
      n_commit (x_nodes x y) <= length (n_log (x_nodes x l)) /\
      firstn (n_commit (x_nodes x y)) (n_log (x_nodes x l)) = firstn (n_commit (x_nodes x y)) (n_log (x_nodes x y)).
  Proof.
    intros x Hx l y Hl Ht. destruct (x_inv x Hx) as (s & I & Hn & _).
    rewrite <- (Hn l) in *. rewrite <- (Hn y) in *.
    destruct (hK9 _ _ I y) as [Hy1 Hy2]. unfold nd in *.
    destruct Hy2 as [Hz|(t0 & k0 & Ht0 & Hc0 & Hk0 & Hf)]; [rewrite Hz; split; [lia|reflexivity]|].
    pose proof (hW5 _ _ I l Hl) as HLL. unfold nd in HLL.
    assert (Hne : LL s (n_term (nodes s l)) <> []) by (apply (hW8 _ _ I _ l); apply (hA6b _ _ I l Hl)).
    destruct (LC_le F HF s I t0 k0 (n_term (nodes s l)) Hc0 ltac:(lia) Hne) as [H1 H2].
    rewrite HLL in H1, H2. split; [lia|]. rewrite Hf. apply (firstn_agree_le _ _ _ k0); assumption.
  Qed.

  (* what a commit index stands for: it is covered by an index k0 that a quorum acknowledged
     in the very term t0 in which the leader of t0 created entry k0 (never an old-term entry
     counted by replicas) *)
  Theorem commit_justified : forall s, mreachable F s ->
    forall y, n_commit (nodes s y) = 0 \/
      exists t0 k0, t0 <= n_term (nodes s y) /\ n_commit (nodes s y) <= k0 /\
        term_at (LL s t0) k0 = t0 /\ Qr F (ackedp s t0 k0) /\
        firstn (n_commit (nodes s y)) (n_log (nodes s y)) = firstn (n_commit (nodes s y)) (LL s t0).
  Proof.
    intros s Hs y. destruct (hK9 _ _ (mreachable_inv F HF s Hs) y) as [_ [H|(t0 & k0 & H1 & [[_ H2] H3] & H4 & H5)]];
      [left; exact H|right]. exists t0, k0.
    split; [exact H1|split; [exact H4|split; [exact H2|split; [exact H3|exact H5]]]].
  Qed.
End Safety.
