(* C15 — safety statements that speak about steps and about time. *)
Require Import List Arith Bool Lia.
Require Import Raft.Quorum Raft.QuorumProofs Raft.RaftModel Raft.RaftSys Raft.RaftLog
               Raft.RaftInv Raft.RaftInvBase Raft.RaftInvMain Raft.RaftRefine Raft.RaftSafety Raft.RaftStepProps.
Import ListNotations.

Section SafetySteps.
  Variables c0 c1 : list nat.
  Hypothesis Hcfg : c0 <> [] \/ c1 <> [].

  Lemma x_commit_le_len : forall x, xreachable c0 c1 x -> forall y,
    n_commit (x_nodes x y) <= length (n_log (x_nodes x y)).
  Proof.
    intros x Hx y. destruct (x_inv c0 c1 Hcfg x Hx) as (s & I & Hn & _). rewrite <- (Hn y).
    apply (hK9 _ _ _ I y).
  Qed.

  Lemma xstep_nodes : forall x x', xstep c0 c1 x x' ->
    exists id ev, forall y, x_nodes x' y = if y =? id then fst (exec_node c0 c1 id ev (x_nodes x id)) else x_nodes x y.
  Proof. intros x x' H. destruct H as [id ev extra _ _]. exists id, ev. intros y. reflexivity. Qed.

  (* each node's persisted term and commit never regress; the vote only changes together
     with a term increase, or from "none" *)
  Theorem hardstate_monotone : forall x x', xreachable c0 c1 x -> xstep c0 c1 x x' ->
    forall y, n_term (x_nodes x y) <= n_term (x_nodes x' y) /\
              n_commit (x_nodes x y) <= n_commit (x_nodes x' y) /\
              (n_term (x_nodes x' y) = n_term (x_nodes x y) ->
               n_vote (x_nodes x' y) = n_vote (x_nodes x y) \/ n_vote (x_nodes x y) = None).
  Proof.
    intros x x' _ Hs y. destruct (xstep_nodes x x' Hs) as (id & ev & Hn). rewrite Hn.
    destruct (Nat.eqb_spec y id) as [->|Hy]; [|split; [lia|split; [lia|intros _; left; reflexivity]]].
    destruct (exec_node_good c0 c1 id ev (x_nodes x id)) as ((H1 & H2 & H3) & _). cbn zeta in *.
    split; [exact H1|split; [exact H3|exact H2]].
  Qed.

  (* a committed entry is never removed or rewritten on the node that committed it *)
  Theorem committed_prefix_kept : forall x x', xreachable c0 c1 x -> xstep c0 c1 x x' ->
    forall y, firstn (n_commit (x_nodes x y)) (n_log (x_nodes x' y))
              = firstn (n_commit (x_nodes x y)) (n_log (x_nodes x y)).
  Proof.
    intros x x' Hx Hs y. destruct (xstep_nodes x x' Hs) as (id & ev & Hn). rewrite Hn.
    destruct (Nat.eqb_spec y id) as [->|Hy]; [|reflexivity].
    destruct (exec_node_good c0 c1 id ev (x_nodes x id)) as (_ & H & _). cbn zeta in *.
    apply H. apply x_commit_le_len. exact Hx.
  Qed.

  (* a leader advances its commit index only onto an entry of its own current term *)
  Theorem commit_current_term_only : forall x x', xreachable c0 c1 x -> xstep c0 c1 x x' ->
    forall y, n_role (x_nodes x' y) = Leader -> n_commit (x_nodes x y) < n_commit (x_nodes x' y) ->
      term_at (n_log (x_nodes x' y)) (n_commit (x_nodes x' y)) = n_term (x_nodes x' y).
  Proof.
    intros x x' _ Hs y. destruct (xstep_nodes x x' Hs) as (id & ev & Hn). rewrite Hn.
    destruct (Nat.eqb_spec y id) as [->|Hy]; [|intros _ H; lia].
    destruct (exec_node_good c0 c1 id ev (x_nodes x id)) as (_ & _ & H). cbn zeta in *. exact H.
  Qed.

  (* ---- over time *)
  Inductive xsteps (x : xstate) : xstate -> Prop :=
  | XS_refl : xsteps x x
  | XS_trans : forall x1 x2, xsteps x x1 -> xstep c0 c1 x1 x2 -> xsteps x x2.

  Lemma xsteps_reachable : forall x x', xreachable c0 c1 x -> xsteps x x' -> xreachable c0 c1 x'.
  Proof. intros x x' Hx H. induction H as [|x1 x2 _ IH Hs]; [exact Hx|eapply XR_step; eassumption]. Qed.

  Lemma xsteps_kept : forall x x', xreachable c0 c1 x -> xsteps x x' -> forall y,
    n_commit (x_nodes x y) <= n_commit (x_nodes x' y) /\
    firstn (n_commit (x_nodes x y)) (n_log (x_nodes x' y)) = firstn (n_commit (x_nodes x y)) (n_log (x_nodes x y)).
  Proof.
    intros x x' Hx H y. induction H as [|x1 x2 H12 IH Hs]; [split; [lia|reflexivity]|].
    destruct IH as [IH1 IH2]. pose proof (xsteps_reachable x x1 Hx H12) as Hx1.
    destruct (hardstate_monotone x1 x2 Hx1 Hs y) as (_ & Hc & _).
    split; [lia|]. rewrite <- IH2.
    apply (firstn_agree_le _ _ _ (n_commit (x_nodes x1 y))); [|exact IH1].
    apply committed_prefix_kept; assumption.
  Qed.

  (* once index i is committed on some node, every node that ever commits index i — now or at
     any later time, after any crashes and re-elections — holds the same entries up to i *)
  Theorem committed_forever : forall x x', xreachable c0 c1 x -> xsteps x x' ->
    forall a b i, i <= n_commit (x_nodes x a) -> i <= n_commit (x_nodes x' b) ->
      firstn i (n_log (x_nodes x a)) = firstn i (n_log (x_nodes x' b)).
  Proof.
    intros x x' Hx Hs a b i Ha Hb. destruct (xsteps_kept x x' Hx Hs a) as [H1 H2].
    rewrite <- (firstn_agree_le _ _ _ _ i H2 Ha).
    apply (state_machine_safety c0 c1 Hcfg x' (xsteps_reachable x x' Hx Hs) a b i); lia.
  Qed.
End SafetySteps.
