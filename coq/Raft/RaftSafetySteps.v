(* C15 — safety statements that speak about steps and about time. *)
Require Import List Arith Bool Lia.
Require Import Raft.Quorum Raft.QuorumProofs Raft.RaftModel Raft.RaftSys Raft.RaftLog
               Raft.RaftInv Raft.RaftInvBase Raft.RaftInvMain Raft.RaftRefine Raft.RaftSafety Raft.RaftStepProps.
Import ListNotations.

Section SafetySteps.
  Variables c0 c1 : list nat.
  Hypothesis Hcfg : c0 <> [] \/ c1 <> [].
  (* fixed membership: the family of configurations is the single configuration (c0, c1) *)
  Let F := [(c0, c1)].
  Let HF : inter_family F := inter_family_single c0 c1 Hcfg.
  Let HinF : In (c0, c1) F := or_introl eq_refl.

  Lemma x_commit_le_len : forall x, xreachable c0 c1 x -> forall y,
    n_commit (x_nodes x y) <= length (n_log (x_nodes x y)).
  Proof.
    intros x Hx y. destruct (x_inv c0 c1 Hcfg x Hx) as (s & I & Hn & _). rewrite <- (Hn y).
    apply (hK9 _ _ I y).
  Qed.

  Lemma xstep_nodes : forall x x', xstep c0 c1 x x' ->
    exists id ev, forall y, x_nodes x' y = if y =? id then fst (exec_node c0 c1 id ev (x_nodes x id)) else x_nodes x y.
  Proof. intros x x' H. destruct H as [id ev extra _ _]. exists id, ev. intros y. reflexivity. Qed.

  (* each node's persisted term and commit never regress; the vote only changes together
     with a term increase, or from "none" *)
  Theorem hardstate_monotone : forall x x', xreachable c0 c1 x -> xstep c0 c1 x x' ->
    forall y, n_term (x_nodes x y) <= n_term (x_nodes x' y) /\
              n_commit (x_nodes x y) <= n_commit (x_nodes x' y) /\
              (n_term (x_nodes x' y) = n_term (x_nodes x y) ->
               n_vote (x_nodes x' y) = n_vote (x_nodes x y) \/ n_vote (x_nodes x y) = None).
  Proof.
    intros x x' _ Hs y. destruct (xstep_nodes x x' Hs) as (id & ev & Hn). rewrite Hn.
    destruct (Nat.eqb_spec y id) as [->|Hy]; [|split; [lia|split; [lia|intros _; left; reflexivity]]].
    destruct (exec_node_good c0 c1 id ev (x_nodes x id)) as ((H1 & H2 & H3) & _). cbn zeta in *.
    split; [exact H1|split; [exact H3|exact H2]].
  Qed.

  (* what the restore of a snapshot can do to a log *)
  Lemma snap_log_cases : forall id m n, m_type m = MsgSnap ->
    let n' := fst (exec_node c0 c1 id (EvRecv m) n) in
    n_log n' = n_log n \/
    (n_log n' = m_ents m /\ n_term n <= m_term m /\ n_commit n < m_index m).
  Proof.
    intros id m n Hty. unfold exec_node. cbn [handle].
    destruct (step_msg c0 c1 id m n) as [n1 out] eqn:Es. cbn [fst].
    destruct (advance_props c0 c1 id n1) as (_ & _ & Hl & _). cbn zeta in Hl. rewrite Hl.
    assert (Hn1 : n1 = fst (step_msg c0 c1 id m n)) by (rewrite Es; reflexivity). rewrite Hn1. clear Es Hn1 Hl n1 out.
    assert (Hsnap : forall n0, n_log n0 = n_log n -> n_commit n0 = n_commit n ->
              n_log (fst (handle_snapshot id m n0)) = n_log n \/
              (n_log (fst (handle_snapshot id m n0)) = m_ents m /\ n_commit n < m_index m)).
    { intros n0 Hl0 Hc0. unfold handle_snapshot.
      destruct ((m_index m <=? n_commit n0) || m_reject m) eqn:E1; [left; exact Hl0|].
      apply orb_false_iff in E1 as [E1 _]. apply Nat.leb_gt in E1.
      destruct (term_at (n_log n0) (m_index m) =? m_logterm m).
      - destruct (commit_to (n_log n0) (n_commit n0) (m_index m)); left; exact Hl0.
      - right. cbn [fst n_log]. split; [reflexivity|lia]. }
    unfold step_msg. destruct (n_term n <? m_term m) eqn:E1.
    - apply Nat.ltb_lt in E1. unfold step_same. rewrite Hty.
      cbn [become_follower n_role].
      destruct (Hsnap (set_lead (Some (m_from m)) (become_follower id (m_term m) (Some (m_from m)) n))) as [H|[H1 H2]];
        [reflexivity|reflexivity|left; exact H|right; split; [exact H1|split; [lia|exact H2]]].
    - destruct (m_term m <? n_term n) eqn:E2; [left; reflexivity|].
      apply Nat.ltb_ge in E1. apply Nat.ltb_ge in E2. unfold step_same. rewrite Hty.
      destruct (n_role n).
      + destruct (Hsnap (set_lead (Some (m_from m)) n)) as [H|[H1 H2]];
          [reflexivity|reflexivity|left; exact H|right; split; [exact H1|split; [lia|exact H2]]].
      + destruct (Hsnap (become_follower id (n_term n) (Some (m_from m)) n)) as [H|[H1 H2]];
          [reflexivity|reflexivity|left; exact H|right; split; [exact H1|split; [lia|exact H2]]].
      + left. reflexivity.
  Qed.

  (* a committed entry is never removed or rewritten on the node that committed it *)
  Theorem committed_prefix_kept : forall x x', xreachable c0 c1 x -> xstep c0 c1 x x' ->
    forall y, firstn (n_commit (x_nodes x y)) (n_log (x_nodes x' y))
              = firstn (n_commit (x_nodes x y)) (n_log (x_nodes x y)).
  Proof.
    intros x x' Hx Hs y. destruct Hs as [id ev extra Hev _]. cbn [x_nodes].
    destruct (Nat.eq_dec y id) as [->|Hy]; [rewrite upd_same|rewrite upd_other by exact Hy; reflexivity].
    assert (Hsnapdec : not_snap ev \/ exists m, ev = EvRecv m /\ m_type m = MsgSnap).
    { destruct ev as [|p|m| |]; try (left; intros m' Hm'; discriminate Hm').
      destruct (m_type m) eqn:Ety; try (left; intros m' Hm'; injection Hm' as <-; congruence).
      right. exists m. split; [reflexivity|exact Ety]. }
    destruct Hsnapdec as [Hns|(m & -> & Hty)].
    - destruct (exec_node_good c0 c1 id ev (x_nodes x id)) as (_ & H & _). cbn zeta in *.
      apply (H Hns). apply x_commit_le_len. exact Hx.
    - destruct (Hev m eq_refl) as [Hm _].
      destruct (snap_log_cases id m (x_nodes x id) Hty) as [H|(H1 & H2 & H3)]; cbn zeta in *; [rewrite H; reflexivity|].
      rewrite H1.
      destruct (x_inv c0 c1 Hcfg x Hx) as (s & I & Hn & Hmsgs). rewrite <- Hmsgs in Hm. rewrite <- (Hn id) in *.
      destruct (hW13 _ _ I m Hm Hty) as (HXne & Hents & Hlen & _ & _).
      destruct (hK9 _ _ I id) as [H9a H9b]. unfold nd in H9a, H9b.
      rewrite Hents. rewrite firstn_firstn. rewrite Nat.min_l by lia.
      destruct H9b as [Hz|(t0 & k0 & Ht0 & Hc0 & Hk0 & Hf)]; [rewrite Hz; reflexivity|].
      destruct (LC_le F HF s I t0 k0 (m_term m) Hc0 ltac:(lia) HXne) as [_ Hhas].
      rewrite Hf. apply (firstn_agree_le _ _ _ k0); [exact Hhas|exact Hk0].
  Qed.

  (* a leader advances its commit index only onto an entry of its own current term *)
  Theorem commit_current_term_only : forall x x', xreachable c0 c1 x -> xstep c0 c1 x x' ->
    forall y, n_role (x_nodes x' y) = Leader -> n_commit (x_nodes x y) < n_commit (x_nodes x' y) ->
      term_at (n_log (x_nodes x' y)) (n_commit (x_nodes x' y)) = n_term (x_nodes x' y).
  Proof.
    intros x x' _ Hs y. destruct (xstep_nodes x x' Hs) as (id & ev & Hn). rewrite Hn.
    destruct (Nat.eqb_spec y id) as [->|Hy]; [|intros _ H; lia].
    destruct (exec_node_good c0 c1 id ev (x_nodes x id)) as (_ & _ & H). cbn zeta in *. exact H.
  Qed.

  (* ---- over time *)
  Inductive xsteps (x : xstate) : xstate -> Prop :=
  | XS_refl : xsteps x x
  | XS_trans : forall x1 x2, xsteps x x1 -> xstep c0 c1 x1 x2 -> xsteps x x2.

  Lemma xsteps_reachable : forall x x', xreachable c0 c1 x -> xsteps x x' -> xreachable c0 c1 x'.
  Proof. intros x x' Hx H. induction H as [|x1 x2 _ IH Hs]; [exact Hx|eapply XR_step; eassumption]. Qed.

  Lemma xsteps_kept : forall x x', xreachable c0 c1 x -> xsteps x x' -> forall y,
    n_commit (x_nodes x y) <= n_commit (x_nodes x' y) /\
    firstn (n_commit (x_nodes x y)) (n_log (x_nodes x' y)) = firstn (n_commit (x_nodes x y)) (n_log (x_nodes x y)).
  Proof.
    intros x x' Hx H y. induction H as [|x1 x2 H12 IH Hs]; [split; [lia|reflexivity]|].
    destruct IH as [IH1 IH2]. pose proof (xsteps_reachable x x1 Hx H12) as Hx1.
    destruct (hardstate_monotone x1 x2 Hx1 Hs y) as (_ & Hc & _).
    split; [lia|]. rewrite <- IH2.
    apply (firstn_agree_le _ _ _ (n_commit (x_nodes x1 y))); [|exact IH1].
    apply committed_prefix_kept; assumption.
  Qed.

  (* once index i is committed on some node, every node that ever commits index i — now or at
     any later time, after any crashes and re-elections — holds the same entries up to i *)
  Theorem committed_forever : forall x x', xreachable c0 c1 x -> xsteps x x' ->
    forall a b i, i <= n_commit (x_nodes x a) -> i <= n_commit (x_nodes x' b) ->
      firstn i (n_log (x_nodes x a)) = firstn i (n_log (x_nodes x' b)).
  Proof.
    intros x x' Hx Hs a b i Ha Hb. destruct (xsteps_kept x x' Hx Hs a) as [H1 H2].
    rewrite <- (firstn_agree_le _ _ _ _ i H2 Ha).
    apply (state_machine_safety c0 c1 Hcfg x' (xsteps_reachable x x' Hx Hs) a b i); lia.
  Qed.
End SafetySteps.

(* ------------------------------------------------------------------ the winner of a term is stable *)
Section LofStable.
  Variable F : list (list nat * list nat).
  Hypothesis HF : inter_family F.

  (* the recorded winner of a term never changes *)
  Lemma lof_stable_step : forall s s', Inv F s -> mstep F s s' ->
    forall t l, lof s t = Some l -> lof s' t = Some l.
  Proof.
    intros s s' I H t l Hl. destruct H; try exact Hl.
    - (* win *)
      cbn [set_leader_log set_node lof]. destruct (Nat.eq_dec t (n_term (nodes s id))) as [->|Ht];
        [|rewrite upd_other by exact Ht; exact Hl].
      rewrite upd_same. f_equal.
      assert (Hq : Qr F (votedp s (n_term (nodes s id)) id)).
      { match goal with Hw : tally _ _ _ = VoteWon, Hin : In cfg F, Hr : n_role _ = Candidate |- _ =>
          unfold tally in Hw; apply (proj1 (joint_vote_result_spec (fst cfg) (snd cfg) _)) in Hw;
          eapply Qr_mono; [|exact (Qr_intro F cfg _ Hin Hw)]; intros x Hx; unfold granted in Hx; unfold votedp; apply opt_nat_eqb_eq;
          apply (hA5 _ _ I id x Hr); unfold nd; destruct (n_votes (nodes s id) x) as [[|]|]; try discriminate; reflexivity end. }
      pose proof (hA6a _ _ I _ l Hl) as Hq2.
      destruct (Qr_inter F HF _ _ Hq Hq2) as (v & Hv1 & Hv2). unfold votedp in *.
      apply opt_nat_eqb_eq in Hv1. apply opt_nat_eqb_eq in Hv2. congruence.
    - (* propose *)
      cbn [set_leader_log set_node lof]. destruct (Nat.eq_dec t (n_term (nodes s id))) as [->|Ht];
        [|rewrite upd_other by exact Ht; exact Hl].
      rewrite upd_same.
      match goal with Hr : n_role _ = Leader |- _ => pose proof (hA6b _ _ I id Hr) as Hb end. unfold nd in Hb. congruence.
  Qed.

  Lemma lof_stable : forall s s', mreachable F s -> msteps F s s' ->
    forall t l, lof s t = Some l -> lof s' t = Some l.
  Proof.
    intros s s' Hr H. induction H as [|s1 s2 H1 IH Hs]; intros t l Hl; [exact Hl|].
    apply (lof_stable_step s1 s2); [|exact Hs|apply IH; exact Hl].
    apply (mreachable_inv F HF). eapply msteps_reachable; eassumption.
  Qed.
End LofStable.

(* ------------------------------------------------------------------ election safety over time *)
Section ElectionForever.
  Variables c0 c1 : list nat.
  Hypothesis Hcfg : c0 <> [] \/ c1 <> [].
  (* fixed membership: the family of configurations is the single configuration (c0, c1) *)
  Let F := [(c0, c1)].
  Let HF : inter_family F := inter_family_single c0 c1 Hcfg.
  Let HinF : In (c0, c1) F := or_introl eq_refl.

  Lemma xsteps_sim : forall s x x', xsim s x -> xsteps c0 c1 x x' ->
    exists s', msteps F s s' /\ xsim s' x'.
  Proof.
    intros s x x' Hs H. induction H as [|x1 x2 _ [s1 [H1 Hs1]] Hx]; [exists s; split; [apply MS_refl|exact Hs]|].
    destruct (xstep_sim c0 c1 F HinF s1 x1 x2 Hs1 Hx) as (s2 & H2 & Hs2). exists s2.
    split; [eapply msteps_trans; eassumption|exact Hs2].
  Qed.

  (* at most one node is ever leader of a given term: not only simultaneously, but over the
     whole run, across crashes and restarts *)
  Theorem election_safety_forever : forall x x', xreachable c0 c1 x -> xsteps c0 c1 x x' ->
    forall a b, n_role (x_nodes x a) = Leader -> n_role (x_nodes x' b) = Leader ->
      n_term (x_nodes x a) = n_term (x_nodes x' b) -> a = b.
  Proof.
    intros x x' Hx Hsteps a b Ha Hb Ht.
    destruct (xreachable_sim c0 c1 F HinF x Hx) as (s & Hr & Hs).
    destruct (xsteps_sim s x x' Hs Hsteps) as (s' & Hms & Hs').
    pose proof (mreachable_inv F HF s Hr) as I.
    pose proof (mreachable_inv F HF s' (msteps_reachable F s s' Hr Hms)) as I'.
    destruct Hs as [Hn _]. destruct Hs' as [Hn' _].
    rewrite <- (Hn a) in Ha, Ht. rewrite <- (Hn' b) in Hb, Ht.
    pose proof (hA6b _ _ I a Ha) as La. pose proof (hA6b _ _ I' b Hb) as Lb. unfold nd in La, Lb.
    pose proof (lof_stable F HF s s' Hr Hms _ _ La) as La'. rewrite Ht in La'. congruence.
  Qed.
End ElectionForever.
