(* C15 — preservation of the invariant by the steps that do not touch the ghost history:
   (1) adding messages that satisfy the message invariants,
   (2) changing one node without changing its log (bump, demote, setlead, record, ack,
       selfack, commit, heartbeat). *)
Require Import List Arith Bool Lia.
Require Import Raft.Quorum Raft.QuorumProofs Raft.RaftModel Raft.RaftSys Raft.RaftLog Raft.RaftInv Raft.RaftInvBase.
Import ListNotations.

Section Frame.
  Variable F : list (list nat * list nat).
  Hypothesis HF : inter_family F.

  (* ---------------------------------------------------------------- messages *)
  Definition msg_ok (s : mstate) (m : msg) : Prop :=
    (m_type m = MsgVoteResp -> m_reject m = false -> gv s (m_from m) (m_term m) = Some (m_to m)) /\
    (m_type m = MsgApp ->
       LL s (m_term m) <> [] /\
       firstn (m_index m) (LL s (m_term m)) ++ m_ents m
         = firstn (m_index m + length (m_ents m)) (LL s (m_term m)) /\
       m_index m + length (m_ents m) <= length (LL s (m_term m)) /\
       m_logterm m = term_at (LL s (m_term m)) (m_index m) /\
       CP F s (m_term m) (m_commit m)) /\
    (m_type m = MsgVote ->
       n_role (nodes s (m_from m)) = Candidate -> n_term (nodes s (m_from m)) = m_term m ->
       m_index m = length (n_log (nodes s (m_from m))) /\ m_logterm m = last_term (n_log (nodes s (m_from m)))) /\
    (m_type m = MsgAppResp -> m_reject m = false -> m_index m <= ga s (m_from m) (m_term m)) /\
    (m_type m = MsgHeartbeat ->
       m_commit m <= ga s (m_to m) (m_term m) /\ CP F s (m_term m) (m_commit m)) /\
    (m_type m = MsgVote -> m_term m <= n_term (nodes s (m_from m))) /\
    (m_type m = MsgSnap ->
       LL s (m_term m) <> [] /\
       m_ents m = firstn (m_index m) (LL s (m_term m)) /\
       m_index m <= length (LL s (m_term m)) /\
       m_logterm m = term_at (LL s (m_term m)) (m_index m) /\
       CP F s (m_term m) (m_index m)).

  Lemma inv_msg_ok : forall s m, Inv F s -> In m (msgs s) -> msg_ok s m.
  Proof.
    intros s m I Hm. unfold msg_ok. split; [|split; [|split; [|split; [|split; [|split]]]]].
    - intros Ht Hr. apply (hA4 _ _ I); assumption.
    - intros Ht. apply (hW9 _ _ I m Hm Ht).
    - intros Ht Hr Htm. apply (hW10 _ _ I m Hm Ht Hr Htm).
    - intros Ht Hr. apply (hK4 _ _ I); assumption.
    - intros Ht. apply (hK10 _ _ I m Hm Ht).
    - intros Ht. apply (hW12 _ _ I m Hm Ht).
    - intros Ht. apply (hW13 _ _ I m Hm Ht).
  Qed.

  Lemma inv_add_msgs : forall s out,
    Inv F s -> (forall m, In m out -> msg_ok s m) -> Inv F (add_msgs s out).
  Proof.
    intros s out I Hout.
    assert (Hall : forall m, In m (msgs s ++ out) -> msg_ok s m).
    { intros m Hm. apply in_app_or in Hm as [Hm|Hm]; [apply inv_msg_ok; assumption|apply Hout; exact Hm]. }
    destruct I. constructor; try assumption.
    - intros m Hm Ht Hr. exact (proj1 (Hall m Hm) Ht Hr).
    - intros m Hm Ht. exact (proj1 (proj2 (Hall m Hm)) Ht).
    - intros m Hm Ht. exact (proj1 (proj2 (proj2 (Hall m Hm))) Ht).
    - intros m Hm Ht. exact (proj1 (proj2 (proj2 (proj2 (proj2 (proj2 (Hall m Hm)))))) Ht).
    - intros m Hm Ht. exact (proj2 (proj2 (proj2 (proj2 (proj2 (proj2 (Hall m Hm)))))) Ht).
    - intros m Hm Ht Hr. exact (proj1 (proj2 (proj2 (proj2 (Hall m Hm)))) Ht Hr).
    - intros m Hm Ht. exact (proj1 (proj2 (proj2 (proj2 (proj2 (Hall m Hm))))) Ht).
  Qed.

  Lemma harmless_msg_ok : forall s m, harmless m = true -> msg_ok s m.
  Proof.
    intros s m H. unfold harmless in H. unfold msg_ok.
    destruct (m_type m) eqn:Et; try discriminate; repeat split; intros; try discriminate; try congruence.
    apply orb_true_iff in H as [H|H]; [congruence|]. apply Nat.eqb_eq in H. lia.
  Qed.

  (* ---------------------------------------------------------------- one node, same log; votes may be added *)
  Definition set_node_gv (s : mstate) (id : nat) (n' : nstate) (gv' : nat -> nat -> option nat) : mstate :=
    mkM (upd (nodes s) id n') (msgs s) gv' (ga s) (LL s) (lof s).

  Lemma set_node_gv_ext : forall s id n' gv',
    n_term (nodes s id) <= n_term n' -> ext s (set_node_gv s id n' gv').
  Proof.
    intros s id n' gv' H. apply ext_refl_like; try reflexivity.
    intros x. cbn [set_node_gv nodes]. destruct (Nat.eq_dec x id) as [->|Hne].
    - rewrite upd_same. exact H.
    - rewrite upd_other by exact Hne. lia.
  Qed.

  Lemma inv_node_gv : forall s id n' gv',
    Inv F s ->
    let n := nodes s id in
    n_term n <= n_term n' ->
    n_log n' = n_log n ->
    (n_role n' = Follower \/ (n_role n' = n_role n /\ n_term n' = n_term n) \/
     (n_role n' = Candidate /\ n_term n < n_term n')) ->
    (forall x t c, gv s x t = Some c -> gv' x t = Some c) ->
    (forall x t, x <> id -> gv' x t = gv s x t) ->
    (forall t, n_term n' < t -> gv' id t = None) ->
    gv' id (n_term n') = n_vote n' ->
    (forall t c, gv' id t = Some c ->
       gv s id t = Some c \/ (c <> id /\ t <= n_term (nodes s c)) \/ (c = id /\ t <= n_term n')) ->
    (n_role n' = Candidate -> forall x, n_votes n' x = Some true -> gv' x (n_term n') = Some id) ->
    (n_role n' = Leader -> forall x, n_match n' x <= ga s x (n_term n')) ->
    (n_commit n' = n_commit n \/
     (n_commit n' <= length (n_log n') /\
      (n_commit n' = 0 \/
       exists t0 k0, t0 <= n_term n' /\ committed_at F s t0 k0 /\ n_commit n' <= k0 /\
         firstn (n_commit n') (n_log n') = firstn (n_commit n') (LL s t0)))) ->
    (n_role n' = Candidate -> forall x t k, gv' x (n_term n') = Some id -> t < n_term n' ->
       valid s t k -> k <= ga s x t -> has s (n_log n') t k \/ neverq F s t k) ->
    (forall c t k, c <> id -> n_role (nodes s c) = Candidate -> gv' id (n_term (nodes s c)) = Some c ->
       t < n_term (nodes s c) -> valid s t k -> k <= ga s id t ->
       has s (n_log (nodes s c)) t k \/ neverq F s t k) ->
    Inv F (set_node_gv s id n' gv').
  Proof.
    intros s id n' gv' I n Hterm Hlog Hrole Hmono Hother HA1 HA2 HA3 Hvotes Hmatch Hcommit HK8a HK8b.
    set (s' := set_node_gv s id n' gv').
    assert (E : ext s s') by (apply set_node_gv_ext; exact Hterm).
    assert (Hnd : forall x, x <> id -> nodes s' x = nodes s x).
    { intros x Hx. unfold s'. cbn [set_node_gv nodes]. apply upd_other. exact Hx. }
    assert (Hid : nodes s' id = n') by (unfold s'; cbn [set_node_gv nodes]; apply upd_same).
    assert (Hneverq : forall t k, neverq F s t k -> neverq F s' t k) by (intros; eapply ext_neverq; eassumption).
    assert (Hterm' : forall x, n_term (nodes s x) <= n_term (nodes s' x)) by (apply (e_term _ _ E)).
    constructor.
    - (* iA1 *) intros x t Ht. unfold nd in Ht. change (gv' x t = None).
      destruct (Nat.eq_dec x id) as [->|Hx].
      + rewrite Hid in Ht. apply HA1. exact Ht.
      + rewrite Hnd in Ht by exact Hx. rewrite Hother by exact Hx. apply (hA1 _ _ I). exact Ht.
    - (* iA2 *) intros x. unfold nd. change (gv' x (n_term (nodes s' x)) = n_vote (nodes s' x)).
      destruct (Nat.eq_dec x id) as [->|Hx]; [rewrite Hid; exact HA2|].
      rewrite Hnd by exact Hx. rewrite Hother by exact Hx. apply (hA2 _ _ I).
    - (* iA3 *) intros x t c Hg. unfold nd. change (gv' x t = Some c) in Hg.
      assert (Hc : gv s x t = Some c \/ (c <> id /\ t <= n_term (nodes s c)) \/ (c = id /\ t <= n_term n')).
      { destruct (Nat.eq_dec x id) as [->|Hx]; [apply HA3; exact Hg|left; rewrite <- Hother by exact Hx; exact Hg]. }
      destruct Hc as [Hc|[[Hc1 Hc2]|[Hc1 Hc2]]].
      + pose proof (hA3 _ _ I x t c Hc) as H. unfold nd in H. pose proof (Hterm' c). lia.
      + pose proof (Hterm' c). lia.
      + subst c. rewrite Hid. exact Hc2.
    - (* iA4 *) intros m Hm Ht Hr. change (gv' (m_from m) (m_term m) = Some (m_to m)).
      apply Hmono. apply (hA4 _ _ I m Hm Ht Hr).
    - (* iA5 *) intros c x Hr Hv. unfold nd in *. change (gv' x (n_term (nodes s' c)) = Some c).
      destruct (Nat.eq_dec c id) as [->|Hc].
      + rewrite Hid in *. apply Hvotes; assumption.
      + rewrite Hnd in * by exact Hc. apply Hmono. apply (hA5 _ _ I); assumption.
    - (* iA6a *) intros t l Hl. change (lof s t = Some l) in Hl.
      eapply Qr_mono; [|exact (hA6a _ _ I t l Hl)].
      intros x Hx. unfold votedp in *. apply opt_nat_eqb_eq in Hx. apply opt_nat_eqb_eq.
      change (gv' x t = Some l). apply Hmono. exact Hx.
    - (* iA6b *) intros l Hr. unfold nd in *. change (lof s (n_term (nodes s' l)) = Some l).
      destruct (Nat.eq_dec l id) as [->|Hl].
      + rewrite Hid in *. destruct Hrole as [Hf|[[Hr' Ht']|[Hr' _]]]; [congruence| |congruence].
        rewrite Ht'. apply (hA6b _ _ I). unfold nd. fold n. congruence.
      + rewrite Hnd in * by exact Hl. apply (hA6b _ _ I). exact Hr.
    - (* iA7 *) intros t l Hlof Ht. unfold nd in *. change (lof s t = Some l) in Hlof.
      destruct (Nat.eq_dec l id) as [->|Hl].
      + rewrite Hid in *. destruct Hrole as [Hf|[[Hr' Ht']|[Hr' Ht']]]; [congruence| |].
        * rewrite Hr'. apply (hA7 _ _ I t id Hlof). unfold nd. fold n. lia.
        * (* a fresh candidate in a term somebody already won: impossible *)
          exfalso. pose proof (hA6a _ _ I t id Hlof) as Hq.
          destruct (Qr_inter F HF _ _ Hq Hq) as (v & Hv & _).
          unfold votedp in Hv. apply opt_nat_eqb_eq in Hv.
          pose proof (hA3 _ _ I v t id Hv) as H. unfold nd in H. fold n in H. lia.
      + rewrite Hnd in * by exact Hl. apply (hA7 _ _ I t l Hlof Ht).
    - (* iA8 *) intros x Hr. unfold nd in *.
      destruct (Nat.eq_dec x id) as [->|Hx].
      + rewrite Hid in *. destruct Hrole as [Hf|[[Hr' Ht']|[Hr' Ht']]]; [congruence| |lia].
        rewrite Ht'. apply (hA8 _ _ I id). unfold nd. fold n. congruence.
      + rewrite Hnd in * by exact Hx. apply (hA8 _ _ I x Hr).
    - (* iW1 *) intros x. unfold nd. change (wf (LL s) (n_log (nodes s' x))).
      destruct (Nat.eq_dec x id) as [->|Hx]; [rewrite Hid, Hlog|rewrite Hnd by exact Hx]; apply (hW1 _ _ I).
    - exact (hW2 _ _ I).
    - exact (hW3 _ _ I).
    - (* iW4 *) intros x e He. unfold nd in *.
      destruct (Nat.eq_dec x id) as [->|Hx].
      + rewrite Hid in *. rewrite Hlog in He. pose proof (hW4 _ _ I id e He) as H. unfold nd in H. fold n in H. lia.
      + rewrite Hnd in * by exact Hx. apply (hW4 _ _ I x e He).
    - (* iW5 *) intros x Hr. unfold nd in *. change (LL s (n_term (nodes s' x)) = n_log (nodes s' x)).
      destruct (Nat.eq_dec x id) as [->|Hx].
      + rewrite Hid in *. destruct Hrole as [Hf|[[Hr' Ht']|[Hr' _]]]; [congruence| |congruence].
        rewrite Ht', Hlog. apply (hW5 _ _ I id). unfold nd. fold n. congruence.
      + rewrite Hnd in * by exact Hx. apply (hW5 _ _ I x Hr).
    - exact (hW7 _ _ I).
    - exact (hW8 _ _ I).
    - exact (hW9 _ _ I).
    - (* iW10 *) intros m Hm Ht Hr Htm. unfold nd in *. change (In m (msgs s)) in Hm.
      destruct (Nat.eq_dec (m_from m) id) as [Hx|Hx].
      + rewrite Hx in *. rewrite Hid in *.
        pose proof (hW12 _ _ I m Hm Ht) as H12. unfold nd in H12. rewrite Hx in H12. fold n in H12.
        destruct Hrole as [Hf|[[Hr' Ht']|[Hr' Ht']]]; [congruence| |lia].
        rewrite Hlog. pose proof (hW10 _ _ I m Hm Ht) as H. unfold nd in H. rewrite Hx in H. fold n in H.
        apply H; congruence.
      + rewrite Hnd in * by exact Hx. apply (hW10 _ _ I m Hm Ht Hr Htm).
    - (* iW11 *) intros x Hr e He. unfold nd in *.
      destruct (Nat.eq_dec x id) as [->|Hx].
      + rewrite Hid in *. rewrite Hlog in He. destruct Hrole as [Hf|[[Hr' Ht']|[Hr' Ht']]]; [congruence| |].
        * rewrite Ht'. apply (hW11 _ _ I id); [unfold nd; fold n; congruence|exact He].
        * pose proof (hW4 _ _ I id e He) as H. unfold nd in H. fold n in H. lia.
      + rewrite Hnd in * by exact Hx. apply (hW11 _ _ I x Hr e He).
    - (* iW12 *) intros m Hm Ht. unfold nd. change (In m (msgs s)) in Hm.
      pose proof (hW12 _ _ I m Hm Ht) as H. unfold nd in H. pose proof (Hterm' (m_from m)). lia.
    - exact (hW13 _ _ I).
    - exact (hK1 _ _ I).
    - (* iK2 *) intros x t Hg. unfold nd. change (0 < ga s x t) in Hg.
      pose proof (hK2 _ _ I x t Hg) as H. unfold nd in H. pose proof (Hterm' x). lia.
    - (* iK3 *) intros x. unfold nd.
      change (ga s x (n_term (nodes s' x)) <= length (n_log (nodes s' x)) /\
              firstn (ga s x (n_term (nodes s' x))) (n_log (nodes s' x))
              = firstn (ga s x (n_term (nodes s' x))) (LL s (n_term (nodes s' x)))).
      destruct (Nat.eq_dec x id) as [->|Hx]; [rewrite Hid|rewrite Hnd by exact Hx; apply (hK3 _ _ I)].
      destruct (Nat.eq_dec (n_term n') (n_term n)) as [Et|Et].
      + rewrite Et, Hlog. apply (hK3 _ _ I id).
      + assert (Hz : ga s id (n_term n') = 0).
        { destruct (ga s id (n_term n')) eqn:Eg; [reflexivity|].
          pose proof (hK2 _ _ I id (n_term n') ltac:(lia)) as H. unfold nd in H. fold n in H. lia. }
        rewrite Hz. split; [lia|reflexivity].
    - exact (hK4 _ _ I).
    - (* iK5 *) intros l x Hr. unfold nd in *. change (n_match (nodes s' l) x <= ga s x (n_term (nodes s' l))).
      destruct (Nat.eq_dec l id) as [->|Hl].
      + rewrite Hid in *. apply Hmatch. exact Hr.
      + rewrite Hnd in * by exact Hl. apply (hK5 _ _ I l x Hr).
    - (* iK6 *) intros x t k Hv Hk. change (valid s t k) in Hv. change (k <= ga s x t) in Hk.
      assert (Hl : n_log (nd s' x) = n_log (nd s x)).
      { unfold nd. destruct (Nat.eq_dec x id) as [->|Hx]; [rewrite Hid; exact Hlog|rewrite Hnd by exact Hx; reflexivity]. }
      rewrite Hl. destruct (hK6 _ _ I x t k Hv Hk) as [H|H]; [left; exact H|right; apply Hneverq; exact H].
    - (* iK7 *) intros t t3 k Hlt Hne Hv. destruct (hK7 _ _ I t t3 k Hlt Hne Hv) as [H|H]; [left; exact H|right; apply Hneverq; exact H].
    - (* iK8 *) intros c x t k Hr Hg Ht Hv Hk. unfold nd in *.
      change (gv' x (n_term (nodes s' c)) = Some c) in Hg. change (valid s t k) in Hv. change (k <= ga s x t) in Hk.
      assert (Hold : has s (n_log (nodes s' c)) t k \/ neverq F s t k).
      { destruct (Nat.eq_dec c id) as [->|Hc].
        - rewrite Hid in *. apply (HK8a Hr x t k); assumption.
        - rewrite Hnd in * by exact Hc. destruct (Nat.eq_dec x id) as [->|Hx].
          + apply (HK8b c t k); assumption.
          + rewrite Hother in Hg by exact Hx. apply (hK8 _ _ I c x t k); assumption. }
      destruct Hold as [H|H]; [left; exact H|right; apply Hneverq; exact H].
    - (* iK9 *) intros x. unfold nd.
      destruct (Nat.eq_dec x id) as [->|Hx]; [rewrite Hid|rewrite Hnd by exact Hx; apply (hK9 _ _ I)].
      destruct Hcommit as [Ec|Hc]; [|exact Hc].
      rewrite Ec, Hlog. destruct (hK9 _ _ I id) as [H1 H2]. unfold nd in H1, H2. fold n in H1, H2.
      split; [exact H1|]. destruct H2 as [H2|(t0 & k0 & Ht0 & Hc0 & Hk0 & Hf)]; [left; exact H2|].
      right. exists t0, k0. split; [lia|]. split; [exact Hc0|]. split; [exact Hk0|exact Hf].
    - exact (hK10 _ _ I).
    - (* iK11 *) intros l Hr. unfold nd in *. change (ga s l (n_term (nodes s' l)) = length (n_log (nodes s' l))).
      destruct (Nat.eq_dec l id) as [->|Hl].
      + rewrite Hid in *. destruct Hrole as [Hf|[[Hr' Ht']|[Hr' _]]]; [congruence| |congruence].
        rewrite Ht', Hlog. apply (hK11 _ _ I id). unfold nd. fold n. congruence.
      + rewrite Hnd in * by exact Hl. apply (hK11 _ _ I l Hr).
  Qed.

  (* the special case without new votes *)
  Lemma inv_gsame : forall s id n',
    Inv F s ->
    let n := nodes s id in
    n_term n <= n_term n' ->
    n_log n' = n_log n ->
    ((n_term n' = n_term n /\ n_vote n' = n_vote n) \/ (n_term n < n_term n' /\ n_vote n' = None)) ->
    (n_role n' = Follower \/ (n_role n' = n_role n /\ n_term n' = n_term n)) ->
    (n_role n' = Candidate -> forall x, n_votes n' x = Some true -> gv s x (n_term n') = Some id) ->
    (n_role n' = Leader -> forall x, n_match n' x <= ga s x (n_term n')) ->
    (n_commit n' = n_commit n \/
     (n_commit n' <= length (n_log n') /\
      (n_commit n' = 0 \/
       exists t0 k0, t0 <= n_term n' /\ committed_at F s t0 k0 /\ n_commit n' <= k0 /\
         firstn (n_commit n') (n_log n') = firstn (n_commit n') (LL s t0)))) ->
    Inv F (set_node s id n').
  Proof.
    intros s id n' I n Hterm Hlog Hvote Hrole Hvotes Hmatch Hcommit.
    change (set_node s id n') with (set_node_gv s id n' (gv s)).
    apply inv_node_gv; try assumption; fold n.
    - destruct Hrole as [H|H]; [left; exact H|right; left; exact H].
    - intros x t c H. exact H.
    - intros x t _. reflexivity.
    - intros t Ht. apply (hA1 _ _ I). unfold nd. fold n. lia.
    - destruct Hvote as [[Et Ev]|[Et Ev]].
      + rewrite Et, Ev. apply (hA2 _ _ I).
      + rewrite Ev. apply (hA1 _ _ I). exact Et.
    - intros t c H. left. exact H.
    - intros Hr x t k Hg Ht Hv Hk. destruct Hrole as [Hf|[Hr' Ht']]; [congruence|].
      rewrite Hlog. apply (hK8 _ _ I id x t k); unfold nd; fold n; try assumption; try congruence; try lia.
    - intros c t k Hc Hr Hg Ht Hv Hk. apply (hK8 _ _ I c id t k); assumption.
  Qed.
End Frame.
