(* C15 — the executable trace checker (extracted to OCaml) and its soundness.

   The validator keeps a model state [xstate].  For every event observed on the real
   cluster (event, node, messages the node emitted, projection of the node's state after
   the event) [check_step] runs the model's handler, requires that
     - a delivered message was sent before and is addressed to the node,
     - every reply the model computes was emitted by the implementation,
     - every other emitted message is allowed by [emit_okb] in the new state,
     - the new state of the model equals the observed projection
       (term, vote, commit, role, lead, log),
   and returns the next model state.  [check_step_sound]: an accepted step is a step of the
   transition relation [xstep], so every accepted trace prefix is a reachable state and the
   safety theorems apply to it.  [safety_okb] re-evaluates the safety predicates on a global
   state; [safety_okb_reachable] shows it is implied by the theorems. *)
Require Import List Arith Bool Lia.
Require Import Raft.Quorum Raft.RaftModel Raft.RaftSys Raft.RaftLog Raft.RaftInvBase
               Raft.RaftSafety.
Import ListNotations.

Record nproj : Type := mkP {
  p_term : nat; p_vote : option nat; p_commit : nat; p_role : role; p_lead : option nat; p_log : elog
}.

Definition proj_of (n : nstate) : nproj :=
  mkP (n_term n) (n_vote n) (n_commit n) (n_role n) (n_lead n) (n_log n).

Definition proj_eqb (a b : nproj) : bool :=
  (p_term a =? p_term b) && opt_nat_eqb (p_vote a) (p_vote b) && (p_commit a =? p_commit b)
  && role_eqb (p_role a) (p_role b) && opt_nat_eqb (p_lead a) (p_lead b) && log_eqb (p_log a) (p_log b).

Definition memb (m : msg) (l : list msg) : bool := existsb (msg_eqb m) l.
Definition memb_msg := memb.

Inductive verdict : Type :=
| VOk (x' : xstate)
| VBadEvent                 (* delivered message never sent / wrong addressee *)
| VMissingReply (m : msg)   (* the model replies with m, the implementation did not *)
| VBadEmit (m : msg)        (* the implementation sent a message the model forbids *)
| VStateMismatch (expected : nproj).

Section Check.
  Variables c0 c1 : list nat.

  Definition ev_okb (x : xstate) (id : nat) (ev : event) : bool :=
    match ev with
    | EvRecv m => memb m (x_msgs x) && (m_to m =? id)
    | _ => true
    end.

  Definition check_step (x : xstate) (id : nat) (ev : event) (obs_out : list msg) (obs : nproj) : verdict :=
    let r := exec_node c0 c1 id ev (x_nodes x id) in
    let n' := fst r in
    let replies := snd r in
    let extra := filter (fun m => negb (memb m replies)) obs_out in
    if negb (ev_okb x id ev) then VBadEvent
    else match find (fun m => negb (memb m obs_out)) replies with
         | Some m => VMissingReply m
         | None =>
             match find (fun m => negb (emit_okb id n' m)) extra with
             | Some m => VBadEmit m
             | None =>
                 if proj_eqb (proj_of n') obs
                 then VOk (mkX (upd (x_nodes x) id n') (x_msgs x ++ replies ++ extra))
                 else VStateMismatch (proj_of n')
             end
         end.

  (* ---- safety predicates on a global state, for a list of node ids *)
  Definition all_pairs (ids : list nat) (f : nat -> nat -> bool) : bool :=
    forallb (fun a => forallb (fun b => f a b) ids) ids.

  Definition election_okb (x : xstate) (a b : nat) : bool :=
    implb (role_eqb (n_role (x_nodes x a)) Leader && role_eqb (n_role (x_nodes x b)) Leader
           && (n_term (x_nodes x a) =? n_term (x_nodes x b))) (a =? b).

  Definition matching_okb (x : xstate) (a b : nat) : bool :=
    let la := n_log (x_nodes x a) in
    let lb := n_log (x_nodes x b) in
    forallb (fun i => implb ((i <=? length lb) && (term_at la i =? term_at lb i))
                            (log_eqb (firstn i la) (firstn i lb)))
            (seq 1 (length la)).

  Definition sms_okb (x : xstate) (a b : nat) : bool :=
    let c := Nat.min (n_commit (x_nodes x a)) (n_commit (x_nodes x b)) in
    (c <=? length (n_log (x_nodes x a))) && (c <=? length (n_log (x_nodes x b)))
    && log_eqb (firstn c (n_log (x_nodes x a))) (firstn c (n_log (x_nodes x b))).

  Definition lc_okb (x : xstate) (l y : nat) : bool :=
    implb (role_eqb (n_role (x_nodes x l)) Leader && (n_term (x_nodes x y) <=? n_term (x_nodes x l)))
          ((n_commit (x_nodes x y) <=? length (n_log (x_nodes x l)))
           && log_eqb (firstn (n_commit (x_nodes x y)) (n_log (x_nodes x l)))
                      (firstn (n_commit (x_nodes x y)) (n_log (x_nodes x y)))).

  Definition safety_okb (ids : list nat) (x : xstate) : bool :=
    all_pairs ids (election_okb x) && all_pairs ids (matching_okb x)
    && all_pairs ids (sms_okb x) && all_pairs ids (lc_okb x).

  (* per-step predicates between the state of a node before and after an event *)
  Definition step_okb (n n' : nstate) : bool :=
    (n_term n <=? n_term n') && (n_commit n <=? n_commit n')
    && implb (n_term n' =? n_term n) (opt_nat_eqb (n_vote n') (n_vote n) || opt_nat_eqb (n_vote n) None)
    && log_eqb (firstn (n_commit n) (n_log n')) (firstn (n_commit n) (n_log n))
    && implb (role_eqb (n_role n') Leader && (n_commit n <? n_commit n'))
             (term_at (n_log n') (n_commit n') =? n_term n').
End Check.

(* ------------------------------------------------------------------ soundness *)

Lemma role_eqb_eq : forall a b, role_eqb a b = true <-> a = b.
Proof. intros [] []; cbn; split; intros H; try discriminate; reflexivity. Qed.

Lemma mtype_eqb_eq : forall a b, mtype_eqb a b = true <-> a = b.
Proof. intros [] []; cbn; split; intros H; try discriminate; reflexivity. Qed.

Lemma msg_eqb_eq : forall a b, msg_eqb a b = true -> a = b.
Proof.
  intros [t1 f1 o1 tm1 lt1 i1 e1 c1 r1] [t2 f2 o2 tm2 lt2 i2 e2 c2 r2] H. unfold msg_eqb in H. cbn in H.
  destruct (mtype_eqb t1 t2) eqn:E1; [|discriminate]. apply mtype_eqb_eq in E1.
  destruct (f1 =? f2) eqn:E2; [|discriminate]. apply Nat.eqb_eq in E2.
  destruct (o1 =? o2) eqn:E3; [|discriminate]. apply Nat.eqb_eq in E3.
  destruct (tm1 =? tm2) eqn:E4; [|discriminate]. apply Nat.eqb_eq in E4.
  destruct (i1 =? i2) eqn:E5; [|discriminate]. apply Nat.eqb_eq in E5.
  destruct (lt1 =? lt2) eqn:E6; [|discriminate]. apply Nat.eqb_eq in E6.
  destruct (c1 =? c2) eqn:E7; [|discriminate]. apply Nat.eqb_eq in E7.
  destruct (Bool.eqb r1 r2) eqn:E8; [|discriminate]. apply eqb_prop in E8.
  apply log_eqb_eq in H. subst. reflexivity.
Qed.

Lemma memb_In : forall m l, memb m l = true -> In m l.
Proof.
  intros m l H. unfold memb in H. apply existsb_exists in H as (y & Hy & E).
  apply msg_eqb_eq in E. subst. exact Hy.
Qed.

Lemma find_none_forallb : forall (A : Type) (f : A -> bool) l, find f l = None -> forallb (fun x => negb (f x)) l = true.
Proof.
  intros A f l. induction l as [|x l IH]; [reflexivity|]. cbn [find forallb].
  destruct (f x) eqn:E; [discriminate|]. intros H. cbn. apply IH. exact H.
Qed.

Theorem check_step_sound : forall c0 c1 x id ev obs_out obs x',
  check_step c0 c1 x id ev obs_out obs = VOk x' -> xstep c0 c1 x x'.
Proof.
  intros c0 c1 x id ev obs_out obs x' H. unfold check_step in H.
  destruct (negb (ev_okb x id ev)) eqn:Eev; [discriminate|]. apply negb_false_iff in Eev.
  destruct (find (fun m => negb (memb m obs_out)) (snd (exec_node c0 c1 id ev (x_nodes x id)))); [discriminate|].
  destruct (find (fun m => negb (emit_okb id (fst (exec_node c0 c1 id ev (x_nodes x id))) m))
                 (filter (fun m => negb (memb m (snd (exec_node c0 c1 id ev (x_nodes x id))))) obs_out)) eqn:Ef; [discriminate|].
  destruct (proj_eqb _ obs); [|discriminate]. injection H as <-.
  apply XStep.
  - intros m ->. cbn [ev_okb] in Eev. apply andb_true_iff in Eev as [E1 E2].
    split; [apply memb_In; exact E1|apply Nat.eqb_eq; exact E2].
  - apply find_none_forallb in Ef. rewrite forallb_forall in Ef. apply forallb_forall.
    intros m Hm. specialize (Ef m Hm). apply negb_true_iff in Ef. apply negb_false_iff in Ef. exact Ef.
Qed.

(* an accepted step leaves the model in the state the implementation was observed in *)
Theorem check_step_state : forall c0 c1 x id ev obs_out obs x',
  check_step c0 c1 x id ev obs_out obs = VOk x' ->
  proj_eqb (proj_of (x_nodes x' id)) obs = true /\ (forall y, y <> id -> x_nodes x' y = x_nodes x y).
Proof.
  intros c0 c1 x id ev obs_out obs x' H. unfold check_step in H.
  destruct (negb (ev_okb x id ev)); [discriminate|].
  destruct (find (fun m => negb (memb m obs_out)) (snd (exec_node c0 c1 id ev (x_nodes x id)))); [discriminate|].
  destruct (find (fun m => negb (emit_okb id (fst (exec_node c0 c1 id ev (x_nodes x id))) m))
                 (filter (fun m => negb (memb m (snd (exec_node c0 c1 id ev (x_nodes x id))))) obs_out)); [discriminate|].
  destruct (proj_eqb _ obs) eqn:E; [|discriminate]. injection H as <-. cbn [x_nodes]. split.
  - rewrite upd_same. exact E.
  - intros y Hy. apply upd_other. exact Hy.
Qed.

(* the safety predicates evaluated by the checker are the proved ones *)
Section CheckSafety.
  Variables c0 c1 : list nat.
  Hypothesis Hcfg : c0 <> [] \/ c1 <> [].

  Lemma all_pairs_intro : forall ids f, (forall a b, f a b = true) -> all_pairs ids f = true.
  Proof.
    intros ids f H. unfold all_pairs. apply forallb_forall. intros a _. apply forallb_forall. intros b _. apply H.
  Qed.

  Theorem safety_okb_reachable : forall ids x, xreachable c0 c1 x -> safety_okb ids x = true.
  Proof.
    intros ids x Hx. unfold safety_okb. repeat (apply andb_true_iff; split); apply all_pairs_intro; intros a b.
    - unfold election_okb. destruct (_ && _ && _) eqn:E; [|reflexivity]. cbn [implb].
      apply andb_true_iff in E as [E E3]. apply andb_true_iff in E as [E1 E2].
      apply role_eqb_eq in E1. apply role_eqb_eq in E2. apply Nat.eqb_eq in E3. apply Nat.eqb_eq.
      apply (election_safety c0 c1 Hcfg x Hx a b E1 E2 E3).
    - unfold matching_okb. apply forallb_forall. intros i Hi. apply in_seq in Hi.
      destruct (_ && _) eqn:E; [|reflexivity]. cbn [implb]. apply andb_true_iff in E as [E1 E2].
      apply Nat.leb_le in E1. apply Nat.eqb_eq in E2. apply log_eqb_eq.
      apply (log_matching c0 c1 Hcfg x Hx a b i); try lia; exact E2.
    - unfold sms_okb.
      destruct (state_machine_safety c0 c1 Hcfg x Hx a b (Nat.min (n_commit (x_nodes x a)) (n_commit (x_nodes x b))))
        as (H1 & H2 & H3); try lia.
      repeat (apply andb_true_iff; split); [apply Nat.leb_le; exact H1|apply Nat.leb_le; exact H2|apply log_eqb_eq; exact H3].
    - unfold lc_okb. destruct (_ && _) eqn:E; [|reflexivity]. cbn [implb]. apply andb_true_iff in E as [E1 E2].
      apply role_eqb_eq in E1. apply Nat.leb_le in E2.
      destruct (leader_completeness c0 c1 Hcfg x Hx a b E1 E2) as [H1 H2].
      apply andb_true_iff. split; [apply Nat.leb_le; exact H1|apply log_eqb_eq; exact H2].
  Qed.
End CheckSafety.

(* ------------------------------------------------------------------ running the model on a schedule *)
Section Run.
  Variables c0 c1 : list nat.

  Definition model_step (x : xstate) (id : nat) (ev : event) (extra : list msg) : option xstate :=
    let r := exec_node c0 c1 id ev (x_nodes x id) in
    if ev_okb x id ev && forallb (emit_okb id (fst r)) extra
    then Some (mkX (upd (x_nodes x) id (fst r)) (x_msgs x ++ snd r ++ extra))
    else None.

  Fixpoint run (x : xstate) (tr : list (nat * event * list msg)) : option xstate :=
    match tr with
    | [] => Some x
    | (id, ev, extra) :: t =>
        match model_step x id ev extra with
        | Some x' => run x' t
        | None => None
        end
    end.

  Lemma model_step_sound : forall x id ev extra x', model_step x id ev extra = Some x' -> xstep c0 c1 x x'.
  Proof.
    intros x id ev extra x' H. unfold model_step in H.
    destruct (ev_okb x id ev && forallb (emit_okb id (fst (exec_node c0 c1 id ev (x_nodes x id)))) extra) eqn:E; [|discriminate].
    injection H as <-. apply andb_true_iff in E as [E1 E2]. apply XStep; [|exact E2].
    intros m ->. cbn [ev_okb] in E1. apply andb_true_iff in E1 as [A B].
    split; [apply memb_In; exact A|apply Nat.eqb_eq; exact B].
  Qed.

  Lemma run_reachable : forall tr x x', xreachable c0 c1 x -> run x tr = Some x' -> xreachable c0 c1 x'.
  Proof.
    induction tr as [|[[id ev] extra] t IH]; intros x x' Hx H; cbn [run] in H.
    - injection H as <-. exact Hx.
    - destruct (model_step x id ev extra) as [x1|] eqn:E; [|discriminate].
      apply (IH x1 x'); [|exact H]. eapply XR_step; [exact Hx|]. eapply model_step_sound. exact E.
  Qed.
End Run.
