(* C15 — the executable trace checker for runs WITH membership changes (extracted) and its
   soundness with respect to the transition relation RaftCC.cxstep.  Same acceptance rule as
   RaftCheck.check_step, plus: the configuration the model derives for the node (incoming voters,
   outgoing voters, AutoLeave) must equal the one the implementation reports. *)
Require Import List Arith Bool Lia.
Require Import Raft.Quorum Raft.RaftModel Raft.RaftSys Raft.RaftLog Raft.RaftInvBase Raft.RaftCheck Raft.RaftCC.
Import ListNotations.

Fixpoint natlist_eqb (a b : list nat) : bool :=
  match a, b with
  | [], [] => true
  | x :: a', y :: b' => (x =? y) && natlist_eqb a' b'
  | _, _ => false
  end.

Definition conf_eqb (a b : conf) : bool :=
  natlist_eqb (c_in a) (c_in b) && natlist_eqb (c_out a) (c_out b) && Bool.eqb (c_auto a) (c_auto b)
  && natlist_eqb (c_learn a) (c_learn b).

Inductive cverdict : Type :=
| CVOk (x' : cxstate)
| CVBadEvent
| CVMissingReply (m : msg)
| CVBadEmit (m : msg)
| CVStateMismatch (expected : nproj) (expected_cfg : conf).

Section CheckCC.
  Variable boot : conf.
  Variable page1 : bool.

  Definition cev_okb (x : cxstate) (id : nat) (ev : cevent) : bool :=
    match ev with
    | CEv (EvRecv m) => memb_msg m (cx_msgs x) && (m_to m =? id)
    | _ => true
    end.

  Definition check_step_cc (x : cxstate) (id : nat) (ev : cevent) (obs_out : list msg)
             (obs : nproj) (obs_cfg : conf) : cverdict :=
    let r := exec_cce boot page1 id ev (cx_nodes x id) in
    let n' := fst (fst r) in
    let replies := snd r in
    let extra := filter (fun m => negb (memb_msg m replies)) obs_out in
    if negb (cev_okb x id ev) then CVBadEvent
    else match find (fun m => negb (memb_msg m obs_out)) replies with
         | Some m => CVMissingReply m
         | None =>
             match find (fun m => negb (emit_cc_okb id n' m)) extra with
             | Some m => CVBadEmit m
             | None =>
                 if proj_eqb (proj_of n') obs && conf_eqb (node_cfg boot n') obs_cfg
                 then CVOk (mkCX (upd (cx_nodes x) id (fst r)) (cx_msgs x ++ replies ++ extra))
                 else CVStateMismatch (proj_of n') (node_cfg boot n')
             end
         end.

  Theorem check_step_cc_sound : forall x id ev obs_out obs obs_cfg x',
    check_step_cc x id ev obs_out obs obs_cfg = CVOk x' -> cxstep boot page1 x x'.
  Proof.
    intros x id ev obs_out obs obs_cfg x' H. unfold check_step_cc in H.
    destruct (negb (cev_okb x id ev)) eqn:Eev; [discriminate|]. apply negb_false_iff in Eev.
    destruct (find (fun m => negb (memb_msg m obs_out)) (snd (exec_cce boot page1 id ev (cx_nodes x id)))); [discriminate|].
    destruct (find (fun m => negb (emit_cc_okb id (fst (fst (exec_cce boot page1 id ev (cx_nodes x id)))) m))
                   (filter (fun m => negb (memb_msg m (snd (exec_cce boot page1 id ev (cx_nodes x id))))) obs_out)) eqn:Ef; [discriminate|].
    destruct (proj_eqb _ obs && conf_eqb _ obs_cfg); [|discriminate]. injection H as <-.
    apply CXStep.
    - intros m ->. cbn [cev_okb] in Eev. apply andb_true_iff in Eev as [E1 E2].
      split; [apply memb_In; exact E1|apply Nat.eqb_eq; exact E2].
    - apply find_none_forallb in Ef. rewrite forallb_forall in Ef. apply forallb_forall.
      intros m Hm. specialize (Ef m Hm). apply negb_true_iff in Ef. apply negb_false_iff in Ef. exact Ef.
  Qed.
End CheckCC.

(* ------------------------------------------------------------------ running the model on a schedule *)
Section RunCC.
  Variable boot : conf.
  Variable page1 : bool.

  Definition model_step_cc (x : cxstate) (id : nat) (ev : cevent) (extra : list msg) : option cxstate :=
    let r := exec_cce boot page1 id ev (cx_nodes x id) in
    if cev_okb x id ev && forallb (emit_cc_okb id (fst (fst r))) extra
    then Some (mkCX (upd (cx_nodes x) id (fst r)) (cx_msgs x ++ snd r ++ extra))
    else None.

  Fixpoint run_cc (x : cxstate) (tr : list (nat * cevent * list msg)) : option cxstate :=
    match tr with
    | [] => Some x
    | (id, ev, extra) :: t =>
        match model_step_cc x id ev extra with
        | Some x' => run_cc x' t
        | None => None
        end
    end.

  Lemma model_step_cc_sound : forall x id ev extra x', model_step_cc x id ev extra = Some x' -> cxstep boot page1 x x'.
  Proof.
    intros x id ev extra x' H. unfold model_step_cc in H.
    destruct (cev_okb x id ev && forallb (emit_cc_okb id (fst (fst (exec_cce boot page1 id ev (cx_nodes x id))))) extra) eqn:E; [|discriminate].
    injection H as <-. apply andb_true_iff in E as [E1 E2]. apply CXStep; [|exact E2].
    intros m ->. cbn [cev_okb] in E1. apply andb_true_iff in E1 as [A B].
    split; [apply memb_In; exact A|apply Nat.eqb_eq; exact B].
  Qed.

  Lemma run_cc_reachable : forall tr x x', cxreachable boot page1 x -> run_cc x tr = Some x' -> cxreachable boot page1 x'.
  Proof.
    induction tr as [|[[id ev] extra] t IH]; intros x x' Hx H; cbn [run_cc] in H.
    - injection H as <-. exact Hx.
    - destruct (model_step_cc x id ev extra) as [x1|] eqn:E; [|discriminate].
      apply (IH x1 x'); [|exact H]. eapply CXR_step; [exact Hx|]. eapply model_step_cc_sound. exact E.
  Qed.
End RunCC.
