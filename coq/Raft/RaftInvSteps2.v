(* C15 — emit, campaign and grant preserve the invariant.  [step_grant] contains the
   up-to-date argument of leader completeness. *)
Require Import List Arith Bool Lia.
Require Import Raft.Quorum Raft.QuorumProofs Raft.RaftModel Raft.RaftSys Raft.RaftLog
               Raft.RaftInv Raft.RaftInvBase Raft.RaftInvFrame.
Import ListNotations.

Section Steps2.
  Variable F : list (list nat * list nat).
  Hypothesis HF : inter_family F.

  (* ---------------------------------------------------------------- emit *)
  Lemma leader_CP : forall s id c,
    Inv F s -> n_role (nodes s id) = Leader -> c <= n_commit (nodes s id) ->
    CP F s (n_term (nodes s id)) c.
  Proof.
    intros s id c I Hr Hc. pose proof (hW5 _ _ I id Hr) as HLL. unfold nd in HLL.
    destruct (hK9 _ _ I id) as [H1 H2]. unfold nd in H1, H2.
    split; [rewrite HLL; lia|].
    destruct H2 as [H2|(t0 & k0 & Ht0 & Hc0 & Hk0 & _)]; [left; lia|].
    right. exists t0, k0. split; [exact Ht0|]. split; [exact Hc0|lia].
  Qed.

  Lemma step_emit : forall s id m,
    Inv F s -> emit_okb id (nodes s id) m = true -> Inv F (add_msgs s [m]).
  Proof.
    intros s id m I H. apply inv_add_msgs; [exact I|]. intros m' [<-|[]].
    unfold emit_okb in H. apply andb_true_iff in H as [H Hty]. apply andb_true_iff in H as [Hfrom Hterm].
    apply Nat.eqb_eq in Hfrom. apply Nat.eqb_eq in Hterm.
    set (n := nodes s id) in *.
    unfold msg_ok. destruct (m_type m) eqn:Et; try discriminate.
    - (* MsgVote *)
      apply andb_true_iff in Hty as [Hty Hlt]. apply andb_true_iff in Hty as [_ Hidx].
      apply Nat.eqb_eq in Hidx. apply Nat.eqb_eq in Hlt.
      split; [intros H0; discriminate H0|]. split; [intros H0; discriminate H0|].
      split; [|split; [intros H0; discriminate H0|split; [intros H0; discriminate H0|split; [|intros H0; discriminate H0]]]].
      + intros _ Hr Htm. rewrite Hfrom. fold n. split; assumption.
      + intros _. rewrite Hfrom. fold n. lia.
    - (* MsgApp *)
      split; [intros H0; discriminate H0|]. split; [|split; [intros H0; discriminate H0|split; [intros H0; discriminate H0|split; [intros H0; discriminate H0|split; intros H0; discriminate H0]]]].
      intros _.
      apply andb_true_iff in Hty as [Hty Hcm]. apply andb_true_iff in Hty as [Hty Hseg].
      apply andb_true_iff in Hty as [Hrole Hlt].
      assert (Hr : n_role n = Leader) by (destruct (n_role n); try discriminate; reflexivity).
      apply Nat.eqb_eq in Hlt. apply Nat.leb_le in Hcm.
      destruct (is_segment_spec _ _ _ Hseg) as [Hs1 Hs2].
      pose proof (hW5 _ _ I id Hr) as HLL. unfold nd in HLL. fold n in HLL.
      rewrite Hterm. rewrite HLL.
      split; [|split; [exact Hs1|split; [exact Hs2|split; [exact Hlt|]]]].
      + rewrite <- HLL. apply (hW8 _ _ I _ id). apply (hA6b _ _ I id Hr).
      + apply leader_CP; assumption.
    - (* MsgHeartbeat *)
      split; [intros H0; discriminate H0|]. split; [intros H0; discriminate H0|].
      split; [intros H0; discriminate H0|]. split; [intros H0; discriminate H0|]. split; [|split; intros H0; discriminate H0].
      intros _.
      apply andb_true_iff in Hty as [Hrole Hcm].
      assert (Hr : n_role n = Leader) by (destruct (n_role n); try discriminate; reflexivity).
      apply Nat.leb_le in Hcm. rewrite Hterm. split.
      + pose proof (hK5 _ _ I id (m_to m) Hr) as H5. unfold nd in H5. fold n in H5. lia.
      + apply leader_CP; [assumption|assumption|fold n; lia].
    - (* MsgSnap *)
      split; [intros H0; discriminate H0|]. split; [intros H0; discriminate H0|].
      split; [intros H0; discriminate H0|]. split; [intros H0; discriminate H0|].
      split; [intros H0; discriminate H0|]. split; [intros H0; discriminate H0|].
      intros _.
      apply andb_true_iff in Hty as [Hty Hents]. apply andb_true_iff in Hty as [Hty Hlt].
      apply andb_true_iff in Hty as [Hrole Hidx].
      assert (Hr : n_role n = Leader) by (destruct (n_role n); try discriminate; reflexivity).
      apply Nat.leb_le in Hidx. apply Nat.eqb_eq in Hlt. apply log_eqb_eq in Hents.
      pose proof (hW5 _ _ I id Hr) as HLL. unfold nd in HLL. fold n in HLL.
      destruct (hK9 _ _ I id) as [H9 _]. unfold nd in H9. fold n in H9.
      rewrite Hterm. rewrite HLL.
      split; [|split; [exact Hents|split; [lia|split; [exact Hlt|]]]].
      + rewrite <- HLL. apply (hW8 _ _ I _ id). apply (hA6b _ _ I id Hr).
      + apply leader_CP; assumption.
  Qed.

  (* ---------------------------------------------------------------- campaign *)
  Lemma step_campaign : forall s id,
    Inv F s -> n_role (nodes s id) <> Leader ->
    Inv F (set_gv (set_node s id (record_vote id true (become_candidate id (nodes s id))))
                      id (S (n_term (nodes s id))) id).
  Proof.
    intros s id I Hnl. set (n := nodes s id) in *. set (t := n_term n).
    set (n' := record_vote id true (become_candidate id n)).
    assert (En' : n' = set_votes (upd (fun _ => None) id (Some true)) (become_candidate id n)) by reflexivity.
    set (gv' := upd2 (gv s) id (S t) (Some id)).
    change (Inv F (set_node_gv s id n' gv')).
    assert (Hnone : gv s id (S t) = None) by (apply (hA1 _ _ I); unfold nd; fold n; fold t; lia).
    apply inv_node_gv; try assumption; fold n; unfold n', record_vote; cbn [set_votes become_candidate n_term n_log n_vote n_role n_commit n_votes n_match]; fold t.
    - lia.
    - reflexivity.
    - right. right. split; [reflexivity|lia].
    - intros x t' c H. unfold gv'. destruct (upd2_cases _ (gv s) id (S t) (Some id) x t') as [(-> & -> & _)|[_ ->]]; [congruence|exact H].
    - intros x t' Hx. unfold gv'. apply upd2_other. left. exact Hx.
    - intros t' Ht'. unfold gv'. rewrite upd2_other by (right; lia). apply (hA1 _ _ I). unfold nd. fold n. fold t. lia.
    - unfold gv'. apply upd2_same.
    - intros t' c H. unfold gv' in H. destruct (upd2_cases _ (gv s) id (S t) (Some id) id t') as [(_ & -> & E)|[_ E]]; rewrite E in H.
      + injection H as <-. right. right. split; [reflexivity|lia].
      + left. exact H.
    - intros _ x Hv. destruct (Nat.eq_dec x id) as [->|Hx].
      + unfold gv'. apply upd2_same.
      + rewrite upd_other in Hv by exact Hx. discriminate.
    - discriminate.
    - left. reflexivity.
    - intros _ x t' k Hg Ht' Hv Hk.
      assert (x = id).
      { destruct (Nat.eq_dec x id) as [->|Hx]; [reflexivity|].
        unfold gv' in Hg. rewrite upd2_other in Hg by (left; exact Hx).
        pose proof (hA3 _ _ I x (S t) id Hg) as H. unfold nd in H. fold n in H. fold t in H. lia. }
      subst x. apply (hK6 _ _ I id t' k Hv Hk).
    - intros c t' k Hc Hr Hg Ht' Hv Hk. unfold gv' in Hg.
      destruct (upd2_cases _ (gv s) id (S t) (Some id) id (n_term (nodes s c))) as [(_ & _ & E)|[_ E]]; rewrite E in Hg.
      + congruence.
      + apply (hK8 _ _ I c id t' k); assumption.
  Qed.

  (* ---------------------------------------------------------------- grant *)
  Lemma is_up_to_date_spec : forall l lasti term,
    is_up_to_date l lasti term = true ->
    last_term l < term \/ (term = last_term l /\ length l <= lasti).
  Proof.
    intros l lasti term H. unfold is_up_to_date, last_index in H. apply orb_true_iff in H as [H|H].
    - left. apply Nat.ltb_lt. exact H.
    - right. apply andb_true_iff in H as [H1 H2]. apply Nat.eqb_eq in H1. apply Nat.leb_le in H2. split; assumption.
  Qed.

  (* the log of a candidate that is at least as up to date as a log holding (t,k) holds (t,k) too,
     unless (t,k) can never be committed *)
  Lemma up_to_date_has : forall s Lx Lc t k tc,
    Inv F s -> wf (LL s) Lx -> wf (LL s) Lc -> terms_lt Lc tc ->
    valid s t k -> has s Lx t k ->
    (last_term Lx < last_term Lc \/ (last_term Lc = last_term Lx /\ length Lx <= length Lc)) ->
    has s Lc t k \/ neverq F s t k.
  Proof.
    intros s Lx Lc t k tc I HwX HwC Hlt [[Hk1 Hk2] Hkt] [HkX HX] Hup.
    assert (HtX : term_at Lx k = t) by (rewrite (term_at_agree Lx (LL s t) k k HX ltac:(lia)); exact Hkt).
    assert (Htpos : 1 <= t).
    { rewrite <- Hkt. apply terms_pos_term_at; [apply (hW3 _ _ I)|lia]. }
    assert (HlastX : t <= last_term Lx).
    { rewrite <- HtX. unfold last_term. apply (wf_sorted F s I Lx HwX); lia. }
    set (t5 := last_term Lc) in *.
    assert (Ht5 : t <= t5) by lia.
    assert (HlenC : 1 <= length Lc).
    { assert (H : 1 <= length Lc <= length Lc) by (apply term_at_range; fold (last_term Lc); fold t5; lia). lia. }
    assert (HCne : Lc <> []) by (destruct Lc; [cbn in HlenC; lia|discriminate]).
    pose proof (HwC (length Lc) ltac:(lia)) as HCpre. fold (last_term Lc) in HCpre. fold t5 in HCpre.
    destruct (Nat.eq_dec t5 t) as [E5|N5].
    - (* same last term: the candidate's log is a longer prefix of LL t *)
      left. assert (Hlen : length Lx <= length Lc) by lia.
      split; [lia|]. rewrite <- E5. apply (firstn_agree_le _ _ _ (length Lc)); [exact HCpre|lia].
    - (* later last term t5: its leader holds (t,k), or (t,k) is dead *)
      destruct (wf_in_LL s Lc (length Lc) HwC ltac:(lia)) as [HlenLL HtLL].
      fold (last_term Lc) in HlenLL, HtLL. fold t5 in HlenLL, HtLL.
      assert (HLLne : LL s t5 <> []) by (intros E0; rewrite E0 in HlenLL; cbn in HlenLL; lia).
      destruct (hK7 _ _ I t t5 k ltac:(lia) HLLne (conj (conj Hk1 Hk2) Hkt)) as [[Hk5 H5]|Hn]; [|right; exact Hn].
      left.
      assert (Htk5 : term_at (LL s t5) k = t) by (rewrite (term_at_agree _ _ k k H5 ltac:(lia)); exact Hkt).
      assert (HkC : k <= length Lc).
      { destruct (le_lt_dec k (length Lc)) as [Hle|Hgt]; [exact Hle|exfalso].
        destruct (hW3 _ _ I t5) as (_ & _ & Hs).
        pose proof (Hs (length Lc) k ltac:(lia) ltac:(lia) Hk5) as Hmono. lia. }
      split; [exact HkC|].
      rewrite (firstn_agree_le _ _ _ _ _ HCpre HkC). exact H5.
  Qed.

  Lemma step_grant : forall s id m,
    Inv F s ->
    In m (msgs s) -> m_type m = MsgVote -> m_to m = id -> m_term m = n_term (nodes s id) ->
    can_vote m (nodes s id) = true ->
    is_up_to_date (n_log (nodes s id)) (m_index m) (m_logterm m) = true ->
    Inv F (set_gv (add_msgs (set_node s id (set_vote (Some (m_from m)) (nodes s id)))
                                [reply id MsgVoteResp (m_from m) (m_term m) 0 false])
                      id (m_term m) (m_from m)).
  Proof.
    intros s id m I Hm Hty Hto Htm Hcan Hup. set (n := nodes s id) in *. set (t := n_term n) in *.
    set (n' := set_vote (Some (m_from m)) n).
    set (gv' := upd2 (gv s) id (m_term m) (Some (m_from m))).
    change (Inv F (add_msgs (set_node_gv s id n' gv') [reply id MsgVoteResp (m_from m) (m_term m) 0 false])).
    assert (Hold : gv s id t = None \/ gv s id t = Some (m_from m)).
    { pose proof (hA2 _ _ I id) as H2. unfold nd in H2. fold n in H2. fold t in H2. rewrite H2.
      unfold can_vote in Hcan. fold n in Hcan. apply orb_true_iff in Hcan as [Hc|Hc].
      - right. apply opt_nat_eqb_eq. exact Hc.
      - left. apply andb_true_iff in Hc as [Hc _]. apply opt_nat_eqb_eq. exact Hc. }
    apply inv_add_msgs.
    - apply inv_node_gv; try assumption; fold n; unfold n'; cbn [set_vote n_term n_log n_vote n_role n_commit n_votes n_match]; fold t.
      + lia.
      + reflexivity.
      + right. left. split; reflexivity.
      + intros x t' c H. unfold gv'. rewrite Htm.
        destruct (upd2_cases _ (gv s) id t (Some (m_from m)) x t') as [(-> & -> & E)|[_ E]]; rewrite E; [|exact H].
        destruct Hold as [Ho|Ho]; congruence.
      + intros x t' Hx. unfold gv'. apply upd2_other. left. exact Hx.
      + intros t' Ht'. unfold gv'. rewrite Htm. rewrite upd2_other by (right; lia). apply (hA1 _ _ I). unfold nd. fold n. fold t. lia.
      + unfold gv'. rewrite Htm. apply upd2_same.
      + intros t' c H. unfold gv' in H. rewrite Htm in H.
        destruct (upd2_cases _ (gv s) id t (Some (m_from m)) id t') as [(_ & -> & E)|[_ E]]; rewrite E in H; [|left; exact H].
        injection H as <-. right. destruct (Nat.eq_dec (m_from m) id) as [Ef|Nf].
        * right. split; [exact Ef|lia].
        * left. split; [exact Nf|]. pose proof (hW12 _ _ I m Hm Hty) as H12. unfold nd in H12. lia.
      + intros Hr x Hv. unfold gv'. rewrite Htm.
        pose proof (hA5 _ _ I id x Hr Hv) as H5. unfold nd in H5. fold n in H5. fold t in H5.
        destruct (upd2_cases _ (gv s) id t (Some (m_from m)) x t) as [(-> & _ & E)|[_ E]]; rewrite E; [|exact H5].
        destruct Hold as [Ho|Ho]; congruence.
      + intros Hr x. apply (hK5 _ _ I id x Hr).
      + left. reflexivity.
      + (* id is itself a candidate *)
        intros Hr x t' k Hg Ht' Hv Hk.
        destruct (Nat.eq_dec x id) as [->|Hx].
        * apply (hK6 _ _ I id t' k Hv Hk).
        * unfold gv' in Hg. rewrite upd2_other in Hg by (left; exact Hx).
          apply (hK8 _ _ I id x t' k); unfold nd; fold n; fold t; assumption.
      + (* id votes for the candidate c *)
        intros c t' k Hc Hr Hg Ht' Hv Hk. unfold gv' in Hg. rewrite Htm in Hg.
        destruct (upd2_cases _ (gv s) id t (Some (m_from m)) id (n_term (nodes s c))) as [(_ & Etc & E)|[_ E]]; rewrite E in Hg;
          [|apply (hK8 _ _ I c id t' k); assumption].
        injection Hg as Hfc.
        (* the vote request describes c's current log *)
        pose proof (hW10 _ _ I m Hm Hty) as H10. unfold nd in H10. rewrite Hfc in H10.
        destruct (H10 Hr ltac:(lia)) as [Hidx Hlt].
        destruct (hK6 _ _ I id t' k Hv Hk) as [Hhas|Hn]; [|right; exact Hn]. unfold nd in Hhas. fold n in Hhas.
        apply (up_to_date_has s (n_log n) (n_log (nodes s c)) t' k (n_term (nodes s c))); try assumption.
        * apply (hW1 _ _ I id).
        * apply (hW1 _ _ I c).
        * apply (hW11 _ _ I c Hr).
        * destruct (is_up_to_date_spec _ _ _ Hup) as [H|[H1 H2]]; [left; lia|right; split; lia].
    - intros m' [<-|[]]. unfold msg_ok. cbn [reply m_type m_reject m_from m_term m_to].
      split; [|repeat split; intros; discriminate].
      intros _ _. cbn [set_node_gv gv]. unfold gv'. apply upd2_same.
  Qed.
End Steps2.
