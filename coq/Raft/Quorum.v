(* C15 — quorum layer, executable model.
   Re-states etcd/raft/quorum/{majority.go,joint.go} as the Go code computes them.
   A MajorityConfig is a Go map used as a set of voter ids: here a list of ids (the
   theorems in QuorumProofs.v do not even need NoDup: they count list positions).
   An AckedIndexer is a partial map id -> index: [nat -> option nat].
   A vote map is [nat -> option bool] (absent / rejected / granted).
   math.MaxUint64, returned for the empty config, is the explicit [Top].
   No proofs in this file. *)
Require Import List Arith Bool.
Import ListNotations.

Inductive xindex : Type := Fin (n : nat) | Top.

Definition xindex_eqb (a b : xindex) : bool :=
  match a, b with
  | Top, Top => true
  | Fin x, Fin y => Nat.eqb x y
  | _, _ => false
  end.

(* joint.go: if idx0 < idx1 { return idx0 }; return idx1   (with Top = MaxUint64) *)
Definition xmin (a b : xindex) : xindex :=
  match a, b with
  | Top, x => x
  | x, Top => x
  | Fin x, Fin y => if x <? y then Fin x else Fin y
  end.

Inductive vote_result : Type := VotePending | VoteLost | VoteWon.

Definition vote_result_eqb (a b : vote_result) : bool :=
  match a, b with
  | VotePending, VotePending | VoteLost, VoteLost | VoteWon, VoteWon => true
  | _, _ => false
  end.

(* majority.go insertionSort: ascending *)
Fixpoint insert (x : nat) (l : list nat) : list nat :=
  match l with
  | [] => [x]
  | y :: t => if x <=? y then x :: l else y :: insert x t
  end.

Fixpoint isort (l : list nat) : list nat :=
  match l with
  | [] => []
  | x :: t => insert x (isort t)
  end.

(* slots of voters that have not reported stay zero *)
Definition ack_of (acked : nat -> option nat) (id : nat) : nat :=
  match acked id with Some i => i | None => 0 end.

(* MajorityConfig.CommittedIndex *)
Definition majority_committed_index (c : list nat) (acked : nat -> option nat) : xindex :=
  match c with
  | [] => Top
  | _ =>
      let n := length c in
      let srt := isort (map (ack_of acked) c) in
      Fin (nth (n - (n / 2 + 1)) srt 0)
  end.

Definition count (p : nat -> bool) (c : list nat) : nat := length (filter p c).

Definition granted (votes : nat -> option bool) (id : nat) : bool :=
  match votes id with Some true => true | _ => false end.
Definition missing (votes : nat -> option bool) (id : nat) : bool :=
  match votes id with None => true | _ => false end.
Definition not_rejected (votes : nat -> option bool) (id : nat) : bool :=
  match votes id with Some false => false | _ => true end.

(* MajorityConfig.VoteResult *)
Definition majority_vote_result (c : list nat) (votes : nat -> option bool) : vote_result :=
  match c with
  | [] => VoteWon
  | _ =>
      let q := length c / 2 + 1 in
      let yes := count (granted votes) c in
      let mis := count (missing votes) c in
      if q <=? yes then VoteWon
      else if q <=? yes + mis then VotePending
      else VoteLost
  end.

(* JointConfig.CommittedIndex *)
Definition joint_committed_index (c0 c1 : list nat) (acked : nat -> option nat) : xindex :=
  xmin (majority_committed_index c0 acked) (majority_committed_index c1 acked).

(* JointConfig.VoteResult *)
Definition joint_vote_result (c0 c1 : list nat) (votes : nat -> option bool) : vote_result :=
  let r1 := majority_vote_result c0 votes in
  let r2 := majority_vote_result c1 votes in
  if vote_result_eqb r1 r2 then r1
  else match r1, r2 with
       | VoteLost, _ | _, VoteLost => VoteLost
       | _, _ => VotePending
       end.

(* ---- specification vocabulary: "the set of nodes satisfying p contains a majority of c" ---- *)

(* an empty config is satisfied by anything (majority.go: "the elections on an empty
   config win"), which is what makes a half-populated joint config behave like a
   majority config *)
Definition maj_sat (c : list nat) (p : nat -> bool) : Prop :=
  c = [] \/ length c < 2 * count p c.

Definition maj_satb (c : list nat) (p : nat -> bool) : bool :=
  match c with [] => true | _ => length c <? 2 * count p c end.

Definition joint_sat (c0 c1 : list nat) (p : nat -> bool) : Prop :=
  maj_sat c0 p /\ maj_sat c1 p.

Definition joint_satb (c0 c1 : list nat) (p : nat -> bool) : bool :=
  maj_satb c0 p && maj_satb c1 p.

Definition acked_ge (acked : nat -> option nat) (r : nat) (id : nat) : bool :=
  r <=? ack_of acked id.
