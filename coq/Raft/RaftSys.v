(* C15 — the transition systems the safety theorems are about.  No proofs in this file.

   Two levels over the node functions of RaftModel.v:

   * [xstep]  — the executable level: one node runs [exec_node] on one event (Campaign,
     Propose, Step of any message that was ever sent to it, Tick, crash-restart), its replies
     and any messages allowed by [emit_okb] join the bag.  The bag only grows and delivery
     picks any element: loss, duplication, reordering, delay and partitions are all schedules
     of this relation.  This is the relation the trace validator (RaftCheck.v) decides.

   * [mstep]  — micro steps with ghost history, used by the proofs: every handler of the
     executable level is a short sequence of micro steps (RaftRefine.v), so every state
     reachable by [xstep] is (the erasure of) a state reachable by [mstep].
     Ghost components (never read by a transition):
       gv x t   whom node x voted for in term t
       ga x t   the largest index node x acknowledged (MsgAppResp, not rejected) in term t;
                for the leader of t, the length of its log
       LL t     the log of the leader of term t (growing while it leads, frozen afterwards)
       lof t    the node that won the election of term t *)
Require Import List Arith Bool.
Require Import Raft.Quorum Raft.RaftModel.
Import ListNotations.

Record xstate : Type := mkX {
  x_nodes : nat -> nstate;
  x_msgs : list msg
}.

Definition x_init : xstate := mkX (fun _ => init_node) [].

Record mstate : Type := mkM {
  nodes : nat -> nstate;
  msgs : list msg;
  gv : nat -> nat -> option nat;
  ga : nat -> nat -> nat;
  LL : nat -> elog;
  lof : nat -> option nat
}.

Definition m_init : mstate :=
  mkM (fun _ => init_node) [] (fun _ _ => None) (fun _ _ => 0) (fun _ => []) (fun _ => None).

Definition erase (s : mstate) : xstate := mkX (nodes s) (msgs s).

Definition upd2 {A : Type} (f : nat -> nat -> A) (a b : nat) (v : A) : nat -> nat -> A :=
  fun x y => if (x =? a) && (y =? b) then v else f x y.

(* replies that carry no authority: rejections and heartbeat responses *)
Definition harmless (m : msg) : bool :=
  match m_type m with
  | MsgVoteResp => m_reject m
  | MsgAppResp => m_reject m || (m_index m =? 0)      (* an empty acknowledgement acknowledges nothing *)
  | MsgHeartbeatResp => true
  | _ => false
  end.

(* the index acknowledged by the reply list of handle_append *)
Definition app_ack (out : list msg) : nat :=
  match out with
  | [r] => if m_reject r then 0 else m_index r
  | _ => 0
  end.

Section System.
  Variables c0 c1 : list nat.

  (* ---------------------------------------------------------------- executable level *)
  Inductive xstep (s : xstate) : xstate -> Prop :=
  | XStep : forall id ev extra,
      (forall m, ev = EvRecv m -> In m (x_msgs s) /\ m_to m = id) ->
      forallb (emit_okb id (fst (exec_node c0 c1 id ev (x_nodes s id)))) extra = true ->
      xstep s (mkX (upd (x_nodes s) id (fst (exec_node c0 c1 id ev (x_nodes s id))))
                   (x_msgs s ++ snd (exec_node c0 c1 id ev (x_nodes s id)) ++ extra)).

  Inductive xreachable : xstate -> Prop :=
  | XR_init : xreachable x_init
  | XR_step : forall s s', xreachable s -> xstep s s' -> xreachable s'.

End System.

(* any two quorums of any two configurations of the family intersect *)
Definition inter_family (F : list (list nat * list nat)) : Prop :=
  forall a b, In a F -> In b F -> forall p q,
    joint_sat (fst a) (snd a) p -> joint_sat (fst b) (snd b) q -> exists v, p v = true /\ q v = true.

Section Micro.
  (* the configurations a node may use when it tallies votes or computes the commit index *)
  Variable F : list (list nat * list nat).

  (* ---------------------------------------------------------------- micro level *)
  Definition set_node (s : mstate) (id : nat) (n' : nstate) : mstate :=
    mkM (upd (nodes s) id n') (msgs s) (gv s) (ga s) (LL s) (lof s).

  Definition add_msgs (s : mstate) (out : list msg) : mstate :=
    mkM (nodes s) (msgs s ++ out) (gv s) (ga s) (LL s) (lof s).

  Definition set_gv (s : mstate) (x t : nat) (c : nat) : mstate :=
    mkM (nodes s) (msgs s) (upd2 (gv s) x t (Some c)) (ga s) (LL s) (lof s).

  Definition set_ga (s : mstate) (x t k : nat) : mstate :=
    mkM (nodes s) (msgs s) (gv s) (upd2 (ga s) x t k) (LL s) (lof s).

  (* the ghost bookkeeping of a leader whose log is now l *)
  Definition set_leader_log (s : mstate) (id t : nat) (l : elog) : mstate :=
    mkM (nodes s) (msgs s) (gv s) (upd2 (ga s) id t (length l)) (upd (LL s) t l) (upd (lof s) t (Some id)).

  Inductive mstep (s : mstate) : mstate -> Prop :=
  (* becomeFollower at a higher term *)
  | M_bump : forall id t lead,
      n_term (nodes s id) < t ->
      mstep s (set_node s id (become_follower id t lead (nodes s id)))
  (* becomeFollower at the same term: lost election, leader seen, crash-restart *)
  | M_demote : forall id lead,
      mstep s (set_node s id (become_follower id (n_term (nodes s id)) lead (nodes s id)))
  | M_setlead : forall id lead,
      mstep s (set_node s id (set_lead lead (nodes s id)))
  (* becomeCandidate + self vote *)
  | M_campaign : forall id,
      n_role (nodes s id) <> Leader ->
      mstep s (set_gv (set_node s id (record_vote id true (become_candidate id (nodes s id))))
                      id (S (n_term (nodes s id))) id)
  (* grant a vote *)
  | M_grant : forall id m,
      In m (msgs s) -> m_type m = MsgVote -> m_to m = id -> m_term m = n_term (nodes s id) ->
      can_vote m (nodes s id) = true ->
      is_up_to_date (n_log (nodes s id)) (m_index m) (m_logterm m) = true ->
      mstep s (set_gv (add_msgs (set_node s id (set_vote (Some (m_from m)) (nodes s id)))
                                [reply id MsgVoteResp (m_from m) (m_term m) 0 false])
                      id (m_term m) (m_from m))
  (* a candidate records an answer *)
  | M_record : forall id m,
      In m (msgs s) -> m_type m = MsgVoteResp -> m_to m = id -> m_term m = n_term (nodes s id) ->
      n_role (nodes s id) = Candidate ->
      mstep s (set_node s id (record_vote (m_from m) (negb (m_reject m)) (nodes s id)))
  (* a candidate with a quorum of grants becomes leader *)
  | M_win : forall id cfg,
      In cfg F ->
      n_role (nodes s id) = Candidate -> tally (fst cfg) (snd cfg) (nodes s id) = VoteWon ->
      mstep s (set_leader_log (set_node s id (become_leader id (nodes s id)))
                              id (n_term (nodes s id)) (n_log (become_leader id (nodes s id))))
  | M_propose : forall id p,
      n_role (nodes s id) = Leader ->
      mstep s (set_leader_log (set_node s id (propose p (nodes s id)))
                              id (n_term (nodes s id)) (n_log (propose p (nodes s id))))
  (* the leader notes an acknowledgement *)
  | M_ack : forall id m,
      In m (msgs s) -> m_type m = MsgAppResp -> m_reject m = false -> m_to m = id ->
      m_term m = n_term (nodes s id) -> n_role (nodes s id) = Leader ->
      mstep s (set_node s id (set_match (upd (n_match (nodes s id)) (m_from m) (m_index m)) (nodes s id)))
  | M_selfack : forall id k,
      n_role (nodes s id) = Leader -> k <= length (n_log (nodes s id)) ->
      mstep s (set_node s id (set_match (upd (n_match (nodes s id)) id k) (nodes s id)))
  (* the vote tally of a node that is not a candidate is scratch space (pre-votes) *)
  | M_setvotes : forall id vs,
      n_role (nodes s id) <> Candidate ->
      mstep s (set_node s id (set_votes vs (nodes s id)))
  (* progress of a peer forgotten (the peer left the configuration; Match restarts at 0) *)
  | M_lower : forall id f,
      (forall x, f x <= n_match (nodes s id) x) ->
      mstep s (set_node s id (set_match f (nodes s id)))
  | M_commit : forall id cfg,
      In cfg F ->
      n_role (nodes s id) = Leader ->
      mstep s (set_node s id (maybe_commit (fst cfg) (snd cfg) (nodes s id)))
  (* a follower handles MsgApp of its term *)
  | M_append : forall id m,
      In m (msgs s) -> m_type m = MsgApp -> m_to m = id -> m_term m = n_term (nodes s id) ->
      n_role (nodes s id) = Follower ->
      mstep s (set_ga (add_msgs (set_node s id (fst (handle_append id m (nodes s id))))
                                (snd (handle_append id m (nodes s id))))
                      id (n_term (nodes s id))
                      (Nat.max (ga s id (n_term (nodes s id))) (app_ack (snd (handle_append id m (nodes s id))))))
  (* a follower handles MsgHeartbeat of its term *)
  | M_heartbeat : forall id m,
      In m (msgs s) -> m_type m = MsgHeartbeat -> m_to m = id -> m_term m = n_term (nodes s id) ->
      n_role (nodes s id) = Follower ->
      mstep s (add_msgs (set_node s id (fst (handle_heartbeat id m (nodes s id))))
                        (snd (handle_heartbeat id m (nodes s id))))
  (* a follower handles MsgSnap of its term *)
  | M_snapshot : forall id m,
      In m (msgs s) -> m_type m = MsgSnap -> m_to m = id -> m_term m = n_term (nodes s id) ->
      n_role (nodes s id) = Follower ->
      mstep s (set_ga (add_msgs (set_node s id (fst (handle_snapshot id m (nodes s id))))
                                (snd (handle_snapshot id m (nodes s id))))
                      id (n_term (nodes s id))
                      (Nat.max (ga s id (n_term (nodes s id))) (app_ack (snd (handle_snapshot id m (nodes s id))))))
  (* sending *)
  | M_emit : forall id m,
      emit_okb id (nodes s id) m = true -> mstep s (add_msgs s [m])
  | M_junk : forall m,
      harmless m = true -> mstep s (add_msgs s [m]).

  Inductive mreachable : mstate -> Prop :=
  | MR_init : mreachable m_init
  | MR_step : forall s s', mreachable s -> mstep s s' -> mreachable s'.

  Inductive msteps (s : mstate) : mstate -> Prop :=
  | MS_refl : msteps s s
  | MS_trans : forall s1 s2, msteps s s1 -> mstep s1 s2 -> msteps s s2.
End Micro.
