(* C15 — membership change, the leader-local half of "at most one uncommitted configuration
   change" (raft.go pendingConfIndex), proved for EVERY reachable state of the membership-change
   model (no envelope, no quorum hypothesis).

     PD n pend : if n leads, every configuration-change entry of its log above its commit index
                 lies at an index <= pend (= pendingConfIndex).
   It holds in all reachable states ([cc_pending_discipline]); hence a leader appends a
   configuration-change entry — through a proposal ([propose_conf_fresh]) or through the automatic
   leave of a joint configuration ([ready_iter_PD], second part) — only when its log holds NO uncommitted
   configuration change.  This is one of the ingredients of the chain argument for full safety
   under membership change listed in Properties/C15.v; the global half (no log anywhere, and no
   leader log of a past term, holds two uncommitted changes) needs log matching and is not proved. *)
Require Import List Arith Bool Lia.
Require Import Raft.Quorum Raft.RaftModel Raft.RaftSys Raft.RaftLog Raft.RaftStepProps Raft.RaftCC.
Import ListNotations.

Lemma learner_ack_props : forall c ev n1, let n' := learner_ack c ev n1 in
  n_term n' = n_term n1 /\ n_vote n' = n_vote n1 /\ n_log n' = n_log n1 /\ n_role n' = n_role n1 /\
  n_commit n1 <= n_commit n'.
Proof.
  intros c ev n1. unfold learner_ack. destruct ev as [|p|m| |]; try (cbn; repeat split; auto; fail).
  destruct (msg_is_appresp m && negb (m_reject m) && negb (member c (m_from m)) && role_eqb (n_role n1) Leader && (m_term m =? n_term n1));
    [|cbn; repeat split; auto].
  destruct (leader_ack_props (c_in c) (c_out c) (m_from m) (m_index m) n1) as (A & B & C & D & E & _). cbn zeta in *.
  repeat split; assumption.
Qed.

(* pendingConfIndex discipline of one node; log index = S (list position) *)
Definition PD (n : nstate) (pend : nat) : Prop :=
  n_role n = Leader ->
  forall j e, nth_error (n_log n) j = Some e -> isconf (snd e) = true -> n_commit n <= j -> S j <= pend.

(* no uncommitted configuration change in the log *)
Definition no_pending (n : nstate) : Prop :=
  forall j e, nth_error (n_log n) j = Some e -> isconf (snd e) = true -> j < n_commit n.

Lemma PD_weaken : forall n n' pend,
  PD n pend -> n_log n' = n_log n -> (n_role n' = Leader -> n_role n = Leader) -> n_commit n <= n_commit n' ->
  PD n' pend.
Proof.
  intros n n' pend H El Er Ec Hl j e Hj Hc Hcj. rewrite El in Hj.
  apply (H (Er Hl) j e Hj Hc). lia.
Qed.

Lemma PD_full : forall n pend, length (n_log n) <= pend -> PD n pend.
Proof.
  intros n pend H _ j e Hj _ _. assert (j < length (n_log n)) by (apply nth_error_Some; congruence). lia.
Qed.

Lemma PD_not_leader : forall n pend, n_role n <> Leader -> PD n pend.
Proof. intros n pend H Hl. contradiction. Qed.

Lemma PD_app_plain : forall n n' pend t p,
  PD n pend -> n_log n' = n_log n ++ [(t, p)] -> isconf p = false ->
  (n_role n' = Leader -> n_role n = Leader) -> n_commit n <= n_commit n' -> PD n' pend.
Proof.
  intros n n' pend t p H El Hp Er Ec Hl j e Hj Hc Hcj. rewrite El in Hj.
  destruct (Nat.lt_ge_cases j (length (n_log n))) as [Hlt|Hge].
  - rewrite nth_error_app1 in Hj by exact Hlt. apply (H (Er Hl) j e Hj Hc). lia.
  - rewrite nth_error_app2 in Hj by exact Hge. destruct (j - length (n_log n)) as [|k] eqn:Ek.
    + cbn in Hj. injection Hj as <-. cbn in Hc. congruence.
    + cbn in Hj. destruct k; discriminate.
Qed.

Lemma PD_new_leader : forall n L t, n_log n = L ++ [(t, 0)] -> PD n (length (n_log n) - 1).
Proof.
  intros n L t El _ j e Hj Hc _. rewrite El in *. rewrite app_length. cbn [length].
  destruct (Nat.lt_ge_cases j (length L)) as [Hlt|Hge]; [lia|].
  rewrite nth_error_app2 in Hj by exact Hge. destruct (j - length L) as [|k] eqn:Ek.
  - cbn in Hj. injection Hj as <-. cbn in Hc. discriminate.
  - cbn in Hj. destruct k; discriminate.
Qed.

(* ------------------------------------------------------------------ how a node becomes / stays leader *)
Section Lead.
  Variables c0 c1 : list nat.
  Variable id : nat.

  Definition lead_how (n n' : nstate) : Prop :=
    n_role n' = Leader ->
    (n_role n = Leader /\ n_term n' = n_term n /\ n_log n' = n_log n) \/
    ((n_role n <> Leader \/ n_term n' <> n_term n) /\ exists L t, n_log n' = L ++ [(t, 0)]).

  Lemma lead_how_same : forall n n', n_role n' = n_role n -> n_term n' = n_term n -> n_log n' = n_log n -> lead_how n n'.
  Proof. intros n n' Hr Ht Hl H. left. repeat split; congruence. Qed.

  Lemma lead_how_not : forall n n', n_role n' <> Leader -> lead_how n n'.
  Proof. intros n n' H Hl. contradiction. Qed.

  Lemma handle_append_role : forall m n, n_role n = Follower -> n_role (fst (handle_append id m n)) = Follower.
  Proof. intros m n H. apply (handle_append_good id m n H). Qed.

  Lemma handle_heartbeat_role : forall m n, n_role (fst (handle_heartbeat id m n)) = n_role n.
  Proof. intros m n. unfold handle_heartbeat. destruct (commit_to _ _ _); reflexivity. Qed.

  Lemma poll_result_lead : forall n, n_role n = Candidate -> lead_how n (poll_result c0 c1 id n).
  Proof.
    intros n Hr. unfold poll_result. destruct (tally c0 c1 n).
    - apply lead_how_not. congruence.
    - apply lead_how_not. cbn. discriminate.
    - intros _. right. split; [left; congruence|]. exists (n_log n), (n_term n). reflexivity.
  Qed.

  Lemma step_same_lead : forall m n, lead_how n (fst (step_same c0 c1 id m n)).
  Proof.
    intros m n. unfold step_same. destruct (m_type m).
    - destruct (can_vote m n && is_up_to_date (n_log n) (m_index m) (m_logterm m)); apply lead_how_same; reflexivity.
    - destruct (n_role n) eqn:Er; try (apply lead_how_same; reflexivity). cbn [fst].
      destruct (record_vote_props (m_from m) (negb (m_reject m)) n) as (A & B & C & D & E). cbn zeta in *.
      intros Hl. destruct (poll_result_lead (record_vote (m_from m) (negb (m_reject m)) n) ltac:(congruence) Hl) as [(X & _)|(_ & L & t & X)].
      + congruence.
      + right. split; [left; congruence|]. exists L, t. exact X.
    - destruct (n_role n) eqn:Er.
      + apply lead_how_not. rewrite handle_append_role by (cbn; exact Er). discriminate.
      + apply lead_how_not. rewrite handle_append_role by reflexivity. discriminate.
      + apply lead_how_same; reflexivity.
    - destruct (n_role n) eqn:Er; try (apply lead_how_same; reflexivity).
      destruct (m_reject m || negb (is_voter c0 c1 (m_from m))); [apply lead_how_same; reflexivity|]. cbn [fst].
      destruct (leader_ack_props c0 c1 (m_from m) (m_index m) n) as (A & B & C & D & _). cbn zeta in *.
      apply lead_how_same; assumption.
    - destruct (n_role n) eqn:Er.
      + apply lead_how_not. rewrite handle_heartbeat_role. cbn. congruence.
      + apply lead_how_not. rewrite handle_heartbeat_role. cbn. discriminate.
      + apply lead_how_same; reflexivity.
    - apply lead_how_same; reflexivity.
    - destruct (n_role n) eqn:Er.
      + apply lead_how_not. destruct (handle_snapshot_props id m (set_lead (Some (m_from m)) n) Er) as [_ H]. rewrite H. discriminate.
      + apply lead_how_not.
        destruct (handle_snapshot_props id m (become_follower id (n_term n) (Some (m_from m)) n) eq_refl) as [_ H]. rewrite H. discriminate.
      + apply lead_how_same; reflexivity.
  Qed.

  Lemma hup_lead : forall n, lead_how n (hup c0 c1 id n).
  Proof.
    intros n. unfold hup. destruct (n_role n) eqn:Er; try (apply lead_how_same; reflexivity);
      (destruct (is_voter c0 c1 id); [|apply lead_how_not; congruence]).
    all: set (n1 := record_vote id true (become_candidate id n)).
    all: destruct (record_vote_props id true (become_candidate id n)) as (A & B & C & D & E); cbn zeta in *; fold n1 in A, B, C, D, E.
    all: destruct (tally c0 c1 n1); try (apply lead_how_not; rewrite D; cbn; discriminate).
    all: intros _; right; split; [left; congruence|]; exists (n_log n1), (n_term n1); reflexivity.
  Qed.

  Lemma handle_lead : forall ev n, (forall p, ev <> EvPropose p) -> lead_how n (fst (handle c0 c1 id ev n)).
  Proof.
    intros ev n Hnp. destruct ev as [|p|m| |]; cbn [handle fst].
    - apply hup_lead.
    - exfalso. apply (Hnp p). reflexivity.
    - unfold step_msg. destruct (n_term n <? m_term m) eqn:E1.
      + apply Nat.ltb_lt in E1.
        set (lead := match m_type m with MsgApp | MsgHeartbeat | MsgSnap => Some (m_from m) | _ => None end).
        intros Hl. destruct (step_same_lead m (become_follower id (m_term m) lead n) Hl) as [(X & _)|(_ & L & t & X)].
        * cbn in X. discriminate.
        * right. split; [|exists L, t; exact X].
          destruct (n_role n) eqn:Er; try (left; discriminate). right.
          pose proof (handle_good c0 c1 id (EvRecv m) n) as ((G1 & _) & _). cbn [handle fst] in G1.
          unfold step_msg in G1. replace (n_term n <? m_term m) with true in G1 by (symmetry; apply Nat.ltb_lt; exact E1).
          fold lead in G1.
          destruct (step_same_good c0 c1 id m (become_follower id (m_term m) lead n) eq_refl) as ((T1 & _) & _).
          cbn [become_follower n_term] in T1. lia.
      + destruct (m_term m <? n_term n); [apply lead_how_same; reflexivity|]. apply step_same_lead.
    - apply lead_how_not. cbn. discriminate.
    - apply lead_how_same; reflexivity.
  Qed.
End Lead.

(* ------------------------------------------------------------------ one call of the membership-change node *)
Section NodeInv.
  Variable boot : conf.
  Variable page1 : bool.
  Variable id : nat.

  Lemma apply_entry_keeps : forall e n c,
    let r := apply_entry id (n, c) e in
    n_log (fst r) = n_log n /\ n_role (fst r) = n_role n /\ n_term (fst r) = n_term n /\ n_commit n <= n_commit (fst r).
  Proof.
    intros e n c. unfold apply_entry. destruct (cc_of_payload (snd e)) as [op|]; [|cbn; repeat split; auto].
    destruct (apply_cc c op) as [c'|]; [|cbn; repeat split; auto]. cbn [fst].
    set (n1 := set_match (reset_match c c' (n_match n)) n).
    destruct (role_eqb (n_role n1) Leader && member c' id && match c_in c' with [] => false | _ => true end).
    - destruct (maybe_commit_props (c_in c') (c_out c') n1) as (A & B & C & D & E & _). cbn zeta in *.
      rewrite C, D, A. repeat split; auto.
    - cbn. repeat split; auto.
  Qed.

  Lemma fold_apply_keeps : forall ents n c,
    let r := fold_left (apply_entry id) ents (n, c) in
    n_log (fst r) = n_log n /\ n_role (fst r) = n_role n /\ n_term (fst r) = n_term n /\ n_commit n <= n_commit (fst r).
  Proof.
    induction ents as [|e ents IH]; intros n c; [cbn; repeat split; auto|].
    cbn [fold_left]. destruct (apply_entry id (n, c) e) as [n1 c1] eqn:E1.
    pose proof (apply_entry_keeps e n c) as (A & B & C & D). cbn zeta in *. rewrite E1 in A, B, C, D. cbn [fst] in *.
    destruct (IH n1 c1) as (A' & B' & C' & D'). cbn zeta in *. repeat split; try congruence. lia.
  Qed.

  (* one round of the Ready loop keeps the discipline; when it appends the automatic leave the
     log held no uncommitted configuration change *)
  Lemma ready_iter_PD : forall n c pend applied,
    PD n pend ->
    let '(n', _, pend', _) := ready_iter page1 id (n, c, pend, applied) in
    PD n' pend' /\
    (length (n_log n) < length (n_log n') -> no_pending (fst (fold_left (apply_entry id)
        (firstn ((if applied <? n_commit n then (if page1 then S applied else n_commit n) else applied) - applied)
                (skipn applied (n_log n))) (n, c)))).
  Proof.
    intros n c pend applied H. unfold ready_iter.
    set (rdc := if applied <? n_commit n then (if page1 then S applied else n_commit n) else applied).
    set (ents := firstn (rdc - applied) (skipn applied (n_log n))).
    destruct (fold_left (apply_entry id) ents (n, c)) as [n1 cc1] eqn:Ef.
    pose proof (fold_apply_keeps ents n c) as (A & B & C & D). cbn zeta in *. rewrite Ef in A, B, C, D. cbn [fst] in *.
    assert (H1 : PD n1 pend) by (apply (PD_weaken n); [exact H|exact A|congruence|exact D]).
    assert (Hrdc : rdc <= n_commit n \/ rdc = applied).
    { unfold rdc. destruct (applied <? n_commit n) eqn:E; [|right; reflexivity]. apply Nat.ltb_lt in E.
      destruct page1; left; lia. }
    destruct ((applied <? rdc) && c_auto cc1 && (applied <=? pend) && (pend <=? rdc) && role_eqb (n_role n1) Leader) eqn:Eauto.
    - apply andb_true_iff in Eauto as [Eauto Erl]. apply andb_true_iff in Eauto as [Eauto Epr].
      apply andb_true_iff in Eauto as [Eauto _]. apply andb_true_iff in Eauto as [Ear _].
      apply Nat.ltb_lt in Ear. apply Nat.leb_le in Epr.
      assert (Hlead : n_role n1 = Leader) by (destruct (n_role n1); try discriminate; reflexivity).
      set (n2 := set_log (n_log n1 ++ [(n_term n1, 120)]) n1).
      assert (H2 : PD n2 (S (length (n_log n1)))).
      { apply PD_full. unfold n2. cbn. rewrite app_length. cbn. lia. }
      assert (Hnp : no_pending n1).
      { intros j e Hj Hc. destruct (Nat.lt_ge_cases j (n_commit n1)) as [Hlt|Hge]; [exact Hlt|].
        pose proof (H1 Hlead j e Hj Hc Hge). lia. }
      destruct (role_eqb (n_role n2) Leader && tracked cc1 id).
      + destruct (leader_ack_props (c_in cc1) (c_out cc1) id (length (n_log n)) n2) as (A' & B' & C' & D' & E' & _). cbn zeta in *.
        split; [|intros _; exact Hnp].
        apply (PD_weaken n2); [exact H2|exact C'|congruence|exact E'].
      + split; [exact H2|intros _; exact Hnp].
    - destruct (role_eqb (n_role n1) Leader && tracked cc1 id).
      + destruct (leader_ack_props (c_in cc1) (c_out cc1) id (length (n_log n)) n1) as (A' & B' & C' & D' & E' & _). cbn zeta in *.
        split; [apply (PD_weaken n1); [exact H1|exact C'|congruence|exact E']|].
        intros Hlen. rewrite C', A in Hlen. lia.
      + split; [exact H1|]. intros Hlen. rewrite A in Hlen. lia.
  Qed.

  Lemma iter_PD : forall k n c pend applied,
    PD n pend ->
    let '(n', _, pend', _) := iter k (ready_iter page1 id) (n, c, pend, applied) in PD n' pend'.
  Proof.
    induction k as [|k IH]; intros n c pend applied H; [cbn; exact H|].
    cbn [iter]. pose proof (ready_iter_PD n c pend applied H) as R.
    destruct (ready_iter page1 id (n, c, pend, applied)) as [[[n1 cc1] pend1] a1]. destruct R as [R _].
    apply IH. exact R.
  Qed.

  (* the call itself; an accepted configuration-change proposal finds no uncommitted change *)
  Lemma handle_cc_PD : forall c ev n pend,
    PD n pend ->
    let '(n', _, pend') := handle_cc id c ev n pend in PD n' pend'.
  Proof.
    intros c ev n pend H. unfold handle_cc.
    destruct ev as [|p|m| |].
    2:{ destruct (n_role n) eqn:Er; try exact H.
        destruct (negb (tracked c id)); [exact H|].
        destruct (cc_of_payload p) as [op|] eqn:Ep.
        - destruct ((n_commit n <? pend) || (joint c && negb match op with CcLeave => true | _ => false end)
                    || (negb (joint c) && match op with CcLeave => true | _ => false end)).
          + unfold propose. rewrite Er. apply (PD_app_plain n _ pend (n_term n) 0 H); [reflexivity|reflexivity|intros _; exact Er|cbn; lia].
          + apply PD_full. unfold propose. rewrite Er. cbn. rewrite app_length. cbn. lia.
        - unfold propose. rewrite Er. apply (PD_app_plain n _ pend (n_term n) p H); [reflexivity| |intros _; exact Er|cbn; lia].
          unfold isconf. rewrite Ep. reflexivity. }
    all: match goal with |- context [handle ?a ?b ?i ?ev ?nn] =>
           pose proof (handle_lead a b i ev nn ltac:(intros p; discriminate)) as HL;
           pose proof (handle_good a b i ev nn) as ((G1 & _ & G3) & _);
           set (n1 := fst (handle a b i ev nn)) in * end.
    all: cbn [fst snd].
    all: match goal with |- PD (learner_ack ?cc ?ev ?nn) ?pp =>
           destruct (learner_ack_props cc ev nn) as (_ & _ & LA & LR & LC); cbn zeta in LA, LR, LC;
           apply (PD_weaken nn _ pp); [|exact LA|intros HH; rewrite <- LR; exact HH|exact LC] end.
    all: destruct (n_role n1) eqn:Er1; try (apply PD_not_leader; congruence).
    all: destruct (HL Er1) as [(X1 & X2 & X3)|([X1|X1] & L & t & X3)].
    all: try (rewrite X1, X2; cbn [role_eqb andb]; rewrite Nat.eqb_refl; apply (PD_weaken n); [exact H|exact X3|intros _; exact X1|exact G3]).
    all: try (replace (role_eqb (n_role n) Leader) with false by (destruct (n_role n); try reflexivity; contradiction);
              cbn [andb]; apply (PD_new_leader n1 L t X3)).
    all: replace (n_term n1 =? n_term n) with false by (symmetry; apply Nat.eqb_neq; exact X1);
         rewrite andb_false_r; apply (PD_new_leader n1 L t X3).
  Qed.

  Lemma propose_conf_fresh : forall c p n pend,
    PD n pend -> n_role n = Leader -> isconf p = true ->
    n_log (fst (fst (handle_cc id c (EvPropose p) n pend))) = n_log n ++ [(n_term n, p)] ->
    no_pending n.
  Proof.
    intros c p n pend H Hl Hp Hlog. unfold handle_cc in Hlog. rewrite Hl in Hlog.
    destruct (negb (tracked c id)).
    { cbn in Hlog. exfalso. apply (f_equal (@length _)) in Hlog. rewrite app_length in Hlog. cbn in Hlog. lia. }
    unfold isconf in Hp. destruct (cc_of_payload p) as [op|] eqn:Ep; [|discriminate].
    destruct ((n_commit n <? pend) || (joint c && negb match op with CcLeave => true | _ => false end)
              || (negb (joint c) && match op with CcLeave => true | _ => false end)) eqn:Eref.
    - cbn [fst] in Hlog. unfold propose in Hlog. rewrite Hl in Hlog. cbn in Hlog.
      apply app_inv_head in Hlog. injection Hlog as <-. cbn in Ep. discriminate.
    - apply orb_false_iff in Eref as [Eref _]. apply orb_false_iff in Eref as [Eref _]. apply Nat.ltb_ge in Eref.
      intros j e Hj Hc. destruct (Nat.lt_ge_cases j (n_commit n)) as [Hlt|Hge]; [exact Hlt|].
      pose proof (H Hl j e Hj Hc Hge). lia.
  Qed.

  Theorem exec_cc_PD : forall ev n pend,
    PD n pend -> PD (fst (fst (exec_cc boot page1 id ev (n, pend)))) (snd (fst (exec_cc boot page1 id ev (n, pend)))).
  Proof.
    intros ev n pend H. unfold exec_cc.
    destruct (match ev with EvRecv m => is_response (m_type m) && negb (tracked (node_cfg boot n) (m_from m)) | _ => false end);
      [cbn; exact H|].
    pose proof (handle_cc_PD (node_cfg boot n) ev n pend H) as H1.
    destruct (handle_cc id (node_cfg boot n) ev n pend) as [[n1 out] pend1].
    pose proof (iter_PD (2 * length (n_log n1) + 8) n1 (node_cfg boot n) pend1 (n_commit n) H1) as H2.
    destruct (iter (2 * length (n_log n1) + 8) (ready_iter page1 id) (n1, node_cfg boot n, pend1, n_commit n)) as [[[n2 c2] pend2] a2].
    cbn. exact H2.
  Qed.

  (* ---- a batched proposal: the examination of its entries, one after the other *)
  Lemma batch_cc_PD : forall c ps n pend,
    PD n pend -> PD (fst (batch_cc id c ps n pend)) (snd (batch_cc id c ps n pend)).
  Proof.
    intros c. induction ps as [|p ps IH]; intros n pend H; [exact H|].
    cbn [batch_cc]. pose proof (handle_cc_PD c (EvPropose p) n pend H) as H1.
    destruct (handle_cc id c (EvPropose p) n pend) as [[n1 out] pend1]. apply IH. exact H1.
  Qed.

  (* what one examined entry does to the node: nothing, or one entry appended *)
  Lemma propose_cc_shape : forall c p n pend,
    let n' := fst (fst (handle_cc id c (EvPropose p) n pend)) in
    n_term n' = n_term n /\ n_vote n' = n_vote n /\ n_commit n' = n_commit n /\ n_role n' = n_role n /\
    (n_log n' = n_log n \/ (n_role n = Leader /\ exists q, n_log n' = n_log n ++ [(n_term n, q)])).
  Proof.
    intros c p n pend. unfold handle_cc. destruct (n_role n) eqn:Er; cbn [fst]; try (repeat split; auto; fail).
    assert (Hp : forall q, let n' := propose q n in
              n_term n' = n_term n /\ n_vote n' = n_vote n /\ n_commit n' = n_commit n /\ n_role n' = Leader /\
              (n_log n' = n_log n \/ (Leader = Leader /\ exists q0, n_log n' = n_log n ++ [(n_term n, q0)]))).
    { intros q. unfold propose. rewrite Er. cbn [set_log n_term n_vote n_commit n_role n_log].
      split; [reflexivity|]. split; [reflexivity|]. split; [reflexivity|]. split; [exact Er|].
      right. split; [reflexivity|]. exists q. reflexivity. }
    destruct (negb (tracked c id)); cbn [fst]; [repeat split; auto|].
    destruct (cc_of_payload p) as [op|]; cbn [fst]; [|apply Hp].
    destruct ((n_commit n <? pend) || (joint c && negb match op with CcLeave => true | _ => false end)
              || (negb (joint c) && match op with CcLeave => true | _ => false end)); cbn [fst]; apply Hp.
  Qed.

  Lemma batch_cc_shape : forall c ps n pend,
    let n' := fst (batch_cc id c ps n pend) in
    n_term n' = n_term n /\ n_vote n' = n_vote n /\ n_commit n' = n_commit n /\ n_role n' = n_role n /\
    exists suf, n_log n' = n_log n ++ suf.
  Proof.
    intros c. induction ps as [|p ps IH]; intros n pend; [cbn; repeat split; exists []; rewrite app_nil_r; reflexivity|].
    cbn [batch_cc]. pose proof (propose_cc_shape c p n pend) as (A & B & C & D & E). cbn zeta in A, B, C, D, E.
    destruct (handle_cc id c (EvPropose p) n pend) as [[n1 out] pend1]. cbn [fst] in *.
    destruct (IH n1 pend1) as (A' & B' & C' & D' & suf & E'). cbn zeta in *.
    repeat split; try congruence.
    destruct E as [E|(_ & q & E)]; [exists suf; rewrite E', E; reflexivity|].
    exists ([(n_term n, q)] ++ suf). rewrite E', E, app_assoc. reflexivity.
  Qed.

  Theorem exec_batch_PD : forall ps n pend,
    PD n pend -> PD (fst (fst (exec_batch boot page1 id ps (n, pend)))) (snd (fst (exec_batch boot page1 id ps (n, pend)))).
  Proof.
    intros ps n pend H. unfold exec_batch.
    pose proof (batch_cc_PD (node_cfg boot n) ps n pend H) as H1.
    destruct (batch_cc id (node_cfg boot n) ps n pend) as [n1 pend1]. cbn [fst snd] in H1.
    pose proof (iter_PD (2 * length (n_log n1) + 8) n1 (node_cfg boot n) pend1 (n_commit n) H1) as H2.
    destruct (iter (2 * length (n_log n1) + 8) (ready_iter page1 id) (n1, node_cfg boot n, pend1, n_commit n)) as [[[n2 c2] pend2] a2].
    cbn. exact H2.
  Qed.

  Theorem exec_cce_PD : forall cev n pend,
    PD n pend -> PD (fst (fst (exec_cce boot page1 id cev (n, pend)))) (snd (fst (exec_cce boot page1 id cev (n, pend)))).
  Proof. intros [ev|ps] n pend H; cbn [exec_cce]; [apply exec_cc_PD|apply exec_batch_PD]; exact H. Qed.
End NodeInv.

(* ------------------------------------------------------------------ the system *)
Theorem cc_pending_discipline : forall boot page1 x,
  cxreachable boot page1 x -> forall id, PD (fst (cx_nodes x id)) (snd (cx_nodes x id)).
Proof.
  intros boot page1 x H. induction H as [|x x' Hr IH Hs]; intros i.
  - cbn. apply PD_not_leader. cbn. discriminate.
  - destruct Hs as [id cev extra _ _]. cbn [cx_nodes]. unfold upd. destruct (i =? id) eqn:E; [|apply IH].
    specialize (IH id). destruct (cx_nodes x id) as [n pend]. cbn [fst snd] in IH. apply exec_cce_PD. exact IH.
Qed.

(* ------------------------------------------------------------------ the follower's side of an append
   [cc_ok L c]: of any two configuration-change entries of L the earlier one is committed w.r.t. c
   ("at most one uncommitted configuration change").  A follower keeps it through
   handleAppendEntries PROVIDED the leader's log prefix the message stands for satisfies it w.r.t.
   the commit index the message carries — the hypotheses are those the global invariant of
   RaftInv.v supplies at its M_append step (X = the leader's log of the message's term).  This is
   the preservation lemma the global half of ingredient (a) needs for that step; the matching
   facts for messages (component "iC2" of the plan in Properties/C15.v) are not yet part of the
   invariant. *)
Definition cc_ok (L : elog) (c : nat) : Prop :=
  forall j j' e e', j < j' -> nth_error L j = Some e -> nth_error L j' = Some e' ->
    isconf (snd e) = true -> isconf (snd e') = true -> S j <= c.

Lemma cc_ok_mono : forall L c c', cc_ok L c -> c <= c' -> cc_ok L c'.
Proof. intros L c c' H Hc j j' e e' Hlt Hj Hj' He He'. pose proof (H j j' e e' Hlt Hj Hj' He He'). lia. Qed.

Lemma cc_ok_pending : forall n, no_pending n -> forall t p,
  cc_ok (n_log n) (n_commit n) -> cc_ok (n_log n ++ [(t, p)]) (n_commit n).
Proof.
  intros n Hnp t p H j j' e e' Hlt Hj Hj' He He'.
  assert (Hj'len : j' < length (n_log n ++ [(t, p)])) by (apply nth_error_Some; congruence).
  rewrite app_length in Hj'len. cbn in Hj'len.
  assert (Hjl : j < length (n_log n)) by lia.
  rewrite nth_error_app1 in Hj by exact Hjl. pose proof (Hnp j e Hj He). lia.
Qed.

Lemma append_cc_ok : forall LLf L X com idx mc ents L' c' lni,
  wf LLf L -> wf LLf X -> terms_pos X ->
  firstn idx X ++ ents = firstn (idx + length ents) X -> idx + length ents <= length X ->
  com <= length L ->
  maybe_append L com idx (term_at X idx) mc ents = AppOk L' c' lni ->
  cc_ok L com -> cc_ok (firstn (idx + length ents) X) mc -> cc_ok L' c'.
Proof.
  intros LLf L X com idx mc ents L' c' lni HwL HwX Hpos Hseg Hlen Hcom H HL HX.
  destruct (maybe_append_spec LLf L X com idx mc ents L' c' lni HwL HwX Hpos Hseg Hlen Hcom H)
    as (-> & Hlni & Hpre & Hshape & Hc).
  set (lni := idx + length ents) in *.
  assert (Hc1 : com <= c') by (destruct Hc as [[-> _]|(_ & Hlt & _)]; lia).
  assert (Hc2 : Nat.min mc lni <= c') by (destruct Hc as [[-> Hm]|(-> & _)]; lia).
  assert (Hin : forall j j' e e', j < j' -> j' < lni -> nth_error L' j = Some e -> nth_error L' j' = Some e' ->
            isconf (snd e) = true -> isconf (snd e') = true -> S j <= c').
  { intros j j' e e' Hlt Hj'l Hj Hj' He He'.
    assert (E1 : nth_error (firstn lni X) j = Some e).
    { rewrite <- Hpre. rewrite nth_error_firstn_lt by lia. exact Hj. }
    assert (E2 : nth_error (firstn lni X) j' = Some e').
    { rewrite <- Hpre. rewrite nth_error_firstn_lt by lia. exact Hj'. }
    pose proof (HX j j' e e' Hlt E1 E2 He He'). lia. }
  intros j j' e e' Hlt Hj Hj' He He'.
  destruct (Nat.lt_ge_cases j' lni) as [Hin'|Hout]; [exact (Hin j j' e e' Hlt Hin' Hj Hj' He He')|].
  destruct Hshape as [->|(-> & _)].
  - pose proof (HL j j' e e' Hlt Hj Hj' He He'). lia.
  - exfalso. assert (j' < length (firstn lni X)) by (apply nth_error_Some; congruence).
    rewrite firstn_length in H0. lia.
Qed.
