(* C15 — lemmas about logs: term_at, prefixes, findConflict, maybeAppend. *)
Require Import List Arith Bool Lia.
Require Import Raft.Quorum Raft.RaftModel.
Import ListNotations.

(* ------------------------------------------------------------------ term_at *)

Lemma term_at_0 : forall l, term_at l 0 = 0.
Proof. reflexivity. Qed.

Lemma term_at_S : forall (l : elog) j,
  term_at l (S j) = match nth_error l j with Some e => fst e | None => 0 end.
Proof. reflexivity. Qed.

Lemma term_at_beyond : forall (l : elog) i, length l < i -> term_at l i = 0.
Proof.
  intros l i H. destruct i as [|j]; [reflexivity|]. rewrite !term_at_S.
  assert (E : nth_error l j = None) by (apply nth_error_None; lia). rewrite E. reflexivity.
Qed.

Lemma term_at_range : forall (l : elog) i, term_at l i <> 0 -> 1 <= i <= length l.
Proof.
  intros l i H. destruct (le_lt_dec i (length l)) as [Hle|Hgt].
  - destruct i; [exfalso; apply H; reflexivity|lia].
  - exfalso. apply H. apply term_at_beyond. exact Hgt.
Qed.

Lemma term_at_app_l : forall (l : elog) x i, i <= length l -> term_at (l ++ x) i = term_at l i.
Proof.
  intros l x i H. destruct i as [|j]; [reflexivity|]. rewrite !term_at_S.
  rewrite nth_error_app1 by lia. reflexivity.
Qed.

Lemma term_at_app_last : forall (l : elog) e, term_at (l ++ [e]) (S (length l)) = fst e.
Proof.
  intros l e. rewrite !term_at_S. rewrite nth_error_app2 by lia. rewrite Nat.sub_diag. reflexivity.
Qed.

Lemma nth_error_firstn_lt : forall (A : Type) (l : list A) k j,
  j < k -> nth_error (firstn k l) j = nth_error l j.
Proof.
  intros A l. induction l as [|x l IH]; intros k j H.
  - rewrite firstn_nil. reflexivity.
  - destruct k as [|k]; [lia|]. destruct j as [|j]; [reflexivity|].
    cbn [firstn nth_error]. apply IH. lia.
Qed.

Lemma term_at_firstn : forall (l : elog) k i, i <= k -> term_at (firstn k l) i = term_at l i.
Proof.
  intros l k i H. destruct i as [|j]; [reflexivity|]. rewrite !term_at_S.
  rewrite nth_error_firstn_lt by lia. reflexivity.
Qed.

Lemma nth_error_firstn_eq : forall (A : Type) (a b : list A) k j,
  firstn k a = firstn k b -> j < k -> nth_error a j = nth_error b j.
Proof.
  intros A a b k j H Hj.
  assert (Ha : nth_error (firstn k a) j = nth_error a j) by (apply nth_error_firstn_lt; exact Hj).
  assert (Hb : nth_error (firstn k b) j = nth_error b j) by (apply nth_error_firstn_lt; exact Hj).
  rewrite <- Ha, <- Hb, H. reflexivity.
Qed.

Lemma term_at_agree : forall (a b : elog) k i, firstn k a = firstn k b -> i <= k -> term_at a i = term_at b i.
Proof.
  intros a b k i H Hi. destruct i as [|j]; [reflexivity|]. rewrite !term_at_S.
  rewrite (nth_error_firstn_eq _ a b k j H) by lia. reflexivity.
Qed.

Lemma term_at_in : forall (l : elog) i, 1 <= i <= length l -> exists e, In e l /\ fst e = term_at l i.
Proof.
  intros l i H. destruct i as [|j]; [lia|]. rewrite !term_at_S.
  destruct (nth_error l j) as [e|] eqn:E.
  - exists e. split; [eapply nth_error_In; exact E|reflexivity].
  - apply nth_error_None in E. lia.
Qed.

Lemma entry_eqb_eq : forall a b : entry, entry_eqb a b = true <-> a = b.
Proof.
  intros [a1 a2] [b1 b2]. unfold entry_eqb. cbn [fst snd]. rewrite andb_true_iff, !Nat.eqb_eq.
  split; [intros [-> ->]; reflexivity|intros H; injection H as -> ->; split; reflexivity].
Qed.

Lemma log_eqb_eq : forall a b : elog, log_eqb a b = true <-> a = b.
Proof.
  induction a as [|x a IH]; intros [|y b]; cbn [log_eqb]; split; intros H; try discriminate; try reflexivity.
  - apply andb_true_iff in H as [H1 H2]. apply entry_eqb_eq in H1. apply IH in H2. subst. reflexivity.
  - injection H as -> ->. apply andb_true_iff. split; [apply entry_eqb_eq; reflexivity|apply IH; reflexivity].
Qed.

(* ------------------------------------------------------------------ prefixes *)

Lemma firstn_agree_le : forall (A : Type) (a b : list A) k j,
  firstn k a = firstn k b -> j <= k -> firstn j a = firstn j b.
Proof.
  intros A a b k j H Hj.
  assert (E : forall l : list A, firstn j l = firstn j (firstn k l)).
  { intros l. rewrite firstn_firstn. rewrite Nat.min_l by lia. reflexivity. }
  rewrite (E a), (E b), H. reflexivity.
Qed.

Lemma firstn_app_le : forall (A : Type) (l x : list A) k, k <= length l -> firstn k (l ++ x) = firstn k l.
Proof.
  intros A l x k H. rewrite firstn_app. replace (k - length l) with 0 by lia.
  cbn [firstn]. rewrite app_nil_r. reflexivity.
Qed.

Lemma firstn_len_le : forall (A : Type) (a b : list A) k,
  firstn k a = firstn k b -> k <= length a -> k <= length b.
Proof.
  intros A a b k H Ha. assert (E : length (firstn k a) = length (firstn k b)) by (rewrite H; reflexivity).
  rewrite !firstn_length in E. lia.
Qed.

Lemma firstn_plus : forall (A : Type) (l : list A) a b,
  firstn (a + b) l = firstn a l ++ firstn b (skipn a l).
Proof.
  intros A l a. revert l. induction a as [|a IH]; intros l b; [reflexivity|].
  destruct l as [|x l]; [cbn; destruct b; reflexivity|].
  cbn [Nat.add firstn skipn app]. rewrite IH. reflexivity.
Qed.

Lemma is_segment_spec : forall ents idx (l : elog),
  is_segment ents idx l = true ->
  firstn idx l ++ ents = firstn (idx + length ents) l /\ idx + length ents <= length l.
Proof.
  intros ents idx l H. unfold is_segment in H. apply andb_true_iff in H as [H1 H2].
  apply log_eqb_eq in H1. apply Nat.leb_le in H2. split; [|exact H2].
  rewrite firstn_plus. rewrite <- H1. reflexivity.
Qed.

(* ------------------------------------------------------------------ well-formed logs
   LLf t = the log of the leader of term t.  A log is well formed when each of its
   prefixes is the corresponding prefix of the leader log of the prefix' last term. *)

Definition wf (LLf : nat -> elog) (l : elog) : Prop :=
  forall i, 1 <= i <= length l -> firstn i l = firstn i (LLf (term_at l i)).

Definition terms_pos (l : elog) : Prop := forall e, In e l -> 1 <= fst e.

Lemma wf_nil : forall LLf, wf LLf [].
Proof. intros LLf i H. cbn in H. lia. Qed.

Lemma wf_match : forall LLf a b i,
  wf LLf a -> wf LLf b -> 1 <= i <= length a -> i <= length b ->
  term_at a i = term_at b i -> firstn i a = firstn i b.
Proof.
  intros LLf a b i Ha Hb Hia Hib E. rewrite (Ha i Hia), (Hb i ltac:(lia)), E. reflexivity.
Qed.

Lemma wf_firstn : forall LLf l k, wf LLf l -> wf LLf (firstn k l).
Proof.
  intros LLf l k H i Hi. rewrite firstn_length in Hi.
  rewrite term_at_firstn by lia. rewrite firstn_firstn, Nat.min_l by lia.
  apply H. lia.
Qed.

Lemma In_firstn : forall (A : Type) (l : list A) k x, In x (firstn k l) -> In x l.
Proof.
  intros A l k x H. rewrite <- (firstn_skipn k l). apply in_or_app. left. exact H.
Qed.

Lemma terms_pos_firstn : forall (l : elog) k, terms_pos l -> terms_pos (firstn k l).
Proof. intros l k H e He. apply H. eapply In_firstn. exact He. Qed.

Lemma terms_pos_term_at : forall (l : elog) i, terms_pos l -> 1 <= i <= length l -> 1 <= term_at l i.
Proof.
  intros l i H Hi. destruct (term_at_in l i Hi) as (e & He & E). rewrite <- E. apply H. exact He.
Qed.

Lemma terms_pos_zero : forall (l : elog) i, terms_pos l -> i <= length l -> term_at l i = 0 -> i = 0.
Proof.
  intros l i H Hi E. destruct i as [|j]; [reflexivity|].
  pose proof (terms_pos_term_at l (S j) H ltac:(lia)). lia.
Qed.

(* ------------------------------------------------------------------ findConflict *)

Lemma find_conflict_spec : forall ents L idx,
  (find_conflict L idx ents = 0 /\
   forall j, j < length ents -> term_at L (idx + j) = fst (nth j ents (0, 0)))
  \/
  (exists j, j < length ents /\ find_conflict L idx ents = idx + j /\ idx + j <> 0 /\
     (forall j', j' < j -> term_at L (idx + j') = fst (nth j' ents (0, 0))) /\
     term_at L (idx + j) <> fst (nth j ents (0, 0)))
  \/ (idx = 0 /\ ents <> []).
Proof.
  induction ents as [|e t IH]; intros L idx.
  - left. split; [reflexivity|]. intros j Hj. cbn in Hj. lia.
  - cbn [find_conflict]. destruct (term_at L idx =? fst e) eqn:E.
    + apply Nat.eqb_eq in E. destruct (IH L (S idx)) as [[H0 Hall]|[(j & Hj & Hc & Hnz & Hbefore & Hat)|[Hz _]]].
      * left. split; [exact H0|]. intros j Hj. destruct j as [|j].
        -- rewrite Nat.add_0_r. exact E.
        -- cbn [nth]. replace (idx + S j) with (S idx + j) by lia. apply Hall. cbn in Hj. lia.
      * right. left. exists (S j). cbn [length]. split; [lia|]. split; [rewrite Hc; lia|]. split; [lia|]. split.
        -- intros j' Hj'. destruct j' as [|j']; [rewrite Nat.add_0_r; exact E|].
           cbn [nth]. replace (idx + S j') with (S idx + j') by lia. apply Hbefore. lia.
        -- cbn [nth]. replace (idx + S j) with (S idx + j) by lia. exact Hat.
      * discriminate.
    + apply Nat.eqb_neq in E. destruct idx as [|idx'].
      * right. right. split; [reflexivity|discriminate].
      * right. left. exists 0. cbn [length]. split; [lia|]. split; [lia|]. split; [lia|]. split.
        -- intros j' Hj'. lia.
        -- rewrite Nat.add_0_r. exact E.
Qed.

(* ------------------------------------------------------------------ commitTo *)

Lemma commit_to_spec : forall l c tc c',
  commit_to l c tc = Some c' ->
  (c' = c /\ tc <= c) \/ (c' = tc /\ c < tc /\ tc <= length l).
Proof.
  intros l c tc c' H. unfold commit_to in H.
  destruct (c <? tc) eqn:E1.
  - apply Nat.ltb_lt in E1. destruct (length l <? tc) eqn:E2; [discriminate|].
    apply Nat.ltb_ge in E2. injection H as H. right. lia.
  - apply Nat.ltb_ge in E1. injection H as H. left. lia.
Qed.

(* ------------------------------------------------------------------ maybeAppend
   X is the sender's log: ents is its segment after idx.  *)

Lemma segment_nth : forall (X : elog) idx ents j,
  firstn idx X ++ ents = firstn (idx + length ents) X -> idx + length ents <= length X ->
  j < length ents -> fst (nth j ents (0, 0)) = term_at X (idx + 1 + j).
Proof.
  intros X idx ents j Hseg Hlen Hj.
  replace (idx + 1 + j) with (S (idx + j)) by lia. rewrite !term_at_S.
  assert (Hl : length (firstn idx X) = idx) by (rewrite firstn_length; lia).
  assert (E : nth_error X (idx + j) = nth_error ents j).
  { rewrite <- (nth_error_firstn_eq _ (firstn (idx + length ents) X) X (idx + length ents) (idx + j)).
    - rewrite <- Hseg. rewrite nth_error_app2 by lia. rewrite Hl. f_equal. lia.
    - rewrite firstn_firstn, Nat.min_id. reflexivity.
    - lia. }
  rewrite E. destruct (nth_error ents j) as [e|] eqn:En.
  - rewrite (nth_error_nth ents j (0,0) En). reflexivity.
  - apply nth_error_None in En. lia.
Qed.

Lemma maybe_append_spec : forall LLf L X com idx mc ents L' c' lni,
  wf LLf L -> wf LLf X -> terms_pos X ->
  firstn idx X ++ ents = firstn (idx + length ents) X -> idx + length ents <= length X ->
  com <= length L ->
  maybe_append L com idx (term_at X idx) mc ents = AppOk L' c' lni ->
  lni = idx + length ents /\ lni <= length L' /\ firstn lni L' = firstn lni X /\
  (L' = L \/
   (L' = firstn lni X /\ exists ci, com < ci /\ ci <= lni /\ ci - 1 <= length L /\
      firstn (ci - 1) L = firstn (ci - 1) X /\ term_at L ci <> term_at X ci)) /\
  ((c' = com /\ Nat.min mc lni <= com) \/ (c' = Nat.min mc lni /\ com < c' /\ c' <= length L')).
Proof.
  intros LLf L X com idx mc ents L' c' lni HwL HwX Hpos Hseg Hlen Hcom H.
  unfold maybe_append in H.
  destruct (term_at L idx =? term_at X idx) eqn:Em; [|discriminate].
  apply Nat.eqb_eq in Em.
  (* the logs agree up to idx *)
  assert (Hidx : idx <= length L /\ firstn idx L = firstn idx X).
  { destruct idx as [|i']; [split; [lia|reflexivity]|].
    assert (Hp : 1 <= term_at X (S i')) by (apply terms_pos_term_at; [exact Hpos|lia]).
    assert (Hr : 1 <= S i' <= length L) by (apply term_at_range; lia).
    split; [lia|]. apply (wf_match LLf); try assumption; lia. }
  destruct Hidx as [HidxL Hpre].
  (* agreement at a position with equal non-dummy terms *)
  assert (Hagree : forall p, idx <= p -> p <= idx + length ents ->
            (forall j, j < p - idx -> term_at L (idx + 1 + j) = term_at X (idx + 1 + j)) ->
            p <= length L /\ firstn p L = firstn p X).
  { intros p Hp1 Hp2 Hall. destruct (Nat.eq_dec p idx) as [->|Hne]; [split; assumption|].
    assert (Et : term_at L p = term_at X p).
    { specialize (Hall (p - idx - 1) ltac:(lia)). replace (idx + 1 + (p - idx - 1)) with p in Hall by lia. exact Hall. }
    assert (Hp : 1 <= term_at X p) by (apply terms_pos_term_at; [exact Hpos|lia]).
    assert (Hr : 1 <= p <= length L) by (apply term_at_range; lia).
    split; [lia|]. apply (wf_match LLf); try assumption; lia. }
  set (ci := find_conflict L (idx + 1) ents) in *.
  destruct (find_conflict_spec ents L (idx + 1)) as [[H0 Hall]|[(j & Hj & Hc & Hnz & Hbefore & Hat)|[Hz _]]]; [| |lia].
  - (* no conflict: log unchanged *)
    fold ci in H0. rewrite H0 in H. cbn [Nat.eqb] in H.
    destruct (commit_to L com (Nat.min mc (idx + length ents))) as [c|] eqn:Ec; [|discriminate].
    injection H as <- <- <-.
    destruct (Hagree (idx + length ents) ltac:(lia) ltac:(lia)) as [Hl Ha].
    { intros j Hj. rewrite Hall by lia. apply segment_nth; [exact Hseg|exact Hlen|lia]. }
    split; [reflexivity|]. split; [exact Hl|]. split; [exact Ha|]. split; [left; reflexivity|].
    destruct (commit_to_spec _ _ _ _ Ec) as [[-> Hle]|[-> [Hlt Hle]]]; [left; split; [reflexivity|exact Hle]|right; repeat split; lia].
  - (* conflict at ci = idx + 1 + j *)
    fold ci in Hc. destruct (ci =? 0) eqn:Ez; [apply Nat.eqb_eq in Ez; lia|].
    destruct (ci <=? com) eqn:Ecc; [discriminate|]. apply Nat.leb_gt in Ecc.
    set (Ln := firstn (ci - 1) L ++ skipn (ci - (idx + 1)) ents) in *.
    destruct (commit_to Ln com (Nat.min mc (idx + length ents))) as [c|] eqn:Ec; [|discriminate].
    injection H as <- <- <-.
    destruct (Hagree (idx + j) ltac:(lia) ltac:(lia)) as [Hl Ha].
    { intros j' Hj'. rewrite Hbefore by lia. apply segment_nth; [exact Hseg|exact Hlen|lia]. }
    assert (Eci : ci - 1 = idx + j) by lia.
    assert (ELn : Ln = firstn (idx + length ents) X).
    { unfold Ln. rewrite Eci. replace (ci - (idx + 1)) with j by lia.
      rewrite Ha. rewrite <- Hseg.
      assert (E1 : firstn (idx + j) X = firstn idx X ++ firstn j ents).
      { rewrite <- (firstn_agree_le _ (firstn idx X ++ ents) X (idx + length ents) (idx + j)).
        - rewrite firstn_app. rewrite firstn_length. rewrite Nat.min_l by lia.
          rewrite firstn_firstn. rewrite Nat.min_r by lia.
          replace (idx + j - idx) with j by lia. reflexivity.
        - rewrite Hseg. rewrite firstn_firstn, Nat.min_id. reflexivity.
        - lia. }
      rewrite E1. rewrite <- app_assoc. rewrite firstn_skipn. reflexivity. }
    assert (HlenLn : length Ln = idx + length ents).
    { rewrite ELn. rewrite firstn_length. lia. }
    split; [reflexivity|]. split; [lia|]. split; [rewrite ELn at 1; rewrite firstn_firstn, Nat.min_id; reflexivity|].
    split.
    + right. split; [exact ELn|]. exists ci. split; [lia|]. split; [lia|]. split; [lia|].
      split; [rewrite Eci; exact Ha|].
      rewrite Hc. intros Eq. apply Hat. rewrite Eq. symmetry. apply segment_nth; [exact Hseg|exact Hlen|lia].
    + destruct (commit_to_spec _ _ _ _ Ec) as [[-> Hle]|[-> [Hlt Hle]]]; [left; split; [reflexivity|exact Hle]|right; repeat split; lia].
Qed.
