(* C15 — trace checker for runs with Config.PreVote (extracted) and its soundness w.r.t.
   RaftPV.pxstep.  Same acceptance rule as RaftCheck.check_step; the observed role "pre-candidate"
   must coincide with the model's flag. *)
Require Import List Arith Bool Lia.
Require Import Raft.Quorum Raft.RaftModel Raft.RaftSys Raft.RaftLog Raft.RaftInvBase Raft.RaftCheck Raft.RaftPV.
Import ListNotations.

Definition memb_p (m : pmsg) (l : list pmsg) : bool := existsb (pmsg_eqb m) l.

Inductive pverdict : Type :=
| PVOk (x' : pxstate)
| PVBadEvent
| PVMissingReply (m : pmsg)
| PVBadEmit (m : pmsg)
| PVStateMismatch (expected : nproj) (expected_pre : bool).

Section CheckPV.
  Variables c0 c1 : list nat.

  Definition pev_okb (x : pxstate) (id : nat) (ev : pevent) : bool :=
    match ev with
    | PvRecv m => memb_p m (px_msgs x) && (pmsg_to m =? id)
    | _ => true
    end.

  Definition check_step_pv (x : pxstate) (id : nat) (ev : pevent) (obs_out : list pmsg)
             (obs : nproj) (obs_pre : bool) : pverdict :=
    let r := exec_pv c0 c1 id ev (px_nodes x id) in
    let st' := fst r in
    let replies := snd r in
    let extra := filter (fun m => negb (memb_p m replies)) obs_out in
    if negb (pev_okb x id ev) then PVBadEvent
    else match find (fun m => negb (memb_p m obs_out)) replies with
         | Some m => PVMissingReply m
         | None =>
             match find (fun m => negb (emit_pv_okb id st' m)) extra with
             | Some m => PVBadEmit m
             | None =>
                 if proj_eqb (proj_of (fst st')) obs && Bool.eqb (snd st') obs_pre
                 then PVOk (mkPX (upd (px_nodes x) id st') (px_msgs x ++ replies ++ extra))
                 else PVStateMismatch (proj_of (fst st')) (snd st')
             end
         end.

  Lemma pmsg_eqb_eq : forall a b, pmsg_eqb a b = true -> a = b.
  Proof.
    intros [x|f1 t1 tm1 lt1 i1|f1 t1 tm1 r1|f1 t1 tm1|f1 t1 tm1] [y|f2 t2 tm2 lt2 i2|f2 t2 tm2 r2|f2 t2 tm2|f2 t2 tm2] H; cbn in H; try discriminate.
    - apply msg_eqb_eq in H. subst. reflexivity.
    - repeat (apply andb_true_iff in H as [H ?]).
      repeat match goal with E : (_ =? _) = true |- _ => apply Nat.eqb_eq in E end. subst. reflexivity.
    - repeat (apply andb_true_iff in H as [H ?]).
      repeat match goal with E : (_ =? _) = true |- _ => apply Nat.eqb_eq in E end.
      match goal with E : Bool.eqb _ _ = true |- _ => apply eqb_prop in E end. subst. reflexivity.
    - repeat (apply andb_true_iff in H as [H ?]).
      repeat match goal with E : (_ =? _) = true |- _ => apply Nat.eqb_eq in E end. subst. reflexivity.
    - repeat (apply andb_true_iff in H as [H ?]).
      repeat match goal with E : (_ =? _) = true |- _ => apply Nat.eqb_eq in E end. subst. reflexivity.
  Qed.

  Lemma memb_p_In : forall m l, memb_p m l = true -> In m l.
  Proof.
    intros m l H. unfold memb_p in H. apply existsb_exists in H as (y & Hy & E).
    apply pmsg_eqb_eq in E. subst. exact Hy.
  Qed.

  Theorem check_step_pv_sound : forall x id ev obs_out obs obs_pre x',
    check_step_pv x id ev obs_out obs obs_pre = PVOk x' -> pxstep c0 c1 x x'.
  Proof.
    intros x id ev obs_out obs obs_pre x' H. unfold check_step_pv in H.
    destruct (negb (pev_okb x id ev)) eqn:Eev; [discriminate|]. apply negb_false_iff in Eev.
    destruct (find (fun m => negb (memb_p m obs_out)) (snd (exec_pv c0 c1 id ev (px_nodes x id)))); [discriminate|].
    destruct (find (fun m => negb (emit_pv_okb id (fst (exec_pv c0 c1 id ev (px_nodes x id))) m))
                   (filter (fun m => negb (memb_p m (snd (exec_pv c0 c1 id ev (px_nodes x id))))) obs_out)) eqn:Ef; [discriminate|].
    destruct (proj_eqb _ obs && Bool.eqb _ obs_pre); [|discriminate]. injection H as <-.
    apply PXStep.
    - intros m ->. cbn [pev_okb] in Eev. apply andb_true_iff in Eev as [E1 E2].
      split; [apply memb_p_In; exact E1|apply Nat.eqb_eq; exact E2].
    - apply find_none_forallb in Ef. rewrite forallb_forall in Ef. apply forallb_forall.
      intros m Hm. specialize (Ef m Hm). apply negb_true_iff in Ef. apply negb_false_iff in Ef. exact Ef.
  Qed.
End CheckPV.
