(* C15 — every step of the executable system (RaftSys.xstep: one RawNode call run to
   quiescence) is a sequence of micro steps.  Hence every state reachable at the
   executable level is, node by node, a state reachable at the micro level, where the
   invariant holds. *)
Require Import List Arith Bool Lia.
Require Import Raft.Quorum Raft.RaftModel Raft.RaftSys Raft.RaftInvBase.
Import ListNotations.

Section Refine.
  Variables c0 c1 : list nat.
  (* the micro level may use any configuration of the family; the executable level uses (c0, c1) *)
  Variable F : list (list nat * list nat).
  Hypothesis HinF : In (c0, c1) F.

  (* s' is reached from s by micro steps that changed node id into n' and sent out *)
  Definition reaches (s : mstate) (id : nat) (n' : nstate) (out : list msg) (s' : mstate) : Prop :=
    msteps F s s' /\ nodes s' id = n' /\ (forall y, y <> id -> nodes s' y = nodes s y) /\
    msgs s' = msgs s ++ out.

  Lemma msteps_trans : forall s1 s2 s3, msteps F s1 s2 -> msteps F s2 s3 -> msteps F s1 s3.
  Proof.
    intros s1 s2 s3 H12 H23. induction H23 as [|s3 s4 _ IH Hs]; [exact H12|].
    eapply MS_trans; [exact IH|exact Hs].
  Qed.

  Lemma msteps_one : forall s s', mstep F s s' -> msteps F s s'.
  Proof. intros s s' H. eapply MS_trans; [apply MS_refl|exact H]. Qed.

  Lemma reaches_refl : forall s id, reaches s id (nodes s id) [] s.
  Proof.
    intros s id. split; [apply MS_refl|]. split; [reflexivity|]. split; [reflexivity|].
    rewrite app_nil_r. reflexivity.
  Qed.

  Lemma reaches_trans : forall s id n1 o1 s1 n2 o2 s2,
    reaches s id n1 o1 s1 -> reaches s1 id n2 o2 s2 -> reaches s id n2 (o1 ++ o2) s2.
  Proof.
    intros s id n1 o1 s1 n2 o2 s2 (A1 & A2 & A3 & A4) (B1 & B2 & B3 & B4).
    split; [eapply msteps_trans; eassumption|]. split; [exact B2|].
    split; [intros y Hy; rewrite B3 by exact Hy; apply A3; exact Hy|].
    rewrite B4, A4, app_assoc. reflexivity.
  Qed.

  (* a micro step of the shape set_node (+ messages, + ghosts) *)
  Lemma reaches_step : forall s id n' out s',
    mstep F s s' -> nodes s' = upd (nodes s) id n' -> msgs s' = msgs s ++ out ->
    reaches s id n' out s'.
  Proof.
    intros s id n' out s' Hs Hn Hm. split; [apply msteps_one; exact Hs|].
    split; [rewrite Hn; apply upd_same|]. split; [intros y Hy; rewrite Hn; apply upd_other; exact Hy|exact Hm].
  Qed.

  Ltac one_step C := eapply reaches_step; [C| reflexivity | cbn [msgs set_node add_msgs set_gv set_ga set_leader_log]; try rewrite app_nil_r; reflexivity].

  (* ---------------------------------------------------------------- advance *)
  Lemma reaches_advance : forall s id,
    exists s', reaches s id (advance c0 c1 id (nodes s id)) [] s'.
  Proof.
    intros s id. set (n := nodes s id). unfold advance.
    destruct (n_role n) eqn:Er; try (exists s; apply reaches_refl).
    unfold leader_ack. destruct (n_match n id <? length (n_log n)) eqn:Elt; [|exists s; apply reaches_refl].
    set (n1 := set_match (upd (n_match n) id (length (n_log n))) n).
    assert (R1 : reaches s id n1 [] (set_node s id n1)).
    { eapply reaches_step; [apply M_selfack; [exact Er|unfold n; lia]|reflexivity|cbn; rewrite app_nil_r; reflexivity]. }
    set (s1 := set_node s id n1) in *.
    assert (Hn1 : nodes s1 id = n1) by (apply (proj1 (proj2 R1))).
    assert (R2 : reaches s1 id (maybe_commit c0 c1 n1) [] (set_node s1 id (maybe_commit c0 c1 (nodes s1 id)))).
    { eapply reaches_step; [apply (M_commit F _ id (c0, c1) HinF); rewrite Hn1; exact Er|rewrite Hn1; reflexivity|cbn; rewrite app_nil_r; reflexivity]. }
    eexists. apply (reaches_trans s id n1 [] s1 _ [] _ R1 R2).
  Qed.

  (* ---------------------------------------------------------------- poll *)
  Lemma reaches_poll : forall s id,
    n_role (nodes s id) = Candidate ->
    exists s', reaches s id (poll_result c0 c1 id (nodes s id)) [] s'.
  Proof.
    intros s id Hr. unfold poll_result. destruct (tally c0 c1 (nodes s id)) eqn:Et.
    - exists s. apply reaches_refl.
    - eexists. eapply reaches_step; [apply M_demote|reflexivity|cbn; rewrite app_nil_r; reflexivity].
    - eexists. eapply reaches_step; [apply (M_win F s id (c0, c1) HinF Hr Et)|reflexivity|cbn; rewrite app_nil_r; reflexivity].
  Qed.

  (* ---------------------------------------------------------------- follower-side handlers *)
  Lemma reaches_append : forall s id m,
    In m (msgs s) -> m_type m = MsgApp -> m_to m = id -> m_term m = n_term (nodes s id) ->
    n_role (nodes s id) = Follower ->
    exists s', reaches s id (fst (handle_append id m (nodes s id))) (snd (handle_append id m (nodes s id))) s'.
  Proof.
    intros s id m Hm Hty Hto Htm Hr. eexists.
    eapply reaches_step; [apply M_append; eassumption|reflexivity|reflexivity].
  Qed.

  Lemma reaches_heartbeat : forall s id m,
    In m (msgs s) -> m_type m = MsgHeartbeat -> m_to m = id -> m_term m = n_term (nodes s id) ->
    n_role (nodes s id) = Follower ->
    exists s', reaches s id (fst (handle_heartbeat id m (nodes s id))) (snd (handle_heartbeat id m (nodes s id))) s'.
  Proof.
    intros s id m Hm Hty Hto Htm Hr. eexists.
    eapply reaches_step; [apply M_heartbeat; eassumption|reflexivity|reflexivity].
  Qed.

  Lemma reaches_snapshot : forall s id m,
    In m (msgs s) -> m_type m = MsgSnap -> m_to m = id -> m_term m = n_term (nodes s id) ->
    n_role (nodes s id) = Follower ->
    exists s', reaches s id (fst (handle_snapshot id m (nodes s id))) (snd (handle_snapshot id m (nodes s id))) s'.
  Proof.
    intros s id m Hm Hty Hto Htm Hr. eexists.
    eapply reaches_step; [apply M_snapshot; eassumption|reflexivity|reflexivity].
  Qed.

  (* after a preliminary step (demote / setlead) that keeps term and makes the node a follower *)
  Lemma reaches_pre_then : forall s id n1 s1 (f : nstate -> nstate * list msg),
    reaches s id n1 [] s1 ->
    (exists s2, reaches s1 id (fst (f (nodes s1 id))) (snd (f (nodes s1 id))) s2) ->
    exists s2, reaches s id (fst (f n1)) (snd (f n1)) s2.
  Proof.
    intros s id n1 s1 f R1 [s2 R2]. exists s2.
    pose proof (proj1 (proj2 R1)) as Hn1. rewrite Hn1 in R2.
    apply (reaches_trans s id n1 [] s1 _ _ s2 R1 R2).
  Qed.

  (* ---------------------------------------------------------------- step_same *)
  Lemma reaches_step_same : forall s id m,
    In m (msgs s) -> m_to m = id -> m_term m = n_term (nodes s id) ->
    exists s', reaches s id (fst (step_same c0 c1 id m (nodes s id))) (snd (step_same c0 c1 id m (nodes s id))) s'.
  Proof.
    intros s id m Hm Hto Htm. set (n := nodes s id) in *. unfold step_same.
    destruct (m_type m) eqn:Ety.
    - (* MsgVote *)
      destruct (can_vote m n && is_up_to_date (n_log n) (m_index m) (m_logterm m)) eqn:Ec; cbn [fst snd].
      + apply andb_true_iff in Ec as [Ec1 Ec2]. eexists.
        eapply reaches_step; [apply M_grant; eassumption|reflexivity|reflexivity].
      + exists (add_msgs s [reply id MsgVoteResp (m_from m) (n_term n) 0 true]).
        split; [apply msteps_one; apply M_junk; reflexivity|]. split; [reflexivity|]. split; [reflexivity|reflexivity].
    - (* MsgVoteResp *)
      destruct (n_role n) eqn:Er; cbn [fst snd]; try (exists s; apply reaches_refl).
      set (n1 := record_vote (m_from m) (negb (m_reject m)) n).
      assert (R1 : reaches s id n1 [] (set_node s id n1)).
      { eapply reaches_step; [apply M_record; eassumption|reflexivity|cbn; rewrite app_nil_r; reflexivity]. }
      set (s1 := set_node s id n1) in *.
      assert (Hn1 : nodes s1 id = n1) by (apply (proj1 (proj2 R1))).
      assert (Hr1 : n_role (nodes s1 id) = Candidate).
      { rewrite Hn1. unfold n1, record_vote. destruct (n_votes n (m_from m)); exact Er. }
      destruct (reaches_poll s1 id Hr1) as [s2 R2]. rewrite Hn1 in R2.
      exists s2. apply (reaches_trans s id n1 [] s1 _ [] s2 R1 R2).
    - (* MsgApp *)
      destruct (n_role n) eqn:Er.
      + assert (R1 : reaches s id (set_lead (Some (m_from m)) n) [] (set_node s id (set_lead (Some (m_from m)) n))).
        { eapply reaches_step; [apply M_setlead|reflexivity|cbn; rewrite app_nil_r; reflexivity]. }
        apply (reaches_pre_then s id _ _ (handle_append id m) R1).
        pose proof (proj1 (proj2 R1)) as Hn1.
        apply reaches_append; try assumption; rewrite Hn1; cbn [set_lead n_term n_role]; assumption.
      + assert (R1 : reaches s id (become_follower id (n_term n) (Some (m_from m)) n) []
                      (set_node s id (become_follower id (n_term n) (Some (m_from m)) n))).
        { eapply reaches_step; [apply M_demote|reflexivity|cbn; rewrite app_nil_r; reflexivity]. }
        apply (reaches_pre_then s id _ _ (handle_append id m) R1).
        pose proof (proj1 (proj2 R1)) as Hn1.
        apply reaches_append; try assumption; rewrite Hn1; cbn [become_follower n_term n_role]; try assumption; reflexivity.
      + cbn [fst snd]. exists s. apply reaches_refl.
    - (* MsgAppResp *)
      destruct (n_role n) eqn:Er; cbn [fst snd]; try (exists s; apply reaches_refl).
      destruct (m_reject m || negb (is_voter c0 c1 (m_from m))) eqn:Erj; cbn [fst snd]; [exists s; apply reaches_refl|].
      apply orb_false_iff in Erj as [Erj _].
      unfold leader_ack. destruct (n_match n (m_from m) <? m_index m) eqn:Elt; [|exists s; apply reaches_refl].
      set (n1 := set_match (upd (n_match n) (m_from m) (m_index m)) n).
      assert (R1 : reaches s id n1 [] (set_node s id n1)).
      { eapply reaches_step; [apply M_ack; eassumption|reflexivity|cbn; rewrite app_nil_r; reflexivity]. }
      set (s1 := set_node s id n1) in *.
      assert (Hn1 : nodes s1 id = n1) by (apply (proj1 (proj2 R1))).
      assert (R2 : reaches s1 id (maybe_commit c0 c1 n1) [] (set_node s1 id (maybe_commit c0 c1 (nodes s1 id)))).
      { eapply reaches_step; [apply (M_commit F _ id (c0, c1) HinF); rewrite Hn1; exact Er|rewrite Hn1; reflexivity|cbn; rewrite app_nil_r; reflexivity]. }
      eexists. apply (reaches_trans s id n1 [] s1 _ [] _ R1 R2).
    - (* MsgHeartbeat *)
      destruct (n_role n) eqn:Er.
      + assert (R1 : reaches s id (set_lead (Some (m_from m)) n) [] (set_node s id (set_lead (Some (m_from m)) n))).
        { eapply reaches_step; [apply M_setlead|reflexivity|cbn; rewrite app_nil_r; reflexivity]. }
        apply (reaches_pre_then s id _ _ (handle_heartbeat id m) R1).
        pose proof (proj1 (proj2 R1)) as Hn1.
        apply reaches_heartbeat; try assumption; rewrite Hn1; cbn [set_lead n_term n_role]; assumption.
      + assert (R1 : reaches s id (become_follower id (n_term n) (Some (m_from m)) n) []
                      (set_node s id (become_follower id (n_term n) (Some (m_from m)) n))).
        { eapply reaches_step; [apply M_demote|reflexivity|cbn; rewrite app_nil_r; reflexivity]. }
        apply (reaches_pre_then s id _ _ (handle_heartbeat id m) R1).
        pose proof (proj1 (proj2 R1)) as Hn1.
        apply reaches_heartbeat; try assumption; rewrite Hn1; cbn [become_follower n_term n_role]; try assumption; reflexivity.
      + cbn [fst snd]. exists s. apply reaches_refl.
    - (* MsgHeartbeatResp *)
      cbn [fst snd]. exists s. apply reaches_refl.
    - (* MsgSnap *)
      destruct (n_role n) eqn:Er.
      + assert (R1 : reaches s id (set_lead (Some (m_from m)) n) [] (set_node s id (set_lead (Some (m_from m)) n))).
        { eapply reaches_step; [apply M_setlead|reflexivity|cbn; rewrite app_nil_r; reflexivity]. }
        apply (reaches_pre_then s id _ _ (handle_snapshot id m) R1).
        pose proof (proj1 (proj2 R1)) as Hn1.
        apply reaches_snapshot; try assumption; rewrite Hn1; cbn [set_lead n_term n_role]; assumption.
      + assert (R1 : reaches s id (become_follower id (n_term n) (Some (m_from m)) n) []
                      (set_node s id (become_follower id (n_term n) (Some (m_from m)) n))).
        { eapply reaches_step; [apply M_demote|reflexivity|cbn; rewrite app_nil_r; reflexivity]. }
        apply (reaches_pre_then s id _ _ (handle_snapshot id m) R1).
        pose proof (proj1 (proj2 R1)) as Hn1.
        apply reaches_snapshot; try assumption; rewrite Hn1; cbn [become_follower n_term n_role]; try assumption; reflexivity.
      + cbn [fst snd]. exists s. apply reaches_refl.
  Qed.

  (* ---------------------------------------------------------------- handle *)
  Lemma reaches_handle : forall s id ev,
    (forall m, ev = EvRecv m -> In m (msgs s) /\ m_to m = id) ->
    exists s', reaches s id (fst (handle c0 c1 id ev (nodes s id))) (snd (handle c0 c1 id ev (nodes s id))) s'.
  Proof.
    intros s id ev Hev. set (n := nodes s id) in *. destruct ev as [|p|m| |]; cbn [handle fst snd].
    - (* campaign *)
      unfold hup. fold n. destruct (n_role n) eqn:Er; try (exists s; apply reaches_refl);
        (destruct (is_voter c0 c1 id); [|exists s; apply reaches_refl]).
      all: set (n1 := record_vote id true (become_candidate id n)).
      all: assert (R1 : reaches s id n1 [] (set_gv (set_node s id n1) id (S (n_term n)) id))
             by (eapply reaches_step; [apply M_campaign; fold n; congruence|reflexivity|cbn; rewrite app_nil_r; reflexivity]).
      all: set (s1 := set_gv (set_node s id n1) id (S (n_term n)) id) in *.
      all: assert (Hn1 : nodes s1 id = n1) by (apply (proj1 (proj2 R1))).
      all: destruct (tally c0 c1 n1) eqn:Et; try (exists s1; exact R1).
      all: eexists; eapply (reaches_trans s id n1 [] s1 _ [] _ R1).
      all: eapply reaches_step; [apply (M_win F _ id (c0, c1) HinF); rewrite Hn1; [reflexivity|exact Et]|rewrite Hn1; reflexivity|cbn; rewrite app_nil_r; reflexivity].
    - (* propose *)
      unfold propose. fold n. destruct (n_role n) eqn:Er; try (exists s; apply reaches_refl).
      eexists. eapply reaches_step; [apply (M_propose F s id p); exact Er|unfold propose; fold n; rewrite Er; reflexivity|cbn; rewrite app_nil_r; reflexivity].
    - (* recv *)
      destruct (Hev m eq_refl) as [Hm Hto]. unfold step_msg. fold n.
      destruct (n_term n <? m_term m) eqn:E1.
      + apply Nat.ltb_lt in E1.
        set (lead := match m_type m with MsgApp | MsgHeartbeat | MsgSnap => Some (m_from m) | _ => None end).
        set (n1 := become_follower id (m_term m) lead n).
        assert (R1 : reaches s id n1 [] (set_node s id n1)).
        { eapply reaches_step; [apply M_bump; exact E1|reflexivity|cbn; rewrite app_nil_r; reflexivity]. }
        apply (reaches_pre_then s id _ _ (step_same c0 c1 id m) R1).
        pose proof (proj1 (proj2 R1)) as Hn1.
        apply reaches_step_same; [exact Hm|exact Hto|rewrite Hn1; reflexivity].
      + destruct (m_term m <? n_term n) eqn:E2; [cbn [fst snd]; exists s; apply reaches_refl|].
        apply Nat.ltb_ge in E1. apply Nat.ltb_ge in E2.
        apply reaches_step_same; [exact Hm|exact Hto|fold n; lia].
    - (* restart *)
      eexists. eapply reaches_step; [apply (M_demote F s id None)|reflexivity|cbn; rewrite app_nil_r; reflexivity].
    - (* tick *)
      exists s. apply reaches_refl.
  Qed.

  Lemma reaches_emit : forall extra s id,
    forallb (emit_okb id (nodes s id)) extra = true ->
    exists s', reaches s id (nodes s id) extra s'.
  Proof.
    induction extra as [|m extra IH]; intros s id H.
    - exists s. apply reaches_refl.
    - cbn [forallb] in H. apply andb_true_iff in H as [H1 H2].
      assert (R1 : reaches s id (nodes s id) [m] (add_msgs s [m])).
      { split; [apply msteps_one; eapply M_emit; exact H1|]. split; [reflexivity|]. split; reflexivity. }
      destruct (IH (add_msgs s [m]) id H2) as [s' R2]. exists s'.
      apply (reaches_trans s id _ [m] _ _ extra s' R1 R2).
  Qed.

  (* ---------------------------------------------------------------- the simulation *)
  Definition xsim (s : mstate) (x : xstate) : Prop :=
    (forall y, nodes s y = x_nodes x y) /\ msgs s = x_msgs x.

  Lemma xstep_sim : forall s x x', xsim s x -> xstep c0 c1 x x' -> exists s', msteps F s s' /\ xsim s' x'.
  Proof.
    intros s x x' [Hn Hm] Hx. destruct Hx as [id ev extra Hev Hemit].
    rewrite <- (Hn id) in *. rewrite <- Hm in *.
    unfold exec_node in *.
    destruct (reaches_handle s id ev Hev) as [s1 R1].
    destruct (handle c0 c1 id ev (nodes s id)) as [n1 out] eqn:Eh. cbn [fst snd] in *.
    pose proof (proj1 (proj2 R1)) as Hn1.
    destruct (reaches_advance s1 id) as [s2 R2]. rewrite Hn1 in R2.
    pose proof (proj1 (proj2 R2)) as Hn2.
    assert (Hemit' : forallb (emit_okb id (nodes s2 id)) extra = true) by (rewrite Hn2; exact Hemit).
    destruct (reaches_emit extra s2 id Hemit') as [s3 R3]. rewrite Hn2 in R3.
    pose proof (reaches_trans _ _ _ _ _ _ _ _ (reaches_trans _ _ _ _ _ _ _ _ R1 R2) R3) as (A1 & A2 & A3 & A4).
    exists s3. split; [exact A1|]. split.
    - intros y. cbn [x_nodes]. destruct (Nat.eq_dec y id) as [->|Hy].
      + rewrite upd_same. exact A2.
      + rewrite upd_other by exact Hy. rewrite A3 by exact Hy. apply Hn.
    - cbn [x_msgs]. rewrite A4. rewrite app_nil_r. reflexivity.
  Qed.

  Lemma msteps_reachable : forall s s', mreachable F s -> msteps F s s' -> mreachable F s'.
  Proof.
    intros s s' Hr H. induction H as [|s1 s2 _ IH Hs]; [exact Hr|]. eapply MR_step; [exact IH|exact Hs].
  Qed.

  Theorem xreachable_sim : forall x, xreachable c0 c1 x -> exists s, mreachable F s /\ xsim s x.
  Proof.
    intros x H. induction H as [|x x' _ [s [Hr Hs]] Hx].
    - exists m_init. split; [apply MR_init|]. split; reflexivity.
    - destruct (xstep_sim s x x' Hs Hx) as (s' & Hms & Hs'). exists s'.
      split; [eapply msteps_reachable; eassumption|exact Hs'].
  Qed.
End Refine.
