(* C15 — properties of one executable step (one RawNode call), by analysis of the handler
   functions alone: the persisted HardState never regresses, the committed prefix of the log
   is never touched, and a leader only ever commits an index holding an entry of its own
   term. *)
Require Import List Arith Bool Lia.
Require Import Raft.Quorum Raft.RaftModel Raft.RaftSys Raft.RaftLog.
Import ListNotations.

Section StepProps.
  Variables c0 c1 : list nat.
  Variable id : nat.

  (* HardState part *)
  Definition hs_mono (n n' : nstate) : Prop :=
    n_term n <= n_term n' /\
    (n_term n' = n_term n -> n_vote n' = n_vote n \/ n_vote n = None) /\
    n_commit n <= n_commit n'.

  (* the committed prefix of the log is kept *)
  Definition keeps (n n' : nstate) : Prop :=
    n_commit n <= length (n_log n) ->
    firstn (n_commit n) (n_log n') = firstn (n_commit n) (n_log n).

  (* how the commit index can move: not at all, by a follower, or by a leader onto an entry
     of its current term *)
  Definition commit_how (n n' : nstate) : Prop :=
    n_commit n' = n_commit n \/ n_role n' = Follower \/
    (n_role n' = Leader /\ term_at (n_log n') (n_commit n') = n_term n').

  Lemma hs_mono_refl : forall n, hs_mono n n.
  Proof. intros n. split; [lia|split; [intros _; left; reflexivity|lia]]. Qed.

  Lemma hs_mono_trans : forall a b c, hs_mono a b -> hs_mono b c -> hs_mono a c.
  Proof.
    intros a b c (A1 & A2 & A3) (B1 & B2 & B3). split; [lia|split; [|lia]].
    intros E. assert (Eb : n_term b = n_term a) by lia. assert (Ec : n_term c = n_term b) by lia.
    destruct (A2 Eb) as [Hv|Hv]; [|right; exact Hv].
    destruct (B2 Ec) as [Hw|Hw]; [left; congruence|].
    destruct (n_vote a) eqn:Ea; [|right; reflexivity]. congruence.
  Qed.

  (* ---- the building blocks *)
  Lemma bf_props : forall t lead n, n_term n <= t ->
    hs_mono n (become_follower id t lead n) /\ n_log (become_follower id t lead n) = n_log n /\
    n_commit (become_follower id t lead n) = n_commit n /\ n_role (become_follower id t lead n) = Follower /\
    n_term (become_follower id t lead n) = t.
  Proof.
    intros t lead n H. unfold hs_mono. cbn [become_follower n_term n_vote n_log n_commit n_role].
    split; [|repeat split]. split; [lia|split; [|lia]].
    intros E. left. rewrite <- E. rewrite Nat.eqb_refl. reflexivity.
  Qed.

  Lemma maybe_commit_props : forall n, let n' := maybe_commit c0 c1 n in
    n_term n' = n_term n /\ n_vote n' = n_vote n /\ n_log n' = n_log n /\ n_role n' = n_role n /\
    n_commit n <= n_commit n' /\
    (n_commit n' = n_commit n \/ term_at (n_log n') (n_commit n') = n_term n').
  Proof.
    intros n. unfold maybe_commit.
    destruct (joint_committed_index c0 c1 (fun i => Some (n_match n i))) as [mci|]; [|cbn; repeat split; auto].
    destruct ((n_commit n <? mci) && (term_at (n_log n) mci =? n_term n)) eqn:E; [|cbn; repeat split; auto].
    apply andb_true_iff in E as [E1 E2]. apply Nat.ltb_lt in E1. apply Nat.eqb_eq in E2.
    cbn [set_commit n_term n_vote n_log n_role n_commit]. repeat split; try lia; try (right; exact E2).
  Qed.

  Lemma leader_ack_props : forall from k n, let n' := leader_ack c0 c1 from k n in
    n_term n' = n_term n /\ n_vote n' = n_vote n /\ n_log n' = n_log n /\ n_role n' = n_role n /\
    n_commit n <= n_commit n' /\
    (n_commit n' = n_commit n \/ term_at (n_log n') (n_commit n') = n_term n').
  Proof.
    intros from k n. unfold leader_ack. destruct (n_match n from <? k); [|cbn; repeat split; auto].
    apply (maybe_commit_props (set_match (upd (n_match n) from k) n)).
  Qed.

  Lemma advance_props : forall n, let n' := advance c0 c1 id n in
    n_term n' = n_term n /\ n_vote n' = n_vote n /\ n_log n' = n_log n /\ n_role n' = n_role n /\
    n_commit n <= n_commit n' /\
    (n_commit n' = n_commit n \/ term_at (n_log n') (n_commit n') = n_term n').
  Proof.
    intros n. unfold advance. destruct (n_role n) eqn:Er; try (cbn; repeat split; auto; fail).
    pose proof (leader_ack_props id (length (n_log n)) n) as H. cbn zeta in H. rewrite Er in H. exact H.
  Qed.

  Lemma record_vote_props : forall from v n, let n' := record_vote from v n in
    n_term n' = n_term n /\ n_vote n' = n_vote n /\ n_log n' = n_log n /\ n_role n' = n_role n /\
    n_commit n' = n_commit n.
  Proof. intros from v n. unfold record_vote. destruct (n_votes n from); cbn; repeat split. Qed.

  (* summary of a handler: HardState monotone, committed prefix kept, commit moved legally *)
  Definition good (n n' : nstate) : Prop := hs_mono n n' /\ keeps n n' /\ commit_how n n'.

  Lemma good_same : forall n n',
    n_term n' = n_term n -> n_vote n' = n_vote n -> n_log n' = n_log n -> n_commit n' = n_commit n -> good n n'.
  Proof.
    intros n n' Et Ev El Ec. split; [|split].
    - split; [lia|split; [intros _; left; exact Ev|lia]].
    - intros _. rewrite El. reflexivity.
    - left. exact Ec.
  Qed.

  Lemma good_append_entry : forall n n' e,
    n_term n' = n_term n -> n_vote n' = n_vote n -> n_log n' = n_log n ++ [e] -> n_commit n' = n_commit n -> good n n'.
  Proof.
    intros n n' e Et Ev El Ec. split; [|split].
    - split; [lia|split; [intros _; left; exact Ev|lia]].
    - intros H. rewrite El. apply firstn_app_le. exact H.
    - left. exact Ec.
  Qed.

  (* the same, with the committed-prefix part under a condition (it fails, at the level of the
     handler functions alone, for the restore of a snapshot: see RaftSafetySteps.v) *)
  Definition goodk (k : Prop) (n n' : nstate) : Prop :=
    hs_mono n n' /\ (k -> keeps n n') /\ commit_how n n'.

  Lemma good_goodk : forall (k : Prop) n n', good n n' -> goodk k n n'.
  Proof. intros k n n' (H1 & H2 & H3). split; [exact H1|split; [intros _; exact H2|exact H3]]. Qed.

  Lemma poll_result_good : forall n, good n (poll_result c0 c1 id n).
  Proof.
    intros n. unfold poll_result. destruct (tally c0 c1 n).
    - apply good_same; reflexivity.
    - apply good_same; cbn [become_follower n_term n_vote n_log n_commit]; try reflexivity.
      rewrite Nat.eqb_refl. reflexivity.
    - eapply good_append_entry; reflexivity.
  Qed.

  Lemma hup_good : forall n, good n (hup c0 c1 id n).
  Proof.
    intros n. unfold hup. destruct (n_role n); try (apply good_same; reflexivity);
      (destruct (is_voter c0 c1 id); [|apply good_same; reflexivity]).
    all: set (n1 := record_vote id true (become_candidate id n)).
    all: assert (H1 : n_term n1 = S (n_term n) /\ n_log n1 = n_log n /\ n_commit n1 = n_commit n)
           by (destruct (record_vote_props id true (become_candidate id n)) as (A & B & C & D & E); cbn zeta in *; fold n1 in A, B, C, D, E;
               rewrite A, C, E; cbn; repeat split).
    all: destruct H1 as (Ht & Hl & Hc).
    all: destruct (tally c0 c1 n1).
    all: try (split; [split; [lia|split; [intros E; lia|lia]]|split; [intros H; rewrite Hl; reflexivity|left; exact Hc]]).
    all: split; [split; [cbn [become_leader n_term]; lia|split; [cbn [become_leader n_term]; intros E; lia|cbn [become_leader n_commit]; lia]]|].
    all: split; [intros H; cbn [become_leader n_log]; rewrite Hl; apply firstn_app_le; exact H|left; cbn [become_leader n_commit]; exact Hc].
  Qed.

  Lemma propose_good : forall p n, good n (propose p n).
  Proof.
    intros p n. unfold propose. destruct (n_role n); try (apply good_same; reflexivity).
    eapply good_append_entry; reflexivity.
  Qed.

  Lemma handle_append_good : forall m n, n_role n = Follower -> good n (fst (handle_append id m n)) /\ n_role (fst (handle_append id m n)) = Follower.
  Proof.
    intros m n Hr. unfold handle_append. destruct (m_index m <? n_commit n); [split; [apply good_same; reflexivity|exact Hr]|].
    destruct (maybe_append (n_log n) (n_commit n) (m_index m) (m_logterm m) (m_commit m) (m_ents m)) as [| |L' c' lni] eqn:E;
      try (split; [apply good_same; reflexivity|exact Hr]).
    cbn [fst set_commit set_log n_role]. split; [|exact Hr].
    unfold maybe_append in E. destruct (term_at (n_log n) (m_index m) =? m_logterm m); [|discriminate].
    set (ci := find_conflict (n_log n) (m_index m + 1) (m_ents m)) in *.
    destruct (ci =? 0) eqn:Ez.
    - destruct (commit_to (n_log n) (n_commit n) (Nat.min (m_commit m) (m_index m + length (m_ents m)))) as [c|] eqn:Ec; [|discriminate].
      injection E as <- <- <-. destruct (commit_to_spec _ _ _ _ Ec) as [[-> _]|(-> & Hlt & _)].
      + apply good_same; reflexivity.
      + split; [|split].
        * split; [cbn; lia|split; [intros _; left; reflexivity|cbn; lia]].
        * intros _. reflexivity.
        * right. left. exact Hr.
    - destruct (ci <=? n_commit n) eqn:Ecc; [discriminate|]. apply Nat.leb_gt in Ecc.
      set (Ln := firstn (ci - 1) (n_log n) ++ skipn (ci - (m_index m + 1)) (m_ents m)) in *.
      destruct (commit_to Ln (n_commit n) (Nat.min (m_commit m) (m_index m + length (m_ents m)))) as [c|] eqn:Ec; [|discriminate].
      injection E as <- <- <-.
      assert (Hkeep : n_commit n <= length (n_log n) -> firstn (n_commit n) Ln = firstn (n_commit n) (n_log n)).
      { intros H. unfold Ln. rewrite firstn_app_le by (rewrite firstn_length; lia).
        rewrite firstn_firstn. rewrite Nat.min_l by lia. reflexivity. }
      split; [|split].
      * destruct (commit_to_spec _ _ _ _ Ec) as [[-> _]|(-> & Hlt & _)];
          (split; [cbn; lia|split; [intros _; left; reflexivity|cbn; lia]]).
      * exact Hkeep.
      * right. left. exact Hr.
  Qed.

  Lemma handle_heartbeat_good : forall m n, n_role n = Follower -> good n (fst (handle_heartbeat id m n)).
  Proof.
    intros m n Hr. unfold handle_heartbeat.
    destruct (commit_to (n_log n) (n_commit n) (m_commit m)) as [c|] eqn:Ec; [|apply good_same; reflexivity].
    cbn [fst]. destruct (commit_to_spec _ _ _ _ Ec) as [[-> _]|(-> & Hlt & _)]; [apply good_same; reflexivity|].
    split; [|split].
    - split; [cbn; lia|split; [intros _; left; reflexivity|cbn; lia]].
    - intros _. reflexivity.
    - right. left. exact Hr.
  Qed.

  (* composing a first leg that keeps log and commit with a second leg *)
  Lemma good_after_same_log : forall a b c,
    hs_mono a b -> n_log b = n_log a -> n_commit b = n_commit a -> good b c -> good a c.
  Proof.
    intros a b c Hab Hl Hc (H1 & H2 & H3). split; [eapply hs_mono_trans; eassumption|split].
    - intros H. rewrite <- Hl, <- Hc. apply H2. rewrite Hl, Hc. exact H.
    - destruct H3 as [H3|H3]; [left; lia|right; exact H3].
  Qed.

  Lemma goodk_after_same_log : forall (k : Prop) a b c,
    hs_mono a b -> n_log b = n_log a -> n_commit b = n_commit a -> goodk k b c -> goodk k a c.
  Proof.
    intros k a b c Hab Hl Hc (H1 & H2 & H3). split; [eapply hs_mono_trans; eassumption|split].
    - intros Hk H. rewrite <- Hl, <- Hc. apply (H2 Hk). rewrite Hl, Hc. exact H.
    - destruct H3 as [H3|H3]; [left; lia|right; exact H3].
  Qed.

  Lemma handle_snapshot_props : forall m n, n_role n = Follower ->
    hs_mono n (fst (handle_snapshot id m n)) /\ n_role (fst (handle_snapshot id m n)) = Follower.
  Proof.
    intros m n Hr. unfold handle_snapshot.
    destruct ((m_index m <=? n_commit n) || m_reject m) eqn:E1; [split; [apply hs_mono_refl|exact Hr]|].
    apply orb_false_iff in E1 as [E1 _]. apply Nat.leb_gt in E1.
    destruct (term_at (n_log n) (m_index m) =? m_logterm m).
    - destruct (commit_to (n_log n) (n_commit n) (m_index m)) as [c|] eqn:Ec; [|split; [apply hs_mono_refl|exact Hr]].
      cbn [fst]. split; [|exact Hr].
      destruct (commit_to_spec _ _ _ _ Ec) as [[-> _]|(-> & Hlt & _)];
        (split; [cbn; lia|split; [intros _; left; reflexivity|cbn; lia]]).
    - cbn [fst n_role]. split; [|exact Hr].
      split; [cbn; lia|split; [intros _; left; reflexivity|cbn; lia]].
  Qed.

  Lemma step_same_good : forall m n, m_term m = n_term n ->
    goodk (m_type m <> MsgSnap) n (fst (step_same c0 c1 id m n)).
  Proof.
    intros m n Htm. unfold step_same. destruct (m_type m) eqn:Ety;
      [apply good_goodk|apply good_goodk|apply good_goodk|apply good_goodk|apply good_goodk|apply good_goodk|].
    - (* MsgVote *)
      destruct (can_vote m n && is_up_to_date (n_log n) (m_index m) (m_logterm m)) eqn:E; [|apply good_same; reflexivity].
      cbn [fst]. apply andb_true_iff in E as [E _]. split; [|split].
      + split; [cbn; lia|split; [|cbn; lia]]. intros _. cbn [set_vote n_vote].
        unfold can_vote in E. apply orb_true_iff in E as [E|E].
        * left. destruct (n_vote n) as [v|]; cbn in E; [apply Nat.eqb_eq in E; subst; reflexivity|discriminate].
        * right. apply andb_true_iff in E as [E _]. destruct (n_vote n); [discriminate|reflexivity].
      + intros _. reflexivity.
      + left. reflexivity.
    - (* MsgVoteResp *)
      destruct (n_role n); try (apply good_same; reflexivity). cbn [fst].
      destruct (record_vote_props (m_from m) (negb (m_reject m)) n) as (A & B & C & D & E). cbn zeta in *.
      apply (good_after_same_log n (record_vote (m_from m) (negb (m_reject m)) n)); try assumption.
      * split; [lia|split; [intros _; left; exact B|lia]].
      * apply poll_result_good.
    - (* MsgApp *)
      destruct (n_role n) eqn:Er; [| |apply good_same; reflexivity].
      + apply (good_after_same_log n (set_lead (Some (m_from m)) n)); try reflexivity; [split; [cbn; lia|split; [intros _; left; reflexivity|cbn; lia]]|].
        apply handle_append_good. exact Er.
      + destruct (bf_props (n_term n) (Some (m_from m)) n ltac:(lia)) as (A & B & C & D & _).
        apply (good_after_same_log n (become_follower id (n_term n) (Some (m_from m)) n)); try assumption.
        apply handle_append_good. exact D.
    - (* MsgAppResp *)
      destruct (n_role n) eqn:Er; try (apply good_same; reflexivity).
      destruct (m_reject m || negb (is_voter c0 c1 (m_from m))); [apply good_same; reflexivity|]. cbn [fst].
      destruct (leader_ack_props (m_from m) (m_index m) n) as (A & B & C & D & E & F). cbn zeta in *.
      split; [|split].
      + split; [lia|split; [intros _; left; exact B|exact E]].
      + intros _. rewrite C. reflexivity.
      + destruct F as [F|F]; [left; exact F|right; right; split; [congruence|exact F]].
    - (* MsgHeartbeat *)
      destruct (n_role n) eqn:Er; [| |apply good_same; reflexivity].
      + apply (good_after_same_log n (set_lead (Some (m_from m)) n)); try reflexivity; [split; [cbn; lia|split; [intros _; left; reflexivity|cbn; lia]]|].
        apply handle_heartbeat_good. exact Er.
      + destruct (bf_props (n_term n) (Some (m_from m)) n ltac:(lia)) as (A & B & C & D & _).
        apply (good_after_same_log n (become_follower id (n_term n) (Some (m_from m)) n)); try assumption.
        apply handle_heartbeat_good. exact D.
    - apply good_same; reflexivity.
    - (* MsgSnap *)
      assert (Hgen : forall n1, hs_mono n n1 -> n_role n1 = Follower ->
                goodk (MsgSnap <> MsgSnap) n (fst (handle_snapshot id m n1))).
      { intros n1 H1 Hr1. destruct (handle_snapshot_props m n1 Hr1) as [H2 H3].
        split; [eapply hs_mono_trans; eassumption|split; [intros Hk; exfalso; apply Hk; reflexivity|right; left; exact H3]]. }
      destruct (n_role n) eqn:Er.
      + apply Hgen; [split; [cbn; lia|split; [intros _; left; reflexivity|cbn; lia]]|exact Er].
      + destruct (bf_props (n_term n) (Some (m_from m)) n ltac:(lia)) as (A & B & C & D & _).
        apply Hgen; assumption.
      + apply good_goodk. apply good_same; reflexivity.
  Qed.

  Definition not_snap (ev : event) : Prop := forall m, ev = EvRecv m -> m_type m <> MsgSnap.

  Lemma handle_good : forall ev n, goodk (not_snap ev) n (fst (handle c0 c1 id ev n)).
  Proof.
    intros ev n. destruct ev as [|p|m| |]; cbn [handle fst].
    - apply good_goodk. apply hup_good.
    - apply good_goodk. apply propose_good.
    - unfold step_msg. destruct (n_term n <? m_term m) eqn:E1.
      + apply Nat.ltb_lt in E1.
        set (lead := match m_type m with MsgApp | MsgHeartbeat | MsgSnap => Some (m_from m) | _ => None end).
        destruct (bf_props (m_term m) lead n ltac:(lia)) as (A & B & C & D & T).
        assert (Hk : forall k1 : Prop, (not_snap (EvRecv m) -> k1) -> forall a b, goodk k1 a b -> goodk (not_snap (EvRecv m)) a b).
        { intros k1 Hi a b (G1 & G2 & G3). split; [exact G1|split; [intros Hn; apply G2; apply Hi; exact Hn|exact G3]]. }
        apply (Hk (m_type m <> MsgSnap)); [intros Hn; apply (Hn m eq_refl)|].
        apply (goodk_after_same_log _ n (become_follower id (m_term m) lead n)); try assumption.
        apply step_same_good. rewrite T. reflexivity.
      + destruct (m_term m <? n_term n) eqn:E2; [apply good_goodk; apply good_same; reflexivity|].
        apply Nat.ltb_ge in E1. apply Nat.ltb_ge in E2.
        pose proof (step_same_good m n ltac:(lia)) as (G1 & G2 & G3).
        split; [exact G1|split; [intros Hn; apply G2; apply (Hn m eq_refl)|exact G3]].
    - apply good_goodk. destruct (bf_props (n_term n) None n ltac:(lia)) as (A & B & C & D & _).
      unfold restart. split; [exact A|split; [intros _; rewrite B; reflexivity|left; exact C]].
    - apply good_goodk. apply good_same; reflexivity.
  Qed.

  Theorem exec_node_good : forall ev n,
    let n' := fst (exec_node c0 c1 id ev n) in
    hs_mono n n' /\ (not_snap ev -> keeps n n') /\
    (n_role n' = Leader -> n_commit n < n_commit n' -> term_at (n_log n') (n_commit n') = n_term n').
  Proof.
    intros ev n. unfold exec_node. destruct (handle c0 c1 id ev n) as [n1 out] eqn:Eh. cbn [fst].
    pose proof (handle_good ev n) as (H1 & H2 & H3). rewrite Eh in H1, H2, H3. cbn [fst] in H1, H2, H3.
    destruct (advance_props n1) as (A & B & C & D & E & F). cbn zeta in *.
    split; [|split].
    - eapply hs_mono_trans; [exact H1|]. split; [lia|split; [intros _; left; exact B|exact E]].
    - intros Hk H. rewrite C. apply (H2 Hk). exact H.
    - intros Hl Hlt. destruct F as [F|F]; [|exact F].
      destruct H3 as [H3|[H3|[_ H3]]]; [lia|congruence|]. rewrite F, C, A. exact H3.
  Qed.
End StepProps.
