(* C15 — quorum layer, proofs. *)
Require Import List Arith Bool Lia Permutation ZArith.
Require Import Raft.Quorum.
Import ListNotations.

Lemma half_facts : forall n, 2 * (n / 2) <= n < 2 * (n / 2) + 2.
Proof.
  intros n. pose proof (Nat.div_mod_eq n 2) as H.
  pose proof (Nat.mod_upper_bound n 2 ltac:(lia)) as H2. lia.
Qed.

(* ------------------------------------------------------------------ counting *)

Lemma count_nil : forall p, count p [] = 0.
Proof. reflexivity. Qed.

Lemma count_cons : forall p x l, count p (x :: l) = (if p x then 1 else 0) + count p l.
Proof. intros p x l. unfold count. cbn [filter]. destruct (p x); reflexivity. Qed.

Lemma count_le_length : forall p l, count p l <= length l.
Proof.
  intros p l. induction l as [|x l IH]; [cbn; lia|].
  rewrite count_cons. cbn [length]. destruct (p x); lia.
Qed.

Lemma count_app : forall p l1 l2, count p (l1 ++ l2) = count p l1 + count p l2.
Proof. intros p l1 l2. unfold count. rewrite filter_app, app_length. reflexivity. Qed.

Lemma count_ext : forall p q l, (forall x, In x l -> p x = q x) -> count p l = count q l.
Proof.
  intros p q l H. induction l as [|x l IH]; [reflexivity|].
  rewrite !count_cons. rewrite (H x (or_introl eq_refl)). rewrite IH; [reflexivity|].
  intros y Hy. apply H. right. exact Hy.
Qed.

Lemma count_mono : forall p q l, (forall x, In x l -> p x = true -> q x = true) -> count p l <= count q l.
Proof.
  intros p q l H. induction l as [|x l IH]; [cbn; lia|].
  rewrite !count_cons.
  assert (IH' : count p l <= count q l) by (apply IH; intros y Hy; apply H; right; exact Hy).
  destruct (p x) eqn:Ep.
  - rewrite (H x (or_introl eq_refl) Ep). lia.
  - destruct (q x); lia.
Qed.

(* pigeonhole on positions: no NoDup needed *)
Lemma count_and : forall p q l,
  count p l + count q l <= length l + count (fun x => p x && q x) l.
Proof.
  intros p q l. induction l as [|x l IH]; [cbn; lia|].
  rewrite !count_cons. cbn [length]. destruct (p x), (q x); cbn [andb]; lia.
Qed.

Lemma count_pos_ex : forall p l, 0 < count p l -> exists x, In x l /\ p x = true.
Proof.
  intros p l. induction l as [|x l IH]; [cbn; lia|].
  rewrite count_cons. destruct (p x) eqn:E.
  - intros _. exists x. split; [left; reflexivity|exact E].
  - intros H. destruct IH as (y & Hy & Hp); [lia|]. exists y. split; [right; exact Hy|exact Hp].
Qed.

Lemma count_all : forall p l, (forall x, In x l -> p x = true) -> count p l = length l.
Proof.
  intros p l H. induction l as [|x l IH]; [reflexivity|].
  rewrite count_cons. cbn [length]. rewrite (H x (or_introl eq_refl)).
  rewrite IH; [lia|]. intros y Hy. apply H. right. exact Hy.
Qed.

Lemma count_none : forall p l, (forall x, In x l -> p x = false) -> count p l = 0.
Proof.
  intros p l H. induction l as [|x l IH]; [reflexivity|].
  rewrite count_cons. rewrite (H x (or_introl eq_refl)).
  rewrite IH; [lia|]. intros y Hy. apply H. right. exact Hy.
Qed.

Lemma count_map : forall (f : nat -> nat) p l, count p (map f l) = count (fun x => p (f x)) l.
Proof.
  intros f p l. induction l as [|x l IH]; [reflexivity|].
  cbn [map]. rewrite !count_cons, IH. reflexivity.
Qed.

Lemma count_perm : forall p l1 l2, Permutation l1 l2 -> count p l1 = count p l2.
Proof.
  intros p l1 l2 H. induction H as [|x l1 l2 H IH|x y l|l1 l2 l3 H1 IH1 H2 IH2].
  - reflexivity.
  - rewrite !count_cons, IH. reflexivity.
  - rewrite !count_cons. lia.
  - rewrite IH1. exact IH2.
Qed.

(* ------------------------------------------------------------------ maj_sat *)

Lemma maj_satb_spec : forall c p, maj_satb c p = true <-> maj_sat c p.
Proof.
  intros c p. unfold maj_satb, maj_sat. destruct c as [|x c].
  - split; [intros _; left; reflexivity|reflexivity].
  - rewrite Nat.ltb_lt. split; [intros H; right; exact H|].
    intros [H|H]; [discriminate|exact H].
Qed.

Lemma joint_satb_spec : forall c0 c1 p, joint_satb c0 c1 p = true <-> joint_sat c0 c1 p.
Proof.
  intros c0 c1 p. unfold joint_satb, joint_sat. rewrite andb_true_iff, !maj_satb_spec. reflexivity.
Qed.

Lemma maj_sat_mono : forall c p q,
  (forall x, In x c -> p x = true -> q x = true) -> maj_sat c p -> maj_sat c q.
Proof.
  intros c p q H [E|L]; [left; exact E|right].
  pose proof (count_mono p q c H). lia.
Qed.

(* any two majorities of one non-empty voter set intersect *)
Lemma majority_intersect : forall c p q,
  c <> [] -> maj_sat c p -> maj_sat c q ->
  exists v, In v c /\ p v = true /\ q v = true.
Proof.
  intros c p q Hne [E|Hp] [E'|Hq]; try contradiction.
  pose proof (count_and p q c) as H.
  destruct (count_pos_ex (fun x => p x && q x) c) as (v & Hv & Hpq); [lia|].
  apply andb_true_iff in Hpq. exists v. tauto.
Qed.

(* joint: two sets each containing a majority of both halves intersect (in a non-empty half) *)
Lemma joint_intersect : forall c0 c1 p q,
  (c0 <> [] \/ c1 <> []) -> joint_sat c0 c1 p -> joint_sat c0 c1 q ->
  exists v, In v (c0 ++ c1) /\ p v = true /\ q v = true.
Proof.
  intros c0 c1 p q Hne [Hp0 Hp1] [Hq0 Hq1].
  destruct Hne as [Hne|Hne].
  - destruct (majority_intersect c0 p q Hne Hp0 Hq0) as (v & Hv & H).
    exists v. split; [apply in_or_app; left; exact Hv|exact H].
  - destruct (majority_intersect c1 p q Hne Hp1 Hq1) as (v & Hv & H).
    exists v. split; [apply in_or_app; right; exact Hv|exact H].
Qed.

(* ------------------------------------------------------------------ sorting *)

Fixpoint sorted (l : list nat) : Prop :=
  match l with
  | [] => True
  | x :: t => (forall y, In y t -> x <= y) /\ sorted t
  end.

Lemma insert_perm : forall x l, Permutation (x :: l) (insert x l).
Proof.
  intros x l. induction l as [|y l IH]; [apply Permutation_refl|].
  cbn [insert]. destruct (x <=? y); [apply Permutation_refl|].
  eapply perm_trans; [apply perm_swap|]. apply perm_skip. exact IH.
Qed.

Lemma isort_perm : forall l, Permutation l (isort l).
Proof.
  induction l as [|x l IH]; [apply perm_nil|].
  cbn [isort]. eapply perm_trans; [apply perm_skip; exact IH|apply insert_perm].
Qed.

Lemma insert_sorted : forall x l, sorted l -> sorted (insert x l).
Proof.
  intros x l. induction l as [|y l IH]; intros Hs.
  - cbn. split; [intros y []|exact I].
  - cbn [insert]. destruct Hs as [Hy Hs]. destruct (x <=? y) eqn:E.
    + apply Nat.leb_le in E. cbn [sorted]. split; [|split; assumption].
      intros z [Hz|Hz]; [subst; exact E|]. specialize (Hy z Hz). lia.
    + apply Nat.leb_gt in E. cbn [sorted]. split; [|apply IH; exact Hs].
      intros z Hz. apply (Permutation_in _ (Permutation_sym (insert_perm x l))) in Hz.
      destruct Hz as [Hz|Hz]; [subst; lia|apply Hy; exact Hz].
Qed.

Lemma isort_sorted : forall l, sorted (isort l).
Proof.
  induction l as [|x l IH]; [exact I|]. cbn [isort]. apply insert_sorted. exact IH.
Qed.

Lemma isort_length : forall l, length (isort l) = length l.
Proof. intros l. symmetry. apply Permutation_length. apply isort_perm. Qed.

(* in a sorted list, at least (length - k) elements are >= the k-th and,
   for any bound above the k-th, at most (length - k - 1) reach it *)
Lemma sorted_count_ge : forall s k,
  sorted s -> k < length s ->
  length s - k <= count (fun x => nth k s 0 <=? x) s.
Proof.
  induction s as [|a s IH]; intros k Hs Hk; [cbn in Hk; lia|].
  destruct Hs as [Ha Hs]. rewrite count_cons. cbn [length] in *. destruct k as [|k].
  - cbn [nth]. rewrite Nat.leb_refl.
    rewrite count_all; [lia|]. intros y Hy. apply Nat.leb_le. apply Ha. exact Hy.
  - cbn [nth]. specialize (IH k Hs ltac:(lia)). destruct (nth k s 0 <=? a); lia.
Qed.

Lemma sorted_count_gt : forall s k r,
  sorted s -> k < length s -> nth k s 0 < r ->
  count (fun x => r <=? x) s <= length s - k - 1.
Proof.
  induction s as [|a s IH]; intros k r Hs Hk Hr; [cbn in Hk; lia|].
  destruct Hs as [Ha Hs]. rewrite count_cons. cbn [length] in *. destruct k as [|k].
  - cbn [nth] in Hr. destruct (r <=? a) eqn:E; [apply Nat.leb_le in E; lia|].
    pose proof (count_le_length (fun x => r <=? x) s). lia.
  - cbn [nth] in Hr. specialize (IH k r Hs ltac:(lia) Hr).
    assert (Hak : a <= nth k s 0) by (apply Ha; apply nth_In; lia).
    destruct (r <=? a) eqn:E; [apply Nat.leb_le in E; lia|]. lia.
Qed.

(* ------------------------------------------------------------------ CommittedIndex *)

Lemma majority_committed_index_nil : forall acked, majority_committed_index [] acked = Top.
Proof. reflexivity. Qed.

Lemma majority_committed_index_fin : forall c acked,
  c <> [] -> exists r, majority_committed_index c acked = Fin r.
Proof. intros c acked H. destruct c; [contradiction|]. eexists. reflexivity. Qed.

(* The value returned for a non-empty config is acknowledged (>=) by a majority,
   and no larger index is. *)
Lemma majority_committed_index_spec : forall c acked r,
  majority_committed_index c acked = Fin r ->
  maj_sat c (acked_ge acked r) /\
  (forall r', r < r' -> ~ maj_sat c (acked_ge acked r')).
Proof.
  intros c acked r H. destruct c as [|x c]; [discriminate|].
  set (l := x :: c) in *. set (n := length l).
  set (s := isort (map (ack_of acked) l)).
  assert (H' : nth (n - (n / 2 + 1)) s 0 = r).
  { change (Fin (nth (n - (n / 2 + 1)) s 0) = Fin r) in H. congruence. }
  clear H. rename H' into H.
  assert (Hn : 1 <= n) by (unfold n, l; cbn; lia).
  assert (Hls : length s = n) by (unfold s; rewrite isort_length, map_length; reflexivity).
  assert (Hs : sorted s) by apply isort_sorted.
  set (k := n - (n / 2 + 1)) in *.
  assert (Hk : k < length s) by (unfold k; pose proof (half_facts n); lia).
  assert (Hc : forall r0, count (acked_ge acked r0) l = count (fun x => r0 <=? x) s).
  { intros r0. unfold s. rewrite <- (count_perm _ _ _ (isort_perm _)), count_map. reflexivity. }
  split.
  - right. fold n. rewrite Hc. pose proof (sorted_count_ge s k Hs Hk) as Hge. rewrite H in Hge. unfold k in *. pose proof (half_facts n). lia.
  - intros r' Hr' [E|Hm]; [unfold l in E; discriminate|]. fold n in Hm. rewrite Hc in Hm.
    pose proof (sorted_count_gt s k r' Hs Hk ltac:(lia)) as Hgt. unfold k in *. pose proof (half_facts n). lia.
Qed.

Lemma xmin_fin : forall a b r, xmin a b = Fin r ->
  (a = Fin r /\ (b = Top \/ exists r2, b = Fin r2 /\ r <= r2)) \/
  (b = Fin r /\ (a = Top \/ exists r1, a = Fin r1 /\ r <= r1)).
Proof.
  intros a b r H. destruct a as [x|], b as [y|]; unfold xmin in H.
  - destruct (x <? y) eqn:E; injection H as H; subst.
    + apply Nat.ltb_lt in E. left. split; [reflexivity|right; exists y; split; [reflexivity|lia]].
    + apply Nat.ltb_ge in E. right. split; [reflexivity|right; exists x; split; [reflexivity|lia]].
  - left. split; [exact H|left; reflexivity].
  - right. split; [exact H|left; reflexivity].
  - discriminate.
Qed.

Lemma acked_ge_mono : forall acked r r' x, r <= r' -> acked_ge acked r' x = true -> acked_ge acked r x = true.
Proof. intros acked r r' x H. unfold acked_ge. rewrite !Nat.leb_le. lia. Qed.

Lemma maj_committed_top : forall c acked, majority_committed_index c acked = Top -> c = [].
Proof. intros c acked H. destruct c; [reflexivity|discriminate]. Qed.

Lemma joint_committed_index_spec : forall c0 c1 acked,
  joint_committed_index c0 c1 acked =
    xmin (majority_committed_index c0 acked) (majority_committed_index c1 acked) /\
  (forall r, joint_committed_index c0 c1 acked = Fin r ->
     joint_sat c0 c1 (acked_ge acked r) /\
     (forall r', r < r' -> ~ joint_sat c0 c1 (acked_ge acked r'))) /\
  (joint_committed_index c0 c1 acked = Top <-> c0 = [] /\ c1 = []).
Proof.
  intros c0 c1 acked. split; [reflexivity|]. split.
  - intros r H. unfold joint_committed_index in H.
    destruct (xmin_fin _ _ _ H) as [[Ha Hb]|[Hb Ha]].
    + destruct (majority_committed_index_spec c0 acked r Ha) as [S0 M0]. split.
      * split; [exact S0|]. destruct Hb as [Hb|(r2 & Hb & Hle)].
        -- left. eapply maj_committed_top; exact Hb.
        -- destruct (majority_committed_index_spec c1 acked r2 Hb) as [S1 _].
           eapply maj_sat_mono; [|exact S1]. intros x _. apply acked_ge_mono. exact Hle.
      * intros r' Hr' [J0 _]. exact (M0 r' Hr' J0).
    + destruct (majority_committed_index_spec c1 acked r Hb) as [S1 M1]. split.
      * split; [|exact S1]. destruct Ha as [Ha|(r1 & Ha & Hle)].
        -- left. eapply maj_committed_top; exact Ha.
        -- destruct (majority_committed_index_spec c0 acked r1 Ha) as [S0 _].
           eapply maj_sat_mono; [|exact S0]. intros x _. apply acked_ge_mono. exact Hle.
      * intros r' Hr' [_ J1]. exact (M1 r' Hr' J1).
  - unfold joint_committed_index. split.
    + intros H. destruct (majority_committed_index c0 acked) eqn:E0, (majority_committed_index c1 acked) eqn:E1;
        unfold xmin in H; try discriminate.
      * destruct (n <? n0); discriminate.
      * split; eapply maj_committed_top; eassumption.
    + intros [-> ->]. reflexivity.
Qed.

(* ------------------------------------------------------------------ VoteResult *)

Lemma count_partition3 : forall votes c,
  count (granted votes) c + count (missing votes) c = count (not_rejected votes) c.
Proof.
  intros votes c. induction c as [|x c IH]; [reflexivity|].
  rewrite !count_cons. unfold granted, missing, not_rejected in *.
  destruct (votes x) as [[|]|]; lia.
Qed.

(* Won iff the grants contain a majority; Lost iff the not-yet-rejecting voters no
   longer contain one (a quorum of grants can never be reached); otherwise Pending. *)
Lemma majority_vote_result_spec : forall c votes,
  (majority_vote_result c votes = VoteWon <-> maj_sat c (granted votes)) /\
  (majority_vote_result c votes = VoteLost <-> ~ maj_sat c (not_rejected votes)) /\
  (majority_vote_result c votes = VotePending <->
     ~ maj_sat c (granted votes) /\ maj_sat c (not_rejected votes)).
Proof.
  intros c votes. destruct c as [|x c].
  - cbn. unfold maj_sat. repeat split; try (intros; auto; fail); try discriminate.
    + intros H. exfalso. apply H. left. reflexivity.
    + intros [H _]. exfalso. apply H. left. reflexivity.
  - unfold majority_vote_result. set (l := x :: c).
    pose proof (count_partition3 votes l) as Hp.
    set (yes := count (granted votes) l) in *. set (mis := count (missing votes) l) in *.
    assert (Hl : 1 <= length l) by (unfold l; cbn; lia).
    pose proof (half_facts (length l)) as Hh.
    assert (Hw : maj_sat l (granted votes) <-> length l / 2 + 1 <= yes).
    { unfold maj_sat. fold yes. split; [intros [E|H]; [unfold l in E; discriminate|lia]|intros H; right; lia]. }
    assert (Hn : maj_sat l (not_rejected votes) <-> length l / 2 + 1 <= yes + mis).
    { unfold maj_sat. rewrite <- Hp. split; [intros [E|H]; [unfold l in E; discriminate|lia]|intros H; right; lia]. }
    rewrite Hw, Hn. cbv zeta.
    destruct (length l / 2 + 1 <=? yes) eqn:E1.
    + apply Nat.leb_le in E1. repeat split; try discriminate; try lia; auto.
    + apply Nat.leb_gt in E1. destruct (length l / 2 + 1 <=? yes + mis) eqn:E2.
      * apply Nat.leb_le in E2. repeat split; try discriminate; try lia; auto.
      * apply Nat.leb_gt in E2. repeat split; try discriminate; try lia; auto.
Qed.

Lemma joint_vote_result_spec : forall c0 c1 votes,
  (joint_vote_result c0 c1 votes = VoteWon <-> joint_sat c0 c1 (granted votes)) /\
  (joint_vote_result c0 c1 votes = VoteLost <-> ~ joint_sat c0 c1 (not_rejected votes)) /\
  (joint_vote_result c0 c1 votes = VotePending <->
     ~ joint_sat c0 c1 (granted votes) /\ joint_sat c0 c1 (not_rejected votes)).
Proof.
  intros c0 c1 votes.
  destruct (majority_vote_result_spec c0 votes) as (W0 & L0 & P0).
  destruct (majority_vote_result_spec c1 votes) as (W1 & L1 & P1).
  assert (G0 : maj_sat c0 (granted votes) -> maj_sat c0 (not_rejected votes)).
  { apply maj_sat_mono. intros x _. unfold granted, not_rejected. destruct (votes x) as [[|]|]; auto. }
  assert (G1 : maj_sat c1 (granted votes) -> maj_sat c1 (not_rejected votes)).
  { apply maj_sat_mono. intros x _. unfold granted, not_rejected. destruct (votes x) as [[|]|]; auto. }
  unfold joint_vote_result, joint_sat.
  destruct (majority_vote_result c0 votes) eqn:E0, (majority_vote_result c1 votes) eqn:E1; cbn;
    repeat split; try discriminate; try tauto; intros; try tauto;
    try (exfalso; intuition discriminate).
Qed.
