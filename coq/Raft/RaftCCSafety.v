(* C15 — safety of runs WITH membership changes, the proved part (partial).

   [cxreachableF F boot page1 x]: x is reachable in the membership-change system RaftCC.cxstep
   by a run in which, at every node and at every moment, every configuration obtained by applying
   a prefix of the node's log UP TO ITS COMMIT INDEX to the boot configuration lies in the family F
   (by state-machine safety these are the configurations along one committed log).  If the quorums of
   F pairwise intersect, the run is (node by node) a run of the micro-step system, so the
   inductive invariant holds and with it election safety, log matching, state-machine safety and
   leader completeness.  RaftCCQuorum.v shows that a configuration and its successor under ONE
   configuration change (add a voter, remove a voter, enter a joint configuration, leave it)
   form such a family: every single step of a membership change is covered.  What is NOT proved
   is the composition over an arbitrary chain of changes (see design.d/C15.md). *)
Require Import List Arith Bool Lia.
Require Import Raft.Quorum Raft.QuorumProofs Raft.RaftModel Raft.RaftSys Raft.RaftLog Raft.RaftInv Raft.RaftInvBase
               Raft.RaftInvMain Raft.RaftRefine Raft.RaftCC Raft.RaftCCInv Raft.RaftCCRefine.
Import ListNotations.

Section CCSafety.
  Variable F : list (list nat * list nat).
  Hypothesis HF : inter_family F.
  Variable boot : conf.
  Variable page1 : bool.

  Definition cenv (x : cxstate) : Prop := forall y, lenv F boot (n_log (fst (cx_nodes x y))) (n_commit (fst (cx_nodes x y))).

  Inductive cxreachableF : cxstate -> Prop :=
  | CXF_init : used_ok F boot -> cxreachableF cx_init
  | CXF_step : forall x x', cxreachableF x -> cxstep boot page1 x x' -> cenv x' -> cxreachableF x'.

  Lemma cenv_init : used_ok F boot -> cenv cx_init.
  Proof. intros H y j _. cbn. rewrite firstn_nil. exact H. Qed.

  Lemma cxreachableF_cenv : forall x, cxreachableF x -> cenv x.
  Proof. intros x H. destruct H as [H|x x' _ _ H]; [apply cenv_init; exact H|exact H]. Qed.

  Definition cxsim (s : mstate) (x : cxstate) : Prop :=
    (forall y, nodes s y = fst (cx_nodes x y)) /\ msgs s = cx_msgs x.

  Theorem cc_sim : forall x, cxreachableF x -> exists s, mreachable F s /\ cxsim s x.
  Proof.
    intros x H. induction H as [Hb|x x' Hx [s [Hr [Hn Hm]]] Hstep Henv'].
    - exists m_init. split; [apply MR_init|split; reflexivity].
    - pose proof (cxreachableF_cenv x Hx) as Henv.
      destruct Hstep as [id cev extra Hev Hemit].
      destruct (cx_nodes x id) as [nx pend] eqn:Enode.
      assert (Hnid : nodes s id = nx) by (rewrite Hn, Enode; reflexivity).
      rewrite <- Hm in Hev.
      assert (Henv0 : lenv F boot (n_log (nodes s id)) (n_commit (nodes s id))).
      { rewrite Hnid. specialize (Henv id). rewrite Enode in Henv. exact Henv. }
      assert (Henv1 : lenv F boot (n_log (fst (fst (exec_cce boot page1 id cev (nodes s id, pend)))))
                           (n_commit (fst (fst (exec_cce boot page1 id cev (nodes s id, pend)))))).
      { rewrite Hnid. specialize (Henv' id). cbn [cx_nodes] in Henv'. rewrite upd_same in Henv'. exact Henv'. }
      assert (Hsim : exists s1, reaches F s id (fst (fst (exec_cce boot page1 id cev (nodes s id, pend))))
                                        (snd (exec_cce boot page1 id cev (nodes s id, pend))) s1).
      { destruct cev as [ev|ps]; cbn [exec_cce] in *.
        - apply (exec_cc_sim F HF boot page1 s id ev pend Hr); [|exact Henv0|exact Henv1].
          intros m Em. apply Hev. rewrite Em. reflexivity.
        - destruct (exec_batch_sim F HF boot page1 s id ps pend Hr Henv0 Henv1) as [s1 R1]. exists s1.
          replace (snd (exec_batch boot page1 id ps (nodes s id, pend))) with (@nil msg); [exact R1|].
          unfold exec_batch. destruct (batch_cc id (node_cfg boot (nodes s id)) ps (nodes s id) pend) as [n1 pend1].
          destruct (iter _ _ _) as [[[n2 c2] pend2] a2]. reflexivity. }
      destruct Hsim as [s1 R1].
      rewrite Hnid in R1.
      pose proof (proj1 (proj2 R1)) as Hn1.
      assert (Hemit' : forallb (emit_okb id (nodes s1 id)) extra = true).
      { rewrite Hn1. rewrite forallb_forall in Hemit. apply forallb_forall. intros m0 Hm0.
        specialize (Hemit m0 Hm0). unfold emit_cc_okb in Hemit. apply andb_true_iff in Hemit as [Hemit _]. exact Hemit. }
      destruct (reaches_emit F extra s1 id Hemit') as [s2 R2]. rewrite Hn1 in R2.
      pose proof (reaches_trans F _ _ _ _ _ _ _ _ R1 R2) as (A1 & A2 & A3 & A4).
      exists s2. split; [eapply msteps_reachable; eassumption|]. split.
      + intros y. cbn [cx_nodes]. destruct (Nat.eq_dec y id) as [->|Hy].
        * rewrite upd_same. exact A2.
        * rewrite upd_other by exact Hy. rewrite A3 by exact Hy. apply Hn.
      + cbn [cx_msgs]. rewrite A4, Hm. reflexivity.
  Qed.

  Lemma cx_inv : forall x, cxreachableF x ->
    exists s, Inv F s /\ (forall y, nodes s y = fst (cx_nodes x y)) /\ msgs s = cx_msgs x.
  Proof.
    intros x H. destruct (cc_sim x H) as (s & Hr & Hn & Hm). exists s.
    split; [apply (mreachable_inv F HF); exact Hr|split; assumption].
  Qed.

  Notation nodeof x a := (fst (cx_nodes x a)).

  Theorem cc_election_safety : forall x, cxreachableF x ->
    forall a b, n_role (nodeof x a) = Leader -> n_role (nodeof x b) = Leader ->
      n_term (nodeof x a) = n_term (nodeof x b) -> a = b.
  Proof.
    intros x Hx a b Ha Hb Ht. destruct (cx_inv x Hx) as (s & I & Hn & _).
    rewrite <- (Hn a) in Ha, Ht. rewrite <- (Hn b) in Hb, Ht.
    pose proof (hA6b _ _ I a Ha) as La. pose proof (hA6b _ _ I b Hb) as Lb. unfold nd in La, Lb.
    rewrite Ht in La. congruence.
  Qed.

  Theorem cc_log_matching : forall x, cxreachableF x ->
    forall a b i, 1 <= i -> i <= length (n_log (nodeof x a)) -> i <= length (n_log (nodeof x b)) ->
      term_at (n_log (nodeof x a)) i = term_at (n_log (nodeof x b)) i ->
      firstn i (n_log (nodeof x a)) = firstn i (n_log (nodeof x b)).
  Proof.
    intros x Hx a b i Hi Ha Hb Ht. destruct (cx_inv x Hx) as (s & I & Hn & _).
    rewrite <- (Hn a) in *. rewrite <- (Hn b) in *.
    apply (wf_match (LL s)); try assumption; try lia; [apply (hW1 _ _ I a)|apply (hW1 _ _ I b)].
  Qed.

  Lemma committed_nonnil : forall s t k, committed_at F s t k -> LL s t <> [].
  Proof. intros s t k [[[H1 H2] _] _] E. rewrite E in H2. cbn in H2. lia. Qed.

  Theorem cc_state_machine_safety : forall x, cxreachableF x ->
    forall a b i, i <= n_commit (nodeof x a) -> i <= n_commit (nodeof x b) ->
      i <= length (n_log (nodeof x a)) /\ i <= length (n_log (nodeof x b)) /\
      firstn i (n_log (nodeof x a)) = firstn i (n_log (nodeof x b)).
  Proof.
    intros x Hx a b i Ha Hb. destruct (cx_inv x Hx) as (s & I & Hn & _).
    rewrite <- (Hn a) in *. rewrite <- (Hn b) in *.
    destruct (hK9 _ _ I a) as [Ha1 Ha2]. destruct (hK9 _ _ I b) as [Hb1 Hb2]. unfold nd in *.
    split; [lia|]. split; [lia|].
    destruct (Nat.eq_dec i 0) as [->|Hi]; [reflexivity|].
    destruct Ha2 as [Hz|(ta & ka & _ & Hca & Hka & Hfa)]; [lia|].
    destruct Hb2 as [Hz|(tb & kb & _ & Hcb & Hkb & Hfb)]; [lia|].
    rewrite (firstn_agree_le _ _ _ _ i Hfa Ha). rewrite (firstn_agree_le _ _ _ _ i Hfb Hb).
    destruct (le_lt_dec ta tb) as [Hle|Hlt].
    - destruct (LC_le F HF s I ta ka tb Hca Hle (committed_nonnil s tb kb Hcb)) as [_ H].
      symmetry. apply (firstn_agree_le _ _ _ ka); [exact H|lia].
    - destruct (LC_le F HF s I tb kb ta Hcb ltac:(lia) (committed_nonnil s ta ka Hca)) as [_ H].
      apply (firstn_agree_le _ _ _ kb); [exact H|lia].
  Qed.

  Theorem cc_leader_completeness : forall x, cxreachableF x ->
    forall l y, n_role (nodeof x l) = Leader -> n_term (nodeof x y) <= n_term (nodeof x l) ->
      n_commit (nodeof x y) <= length (n_log (nodeof x l)) /\
      firstn (n_commit (nodeof x y)) (n_log (nodeof x l)) = firstn (n_commit (nodeof x y)) (n_log (nodeof x y)).
  Proof.
    intros x Hx l y Hl Ht. destruct (cx_inv x Hx) as (s & I & Hn & _).
    rewrite <- (Hn l) in *. rewrite <- (Hn y) in *.
    destruct (hK9 _ _ I y) as [Hy1 Hy2]. unfold nd in *.
    destruct Hy2 as [Hz|(t0 & k0 & Ht0 & Hc0 & Hk0 & Hf)]; [rewrite Hz; split; [lia|reflexivity]|].
    pose proof (hW5 _ _ I l Hl) as HLL. unfold nd in HLL.
    assert (Hne : LL s (n_term (nodes s l)) <> []) by (apply (hW8 _ _ I _ l); apply (hA6b _ _ I l Hl)).
    destruct (LC_le F HF s I t0 k0 (n_term (nodes s l)) Hc0 ltac:(lia) Hne) as [H1 H2].
    rewrite HLL in H1, H2. split; [lia|]. rewrite Hf. apply (firstn_agree_le _ _ _ k0); assumption.
  Qed.

  (* a step never removes or rewrites an entry its node has committed *)
  Theorem cc_committed_prefix_kept : forall x x', cxreachableF x -> cxstep boot page1 x x' ->
    forall y, firstn (n_commit (nodeof x y)) (n_log (nodeof x' y))
              = firstn (n_commit (nodeof x y)) (n_log (nodeof x y)).
  Proof.
    intros x x' Hx Hs y. destruct Hs as [id cev extra Hev0 _]. cbn [cx_nodes].
    destruct (Nat.eq_dec y id) as [->|Hy]; [rewrite upd_same|rewrite upd_other by exact Hy; reflexivity].
    destruct (cx_inv x Hx) as (s & I & Hn & Hm).
    destruct (cx_nodes x id) as [n pend] eqn:Enode. cbn [fst].
    assert (Hnid : nodes s id = n) by (rewrite Hn, Enode; reflexivity).
    rewrite <- Hm in Hev0.
    destruct (hK9 _ _ I id) as [H9 _]. unfold nd in H9. rewrite Hnid in H9.
    destruct cev as [ev|ps]; cbn [exec_cce].
    2:{ (* a batched proposal only appends *)
        unfold exec_batch. set (c := node_cfg boot n).
        destruct (batch_cc_shape id c ps n pend) as (_ & _ & _ & _ & suf0 & Hl). cbn zeta in Hl.
        destruct (batch_cc id c ps n pend) as [n1 pend1]. cbn [fst] in Hl.
        destruct (iter_log page1 id (2 * length (n_log n1) + 8) (n1, c, pend1, n_commit n)) as [suf E].
        destruct (iter (2 * length (n_log n1) + 8) (ready_iter page1 id) (n1, c, pend1, n_commit n)) as [[[n2 c2] pend2] a2].
        unfold st_node in E. cbn [fst] in *. rewrite E, Hl, <- app_assoc. apply firstn_app_le. exact H9. }
    assert (Hev : forall m, ev = EvRecv m -> In m (msgs s) /\ m_to m = id) by (intros m Em; apply Hev0; rewrite Em; reflexivity).
    unfold exec_cc. set (c := node_cfg boot n).
    destruct (match ev with EvRecv m => is_response (m_type m) && negb (tracked c (m_from m)) | _ => false end); [reflexivity|].
    assert (Hk : firstn (n_commit n) (n_log (fst (fst (handle_cc id c ev n pend)))) = firstn (n_commit n) (n_log n)).
    { unfold handle_cc. destruct ev as [|p|m| |];
        try (cbn [fst];
             match goal with |- context [learner_ack ?cc ?e ?nn] =>
               destruct (learner_ack_props cc e nn) as (_ & _ & LA & _); cbn zeta in LA; rewrite LA end;
             rewrite <- Hnid; apply (handle_keeps F HF (c_in c) (c_out c) s id _ I Hev)).
      assert (Hp : forall q, firstn (n_commit n) (n_log (propose q n)) = firstn (n_commit n) (n_log n)).
      { intros q. unfold propose. destruct (n_role n); try reflexivity. cbn [set_log n_log]. apply firstn_app_le. exact H9. }
      destruct (n_role n) eqn:Er; cbn [fst]; try reflexivity.
      destruct (negb (tracked c id)); cbn [fst]; [reflexivity|].
      destruct (cc_of_payload p) as [op|]; cbn [fst]; [|apply Hp].
      destruct ((n_commit n <? pend) || joint c && negb match op with CcLeave => true | _ => false end
                || negb (joint c) && match op with CcLeave => true | _ => false end); cbn [fst]; apply Hp. }
    destruct (handle_cc id c ev n pend) as [[n1 out] pend1]. cbn [fst] in Hk.
    destruct (iter_log page1 id (2 * length (n_log n1) + 8) (n1, c, pend1, n_commit n)) as [suf E].
    destruct (iter (2 * length (n_log n1) + 8) (ready_iter page1 id) (n1, c, pend1, n_commit n)) as [[[n2 c2] pend2] a2].
    unfold st_node in E. cbn [fst] in *. rewrite E.
    rewrite firstn_app_le; [exact Hk|]. eapply firstn_len_le; [symmetry; exact Hk|exact H9].
  Qed.
End CCSafety.
