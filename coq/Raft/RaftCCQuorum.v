(* C15 — quorums of consecutive configurations intersect: a configuration and the one obtained
   from it by ONE configuration change of etcd/raft (confchange.Simple with one voter,
   EnterJoint, LeaveJoint — RaftCC.apply_cc) form a family with pairwise intersecting quorums.
   Configurations are sorted duplicate-free voter lists, the incoming one never empty
   ([wfc]); both are preserved by every change. *)
Require Import List Arith Bool Lia Permutation.
Require Import Raft.Quorum Raft.QuorumProofs Raft.RaftModel Raft.RaftSys Raft.RaftCC.
Import ListNotations.

Fixpoint ssorted (l : list nat) : Prop :=
  match l with
  | [] => True
  | x :: t => (forall y, In y t -> x < y) /\ ssorted t
  end.

Lemma ins_in : forall x l y, In y (ins x l) <-> y = x \/ In y l.
Proof.
  intros x l y. induction l as [|z t IH]; cbn [ins].
  - cbn. intuition congruence.
  - destruct (x <? z); [cbn; intuition congruence|].
    destruct (Nat.eqb_spec x z) as [->|Hne]; cbn [In]; [intuition congruence|]. rewrite IH. intuition congruence.
Qed.

Lemma ins_sorted : forall x l, ssorted l -> ssorted (ins x l).
Proof.
  intros x l. induction l as [|z t IH]; intros Hs; cbn [ins].
  - cbn. split; [intros y []|exact I].
  - destruct Hs as [Hz Hs]. destruct (Nat.ltb_spec x z) as [Hlt|Hge].
    + cbn [ssorted]. split; [|split; assumption]. intros y [<-|Hy]; [exact Hlt|]. specialize (Hz y Hy). lia.
    + destruct (Nat.eqb_spec x z) as [->|Hne]; [cbn [ssorted]; split; assumption|].
      cbn [ssorted]. split; [|apply IH; exact Hs]. intros y Hy. apply ins_in in Hy as [->|Hy]; [lia|apply Hz; exact Hy].
Qed.

Lemma ins_present : forall x l, ssorted l -> In x l -> ins x l = l.
Proof.
  intros x l. induction l as [|z t IH]; intros Hs Hin; [destruct Hin|]. cbn [ins].
  destruct Hs as [Hz Hs]. destruct Hin as [->|Hin].
  - rewrite Nat.ltb_irrefl, Nat.eqb_refl. reflexivity.
  - specialize (Hz x Hin). destruct (Nat.ltb_spec x z); [lia|]. destruct (Nat.eqb_spec x z); [lia|]. rewrite IH; auto.
Qed.

Lemma ins_absent : forall x l, ~ In x l -> Permutation (x :: l) (ins x l).
Proof.
  intros x l. induction l as [|z t IH]; intros Hn; cbn [ins]; [apply Permutation_refl|].
  destruct (x <? z); [apply Permutation_refl|]. destruct (Nat.eqb_spec x z) as [->|Hne]; [exfalso; apply Hn; left; reflexivity|].
  eapply perm_trans; [apply perm_swap|]. apply perm_skip. apply IH. intros H. apply Hn. right. exact H.
Qed.

Lemma del_in : forall x l y, In y (del x l) <-> y <> x /\ In y l.
Proof.
  intros x l y. induction l as [|z t IH]; cbn [del]; [cbn; intuition congruence|].
  destruct (Nat.eqb_spec x z) as [->|Hne]; cbn [In]; rewrite IH; intuition congruence.
Qed.

Lemma del_sorted : forall x l, ssorted l -> ssorted (del x l).
Proof.
  intros x l. induction l as [|z t IH]; intros Hs; cbn [del]; [exact I|]. destruct Hs as [Hz Hs].
  destruct (x =? z); [apply IH; exact Hs|]. cbn [ssorted]. split; [|apply IH; exact Hs].
  intros y Hy. apply del_in in Hy as [_ Hy]. apply Hz. exact Hy.
Qed.

Lemma del_absent : forall x l, ~ In x l -> del x l = l.
Proof.
  intros x l. induction l as [|z t IH]; intros Hn; cbn [del]; [reflexivity|].
  destruct (Nat.eqb_spec x z) as [->|Hne]; [exfalso; apply Hn; left; reflexivity|].
  rewrite IH; [reflexivity|]. intros H. apply Hn. right. exact H.
Qed.

Lemma del_present : forall x l, ssorted l -> In x l -> Permutation l (x :: del x l).
Proof.
  intros x l. induction l as [|z t IH]; intros Hs Hin; [destruct Hin|]. destruct Hs as [Hz Hs]. cbn [del].
  destruct (Nat.eqb_spec x z) as [->|Hne].
  - rewrite del_absent; [apply Permutation_refl|]. intros H. specialize (Hz z H). lia.
  - destruct Hin as [->|Hin]; [congruence|]. eapply perm_trans; [apply perm_skip; apply IH; assumption|apply perm_swap].
Qed.

(* majorities of c and of c plus one voter intersect *)
Lemma maj_adjacent : forall c c' x p q, Permutation c' (x :: c) -> c <> [] ->
  maj_sat c p -> maj_sat c' q -> exists v, p v = true /\ q v = true.
Proof.
  intros c c' x p q Hperm Hne [E|Hp] Hq; [contradiction|].
  assert (Hc' : c' <> []) by (intros ->; apply Permutation_nil in Hperm; discriminate).
  destruct Hq as [E|Hq]; [contradiction|].
  rewrite (Permutation_length Hperm) in Hq. rewrite (count_perm q _ _ Hperm) in Hq.
  rewrite count_cons in Hq. cbn [length] in Hq.
  pose proof (count_and p q c) as Hand.
  destruct (count_pos_ex (fun v => p v && q v) c) as (v & _ & Hv); [destruct (q x); lia|].
  apply andb_true_iff in Hv. exists v. exact Hv.
Qed.

Record wfc (c : conf) : Prop := mkWfc { wf_in : ssorted (c_in c); wf_ne : c_in c <> []; wf_out : joint c = true -> c_out c <> [] }.

Lemma maj_self : forall c p q, c <> [] -> maj_sat c p -> maj_sat c q -> exists v, p v = true /\ q v = true.
Proof. intros c p q Hne Hp Hq. destruct (majority_intersect c p q Hne Hp Hq) as (v & _ & H). exists v. exact H. Qed.

(* two configurations that share a non-empty majority component *)
Lemma joint_share : forall (a b : list nat * list nat) m, m <> [] ->
  (forall p, joint_sat (fst a) (snd a) p -> maj_sat m p) ->
  (forall p, joint_sat (fst b) (snd b) p -> maj_sat m p) ->
  forall p q, joint_sat (fst a) (snd a) p -> joint_sat (fst b) (snd b) q -> exists v, p v = true /\ q v = true.
Proof. intros a b m Hne Ha Hb p q Hp Hq. apply (maj_self m p q Hne); [apply Ha; exact Hp|apply Hb; exact Hq]. Qed.

Lemma inter_family_pair : forall a b,
  (forall p q, joint_sat (fst a) (snd a) p -> joint_sat (fst a) (snd a) q -> exists v, p v = true /\ q v = true) ->
  (forall p q, joint_sat (fst b) (snd b) p -> joint_sat (fst b) (snd b) q -> exists v, p v = true /\ q v = true) ->
  (forall p q, joint_sat (fst a) (snd a) p -> joint_sat (fst b) (snd b) q -> exists v, p v = true /\ q v = true) ->
  inter_family [a; b].
Proof.
  intros a b Haa Hbb Hab x y [<-|[<-|[]]] [<-|[<-|[]]] p q Hp Hq.
  - apply (Haa p q); assumption.
  - apply (Hab p q); assumption.
  - destruct (Hab q p Hq Hp) as (v & H1 & H2). exists v. split; assumption.
  - apply (Hbb p q); assumption.
Qed.

Theorem conf_step_wf : forall c op c', wfc c -> apply_cc c op = Some c' -> wfc c'.
Proof.
  intros c op c' [Hs Hne Ho] H. destruct op as [x|x|a b| |x]; cbn [apply_cc] in H; destruct (joint c) eqn:Ej; try discriminate.
  - injection H as <-. constructor; cbn [c_in c_out joint]; [apply ins_sorted; exact Hs| |intros H0; discriminate H0].
    intros E. assert (Hin : In x (ins x (c_in c))) by (apply ins_in; left; reflexivity). rewrite E in Hin. destruct Hin.
  - destruct (del x (c_in c)) as [|z t] eqn:Ed; [discriminate|]. injection H as <-.
    constructor; cbn [c_in c_out joint]; [rewrite <- Ed; apply del_sorted; exact Hs|discriminate|intros H0; discriminate H0].
  - destruct (c_in c) as [|y l] eqn:Ei; [discriminate|].
    destruct (del b (ins a (y :: l))) as [|z t] eqn:Ed; [discriminate|]. injection H as <-.
    constructor; cbn [c_in c_out joint]; [rewrite <- Ed; apply del_sorted; apply ins_sorted; exact Hs|discriminate|intros _; discriminate].
  - injection H as <-. constructor; cbn [c_in c_out joint]; [exact Hs|exact Hne|intros H0; discriminate H0].
  - destruct (del x (c_in c)) as [|z t] eqn:Ed; [discriminate|]. injection H as <-.
    constructor; cbn [c_in c_out joint]; [rewrite <- Ed; apply del_sorted; exact Hs|discriminate|intros H0; discriminate H0].
Qed.

(* the configuration before and after one change: all their quorums pairwise intersect *)
Theorem conf_step_inter : forall c op c', wfc c -> apply_cc c op = Some c' ->
  inter_family [(c_in c, c_out c); (c_in c', c_out c')].
Proof.
  intros c op c' [Hs Hne Ho] H.
  assert (Hnj : joint c = false -> c_out c = []) by (unfold joint; destruct (c_out c); [reflexivity|discriminate]).
  destruct op as [x|x|a b| |x]; cbn [apply_cc] in H; destruct (joint c) eqn:Ej; try discriminate.
  - (* add a voter *)
    injection H as <-. rewrite (Hnj eq_refl). cbn [c_in c_out].
    destruct (in_dec Nat.eq_dec x (c_in c)) as [Hin|Hnin].
    + rewrite (ins_present x _ Hs Hin).
      apply inter_family_pair; cbn [fst snd]; intros p q [Hp _] [Hq _]; apply (maj_self (c_in c) p q Hne Hp Hq).
    + pose proof (ins_absent x _ Hnin) as Hperm.
      assert (Hne' : ins x (c_in c) <> []) by (intros E; rewrite E in Hperm; apply Permutation_sym, Permutation_nil in Hperm; discriminate).
      apply inter_family_pair; cbn [fst snd]; intros p q [Hp _] [Hq _].
      * apply (maj_self (c_in c) p q Hne Hp Hq).
      * apply (maj_self _ p q Hne' Hp Hq).
      * apply (maj_adjacent (c_in c) (ins x (c_in c)) x p q (Permutation_sym Hperm) Hne Hp Hq).
  - (* remove a voter *)
    destruct (del x (c_in c)) as [|z t] eqn:Ed; [discriminate|]. injection H as <-. rewrite (Hnj eq_refl). cbn [c_in c_out].
    assert (Hne' : z :: t <> []) by discriminate. rewrite <- Ed in *.
    destruct (in_dec Nat.eq_dec x (c_in c)) as [Hin|Hnin].
    + pose proof (del_present x _ Hs Hin) as Hperm.
      apply inter_family_pair; cbn [fst snd]; intros p q [Hp _] [Hq _].
      * apply (maj_self (c_in c) p q Hne Hp Hq).
      * apply (maj_self _ p q Hne' Hp Hq).
      * destruct (maj_adjacent (del x (c_in c)) (c_in c) x q p Hperm Hne' Hq Hp) as (v & H1 & H2). exists v. split; assumption.
    + rewrite (del_absent x _ Hnin).
      apply inter_family_pair; cbn [fst snd]; intros p q [Hp _] [Hq _]; apply (maj_self (c_in c) p q Hne Hp Hq).
  - (* enter a joint configuration: the outgoing half is the old configuration *)
    destruct (c_in c) as [|y l] eqn:Ei; [discriminate|].
    destruct (del b (ins a (y :: l))) as [|z t] eqn:Ed; [discriminate|]. injection H as <-. rewrite (Hnj eq_refl). cbn [c_in c_out].
    apply inter_family_pair; cbn [fst snd].
    + intros p q [Hp _] [Hq _]. apply (maj_self (y :: l) p q Hne Hp Hq).
    + intros p q [_ Hp] [_ Hq]. apply (maj_self (y :: l) p q Hne Hp Hq).
    + intros p q [Hp _] [_ Hq]. apply (maj_self (y :: l) p q Hne Hp Hq).
  - (* leave the joint configuration: the incoming half stays *)
    injection H as <-. cbn [c_in c_out].
    apply inter_family_pair; cbn [fst snd]; intros p q [Hp _] [Hq _]; apply (maj_self (c_in c) p q Hne Hp Hq).
  - (* add a learner: a voter is demoted (removed from the voters), anyone else changes no quorum *)
    destruct (del x (c_in c)) as [|z t] eqn:Ed; [discriminate|]. injection H as <-. rewrite (Hnj eq_refl). cbn [c_in c_out].
    assert (Hne' : z :: t <> []) by discriminate. rewrite <- Ed in *.
    destruct (in_dec Nat.eq_dec x (c_in c)) as [Hin|Hnin].
    + pose proof (del_present x _ Hs Hin) as Hperm.
      apply inter_family_pair; cbn [fst snd]; intros p q [Hp _] [Hq _].
      * apply (maj_self (c_in c) p q Hne Hp Hq).
      * apply (maj_self _ p q Hne' Hp Hq).
      * destruct (maj_adjacent (del x (c_in c)) (c_in c) x q p Hperm Hne' Hq Hp) as (v & H1 & H2). exists v. split; assumption.
    + rewrite (del_absent x _ Hnin).
      apply inter_family_pair; cbn [fst snd]; intros p q [Hp _] [Hq _]; apply (maj_self (c_in c) p q Hne Hp Hq).
Qed.

(* every configuration a node can ever hold (the boot configuration changed by any log prefix)
   is well formed: sorted, duplicate free, with a non-empty incoming half — in particular the
   non-emptiness hypothesis of the fixed-membership theorems holds for it *)
Theorem cfg_of_wf : forall boot l, wfc boot -> wfc (cfg_of boot l).
Proof.
  intros boot l. revert boot. induction l as [|e l IH]; intros boot Hw; [exact Hw|].
  unfold cfg_of. cbn [fold_left]. apply IH. unfold apply_payload.
  destruct (cc_of_payload (snd e)) as [op|]; [|exact Hw].
  destruct (apply_cc boot op) as [c'|] eqn:Ea; [|exact Hw]. exact (conf_step_wf boot op c' Hw Ea).
Qed.

Corollary cfg_of_nonempty : forall boot l, wfc boot ->
  c_in (cfg_of boot l) <> [] \/ c_out (cfg_of boot l) <> [].
Proof. intros boot l Hw. left. apply (wf_ne _ (cfg_of_wf boot l Hw)). Qed.
