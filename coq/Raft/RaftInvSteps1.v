(* C15 — the micro steps that leave the ghost history alone preserve the invariant:
   bump, demote, setlead, record, ack, selfack, commit, heartbeat, emit of junk. *)
Require Import List Arith Bool Lia.
Require Import Raft.Quorum Raft.QuorumProofs Raft.RaftModel Raft.RaftSys Raft.RaftLog
               Raft.RaftInv Raft.RaftInvBase Raft.RaftInvFrame.
Import ListNotations.

Section Steps1.
  Variable F : list (list nat * list nat).
  Hypothesis HF : inter_family F.

  Lemma step_bump : forall s id t lead,
    Inv F s -> n_term (nodes s id) < t ->
    Inv F (set_node s id (become_follower id t lead (nodes s id))).
  Proof.
    intros s id t lead I Ht. apply inv_gsame; try assumption; cbn [become_follower n_term n_log n_vote n_role n_commit].
    - lia.
    - reflexivity.
    - right. split; [exact Ht|]. destruct (Nat.eqb_spec (n_term (nodes s id)) t); [lia|reflexivity].
    - left. reflexivity.
    - discriminate.
    - discriminate.
    - left. reflexivity.
  Qed.

  Lemma step_demote : forall s id lead,
    Inv F s ->
    Inv F (set_node s id (become_follower id (n_term (nodes s id)) lead (nodes s id))).
  Proof.
    intros s id lead I. apply inv_gsame; try assumption; cbn [become_follower n_term n_log n_vote n_role n_commit].
    - lia.
    - reflexivity.
    - left. split; [reflexivity|]. rewrite Nat.eqb_refl. reflexivity.
    - left. reflexivity.
    - discriminate.
    - discriminate.
    - left. reflexivity.
  Qed.

  Lemma step_setlead : forall s id lead,
    Inv F s -> Inv F (set_node s id (set_lead lead (nodes s id))).
  Proof.
    intros s id lead I. apply inv_gsame; try assumption; cbn [set_lead n_term n_log n_vote n_role n_commit n_votes n_match].
    - lia.
    - reflexivity.
    - left. split; reflexivity.
    - right. split; reflexivity.
    - intros Hr x Hv. apply (hA5 _ _ I id x Hr Hv).
    - intros Hr x. apply (hK5 _ _ I id x Hr).
    - left. reflexivity.
  Qed.

  Lemma step_noop : forall s id, Inv F s -> Inv F (set_node s id (nodes s id)).
  Proof.
    intros s id I. apply inv_gsame; try assumption.
    - lia.
    - reflexivity.
    - left. split; reflexivity.
    - right. split; reflexivity.
    - intros Hr x Hv. apply (hA5 _ _ I id x Hr Hv).
    - intros Hr x. apply (hK5 _ _ I id x Hr).
    - left. reflexivity.
  Qed.

  Lemma step_record : forall s id m,
    Inv F s ->
    In m (msgs s) -> m_type m = MsgVoteResp -> m_to m = id -> m_term m = n_term (nodes s id) ->
    n_role (nodes s id) = Candidate ->
    Inv F (set_node s id (record_vote (m_from m) (negb (m_reject m)) (nodes s id))).
  Proof.
    intros s id m I Hm Hty Hto Htm Hr.
    unfold record_vote. destruct (n_votes (nodes s id) (m_from m)) eqn:Ev.
    - (* already answered: no change *)
      apply inv_gsame; try assumption.
      + lia.
      + reflexivity.
      + left. split; reflexivity.
      + right. split; reflexivity.
      + intros Hr' x Hv. apply (hA5 _ _ I id x Hr' Hv).
      + intros Hr' x. apply (hK5 _ _ I id x Hr').
      + left. reflexivity.
    - apply inv_gsame; try assumption; cbn [set_votes n_term n_log n_vote n_role n_commit n_votes n_match].
      + lia.
      + reflexivity.
      + left. split; reflexivity.
      + right. split; reflexivity.
      + intros Hr' x Hv. destruct (Nat.eq_dec x (m_from m)) as [Ex|Hx].
        * subst x. rewrite upd_same in Hv. injection Hv as Hv. apply negb_true_iff in Hv.
          pose proof (hA4 _ _ I m Hm Hty Hv) as H. rewrite Htm, Hto in H. exact H.
        * rewrite upd_other in Hv by exact Hx. apply (hA5 _ _ I id x Hr' Hv).
      + intros Hr'. congruence.
      + left. reflexivity.
  Qed.

  Lemma step_ack : forall s id m,
    Inv F s ->
    In m (msgs s) -> m_type m = MsgAppResp -> m_reject m = false -> m_to m = id ->
    m_term m = n_term (nodes s id) -> n_role (nodes s id) = Leader ->
    Inv F (set_node s id (set_match (upd (n_match (nodes s id)) (m_from m) (m_index m)) (nodes s id))).
  Proof.
    intros s id m I Hm Hty Hrej Hto Htm Hr.
    apply inv_gsame; try assumption; cbn [set_match n_term n_log n_vote n_role n_commit n_votes n_match].
    - lia.
    - reflexivity.
    - left. split; reflexivity.
    - right. split; reflexivity.
    - congruence.
    - intros _ x. destruct (Nat.eq_dec x (m_from m)) as [Ex|Hx].
      + subst x. rewrite upd_same. rewrite <- Htm. apply (hK4 _ _ I m Hm Hty Hrej).
      + rewrite upd_other by exact Hx. apply (hK5 _ _ I id x Hr).
    - left. reflexivity.
  Qed.

  Lemma step_selfack : forall s id k,
    Inv F s -> n_role (nodes s id) = Leader -> k <= length (n_log (nodes s id)) ->
    Inv F (set_node s id (set_match (upd (n_match (nodes s id)) id k) (nodes s id))).
  Proof.
    intros s id k I Hr Hk.
    apply inv_gsame; try assumption; cbn [set_match n_term n_log n_vote n_role n_commit n_votes n_match].
    - lia.
    - reflexivity.
    - left. split; reflexivity.
    - right. split; reflexivity.
    - congruence.
    - intros _ x. destruct (Nat.eq_dec x id) as [Ex|Hx].
      + subst x. rewrite upd_same. pose proof (hK11 _ _ I id Hr) as H. unfold nd in H. lia.
      + rewrite upd_other by exact Hx. apply (hK5 _ _ I id x Hr).
    - left. reflexivity.
  Qed.

  Lemma step_lower : forall s id f,
    Inv F s -> (forall x, f x <= n_match (nodes s id) x) ->
    Inv F (set_node s id (set_match f (nodes s id))).
  Proof.
    intros s id f I Hf.
    apply inv_gsame; try assumption; cbn [set_match n_term n_log n_vote n_role n_commit n_votes n_match].
    - lia.
    - reflexivity.
    - left. split; reflexivity.
    - right. split; reflexivity.
    - intros Hr x Hv. apply (hA5 _ _ I id x Hr Hv).
    - intros Hr x. pose proof (hK5 _ _ I id x Hr) as H5. unfold nd in H5. pose proof (Hf x). lia.
    - left. reflexivity.
  Qed.

  Lemma step_setvotes : forall s id vs,
    Inv F s -> n_role (nodes s id) <> Candidate ->
    Inv F (set_node s id (set_votes vs (nodes s id))).
  Proof.
    intros s id vs I Hr.
    apply inv_gsame; try assumption; cbn [set_votes n_term n_log n_vote n_role n_commit n_votes n_match].
    - lia.
    - reflexivity.
    - left. split; reflexivity.
    - right. split; reflexivity.
    - intros Hr'. contradiction.
    - intros Hr' x. apply (hK5 _ _ I id x Hr').
    - left. reflexivity.
  Qed.

  Lemma step_commit : forall s id cfg,
    Inv F s -> In cfg F -> n_role (nodes s id) = Leader ->
    Inv F (set_node s id (maybe_commit (fst cfg) (snd cfg) (nodes s id))).
  Proof.
    intros s id cfg I Hin Hr. set (n := nodes s id) in *. set (c0 := fst cfg). set (c1 := snd cfg).
    assert (Hsame : forall n', n_term n' = n_term n -> n_log n' = n_log n -> n_vote n' = n_vote n ->
              n_role n' = n_role n -> n_votes n' = n_votes n -> n_match n' = n_match n ->
              (n_commit n' = n_commit n \/
               (n_commit n' <= length (n_log n') /\
                (n_commit n' = 0 \/
                 exists t0 k0, t0 <= n_term n' /\ committed_at F s t0 k0 /\ n_commit n' <= k0 /\
                   firstn (n_commit n') (n_log n') = firstn (n_commit n') (LL s t0)))) ->
              Inv F (set_node s id n')).
    { intros n' Et El Ev Ero Evs Em Hc. apply inv_gsame; try assumption; fold n.
      - lia.
      - left. split; assumption.
      - right. split; assumption.
      - intros Hr' x Hv. rewrite Et. rewrite Evs in Hv. apply (hA5 _ _ I id x); unfold nd; fold n; congruence.
      - intros Hr' x. rewrite Et, Em. apply (hK5 _ _ I id x Hr). }
    unfold maybe_commit. fold n.
    destruct (joint_committed_index c0 c1 (fun i => Some (n_match n i))) as [mci|] eqn:Ej;
      [|apply Hsame; try reflexivity; left; reflexivity].
    destruct ((n_commit n <? mci) && (term_at (n_log n) mci =? n_term n)) eqn:Ec;
      [|apply Hsame; try reflexivity; left; reflexivity].
    apply andb_true_iff in Ec as [Ec1 Ec2]. apply Nat.ltb_lt in Ec1. apply Nat.eqb_eq in Ec2.
    apply Hsame; try reflexivity. right. cbn [set_commit n_commit n_log n_term].
    pose proof (hA8 _ _ I id ltac:(unfold nd; fold n; congruence)) as Hpos. unfold nd in Hpos. fold n in Hpos.
    assert (Hrange : 1 <= mci <= length (n_log n)) by (apply term_at_range; lia).
    pose proof (hW5 _ _ I id Hr) as HLL. unfold nd in HLL. fold n in HLL.
    split; [lia|]. right. exists (n_term n), mci. split; [lia|]. split; [|split; [lia|rewrite HLL; reflexivity]].
    split.
    - split; [rewrite HLL; exact Hrange|rewrite HLL; exact Ec2].
    - destruct (joint_committed_index_spec c0 c1 (fun i => Some (n_match n i))) as (_ & Hspec & _).
      destruct (Hspec mci Ej) as [Hsat _].
      eapply Qr_mono; [|exact (Qr_intro F cfg _ Hin Hsat)]. intros x Hx. unfold acked_ge, ack_of in Hx. apply Nat.leb_le in Hx.
      unfold ackedp. apply Nat.leb_le. pose proof (hK5 _ _ I id x Hr) as H. unfold nd in H. fold n in H. lia.
  Qed.

  Lemma step_heartbeat : forall s id m,
    Inv F s ->
    In m (msgs s) -> m_type m = MsgHeartbeat -> m_to m = id -> m_term m = n_term (nodes s id) ->
    n_role (nodes s id) = Follower ->
    Inv F (add_msgs (set_node s id (fst (handle_heartbeat id m (nodes s id))))
                        (snd (handle_heartbeat id m (nodes s id)))).
  Proof.
    intros s id m I Hm Hty Hto Htm Hr. set (n := nodes s id) in *.
    unfold handle_heartbeat. fold n.
    destruct (commit_to (n_log n) (n_commit n) (m_commit m)) as [c|] eqn:Ec; cbn [fst snd].
    - apply inv_add_msgs.
      + apply inv_gsame; try assumption; fold n; cbn [set_commit n_term n_log n_vote n_role n_commit n_votes n_match].
        * lia.
        * reflexivity.
        * left. split; reflexivity.
        * right. split; reflexivity.
        * congruence.
        * congruence.
        * destruct (commit_to_spec _ _ _ _ Ec) as [[-> _]|(-> & Hlt & Hle)]; [left; reflexivity|].
          right. split; [exact Hle|]. right.
          destruct (hK10 _ _ I m Hm Hty) as [Hga HCP]. rewrite Hto, Htm in Hga. rewrite Htm in HCP.
          destruct HCP as [HlenLL [Hz|(t0 & k0 & Ht0 & Hc0 & Hk0)]]; [lia|].
          exists t0, k0. split; [exact Ht0|]. split; [exact Hc0|]. split; [exact Hk0|].
          destruct (hK3 _ _ I id) as [Hk3a Hk3b]. unfold nd in Hk3a, Hk3b. fold n in Hk3a, Hk3b.
          assert (HLLne : LL s (n_term n) <> []) by (intros E0; rewrite E0 in HlenLL; cbn in HlenLL; lia).
          destruct (LC_le F HF s I t0 k0 (n_term n) Hc0 Ht0 HLLne) as [_ Hhas].
          rewrite (firstn_agree_le _ _ _ _ _ Hk3b Hga).
          apply (firstn_agree_le _ _ _ k0); [exact Hhas|exact Hk0].
      + intros m' [<-|[]]. apply harmless_msg_ok. reflexivity.
    - (* panic: nothing happens *)
      apply inv_add_msgs; [|intros m' []]. apply step_noop. exact I.
  Qed.

  Lemma step_junk : forall s m, Inv F s -> harmless m = true -> Inv F (add_msgs s [m]).
  Proof.
    intros s m I H. apply inv_add_msgs; [exact I|]. intros m' [<-|[]]. apply harmless_msg_ok. exact H.
  Qed.
End Steps1.
