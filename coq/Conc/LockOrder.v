(* Lock ordering facts about the executable stripe model (Conc/LockModel.v):
   [poses nlocks keys] (model of memdb/dblock.go sortedLockPoses) is strictly ascending,
   duplicate free, and contains exactly the stripes of the keys; every stripe is below the
   number of locks.  These are the facts the deadlock-freedom argument needs: every multi-key
   command acquires its stripes in one global strict order.

   L1 poses_sorted        : StronglySorted N.lt (poses nlocks keys)
   L2 poses_same_set      : In p (poses nlocks keys) <-> In p (map (stripe nlocks) keys)
   L3 poses_nodup         : NoDup (poses nlocks keys)
   L4 stripe_lt           : nlocks <> 0 -> stripe nlocks k < nlocks
   L5 poses_nat_ascending : StronglySorted lt (map N.to_nat (poses nlocks keys))

   No axioms. *)
Require Import Base.Bytes Conc.LockModel.
Require Import Sorting.Sorted.
Local Open Scope N_scope.

(* ---- insertion: membership, NoDup, sortedness ---- *)

Lemma ins_In x l p : In p (ins x l) <-> p = x \/ In p l.
Proof.
  induction l as [|y r IH]; simpl.
  - split; intros [H|H]; auto; try contradiction.
  - destruct (x <=? y); simpl.
    + split; intros [H|H]; auto.
    + rewrite IH. split; intros H; tauto.
Qed.

Lemma isort_In l p : In p (isort l) <-> In p l.
Proof.
  induction l as [|x l IH]; simpl.
  - tauto.
  - rewrite ins_In, IH. split; intros [H|H]; auto.
Qed.

Lemma ins_NoDup x l : ~ In x l -> NoDup l -> NoDup (ins x l).
Proof.
  induction l as [|y r IH]; simpl; intros Hn Hd.
  - constructor; auto.
  - destruct (x <=? y).
    + constructor; auto.
    + inversion Hd as [|y' r' Hy Hr]; subst. constructor.
      * rewrite ins_In. intros [E|E]; [subst; apply Hn; left; reflexivity | contradiction].
      * apply IH; auto.
Qed.

Lemma isort_NoDup l : NoDup l -> NoDup (isort l).
Proof.
  induction l as [|x l IH]; simpl; intros Hd.
  - constructor.
  - inversion Hd as [|x' l' Hx Hl]; subst. apply ins_NoDup.
    + rewrite isort_In. exact Hx.
    + apply IH. exact Hl.
Qed.

Lemma ins_sorted x l : StronglySorted N.le l -> StronglySorted N.le (ins x l).
Proof.
  induction l as [|y r IH]; simpl; intros Hs.
  - constructor; constructor.
  - inversion Hs as [|y' r' Hr Hall]; subst.
    destruct (x <=? y) eqn:E.
    + apply N.leb_le in E. constructor; [exact Hs|].
      constructor; [exact E|].
      rewrite Forall_forall in Hall |- *. intros z Hz. specialize (Hall z Hz). lia.
    + apply N.leb_gt in E. constructor; [apply IH; exact Hr|].
      rewrite Forall_forall in Hall |- *. intros z Hz. apply ins_In in Hz.
      destruct Hz as [->|Hz]; [lia | apply Hall; exact Hz].
Qed.

Lemma isort_sorted l : StronglySorted N.le (isort l).
Proof.
  induction l as [|x l IH]; simpl.
  - constructor.
  - apply ins_sorted. exact IH.
Qed.

Lemma sorted_le_nodup_lt l : StronglySorted N.le l -> NoDup l -> StronglySorted N.lt l.
Proof.
  induction l as [|x l IH]; intros Hs Hd.
  - constructor.
  - inversion Hs as [|x' l' Hl Hall]; subst. inversion Hd as [|x' l' Hx Hd']; subst.
    constructor; [apply IH; assumption|].
    rewrite Forall_forall in Hall |- *. intros z Hz. specialize (Hall z Hz).
    assert (z <> x) by (intros ->; contradiction). lia.
Qed.

(* ---- the five facts ---- *)

Theorem poses_nodup : forall nlocks keys, NoDup (poses nlocks keys).
Proof. intros nlocks keys. unfold poses. apply isort_NoDup. apply NoDup_nodup. Qed.

Theorem poses_sorted : forall nlocks keys, StronglySorted N.lt (poses nlocks keys).
Proof.
  intros nlocks keys. apply sorted_le_nodup_lt.
  - unfold poses. apply isort_sorted.
  - apply poses_nodup.
Qed.

Theorem poses_same_set : forall nlocks keys p,
  In p (poses nlocks keys) <-> In p (map (stripe nlocks) keys).
Proof. intros nlocks keys p. unfold poses. rewrite isort_In. apply nodup_In. Qed.

Theorem stripe_lt : forall nlocks k, nlocks <> 0 -> stripe nlocks k < nlocks.
Proof. intros nlocks k H. unfold stripe. apply N.mod_lt. exact H. Qed.

Lemma sorted_N_to_nat l : StronglySorted N.lt l -> StronglySorted lt (map N.to_nat l).
Proof.
  induction 1 as [|x l Hl IH Hall]; simpl.
  - constructor.
  - constructor; [exact IH|].
    rewrite Forall_forall in Hall |- *. intros z Hz. apply in_map_iff in Hz.
    destruct Hz as (w & <- & Hw). specialize (Hall w Hw). lia.
Qed.

Theorem poses_nat_ascending : forall nlocks keys,
  StronglySorted lt (map N.to_nat (poses nlocks keys)).
Proof. intros nlocks keys. apply sorted_N_to_nat. apply poses_sorted. Qed.

(* every position is a valid lock index *)
Corollary poses_lt : forall nlocks keys p, nlocks <> 0 -> In p (poses nlocks keys) -> p < nlocks.
Proof.
  intros nlocks keys p Hn Hp. apply poses_same_set in Hp. apply in_map_iff in Hp.
  destruct Hp as (k & <- & _). apply stripe_lt. exact Hn.
Qed.

Print Assumptions poses_sorted.
Print Assumptions poses_same_set.
Print Assumptions poses_nodup.
Print Assumptions stripe_lt.
Print Assumptions poses_nat_ascending.
Print Assumptions poses_lt.
