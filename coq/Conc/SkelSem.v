(* Ground semantics of lock skeletons: which sequences of concrete lock / access actions an
   executor can perform, for every command (argument vector), every value of its variables, every
   branch taken and every number of loop iterations -- and the monitor [gsafe] that such a sequence
   must satisfy.  [well_locked_sound] (Conc/SkelSound.v) connects the boolean abstract interpreter
   of Conc/Skel.v to this semantics; [gsafe] is then connected to the hypotheses of the two
   theorems about all schedules: [wl] (two-phase locking, Conc/TwoPLDefs.v) and [ordered] (lock
   ordering, Conc/DeadlockDefs.v).  Definitions only. *)
Require Import List String Bool Arith NArith.
Import ListNotations.
Require Import Base.Bytes Conc.TwoPLDefs Conc.Skel Conc.LockModel.

Section Sem.
  Variable nlocks : N.                      (* number of stripes: 2 * ShardNum *)
  Variable lower : bytes -> bytes.          (* strings.ToLower, left abstract *)

  Record env := mkEnv {
    e_args : list bytes;                    (* the command: cmd[0], cmd[1], ... *)
    e_kv : string -> bytes;                 (* string variables *)
    e_sv : string -> list bytes             (* []string variables *)
  }.

  Definition bind (r : env) (x : string) (v : bytes) (vs : list bytes) : env :=
    mkEnv (e_args r)
          (fun y => if String.eqb y x then v else e_kv r y)
          (fun y => if String.eqb y x then vs else e_sv r y).

  Definition den_set (r : env) (s : kset) : option (list bytes) :=
    match s with
    | SArgs f d => Some (firstn (List.length (e_args r) - f - d) (skipn f (e_args r)))
    | SVar x => Some (e_sv r x)
    | SUnknown => None
    end.

  (* [kden r k key]: key expression k may denote key in environment r.  A range variable
     (KIn x s) denotes the value of x provided it is an element of s: that it is one is what
     the translator asserts when it emits KIn (x is the iteration variable of a range over s). *)
  Inductive kden (r : env) : kexpr -> bytes -> Prop :=
  | DArg : forall i k, nth_error (e_args r) i = Some k -> kden r (KArg i) k
  | DLower : forall e k, kden r e k -> kden r (KLower e) (lower k)
  | DVar : forall x, kden r (KVar x) (e_kv r x)
  | DIn : forall x s ks, den_set r s = Some ks -> In (e_kv r x) ks -> kden r (KIn x s) (e_kv r x)
  | DIdx : forall s ks k, den_set r s = Some ks -> In k ks -> kden r (KIdx s) k
  | DUnknown : forall k, kden r KUnknown k.

  Inductive tden (r : env) : ktarget -> list bytes -> Prop :=
  | DTKey : forall k key, kden r k key -> tden r (TKey k) [key]
  | DTSet : forall s ks, den_set r s = Some ks -> tden r (TSet s) ks.

  Inductive tsden (r : env) : list ktarget -> list bytes -> Prop :=
  | DTNil : tsden r [] []
  | DTCons : forall t ts ks ks', tden r t ks -> tsden r ts ks' -> tsden r (t :: ts) (ks ++ ks').

  (* ---- ground actions ---- *)
  Inductive gact :=
  | GAcq (m : mode) (l : N)      (* stripe l requested and granted in mode m *)
  | GRel (l : N)
  | GRd (k : bytes)              (* key k's slot / deadline / value object read *)
  | GWr (k : bytes).             (* ... written *)

  Definition st (k : bytes) : N := stripe nlocks k.

  Definition acc_act (a : acc) (k : bytes) : gact :=
    match a with ARead => GRd k | AWrite => GWr k end.

  Inductive outcome := ONormal | OReturn | OJump.

  (* [exec clo r D evs r' D' t o]: running the event list evs from environment r with deferred
     calls D pending produces the action sequence t.  clo = true inside a deferred closure (a
     return there only leaves the closure).  Branches, loop iteration counts, rebinding of
     variables and the outcome of CheckTTL are nondeterministic: every choice is a path. *)
  Inductive exec : bool -> env -> list (list ev) -> list ev -> env -> list (list ev) -> list gact -> outcome -> Prop :=
  | XNil : forall clo r D, exec clo r D [] r D [] ONormal
  | XCons : forall clo r D e rest r1 D1 t1 r2 D2 t2 o,
      exec1 clo r D e r1 D1 t1 ONormal -> exec clo r1 D1 rest r2 D2 t2 o ->
      exec clo r D (e :: rest) r2 D2 (t1 ++ t2) o
  | XStop : forall clo r D e rest r1 D1 t1 o,
      exec1 clo r D e r1 D1 t1 o -> o <> ONormal ->
      exec clo r D (e :: rest) r1 D1 t1 o
  with exec1 : bool -> env -> list (list ev) -> ev -> env -> list (list ev) -> list gact -> outcome -> Prop :=
  | X1Lock : forall clo r D m k key, kden r k key ->
      exec1 clo r D (ELock m k) r D [GAcq m (st key)] ONormal
  | X1Unlock : forall clo r D m k key, kden r k key ->
      exec1 clo r D (EUnlock m k) r D [GRel (st key)] ONormal
  | X1LockMulti : forall clo r D m ts keys, tsden r ts keys ->
      exec1 clo r D (ELockMulti m ts) r D (map (GAcq m) (poses nlocks keys)) ONormal
  | X1UnlockMulti : forall clo r D m ts keys, tsden r ts keys ->
      exec1 clo r D (EUnlockMulti m ts) r D (map GRel (poses nlocks keys)) ONormal
  | X1Defer : forall clo r D b, exec1 clo r D (EDefer b) r (b :: D) [] ONormal
  | X1Db : forall clo r D a op k key, kden r k key ->
      exec1 clo r D (EDb a op k) r D [acc_act a key] ONormal
  | X1DbAll : forall clo r D a op, exec1 clo r D (EDbAll a op) r D [] ONormal
  | X1Ttl : forall clo r D a op k key, kden r k key ->
      exec1 clo r D (ETtl a op k) r D [acc_act a key] ONormal
  | X1Val : forall clo r D a op k key, kden r k key ->
      exec1 clo r D (EVal a op k) r D [acc_act a key] ONormal
  | X1CheckLive : forall clo r D k,                      (* no deadline, or not yet expired *)
      exec1 clo r D (ECheckTTL k) r D [] ONormal
  | X1CheckExpired : forall clo r D k key, kden r k key ->  (* its own critical section *)
      exec1 clo r D (ECheckTTL k) r D [GAcq W (st key); GRd key; GWr key; GRel (st key)] ONormal
  | X1Bind : forall clo r D x v vs, exec1 clo r D (EBind x) (bind r x v vs) D [] ONormal
  | X1Return : forall r D r' t, unwind r D r' t -> exec1 false r D EReturn r' [] t OReturn
  | X1ReturnClo : forall r D, exec1 true r D EReturn r D [] OReturn
  | X1Jump : forall clo r D, exec1 clo r D EJump r D [] OJump
  | X1Branch : forall clo r D alts alt r' D' t o, In alt alts -> exec clo r D alt r' D' t o ->
      exec1 clo r D (EBranch alts) r' D' t o
  | X1LoopDone : forall clo r D b, exec1 clo r D (ELoop b) r D [] ONormal
  | X1LoopIter : forall clo r D b r1 D1 t1 o1 r2 D2 t2 o2,
      exec clo r D b r1 D1 t1 o1 -> (o1 = ONormal \/ o1 = OJump) ->
      exec1 clo r1 D1 (ELoop b) r2 D2 t2 o2 ->
      exec1 clo r D (ELoop b) r2 D2 (t1 ++ t2) o2
  | X1LoopReturn : forall clo r D b r1 D1 t1,
      exec clo r D b r1 D1 t1 OReturn -> exec1 clo r D (ELoop b) r1 D1 t1 OReturn
  | X1Go : forall clo r D b, exec1 clo r D (EGo b) r D [] ONormal   (* another thread: see go_bodies *)
  (* deferred calls run most recent first *)
  with unwind : env -> list (list ev) -> env -> list gact -> Prop :=
  | UNil : forall r, unwind r [] r []
  | UCons : forall r d ds r1 D1 t1 o r2 t2,
      exec true r ds d r1 D1 t1 o -> (o = ONormal \/ o = OReturn) ->
      unwind r1 D1 r2 t2 -> unwind r (d :: ds) r2 (t1 ++ t2).

  (* a whole executor run: the body, then the implicit return *)
  Definition run_of (sk : list ev) (args : list bytes) (t : list gact) : Prop :=
    exists kv sv r' D' o, exec false (mkEnv args kv sv) [] (sk ++ [EReturn]) r' D' t o.

  (* ---- the monitor on action sequences ----
     state: the stripes held (with mode) and whether one has been released while others are held.
       acquire: nothing released yet in this section, stripe above every stripe held;
       release: of a held stripe; read: stripe of the key held; write: held in W mode;
       at the end nothing is held.
     A maximal stretch from "nothing held" to "nothing held" is one critical section. *)
  Definition ghold := list (N * mode).

  Definition gholds (h : ghold) (l : N) : bool := existsb (fun p => N.eqb (fst p) l) h.
  Definition gholds_w (h : ghold) (l : N) : bool :=
    existsb (fun p => N.eqb (fst p) l && mode_eqb (snd p) W) h.
  Definition gdrop (h : ghold) (l : N) : ghold := filter (fun p => negb (N.eqb (fst p) l)) h.

  Definition gstep (s : ghold * bool) (a : gact) : option (ghold * bool) :=
    let (h, released) := s in
    match a with
    | GAcq m l =>
        if negb released && forallb (fun p => N.ltb (fst p) l) h then Some ((l, m) :: h, false) else None
    | GRel l =>
        if gholds h l
        then let h' := gdrop h l in Some (h', match h' with [] => false | _ => true end)
        else None
    | GRd k => if gholds h (st k) then Some s else None
    | GWr k => if gholds_w h (st k) then Some s else None
    end.

  Fixpoint gmon (s : ghold * bool) (t : list gact) : option (ghold * bool) :=
    match t with
    | [] => Some s
    | a :: r => match gstep s a with Some s' => gmon s' r | None => None end
    end.

  Definition gsafe (t : list gact) : bool :=
    match gmon ([], false) t with Some ([], _) => true | _ => false end.
End Sem.
