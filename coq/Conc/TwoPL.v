(* Two-phase locking implies serializability in lock-point (Commit) order
   (DESIGN.md Appendix A.3; definitions in Conc/TwoPLDefs.v).

   For arbitrary numbers of transactions and arbitrary interleavings [s], writing
   WL s := forall t, In t (tids s) -> wl (proj t s) = true
   (every transaction occurring in [s] is well-locked and two-phase):

   - twopl_serializable :
       legal s -> WL s -> forall st, state_eq (run (serial s) st) (run s st)
     every legal interleaving has the same final store and the same transaction-local
     states (everything every transaction read) as the serial execution of the whole
     transactions in commit-order.
   - commit_order_complete :
       WL s -> NoDup (commit_order s) /\ (forall t, In t (commit_order s) <-> In t (tids s))
   - commit_order_realtime :
       WL s -> precedes s t t' -> before (commit_order s) t t'
   - serial_permutation : WL s -> Permutation s (serial s)
   - serial_events_of   : WL s -> forall t, events_of t (serial s) = events_of t s
   - serial_proj        : WL s -> forall t, proj t (serial s) = proj t s

   Proof: peel-off induction on the transaction T with the first Commit event
   (s = pre ++ (T, Commit) :: post, no Commit in pre).  No lock is released in pre and T
   acquires nothing in post, so by the reader-writer exclusion invariant of legal schedules
   ([exclusion]) no data event of T conflicts with an earlier event of another transaction
   ([key_noconflict]); non-conflicting events of different transactions commute up to
   [state_eq] ([step_commute]), hence all events of T can be moved to the front
   ([move_front]); the rest [rm T s] is again legal and well-locked.

   No axioms: all theorems are closed under the global context. *)
Require Import List Arith Bool Lia Permutation.
Import ListNotations.
Require Import Conc.TwoPLDefs.

Section TwoPL.
  Variables Loc Lk Val Lst : Type.
  Variable Loc_eqb : Loc -> Loc -> bool.
  Variable Lk_eqb : Lk -> Lk -> bool.
  Hypothesis Loc_eqb_spec : forall a b, reflect (a = b) (Loc_eqb a b).
  Hypothesis Lk_eqb_spec : forall a b, reflect (a = b) (Lk_eqb a b).
  Variable guard : Loc -> Lk.

  Local Notation act := (TwoPLDefs.act Loc Lk Val Lst).
  Local Notation event := (TwoPLDefs.event Loc Lk Val Lst).
  Local Notation schedule := (TwoPLDefs.schedule Loc Lk Val Lst).
  Local Notation state := (TwoPLDefs.state Loc Val Lst).
  Local Notation locals := (TwoPLDefs.locals Loc Val Lst).
  Local Notation store := (TwoPLDefs.store Loc Val Lst).
  Local Notation upd_local := (TwoPLDefs.upd_local Lst).
  Local Notation upd_store := (TwoPLDefs.upd_store Loc Val Loc_eqb).
  Local Notation step := (TwoPLDefs.step Loc Lk Val Lst Loc_eqb).
  Local Notation run := (TwoPLDefs.run Loc Lk Val Lst Loc_eqb).
  Local Notation state_eq := (TwoPLDefs.state_eq Loc Val Lst).
  Local Notation held := (TwoPLDefs.held Lk).
  Local Notation holds := (TwoPLDefs.holds Lk Lk_eqb).
  Local Notation holds_w := (TwoPLDefs.holds_w Lk Lk_eqb).
  Local Notation release := (TwoPLDefs.release Lk Lk_eqb).
  Local Notation held_step := (TwoPLDefs.held_step Loc Lk Val Lst Lk_eqb).
  Local Notation held_after := (TwoPLDefs.held_after Loc Lk Val Lst Lk_eqb).
  Local Notation wl_from := (TwoPLDefs.wl_from Loc Lk Val Lst Lk_eqb guard).
  Local Notation wl := (TwoPLDefs.wl Loc Lk Val Lst Lk_eqb guard).
  Local Notation events_of := (TwoPLDefs.events_of Loc Lk Val Lst).
  Local Notation proj := (TwoPLDefs.proj Loc Lk Val Lst).
  Local Notation tids := (TwoPLDefs.tids Loc Lk Val Lst).
  Local Notation holding := (TwoPLDefs.holding Loc Lk Val Lst Lk_eqb).
  Local Notation legal := (TwoPLDefs.legal Loc Lk Val Lst Lk_eqb).
  Local Notation is_commit := (TwoPLDefs.is_commit Loc Lk Val Lst).
  Local Notation commit_order := (TwoPLDefs.commit_order Loc Lk Val Lst).
  Local Notation serial := (TwoPLDefs.serial Loc Lk Val Lst).
  Local Notation precedes := (TwoPLDefs.precedes Loc Lk Val Lst).
  Local Notation conflict := (TwoPLDefs.conflict Loc Lk Val Lst Loc_eqb).

  (* ------------------------------------------------------------------ *)
  (* generic list lemmas *)

  Lemma app_cons_split3 (A : Type) (a : list A) : forall (c : list A) x y b d,
    a ++ x :: b = c ++ y :: d ->
    (exists m, c = a ++ x :: m /\ b = m ++ y :: d) \/
    (a = c /\ x = y /\ b = d) \/
    (exists m, a = c ++ y :: m /\ d = m ++ x :: b).
  Proof.
    induction a as [|a0 a IH]; intros [|c0 c] x y b d H; simpl in H.
    - injection H as -> ->. right; left; auto.
    - injection H as -> ->. left. exists c. auto.
    - injection H as -> <-. right; right. exists a; auto.
    - injection H as -> H.
      destruct (IH c x y b d H) as [[m [-> ->]]|[[-> [-> ->]]|[m [-> ->]]]].
      + left; exists m; auto.
      + right; left; auto.
      + right; right; exists m; auto.
  Qed.

  Lemma filter_split (A : Type) (f : A -> bool) (l : list A) : forall a e b,
    filter f l = a ++ e :: b ->
    exists a0 b0, l = a0 ++ e :: b0 /\ filter f a0 = a /\ filter f b0 = b.
  Proof.
    induction l as [|x l IH]; intros a e b H; simpl in H.
    - destruct a; discriminate.
    - destruct (f x) eqn:Fx.
      + destruct a as [|a1 a]; simpl in H; injection H as -> H.
        * exists [], l. simpl. auto.
        * destruct (IH a e b H) as (a0 & b0 & -> & <- & <-).
          exists (a1 :: a0), b0. simpl. rewrite Fx. auto.
      + destruct (IH a e b H) as (a0 & b0 & -> & <- & <-).
        exists (x :: a0), b0. simpl. rewrite Fx. auto.
  Qed.

  Lemma filter_length_lt (A : Type) (f : A -> bool) (l : list A) x :
    In x l -> f x = false -> length (filter f l) < length l.
  Proof.
    induction l as [|y l IH]; intros Hin Hf; simpl in *.
    - contradiction.
    - assert (Hle : forall l0 : list A, length (filter f l0) <= length l0).
      { induction l0 as [|z l0 IHl]; simpl; auto. destruct (f z); simpl; lia. }
      destruct Hin as [->|Hin].
      + rewrite Hf. specialize (Hle l). lia.
      + specialize (IH Hin Hf). destruct (f y); simpl; lia.
  Qed.

  Lemma filter_partition_perm (A : Type) (f : A -> bool) (l : list A) :
    Permutation l (filter f l ++ filter (fun x => negb (f x)) l).
  Proof.
    induction l as [|x l IH]; simpl; auto.
    destruct (f x); simpl.
    - constructor; auto.
    - apply Permutation_cons_app; auto.
  Qed.

  (* ------------------------------------------------------------------ *)
  (* semantics: state_eq is an equivalence respected by step / run *)

  Lemma state_eq_refl a : state_eq a a.
  Proof. split; reflexivity. Qed.

  Lemma state_eq_sym a b : state_eq a b -> state_eq b a.
  Proof. intros [H1 H2]; split; intros; symmetry; auto. Qed.

  Lemma state_eq_trans a b c : state_eq a b -> state_eq b c -> state_eq a c.
  Proof.
    intros [H1 H2] [H3 H4]; split; intros.
    - rewrite H1; auto.
    - rewrite H2; auto.
  Qed.

  Lemma step_state_eq a b e : state_eq a b -> state_eq (step a e) (step b e).
  Proof.
    intros [HL HS]. destruct e as [t [m l|l| | |x f|x f]]; simpl; try (split; assumption).
    - split; simpl; auto. intros t'. unfold TwoPLDefs.upd_local. rewrite !HL, HS. reflexivity.
    - rewrite HL, HS. destruct (f (locals b t) (store b x)) as [l' v'].
      split; simpl; intros z.
      + unfold TwoPLDefs.upd_local. rewrite HL. reflexivity.
      + unfold TwoPLDefs.upd_store. rewrite HS. reflexivity.
  Qed.

  Lemma run_state_eq l : forall a b, state_eq a b -> state_eq (run l a) (run l b).
  Proof.
    induction l as [|e l IH]; intros a b H; simpl; auto.
    apply IH. apply step_state_eq; auto.
  Qed.

  Lemma run_app l1 l2 st : run (l1 ++ l2) st = run l2 (run l1 st).
  Proof. unfold TwoPLDefs.run. apply fold_left_app. Qed.

  Lemma upd_local_neq (f : tid -> Lst) t v t' : t' <> t -> upd_local f t v t' = f t'.
  Proof.
    intros H. unfold TwoPLDefs.upd_local.
    destruct (Nat.eqb_spec t' t); congruence.
  Qed.

  Lemma upd_store_neq (f : Loc -> Val) x v x' : Loc_eqb x' x = false -> upd_store f x v x' = f x'.
  Proof. intros H. unfold TwoPLDefs.upd_store. rewrite H. reflexivity. Qed.

  Lemma upd_local_comm (f : tid -> Lst) t v t' v' u : t <> t' ->
    upd_local (upd_local f t v) t' v' u = upd_local (upd_local f t' v') t v u.
  Proof.
    intros H. unfold TwoPLDefs.upd_local.
    destruct (Nat.eqb_spec u t'), (Nat.eqb_spec u t); congruence.
  Qed.

  Lemma Loc_eqb_false_sym x y : Loc_eqb x y = false -> Loc_eqb y x = false.
  Proof.
    intros H. destruct (Loc_eqb_spec y x) as [E|E]; auto.
    subst. destruct (Loc_eqb_spec x x); congruence.
  Qed.

  Lemma upd_store_comm (f : Loc -> Val) x v y w z : Loc_eqb x y = false ->
    upd_store (upd_store f x v) y w z = upd_store (upd_store f y w) x v z.
  Proof.
    intros H. unfold TwoPLDefs.upd_store.
    destruct (Loc_eqb_spec z y), (Loc_eqb_spec z x); try reflexivity.
    subst. destruct (Loc_eqb_spec x x); congruence.
  Qed.

  Lemma step_commute st t a t' a' : t <> t' -> conflict a a' = false ->
    state_eq (step (step st (t, a)) (t', a')) (step (step st (t', a')) (t, a)).
  Proof.
    intros Hne Hc. destruct st as [L S].
    destruct a as [m l|l| | |x f|x f]; destruct a' as [m' l'|l'| | |y g|y g]; simpl in *;
      try apply state_eq_refl.
    - (* Rd / Rd *)
      rewrite !upd_local_neq by congruence.
      split; simpl; intros u; auto. apply upd_local_comm; auto.
    - (* Rd / Wr *)
      rewrite !upd_local_neq by congruence.
      destruct (g (L t') (S y)) as [l2 v2]. simpl.
      rewrite !upd_local_neq by congruence.
      rewrite (upd_store_neq S y v2 x Hc).
      split; simpl; intros u; auto. apply upd_local_comm; auto.
    - (* Wr / Rd *)
      destruct (f (L t) (S x)) as [l1 v1] eqn:Ef. simpl.
      rewrite !upd_local_neq by congruence.
      rewrite (upd_store_neq S x v1 y (Loc_eqb_false_sym _ _ Hc)). rewrite Ef.
      split; simpl; intros u; auto. apply upd_local_comm; auto.
    - (* Wr / Wr *)
      destruct (f (L t) (S x)) as [l1 v1] eqn:Ef. simpl.
      rewrite !upd_local_neq by congruence.
      rewrite (upd_store_neq S x v1 y (Loc_eqb_false_sym _ _ Hc)).
      destruct (g (L t') (S y)) as [l2 v2] eqn:Eg. simpl.
      rewrite !upd_local_neq by congruence.
      rewrite (upd_store_neq S y v2 x Hc). rewrite Ef.
      split; simpl; intros u.
      + apply upd_local_comm; auto.
      + apply upd_store_comm; auto.
  Qed.

  (* ------------------------------------------------------------------ *)
  (* moving all events of one transaction to the front *)

  Definition rm (T : tid) (s : schedule) : schedule :=
    filter (fun e => negb (Nat.eqb (fst e) T)) s.

  Lemma run_swap_one (e : event) (m : schedule) : forall st,
    (forall x, In x m -> fst e <> fst x /\ conflict (snd e) (snd x) = false) ->
    state_eq (run (e :: m) st) (run (m ++ [e]) st).
  Proof.
    induction m as [|x m IH]; intros st H.
    - apply state_eq_refl.
    - simpl. eapply state_eq_trans.
      + apply run_state_eq. destruct e as [t a], x as [t' a'].
        destruct (H (t', a') (or_introl eq_refl)) as [H1 H2].
        apply step_commute; [exact H1 | exact H2].
      + apply (IH (step st x)). intros y Hy. apply H. right; auto.
  Qed.

  Lemma events_of_snoc T (l : schedule) u (a : act) :
    events_of T (l ++ [(u, a)]) =
    if Nat.eqb u T then events_of T l ++ [(u, a)] else events_of T l.
  Proof.
    unfold TwoPLDefs.events_of. rewrite filter_app. simpl.
    destruct (Nat.eqb u T); simpl; rewrite ?app_nil_r; reflexivity.
  Qed.

  Lemma rm_snoc T (l : schedule) u (a : act) :
    rm T (l ++ [(u, a)]) = if Nat.eqb u T then rm T l else rm T l ++ [(u, a)].
  Proof.
    unfold rm. rewrite filter_app. simpl.
    destruct (Nat.eqb u T); simpl; rewrite ?app_nil_r; reflexivity.
  Qed.

  Lemma run_single e st : run [e] st = step st e.
  Proof. reflexivity. Qed.

  Lemma move_front (T : tid) (l : schedule) :
    (forall l1 e' l2 e l3, l = l1 ++ e' :: l2 ++ e :: l3 ->
       fst e = T -> fst e' <> T -> conflict (snd e) (snd e') = false) ->
    forall st, state_eq (run l st) (run (events_of T l ++ rm T l) st).
  Proof.
    induction l as [|e l IH] using rev_ind; intros H st.
    - apply state_eq_refl.
    - assert (H' : forall l1 e' l2 e0 l3, l = l1 ++ e' :: l2 ++ e0 :: l3 ->
         fst e0 = T -> fst e' <> T -> conflict (snd e0) (snd e') = false).
      { intros l1 e' l2 e0 l3 E. apply (H l1 e' l2 e0 (l3 ++ [e])).
        rewrite E. rewrite <- app_assoc. simpl. rewrite <- app_assoc. reflexivity. }
      specialize (IH H').
      destruct e as [u a]. rewrite events_of_snoc, rm_snoc.
      rewrite run_app, run_single.
      destruct (Nat.eqb_spec u T) as [E|E].
      + eapply state_eq_trans. { apply step_state_eq. apply IH. }
        rewrite <- app_assoc. rewrite !run_app.
        apply state_eq_sym. rewrite <- run_single.
        rewrite <- (run_app (rm T l) [(u, a)]).
        apply (run_swap_one (u, a) (rm T l)).
        intros x Hx. unfold rm in Hx. apply filter_In in Hx. destruct Hx as [Hx Hf].
        assert (Hxt : fst x <> T).
        { destruct x as [t' a']. simpl in *.
          destruct (Nat.eqb_spec t' T); [discriminate|auto]. }
        split; [simpl; congruence|].
        apply in_split in Hx. destruct Hx as (l1 & l2 & ->).
        apply (H l1 x l2 (u, a) []); auto.
        rewrite <- app_assoc. reflexivity.
      + rewrite app_assoc, run_app, run_single.
        apply step_state_eq. apply IH.
  Qed.

  (* ------------------------------------------------------------------ *)
  (* held sets of one transaction *)

  Definition is_rel (a : act) : bool := match a with Rel _ => true | _ => false end.
  Definition is_acq (a : act) : bool := match a with Acq _ _ => true | _ => false end.

  Lemma held_norel tx : forall h : held, (forall a, In a tx -> is_rel a = false) ->
    incl h (fold_left held_step tx h).
  Proof.
    induction tx as [|a tx IH]; intros h H; simpl.
    - apply incl_refl.
    - eapply incl_tran; [|apply IH; intros b Hb; apply H; right; auto].
      pose proof (H a (or_introl eq_refl)) as Ha.
      destruct a; simpl in *; try apply incl_refl.
      + apply incl_tl, incl_refl.
      + discriminate.
  Qed.

  Lemma held_noacq tx : forall h : held, (forall a, In a tx -> is_acq a = false) ->
    incl (fold_left held_step tx h) h.
  Proof.
    induction tx as [|a tx IH]; intros h H; simpl.
    - apply incl_refl.
    - eapply incl_tran; [apply IH; intros b Hb; apply H; right; auto|].
      pose proof (H a (or_introl eq_refl)) as Ha.
      destruct a; simpl in *; try apply incl_refl.
      + discriminate.
      + intros p Hp. unfold TwoPLDefs.release in Hp. apply filter_In in Hp. tauto.
  Qed.

  Lemma holds_In (h : held) g : holds h g = true -> exists m, In (g, m) h.
  Proof.
    unfold TwoPLDefs.holds. intros H. apply existsb_exists in H.
    destruct H as ([l m] & Hin & Hl). simpl in Hl.
    destruct (Lk_eqb_spec l g); [subst|discriminate]. eauto.
  Qed.

  Lemma holds_w_In (h : held) g : holds_w h g = true -> In (g, W) h.
  Proof.
    unfold TwoPLDefs.holds_w. intros H. apply existsb_exists in H.
    destruct H as ([l m] & Hin & Hl). simpl in Hl.
    apply andb_true_iff in Hl. destruct Hl as [Hl Hm].
    destruct (Lk_eqb_spec l g); [subst|discriminate].
    destruct m; [discriminate|auto].
  Qed.

  (* ------------------------------------------------------------------ *)
  (* well-locked transactions *)

  Lemma wl_from_app tx1 : forall h c tx2, wl_from h c (tx1 ++ tx2) = true ->
    exists c', wl_from (fold_left held_step tx1 h) c' tx2 = true.
  Proof.
    induction tx1 as [|a tx1 IH]; intros h c tx2 H; simpl in *.
    - eauto.
    - destruct a; simpl in *; repeat (apply andb_true_iff in H; destruct H as [? H]);
        eapply IH; eauto.
  Qed.

  Lemma wl_true_tail tx : forall h, wl_from h true tx = true ->
    forall a, In a tx -> is_acq a = false /\ is_commit a = false.
  Proof.
    induction tx as [|b tx IH]; intros h H a Hin; simpl in *.
    - contradiction.
    - destruct b; simpl in *; repeat (apply andb_true_iff in H; destruct H as [? H]);
        try discriminate;
        (destruct Hin as [<-|Hin]; [simpl; auto | eapply IH; eauto]).
  Qed.

  Lemma wl_false_prefix_norel tx1 : forall h tx2, wl_from h false (tx1 ++ tx2) = true ->
    (forall a, In a tx1 -> is_commit a = false) ->
    forall a, In a tx1 -> is_rel a = false.
  Proof.
    induction tx1 as [|b tx1 IH]; intros h tx2 H Hc a Hin; simpl in *.
    - contradiction.
    - pose proof (Hc b (or_introl eq_refl)) as Hb.
      destruct b; simpl in *; repeat (apply andb_true_iff in H; destruct H as [? H]);
        try discriminate;
        (destruct Hin as [<-|Hin]; [simpl; auto | eapply IH; eauto]).
  Qed.

  Lemma wl_false_has_commit tx : forall h, wl_from h false tx = true -> In Commit tx.
  Proof.
    induction tx as [|b tx IH]; intros h H; simpl in *.
    - discriminate.
    - destruct b; simpl in *; repeat (apply andb_true_iff in H; destruct H as [? H]);
        try discriminate; try solve [right; eapply IH; eauto]; auto.
  Qed.

  (* ------------------------------------------------------------------ *)
  (* projections of schedules *)

  Lemma events_of_app t (a b : schedule) :
    events_of t (a ++ b) = events_of t a ++ events_of t b.
  Proof. apply filter_app. Qed.

  Lemma proj_app t (a b : schedule) : proj t (a ++ b) = proj t a ++ proj t b.
  Proof. unfold TwoPLDefs.proj. rewrite events_of_app, map_app. reflexivity. Qed.

  Lemma proj_cons t u (a : act) (s : schedule) :
    proj t ((u, a) :: s) = if Nat.eqb u t then a :: proj t s else proj t s.
  Proof.
    unfold TwoPLDefs.proj, TwoPLDefs.events_of. simpl.
    destruct (Nat.eqb u t); reflexivity.
  Qed.

  Lemma In_events_of t (e : event) (s : schedule) :
    In e (events_of t s) <-> In e s /\ fst e = t.
  Proof.
    unfold TwoPLDefs.events_of. rewrite filter_In. destruct e as [u a]. simpl.
    rewrite Nat.eqb_eq. tauto.
  Qed.

  Lemma In_proj t (a : act) (s : schedule) : In a (proj t s) <-> In (t, a) s.
  Proof.
    unfold TwoPLDefs.proj. rewrite in_map_iff. split.
    - intros ([u b] & E & Hin). apply In_events_of in Hin. simpl in *.
      destruct Hin as [Hin Hu]. subst. auto.
    - intros Hin. exists (t, a). split; auto. apply In_events_of. auto.
  Qed.

  Lemma In_tids_intro t (a : act) (s : schedule) : In (t, a) s -> In t (tids s).
  Proof. intros H. apply (in_map fst) in H. exact H. Qed.

  Lemma In_tids_elim t (s : schedule) : In t (tids s) -> exists a, In (t, a) s.
  Proof.
    unfold TwoPLDefs.tids. rewrite in_map_iff. intros ([u a] & E & H). simpl in E. subst. eauto.
  Qed.

  Lemma holding_app (q seg : schedule) t :
    holding (q ++ seg) t = fold_left held_step (proj t seg) (holding q t).
  Proof.
    unfold TwoPLDefs.holding, TwoPLDefs.held_after. rewrite proj_app, fold_left_app. reflexivity.
  Qed.

  Lemma holding_norel (q seg : schedule) t :
    (forall a, In (t, a) seg -> is_rel a = false) -> incl (holding q t) (holding (q ++ seg) t).
  Proof.
    intros H. rewrite holding_app. apply held_norel. intros a Ha. apply H. apply In_proj; auto.
  Qed.

  Lemma holding_noacq (q seg : schedule) t :
    (forall a, In (t, a) seg -> is_acq a = false) -> incl (holding (q ++ seg) t) (holding q t).
  Proof.
    intros H. rewrite holding_app. apply held_noacq. intros a Ha. apply H. apply In_proj; auto.
  Qed.

  Lemma holding_snoc (q : schedule) u (a : act) t :
    holding (q ++ [(u, a)]) t = if Nat.eqb u t then held_step (holding q t) a else holding q t.
  Proof. rewrite holding_app, proj_cons. destruct (Nat.eqb u t); reflexivity. Qed.

  Definition wlall (s : schedule) : Prop := forall t, In t (tids s) -> wl (proj t s) = true.

  Lemma data_holds (s q : schedule) t (a : act) r :
    s = q ++ (t, a) :: r -> wl (proj t s) = true ->
    match a with
    | Rd x _ => exists m, In (guard x, m) (holding q t)
    | Wr x _ => In (guard x, W) (holding q t)
    | _ => True
    end.
  Proof.
    intros -> H. rewrite proj_app, proj_cons, Nat.eqb_refl in H.
    unfold TwoPLDefs.wl in H. apply wl_from_app in H. destruct H as [c' H].
    fold (held_after (proj t q)) in H. fold (holding q t) in H.
    destruct a; auto; simpl in H; apply andb_true_iff in H; destruct H as [H _].
    - apply holds_In; auto.
    - apply holds_w_In; auto.
  Qed.

  (* ------------------------------------------------------------------ *)
  (* reader-writer exclusion holds at every prefix of a legal schedule *)

  Definition excl (q : schedule) : Prop :=
    forall t t' l m m', t <> t' ->
      In (l, m) (holding q t) -> In (l, m') (holding q t') -> m = R /\ m' = R.

  Lemma excl_step_aux (s q : schedule) u (a : act) r :
    legal s -> s = q ++ (u, a) :: r -> excl q ->
    forall t' l m m', u <> t' ->
      In (l, m) (holding (q ++ [(u, a)]) u) -> In (l, m') (holding (q ++ [(u, a)]) t') ->
      m = R /\ m' = R.
  Proof.
    intros Hl Hs Hq t' l m m' Hne H1 H2.
    rewrite holding_snoc in H1, H2. rewrite Nat.eqb_refl in H1.
    destruct (Nat.eqb_spec u t') as [E|_]; [congruence|].
    destruct a as [m0 l0|l0| | |x f|x f]; simpl in H1; try (eapply Hq; eauto; fail).
    - destruct H1 as [E|H1].
      + injection E as -> ->. eapply (Hl q u m l r Hs t' m'); auto.
      + eapply Hq; eauto.
    - unfold TwoPLDefs.release in H1. apply filter_In in H1. destruct H1 as [H1 _].
      eapply Hq; eauto.
  Qed.

  Lemma exclusion (s : schedule) : legal s -> forall q r, s = q ++ r -> excl q.
  Proof.
    intros Hl q. induction q as [|e q IH] using rev_ind; intros r Hs.
    - intros t t' l m m' _ H. simpl in H. contradiction.
    - rewrite <- app_assoc in Hs. simpl in Hs. specialize (IH _ Hs). destruct e as [u a].
      intros t t' l m m' Hne H1 H2.
      destruct (Nat.eq_dec u t) as [->|Nt].
      + apply (excl_step_aux s q t a r Hl Hs IH t' l m m' Hne H1 H2).
      + destruct (Nat.eq_dec u t') as [->|Nt'].
        * apply and_comm. apply (excl_step_aux s q t' a r Hl Hs IH t l m' m (not_eq_sym Hne) H2 H1).
        * rewrite holding_snoc in H1, H2.
          destruct (Nat.eqb_spec u t); [congruence|].
          destruct (Nat.eqb_spec u t'); [congruence|].
          apply (IH t t' l m m' Hne H1 H2).
  Qed.

  (* ------------------------------------------------------------------ *)
  (* the transaction with the first lock point: s = pre ++ (T, Commit) :: post *)

  Definition nocommit (l : schedule) : Prop := forall e, In e l -> is_commit (snd e) = false.

  Section First.
    Variables (s pre post : schedule) (T : tid).
    Hypothesis Hs : s = pre ++ (T, Commit) :: post.
    Hypothesis Hpre : nocommit pre.
    Hypothesis Hwl : wlall s.

    Lemma pre_norel t a : In (t, a) pre -> is_rel a = false.
    Proof.
      intros Hin.
      assert (Ht : In t (tids s)).
      { apply (In_tids_intro t a). rewrite Hs. apply in_or_app; auto. }
      pose proof (Hwl t Ht) as W. rewrite Hs, proj_app in W.
      apply (wl_false_prefix_norel _ _ _ W).
      - intros b Hb. apply In_proj in Hb. apply (Hpre _ Hb).
      - apply In_proj; auto.
    Qed.

    Lemma post_T a : In (T, a) post -> is_acq a = false /\ is_commit a = false.
    Proof.
      intros Hin.
      assert (Ht : In T (tids s)).
      { apply (In_tids_intro T Commit). rewrite Hs. apply in_or_app; right; left; auto. }
      pose proof (Hwl T Ht) as W. rewrite Hs, proj_app, proj_cons, Nat.eqb_refl in W.
      apply wl_from_app in W. destruct W as [c' W]. simpl in W.
      apply andb_true_iff in W. destruct W as [_ W].
      apply (wl_true_tail _ _ W). apply In_proj; auto.
    Qed.

    Lemma common_prefix l1 e' l2 e l3 :
      s = l1 ++ e' :: l2 ++ e :: l3 -> fst e = T -> fst e' <> T ->
      exists p r, s = p ++ r /\
        incl (holding (l1 ++ e' :: l2) T) (holding p T) /\
        incl (holding l1 (fst e')) (holding p (fst e')).
    Proof.
      intros E HT HnT. pose proof E as E0. rewrite Hs in E.
      destruct (app_cons_split3 _ pre l1 (T, Commit) e' post (l2 ++ e :: l3) E)
        as [(m & E1 & E2)|[(E1 & E2 & E3)|(m & E1 & E2)]].
      - (* Commit before e' *)
        exists l1, (e' :: l2 ++ e :: l3). split; [exact E0|]. split; [|apply incl_refl].
        apply holding_noacq. intros a Ha. apply post_T. rewrite E2.
        apply in_or_app; right. destruct Ha as [<-|Ha]; [left; reflexivity|].
        right. apply in_or_app; left; exact Ha.
      - subst e'. simpl in HnT. congruence.
      - (* e' before Commit *)
        exists pre, ((T, Commit) :: post). split; [exact Hs|]. split.
        + destruct (app_cons_split3 _ l2 m e (T, Commit) l3 post E2)
            as [(m' & F1 & F2)|[(F1 & F2 & F3)|(m' & F1 & F2)]].
          * rewrite E1, F1.
            replace (l1 ++ e' :: l2 ++ e :: m') with ((l1 ++ e' :: l2) ++ e :: m')
              by (rewrite <- app_assoc; reflexivity).
            apply holding_norel. intros a Ha. apply (pre_norel T a). rewrite E1, F1.
            apply in_or_app; right; right. apply in_or_app; right; exact Ha.
          * rewrite E1, F1. apply incl_refl.
          * assert (Q : l1 ++ e' :: l2 = pre ++ (T, Commit) :: m').
            { rewrite F1, E1, <- app_assoc. reflexivity. }
            rewrite Q. apply holding_noacq. intros a [Ha|Ha].
            -- injection Ha as <-. reflexivity.
            -- apply post_T. rewrite F2. apply in_or_app; left; exact Ha.
        + rewrite E1. apply holding_norel. intros a Ha. apply (pre_norel (fst e') a).
          rewrite E1. apply in_or_app; right. exact Ha.
    Qed.

    Lemma key_noconflict l1 e' l2 e l3 :
      legal s -> s = l1 ++ e' :: l2 ++ e :: l3 -> fst e = T -> fst e' <> T ->
      conflict (snd e) (snd e') = false.
    Proof.
      intros Hl E HT HnT. destruct (conflict (snd e) (snd e')) eqn:C; auto. exfalso.
      destruct (common_prefix l1 e' l2 e l3 E HT HnT) as (p & r & Ep & I1 & I2).
      pose proof (exclusion s Hl p r Ep) as X.
      destruct e as [t a], e' as [t' a']. simpl in *. subst t.
      assert (E' : s = (l1 ++ (t', a') :: l2) ++ (T, a) :: l3).
      { rewrite <- app_assoc. exact E. }
      assert (W1 : wl (proj T s) = true).
      { apply Hwl. apply (In_tids_intro T a). rewrite E'. apply in_or_app; right; left; auto. }
      assert (W2 : wl (proj t' s) = true).
      { apply Hwl. apply (In_tids_intro t' a'). rewrite E. apply in_or_app; right; left; auto. }
      pose proof (data_holds s _ T a l3 E' W1) as D1.
      pose proof (data_holds s l1 t' a' _ E W2) as D2.
      assert (Hne : T <> t') by congruence.
      destruct a as [m0 l0|l0| | |x f|x f]; destruct a' as [m0' l0'|l0'| | |y g|y g];
        simpl in C; try discriminate;
        (destruct (Loc_eqb_spec x y) as [<-|]; [|discriminate]).
      - destruct D1 as [m D1]. apply I1 in D1. apply I2 in D2.
        destruct (X T t' _ _ _ Hne D1 D2) as [_ F]. discriminate.
      - destruct D2 as [m D2]. apply I1 in D1. apply I2 in D2.
        destruct (X T t' _ _ _ Hne D1 D2) as [F _]. discriminate.
      - apply I1 in D1. apply I2 in D2.
        destruct (X T t' _ _ _ Hne D1 D2) as [F _]. discriminate.
    Qed.

  End First.

  (* ------------------------------------------------------------------ *)
  (* removing one transaction from a schedule *)

  Lemma rm_app T (a b : schedule) : rm T (a ++ b) = rm T a ++ rm T b.
  Proof. apply filter_app. Qed.

  Lemma rm_cons T u (a : act) (s : schedule) :
    rm T ((u, a) :: s) = if Nat.eqb u T then rm T s else (u, a) :: rm T s.
  Proof. unfold rm. simpl. destruct (Nat.eqb u T); reflexivity. Qed.

  Lemma events_of_cons t u (a : act) (s : schedule) :
    events_of t ((u, a) :: s) = if Nat.eqb u t then (u, a) :: events_of t s else events_of t s.
  Proof. unfold TwoPLDefs.events_of. simpl. destruct (Nat.eqb u t); reflexivity. Qed.

  Lemma In_rm T (e : event) (s : schedule) : In e (rm T s) <-> In e s /\ fst e <> T.
  Proof.
    unfold rm. rewrite filter_In. destruct e as [u a]. simpl.
    destruct (Nat.eqb_spec u T); simpl; intuition congruence.
  Qed.

  Lemma events_of_rm t T (s : schedule) :
    events_of t (rm T s) = if Nat.eqb t T then [] else events_of t s.
  Proof.
    induction s as [|[u a] s IH].
    - simpl. destruct (Nat.eqb t T); reflexivity.
    - rewrite rm_cons, events_of_cons.
      destruct (Nat.eqb_spec u T) as [->|N].
      + rewrite IH. destruct (Nat.eqb_spec t T) as [->|N'].
        * reflexivity.
        * destruct (Nat.eqb_spec T t); [congruence|reflexivity].
      + rewrite events_of_cons, IH.
        destruct (Nat.eqb_spec u t) as [->|N2]; [|reflexivity].
        destruct (Nat.eqb_spec t T); [congruence|reflexivity].
  Qed.

  Lemma events_of_events_of t T (s : schedule) :
    events_of t (events_of T s) = if Nat.eqb t T then events_of T s else [].
  Proof.
    induction s as [|[u a] s IH].
    - simpl. destruct (Nat.eqb t T); reflexivity.
    - rewrite events_of_cons.
      destruct (Nat.eqb_spec u T) as [->|N].
      + rewrite events_of_cons, IH. destruct (Nat.eqb_spec T t) as [<-|N'].
        * rewrite Nat.eqb_refl. reflexivity.
        * destruct (Nat.eqb_spec t T); [congruence|reflexivity].
      + exact IH.
  Qed.

  Lemma proj_rm_same T (s : schedule) : proj T (rm T s) = [].
  Proof. unfold TwoPLDefs.proj. rewrite events_of_rm, Nat.eqb_refl. reflexivity. Qed.

  Lemma proj_rm_other t T (s : schedule) : t <> T -> proj t (rm T s) = proj t s.
  Proof.
    intros H. unfold TwoPLDefs.proj. rewrite events_of_rm.
    destruct (Nat.eqb_spec t T); [congruence|reflexivity].
  Qed.

  Lemma In_tids_rm t T (s : schedule) : In t (tids (rm T s)) -> In t (tids s) /\ t <> T.
  Proof.
    intros H. apply In_tids_elim in H. destruct H as [a H]. apply In_rm in H.
    destruct H as [H1 H2]. simpl in H2. split; auto. apply (In_tids_intro t a); auto.
  Qed.

  Lemma rm_length_lt T (a : act) (s : schedule) : In (T, a) s -> length (rm T s) < length s.
  Proof.
    intros H. unfold rm. apply (filter_length_lt _ _ s (T, a) H).
    simpl. rewrite Nat.eqb_refl. reflexivity.
  Qed.

  Lemma wlall_rm T (s : schedule) : wlall s -> wlall (rm T s).
  Proof.
    intros H t Ht. apply In_tids_rm in Ht. destruct Ht as [Ht N].
    rewrite proj_rm_other; auto.
  Qed.

  Lemma legal_rm T (s : schedule) : legal s -> legal (rm T s).
  Proof.
    intros Hl pre t m l post E t' m' Hne Hin.
    unfold rm in E. apply filter_split in E. destruct E as (a0 & b0 & E & Fa & Fb).
    change (rm T a0 = pre) in Fa. rewrite <- Fa in Hin. unfold TwoPLDefs.holding in Hin.
    destruct (Nat.eq_dec t' T) as [->|N].
    - rewrite proj_rm_same in Hin. simpl in Hin. contradiction.
    - rewrite proj_rm_other in Hin by auto.
      apply (Hl a0 t m l b0 E t' m' Hne Hin).
  Qed.

  (* ------------------------------------------------------------------ *)
  (* commit order *)

  Lemma commit_order_app (a b : schedule) :
    commit_order (a ++ b) = commit_order a ++ commit_order b.
  Proof. unfold TwoPLDefs.commit_order. rewrite filter_app, map_app. reflexivity. Qed.

  Lemma commit_order_cons u (a : act) (s : schedule) :
    commit_order ((u, a) :: s) = if is_commit a then u :: commit_order s else commit_order s.
  Proof. unfold TwoPLDefs.commit_order. simpl. destruct (is_commit a); reflexivity. Qed.

  Lemma commit_order_nocommit (l : schedule) : nocommit l -> commit_order l = [].
  Proof.
    induction l as [|[u a] l IH]; intros H; auto.
    rewrite commit_order_cons.
    pose proof (H (u, a) (or_introl eq_refl)) as Ha. simpl in Ha. rewrite Ha.
    apply IH. intros e He. apply H. right; auto.
  Qed.

  Lemma In_commit_order t (s : schedule) : In t (commit_order s) <-> In (t, Commit) s.
  Proof.
    unfold TwoPLDefs.commit_order. rewrite in_map_iff. split.
    - intros ([u a] & E & H). apply filter_In in H. simpl in *. destruct H as [H C].
      subst u. destruct a; try discriminate. exact H.
    - intros H. exists (t, Commit). split; auto. apply filter_In. split; auto.
  Qed.

  Lemma commit_order_tids t (s : schedule) : In t (commit_order s) -> In t (tids s).
  Proof. intros H. apply In_commit_order in H. apply (In_tids_intro t Commit); auto. Qed.

  Lemma commit_order_rm T (l : schedule) :
    (forall a, In (T, a) l -> is_commit a = false) -> commit_order (rm T l) = commit_order l.
  Proof.
    induction l as [|[u a] l IH]; intros H; auto.
    rewrite rm_cons, commit_order_cons.
    assert (IH' : commit_order (rm T l) = commit_order l).
    { apply IH. intros b Hb. apply H. right; auto. }
    destruct (Nat.eqb_spec u T) as [->|N].
    - rewrite (H a (or_introl eq_refl)). exact IH'.
    - rewrite commit_order_cons, IH'. reflexivity.
  Qed.

  Lemma first_commit (s : schedule) :
    nocommit s \/ exists pre T post, s = pre ++ (T, Commit) :: post /\ nocommit pre.
  Proof.
    induction s as [|[u a] s IH].
    - left. intros e [].
    - destruct (is_commit a) eqn:C.
      + right. exists [], u, s. destruct a; try discriminate. split; auto. intros e [].
      + destruct IH as [IH|(pre & T & post & -> & Hp)].
        * left. intros e [<-|H]; auto.
        * right. exists ((u, a) :: pre), T, post. split; auto. intros e [<-|H]; auto.
  Qed.

  Lemma nocommit_nil (s : schedule) : wlall s -> nocommit s -> s = [].
  Proof.
    destruct s as [|[u a] s]; auto. intros Hw N. exfalso.
    assert (Hu : In u (tids ((u, a) :: s))) by (left; reflexivity).
    specialize (Hw u Hu). apply wl_false_has_commit in Hw. apply In_proj in Hw.
    specialize (N _ Hw). discriminate.
  Qed.

  Lemma commit_order_peel (s pre post : schedule) T :
    s = pre ++ (T, Commit) :: post -> nocommit pre -> wlall s ->
    commit_order s = T :: commit_order (rm T s).
  Proof.
    intros Hs Hpre Hw.
    assert (Hpost : forall a, In (T, a) post -> is_commit a = false).
    { intros a Ha. apply (post_T s pre post T Hs Hw a Ha). }
    rewrite Hs, rm_app, rm_cons, Nat.eqb_refl, !commit_order_app, commit_order_cons. simpl.
    rewrite (commit_order_nocommit pre Hpre).
    rewrite (commit_order_nocommit (rm T pre)).
    - rewrite (commit_order_rm T post Hpost). reflexivity.
    - intros e He. apply In_rm in He. apply Hpre. tauto.
  Qed.

  (* peel-off induction: remove the transaction with the first lock point *)
  Lemma peel_ind (P : schedule -> Prop) :
    P [] ->
    (forall s pre T post, s = pre ++ (T, Commit) :: post -> nocommit pre -> wlall s ->
       wlall (rm T s) -> commit_order s = T :: commit_order (rm T s) -> P (rm T s) -> P s) ->
    forall s, wlall s -> P s.
  Proof.
    intros P0 PS.
    assert (G : forall n (s : schedule), length s <= n -> wlall s -> P s).
    { induction n as [|n IH]; intros s Hn Hw.
      - destruct s; [exact P0|simpl in Hn; lia].
      - destruct (first_commit s) as [N|(pre & T & post & Hs & Hpre)].
        + rewrite (nocommit_nil s Hw N). exact P0.
        + apply (PS s pre T post Hs Hpre Hw (wlall_rm T s Hw)
                   (commit_order_peel s pre post T Hs Hpre Hw)).
          apply IH; [|apply wlall_rm; exact Hw].
          assert (L : length (rm T s) < length s).
          { apply (rm_length_lt T Commit). rewrite Hs. apply in_or_app; right; left; auto. }
          lia. }
    intros s. apply (G (length s)). lia.
  Qed.

  Lemma flat_map_ext_In (A B : Type) (f g : A -> list B) (l : list A) :
    (forall a, In a l -> f a = g a) -> flat_map f l = flat_map g l.
  Proof.
    induction l as [|x l IH]; intros H; simpl; auto.
    rewrite (H x (or_introl eq_refl)), IH; auto. intros a Ha. apply H. right; auto.
  Qed.

  Lemma serial_peel (s : schedule) T :
    commit_order s = T :: commit_order (rm T s) ->
    serial s = events_of T s ++ serial (rm T s).
  Proof.
    intros H. unfold TwoPLDefs.serial. rewrite H. simpl. f_equal.
    apply flat_map_ext_In. intros t Ht.
    apply commit_order_tids, In_tids_rm in Ht. destruct Ht as [_ N].
    rewrite events_of_rm. destruct (Nat.eqb_spec t T); [congruence|reflexivity].
  Qed.

  (* ------------------------------------------------------------------ *)
  (* main theorems *)

  Theorem twopl_serializable (s : schedule) :
    legal s -> (forall t, In t (tids s) -> wl (proj t s) = true) ->
    forall st, state_eq (run (serial s) st) (run s st).
  Proof.
    intros Hl Hw. revert Hl. fold (wlall s) in Hw. revert s Hw.
    apply (peel_ind (fun s => legal s -> forall st, state_eq (run (serial s) st) (run s st))).
    - intros _ st. apply state_eq_refl.
    - intros s pre T post Hs Hpre Hw Hw' Hco IH Hl st.
      rewrite (serial_peel s T Hco), run_app.
      eapply state_eq_trans.
      + apply IH. apply legal_rm. exact Hl.
      + rewrite <- run_app. apply state_eq_sym. apply move_front.
        intros l1 e' l2 e l3 E. apply (key_noconflict s pre post T Hs Hpre Hw l1 e' l2 e l3 Hl E).
  Qed.

  Theorem commit_order_complete (s : schedule) :
    (forall t, In t (tids s) -> wl (proj t s) = true) ->
    NoDup (commit_order s) /\ (forall t, In t (commit_order s) <-> In t (tids s)).
  Proof.
    intros Hw. split.
    - fold (wlall s) in Hw. revert s Hw.
      apply (peel_ind (fun s => NoDup (commit_order s))).
      + constructor.
      + intros s pre T post Hs Hpre Hw Hw' Hco IH. rewrite Hco. constructor; auto.
        intros C. apply commit_order_tids, In_tids_rm in C. destruct C as [_ C]. congruence.
    - intros t. split.
      + apply commit_order_tids.
      + intros Ht. apply In_commit_order. apply In_proj.
        apply (wl_false_has_commit _ []). apply Hw. exact Ht.
  Qed.

  Theorem commit_order_realtime (s : schedule) t t' :
    (forall t, In t (tids s) -> wl (proj t s) = true) ->
    precedes s t t' -> TwoPLDefs.before (commit_order s) t t'.
  Proof.
    intros Hw (Ht & Ht' & s1 & s2 & Hs & N1 & N2).
    assert (C : forall u, In u (tids s) -> In (u, Commit) s).
    { intros u Hu. apply In_proj. apply (wl_false_has_commit _ []). apply Hw. exact Hu. }
    pose proof (C t Ht) as C1. pose proof (C t' Ht') as C2.
    rewrite Hs in C1, C2. apply in_app_or in C1. apply in_app_or in C2.
    destruct C1 as [C1|C1]; [|exfalso; apply N2; apply (In_tids_intro t Commit); exact C1].
    destruct C2 as [C2|C2]; [exfalso; apply N1; apply (In_tids_intro t' Commit); exact C2|].
    apply In_commit_order in C1. apply In_commit_order in C2.
    apply in_split in C1. apply in_split in C2.
    destruct C1 as (a1 & a2 & E1). destruct C2 as (b1 & b2 & E2).
    exists a1, (a2 ++ b1), b2.
    rewrite Hs, commit_order_app, E1, E2. rewrite <- !app_assoc. simpl.
    reflexivity.
  Qed.

  Theorem serial_permutation (s : schedule) :
    (forall t, In t (tids s) -> wl (proj t s) = true) -> Permutation s (serial s).
  Proof.
    intros Hw. fold (wlall s) in Hw. revert s Hw.
    apply (peel_ind (fun s => Permutation s (serial s))).
    - constructor.
    - intros s pre T post Hs Hpre Hw Hw' Hco IH.
      rewrite (serial_peel s T Hco).
      eapply Permutation_trans.
      + apply (filter_partition_perm _ (fun e : event => Nat.eqb (fst e) T) s).
      + apply Permutation_app_head. exact IH.
  Qed.

  Theorem serial_events_of (s : schedule) :
    (forall t, In t (tids s) -> wl (proj t s) = true) ->
    forall t, events_of t (serial s) = events_of t s.
  Proof.
    intros Hw. fold (wlall s) in Hw. revert s Hw.
    apply (peel_ind (fun s => forall t, events_of t (serial s) = events_of t s)).
    - reflexivity.
    - intros s pre T post Hs Hpre Hw Hw' Hco IH t.
      rewrite (serial_peel s T Hco), events_of_app, IH, events_of_events_of, events_of_rm.
      destruct (Nat.eqb_spec t T) as [->|N].
      + apply app_nil_r.
      + reflexivity.
  Qed.

  Theorem serial_proj (s : schedule) :
    (forall t, In t (tids s) -> wl (proj t s) = true) ->
    forall t, proj t (serial s) = proj t s.
  Proof.
    intros Hw t. unfold TwoPLDefs.proj. rewrite (serial_events_of s Hw t). reflexivity.
  Qed.

End TwoPL.

Check twopl_serializable.
Check commit_order_complete.
Check commit_order_realtime.
Check serial_permutation.
Check serial_events_of.
Check serial_proj.
Print Assumptions twopl_serializable.
Print Assumptions commit_order_complete.
Print Assumptions commit_order_realtime.
Print Assumptions serial_permutation.
Print Assumptions serial_events_of.
Print Assumptions serial_proj.
