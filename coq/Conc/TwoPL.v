(* Two-phase locking implies conflict-serializability in lock-point order.

   PART 1 : list / semantics / per-transaction lemmas (work in progress header, replaced below) *)
Require Import List Arith Bool Lia Permutation.
Import ListNotations.
Require Import Conc.TwoPLDefs.

Section TwoPL.
  Variables Loc Lk Val Lst : Type.
  Variable Loc_eqb : Loc -> Loc -> bool.
  Variable Lk_eqb : Lk -> Lk -> bool.
  Hypothesis Loc_eqb_spec : forall a b, reflect (a = b) (Loc_eqb a b).
  Hypothesis Lk_eqb_spec : forall a b, reflect (a = b) (Lk_eqb a b).
  Variable guard : Loc -> Lk.

  Local Notation act := (TwoPLDefs.act Loc Lk Val Lst).
  Local Notation event := (TwoPLDefs.event Loc Lk Val Lst).
  Local Notation schedule := (TwoPLDefs.schedule Loc Lk Val Lst).
  Local Notation state := (TwoPLDefs.state Loc Val Lst).
  Local Notation locals := (TwoPLDefs.locals Loc Val Lst).
  Local Notation store := (TwoPLDefs.store Loc Val Lst).
  Local Notation upd_local := (TwoPLDefs.upd_local Lst).
  Local Notation upd_store := (TwoPLDefs.upd_store Loc Val Loc_eqb).
  Local Notation step := (TwoPLDefs.step Loc Lk Val Lst Loc_eqb).
  Local Notation run := (TwoPLDefs.run Loc Lk Val Lst Loc_eqb).
  Local Notation state_eq := (TwoPLDefs.state_eq Loc Val Lst).
  Local Notation held := (TwoPLDefs.held Lk).
  Local Notation holds := (TwoPLDefs.holds Lk Lk_eqb).
  Local Notation holds_w := (TwoPLDefs.holds_w Lk Lk_eqb).
  Local Notation release := (TwoPLDefs.release Lk Lk_eqb).
  Local Notation held_step := (TwoPLDefs.held_step Loc Lk Val Lst Lk_eqb).
  Local Notation held_after := (TwoPLDefs.held_after Loc Lk Val Lst Lk_eqb).
  Local Notation wl_from := (TwoPLDefs.wl_from Loc Lk Val Lst Lk_eqb guard).
  Local Notation wl := (TwoPLDefs.wl Loc Lk Val Lst Lk_eqb guard).
  Local Notation events_of := (TwoPLDefs.events_of Loc Lk Val Lst).
  Local Notation proj := (TwoPLDefs.proj Loc Lk Val Lst).
  Local Notation tids := (TwoPLDefs.tids Loc Lk Val Lst).
  Local Notation holding := (TwoPLDefs.holding Loc Lk Val Lst Lk_eqb).
  Local Notation legal := (TwoPLDefs.legal Loc Lk Val Lst Lk_eqb).
  Local Notation is_commit := (TwoPLDefs.is_commit Loc Lk Val Lst).
  Local Notation commit_order := (TwoPLDefs.commit_order Loc Lk Val Lst).
  Local Notation serial := (TwoPLDefs.serial Loc Lk Val Lst).
  Local Notation precedes := (TwoPLDefs.precedes Loc Lk Val Lst).
  Local Notation conflict := (TwoPLDefs.conflict Loc Lk Val Lst Loc_eqb).

  (* ------------------------------------------------------------------ *)
  (* generic list lemmas *)

  Lemma app_cons_split3 (A : Type) (a : list A) : forall (c : list A) x y b d,
    a ++ x :: b = c ++ y :: d ->
    (exists m, c = a ++ x :: m /\ b = m ++ y :: d) \/
    (a = c /\ x = y /\ b = d) \/
    (exists m, a = c ++ y :: m /\ d = m ++ x :: b).
  Proof.
    induction a as [|a0 a IH]; intros [|c0 c] x y b d H; simpl in H.
    - injection H as -> ->. right; left; auto.
    - injection H as -> ->. left. exists c. auto.
    - injection H as -> <-. right; right. exists a; auto.
    - injection H as -> H.
      destruct (IH c x y b d H) as [[m [-> ->]]|[[-> [-> ->]]|[m [-> ->]]]].
      + left; exists m; auto.
      + right; left; auto.
      + right; right; exists m; auto.
  Qed.

  Lemma filter_split (A : Type) (f : A -> bool) (l : list A) : forall a e b,
    filter f l = a ++ e :: b ->
    exists a0 b0, l = a0 ++ e :: b0 /\ filter f a0 = a /\ filter f b0 = b.
  Proof.
    induction l as [|x l IH]; intros a e b H; simpl in H.
    - destruct a; discriminate.
    - destruct (f x) eqn:Fx.
      + destruct a as [|a1 a]; simpl in H; injection H as -> H.
        * exists [], l. simpl. auto.
        * destruct (IH a e b H) as (a0 & b0 & -> & <- & <-).
          exists (a1 :: a0), b0. simpl. rewrite Fx. auto.
      + destruct (IH a e b H) as (a0 & b0 & -> & <- & <-).
        exists (x :: a0), b0. simpl. rewrite Fx. auto.
  Qed.

  Lemma filter_length_lt (A : Type) (f : A -> bool) (l : list A) x :
    In x l -> f x = false -> length (filter f l) < length l.
  Proof.
    induction l as [|y l IH]; intros Hin Hf; simpl in *.
    - contradiction.
    - assert (Hle : forall l0 : list A, length (filter f l0) <= length l0).
      { induction l0 as [|z l0 IHl]; simpl; auto. destruct (f z); simpl; lia. }
      destruct Hin as [->|Hin].
      + rewrite Hf. specialize (Hle l). lia.
      + specialize (IH Hin Hf). destruct (f y); simpl; lia.
  Qed.

  Lemma filter_partition_perm (A : Type) (f : A -> bool) (l : list A) :
    Permutation l (filter f l ++ filter (fun x => negb (f x)) l).
  Proof.
    induction l as [|x l IH]; simpl; auto.
    destruct (f x); simpl.
    - constructor; auto.
    - apply Permutation_cons_app; auto.
  Qed.

  (* ------------------------------------------------------------------ *)
  (* semantics: state_eq is an equivalence respected by step / run *)

  Lemma state_eq_refl a : state_eq a a.
  Proof. split; reflexivity. Qed.

  Lemma state_eq_sym a b : state_eq a b -> state_eq b a.
  Proof. intros [H1 H2]; split; intros; symmetry; auto. Qed.

  Lemma state_eq_trans a b c : state_eq a b -> state_eq b c -> state_eq a c.
  Proof.
    intros [H1 H2] [H3 H4]; split; intros.
    - rewrite H1; auto.
    - rewrite H2; auto.
  Qed.

  Lemma step_state_eq a b e : state_eq a b -> state_eq (step a e) (step b e).
  Proof.
    intros [HL HS]. destruct e as [t [m l|l| | |x f|x f]]; simpl; try (split; assumption).
    - split; simpl; auto. intros t'. unfold TwoPLDefs.upd_local. rewrite !HL, HS. reflexivity.
    - rewrite HL, HS. destruct (f (locals b t) (store b x)) as [l' v'].
      split; simpl; intros z.
      + unfold TwoPLDefs.upd_local. rewrite HL. reflexivity.
      + unfold TwoPLDefs.upd_store. rewrite HS. reflexivity.
  Qed.

  Lemma run_state_eq l : forall a b, state_eq a b -> state_eq (run l a) (run l b).
  Proof.
    induction l as [|e l IH]; intros a b H; simpl; auto.
    apply IH. apply step_state_eq; auto.
  Qed.

  Lemma run_app l1 l2 st : run (l1 ++ l2) st = run l2 (run l1 st).
  Proof. unfold TwoPLDefs.run. apply fold_left_app. Qed.

  Lemma upd_local_neq (f : tid -> Lst) t v t' : t' <> t -> upd_local f t v t' = f t'.
  Proof.
    intros H. unfold TwoPLDefs.upd_local.
    destruct (Nat.eqb_spec t' t); congruence.
  Qed.

  Lemma upd_store_neq (f : Loc -> Val) x v x' : Loc_eqb x' x = false -> upd_store f x v x' = f x'.
  Proof. intros H. unfold TwoPLDefs.upd_store. rewrite H. reflexivity. Qed.

  Lemma upd_local_comm (f : tid -> Lst) t v t' v' u : t <> t' ->
    upd_local (upd_local f t v) t' v' u = upd_local (upd_local f t' v') t v u.
  Proof.
    intros H. unfold TwoPLDefs.upd_local.
    destruct (Nat.eqb_spec u t'), (Nat.eqb_spec u t); congruence.
  Qed.

  Lemma Loc_eqb_false_sym x y : Loc_eqb x y = false -> Loc_eqb y x = false.
  Proof.
    intros H. destruct (Loc_eqb_spec y x) as [E|E]; auto.
    subst. destruct (Loc_eqb_spec x x); congruence.
  Qed.

  Lemma upd_store_comm (f : Loc -> Val) x v y w z : Loc_eqb x y = false ->
    upd_store (upd_store f x v) y w z = upd_store (upd_store f y w) x v z.
  Proof.
    intros H. unfold TwoPLDefs.upd_store.
    destruct (Loc_eqb_spec z y), (Loc_eqb_spec z x); try reflexivity.
    subst. destruct (Loc_eqb_spec x x); congruence.
  Qed.

  Lemma step_commute st t a t' a' : t <> t' -> conflict a a' = false ->
    state_eq (step (step st (t, a)) (t', a')) (step (step st (t', a')) (t, a)).
  Proof.
    intros Hne Hc. destruct st as [L S].
    destruct a as [m l|l| | |x f|x f]; destruct a' as [m' l'|l'| | |y g|y g]; simpl in *;
      try apply state_eq_refl.
    - (* Rd / Rd *)
      rewrite !upd_local_neq by congruence.
      split; simpl; intros u; auto. apply upd_local_comm; auto.
    - (* Rd / Wr *)
      rewrite !upd_local_neq by congruence.
      destruct (g (L t') (S y)) as [l2 v2]. simpl.
      rewrite !upd_local_neq by congruence.
      rewrite (upd_store_neq S y v2 x Hc).
      split; simpl; intros u; auto. apply upd_local_comm; auto.
    - (* Wr / Rd *)
      destruct (f (L t) (S x)) as [l1 v1] eqn:Ef. simpl.
      rewrite !upd_local_neq by congruence.
      rewrite (upd_store_neq S x v1 y (Loc_eqb_false_sym _ _ Hc)). rewrite Ef.
      split; simpl; intros u; auto. apply upd_local_comm; auto.
    - (* Wr / Wr *)
      destruct (f (L t) (S x)) as [l1 v1] eqn:Ef. simpl.
      rewrite !upd_local_neq by congruence.
      rewrite (upd_store_neq S x v1 y (Loc_eqb_false_sym _ _ Hc)).
      destruct (g (L t') (S y)) as [l2 v2] eqn:Eg. simpl.
      rewrite !upd_local_neq by congruence.
      rewrite (upd_store_neq S y v2 x Hc). rewrite Ef.
      split; simpl; intros u.
      + apply upd_local_comm; auto.
      + apply upd_store_comm; auto.
  Qed.

  (* ------------------------------------------------------------------ *)
  (* moving all events of one transaction to the front *)

  Definition rm (T : tid) (s : schedule) : schedule :=
    filter (fun e => negb (Nat.eqb (fst e) T)) s.

  Lemma run_swap_one (e : event) (m : schedule) : forall st,
    (forall x, In x m -> fst e <> fst x /\ conflict (snd e) (snd x) = false) ->
    state_eq (run (e :: m) st) (run (m ++ [e]) st).
  Proof.
    induction m as [|x m IH]; intros st H.
    - apply state_eq_refl.
    - simpl. eapply state_eq_trans.
      + apply run_state_eq. destruct e as [t a], x as [t' a'].
        destruct (H (t', a') (or_introl eq_refl)) as [H1 H2].
        apply step_commute; [exact H1 | exact H2].
      + apply (IH (step st x)). intros y Hy. apply H. right; auto.
  Qed.

  Lemma move_front (T : tid) (l : schedule) :
    (forall l1 e' l2 e l3, l = l1 ++ e' :: l2 ++ e :: l3 ->
       fst e = T -> fst e' <> T -> conflict (snd e) (snd e') = false) ->
    forall st, state_eq (run l st) (run (events_of T l ++ rm T l) st).
  Proof.
    induction l as [|e l IH] using rev_ind; intros H st.
    - apply state_eq_refl.
    - assert (H' : forall l1 e' l2 e0 l3, l = l1 ++ e' :: l2 ++ e0 :: l3 ->
         fst e0 = T -> fst e' <> T -> conflict (snd e0) (snd e') = false).
      { intros l1 e' l2 e0 l3 E. apply (H l1 e' l2 e0 (l3 ++ [e])).
        rewrite E. rewrite <- app_assoc. simpl. rewrite <- app_assoc. reflexivity. }
      specialize (IH H').
      unfold TwoPLDefs.events_of, rm. rewrite !filter_app. simpl.
      fold (events_of T l). fold (rm T l).
      rewrite run_app. simpl.
      destruct (Nat.eqb_spec (fst e) T) as [E|E]; simpl.
      + Show. rewrite app_nil_r.
        eapply state_eq_trans. { apply step_state_eq. apply IH. }
        rewrite <- app_assoc. rewrite !run_app.
        apply state_eq_sym.
        change (step (run (rm T l) (run (events_of T l) st)) e)
          with (run [e] (run (rm T l) (run (events_of T l) st))).
        rewrite <- run_app.
        apply run_swap_one.
        intros x Hx. unfold rm in Hx. apply filter_In in Hx. destruct Hx as [Hx Hf].
        assert (Hxt : fst x <> T).
        { intro C. rewrite C, Nat.eqb_refl in Hf. discriminate. }
        split; [congruence|].
        apply in_split in Hx. destruct Hx as (l1 & l2 & ->).
        apply (H l1 x l2 e []); auto.
        rewrite <- app_assoc. reflexivity.
      + rewrite app_nil_r. rewrite app_assoc, run_app. simpl.
        apply step_state_eq. apply IH.
  Qed.

  (* ------------------------------------------------------------------ *)
  (* held sets of one transaction *)

  Definition is_rel (a : act) : bool := match a with Rel _ => true | _ => false end.
  Definition is_acq (a : act) : bool := match a with Acq _ _ => true | _ => false end.

  Lemma held_norel tx : forall h : held, (forall a, In a tx -> is_rel a = false) ->
    incl h (fold_left held_step tx h).
  Proof.
    induction tx as [|a tx IH]; intros h H; simpl.
    - apply incl_refl.
    - eapply incl_tran; [|apply IH; intros b Hb; apply H; right; auto].
      pose proof (H a (or_introl eq_refl)) as Ha.
      destruct a; simpl in *; try apply incl_refl.
      + apply incl_tl, incl_refl.
      + discriminate.
  Qed.

  Lemma held_noacq tx : forall h : held, (forall a, In a tx -> is_acq a = false) ->
    incl (fold_left held_step tx h) h.
  Proof.
    induction tx as [|a tx IH]; intros h H; simpl.
    - apply incl_refl.
    - eapply incl_tran; [apply IH; intros b Hb; apply H; right; auto|].
      pose proof (H a (or_introl eq_refl)) as Ha.
      destruct a; simpl in *; try apply incl_refl.
      + discriminate.
      + intros p Hp. unfold TwoPLDefs.release in Hp. apply filter_In in Hp. tauto.
  Qed.

  Lemma holds_In (h : held) g : holds h g = true -> exists m, In (g, m) h.
  Proof.
    unfold TwoPLDefs.holds. intros H. apply existsb_exists in H.
    destruct H as ([l m] & Hin & Hl). simpl in Hl.
    destruct (Lk_eqb_spec l g); [subst|discriminate]. eauto.
  Qed.

  Lemma holds_w_In (h : held) g : holds_w h g = true -> In (g, W) h.
  Proof.
    unfold TwoPLDefs.holds_w. intros H. apply existsb_exists in H.
    destruct H as ([l m] & Hin & Hl). simpl in Hl.
    apply andb_true_iff in Hl. destruct Hl as [Hl Hm].
    destruct (Lk_eqb_spec l g); [subst|discriminate].
    destruct m; [discriminate|auto].
  Qed.

  (* ------------------------------------------------------------------ *)
  (* well-locked transactions *)

  Lemma wl_from_app tx1 : forall h c tx2, wl_from h c (tx1 ++ tx2) = true ->
    exists c', wl_from (fold_left held_step tx1 h) c' tx2 = true.
  Proof.
    induction tx1 as [|a tx1 IH]; intros h c tx2 H; simpl in *.
    - eauto.
    - destruct a; simpl in *; repeat (apply andb_true_iff in H; destruct H as [? H]);
        eapply IH; eauto.
  Qed.

  Lemma wl_true_tail tx : forall h, wl_from h true tx = true ->
    forall a, In a tx -> is_acq a = false /\ is_commit a = false.
  Proof.
    induction tx as [|b tx IH]; intros h H a Hin; simpl in *.
    - contradiction.
    - destruct b; simpl in *; repeat (apply andb_true_iff in H; destruct H as [? H]);
        try discriminate;
        (destruct Hin as [<-|Hin]; [simpl; auto | eapply IH; eauto]).
  Qed.

  Lemma wl_false_prefix_norel tx1 : forall h tx2, wl_from h false (tx1 ++ tx2) = true ->
    (forall a, In a tx1 -> is_commit a = false) ->
    forall a, In a tx1 -> is_rel a = false.
  Proof.
    induction tx1 as [|b tx1 IH]; intros h tx2 H Hc a Hin; simpl in *.
    - contradiction.
    - pose proof (Hc b (or_introl eq_refl)) as Hb.
      destruct b; simpl in *; repeat (apply andb_true_iff in H; destruct H as [? H]);
        try discriminate;
        (destruct Hin as [<-|Hin]; [simpl; auto | eapply IH; eauto]).
  Qed.

  Lemma wl_false_has_commit tx : forall h, wl_from h false tx = true -> In Commit tx.
  Proof.
    induction tx as [|b tx IH]; intros h H; simpl in *.
    - discriminate.
    - destruct b; simpl in *; repeat (apply andb_true_iff in H; destruct H as [? H]);
        try discriminate; try (right; eapply IH; eauto); auto.
  Qed.

End TwoPL.
