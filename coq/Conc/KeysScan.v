(* KEYS over a sharded map (ConcurrentMap.Keys): the shards are visited one after the other, each
   under its own read lock, while other clients insert and delete.  KEYS is therefore not one
   atomic step; what every linearizable reading agrees on, and what the check demands, is

       keys present throughout the call  ⊆  reply  ⊆  keys present at some instant of the call.

   Model: [st t j] is the content of shard j at instant t (ANY sequence of states: any
   interleaving of inserts and deletes by any number of clients); the scan takes the snapshot of
   shard j at an instant [ts j] of its choosing (any instants, in any order). *)
Require Import List Arith.
Import ListNotations.

Section KeysScan.
  Variable key : Type.
  Variable nshards : nat.
  Variable shard_of : key -> nat.
  Hypothesis shard_of_lt : forall k, shard_of k < nshards.
  Variable st : nat -> nat -> list key.          (* instant -> shard -> keys stored there *)
  Variable ts : nat -> nat.                      (* shard -> instant at which the scan reads it *)

  Definition scan : list key := flat_map (fun j => st (ts j) j) (seq 0 nshards).

  (* a key that is in its shard at every instant is listed *)
  Theorem keys_contains_stable : forall k,
    (forall t, In k (st t (shard_of k))) -> In k scan.
  Proof.
    intros k H. unfold scan. apply in_flat_map. exists (shard_of k). split.
    - apply in_seq. split; [apply Nat.le_0_l | simpl; apply shard_of_lt].
    - apply H.
  Qed.

  (* and everything listed was stored at some instant the scan looked at *)
  Theorem keys_only_present : forall k, In k scan -> exists j, j < nshards /\ In k (st (ts j) j).
  Proof.
    intros k H. unfold scan in H. apply in_flat_map in H as [j [Hj Hk]].
    exists j. split; [apply in_seq in Hj; simpl in Hj; apply Hj | exact Hk].
  Qed.
End KeysScan.

(* the truncating variant (slice sized from the counter read before the walk, filled by index):
   with one stable key in the last shard and one insert into the first shard during the walk, the
   stable key is dropped *)
Definition truncated_scan {key} (cap : nat) (snapshots : list (list key)) : list key :=
  firstn cap (concat snapshots).

Example truncation_drops_stable :
  (* counter read = 1 (only "s" stored, in shard 1); "c" is inserted into shard 0 before shard 0 is read *)
  truncated_scan 1 [[2]; [7]] = [2] /\ ~ In 7 (truncated_scan 1 [[2]; [7]]).
Proof. split; [reflexivity | simpl; intros [H|[]]; discriminate]. Qed.

Print Assumptions keys_contains_stable.
Print Assumptions keys_only_present.
