(* Lock ordering => no deadlock: proofs (DESIGN.md Appendix A.4).

   Model (Conc/DeadlockDefs.v): any number of threads, each running a fixed program of
   [IAcq m l] / [IRel l] over nat-indexed reader-writer locks, with the blocking rules of Go's
   writer-preferring sync.RWMutex; any interleaving ([step] picks any thread that can move).

   Proved here, for ANY number of threads, ANY number of locks, ANY schedule, with no axioms:

     deadlock_free :
       forall progs s, Forall (fun p => ordered p = true) progs ->
         reachable (init progs) s -> unfinished s -> exists s', step s s'.
         If every program follows the lock order, a reachable state in which somebody still
         has work to do always has a successor.

     exclusive_invariant :
       forall progs s, reachable (init progs) s -> exclusive s.
         The step rules really enforce reader-writer exclusion (no [ordered] hypothesis).

     step_decreases :
       forall s s', step s s' -> measure s' < measure s.
     all_runs_finish :
       forall progs s, Forall (fun p => ordered p = true) progs ->
         reachable (init progs) s -> (~ exists s', step s s') ->
         Forall (fun th => th_prog th = []) s.
         Every step consumes work, so every run is finite; and a run can only stop in a state
         where every thread has finished.

     ordered_needed :
       exists s, reachable (init [prog_ab; prog_ba]) s /\ unfinished s /\ ~ exists s', step s s'.
         The classical AB/BA deadlock: the [ordered] hypothesis cannot be dropped.
     reentrant_read_stuck :
       exists s, reachable (init [prog_rr; prog_w]) s /\ unfinished s /\ ~ exists s', step s s'.
         Writer preference: a reader re-acquiring a read lock it holds deadlocks against a
         writer that announced in between (again a program that is not [ordered]). *)
Require Import List Arith Bool Lia.
Import ListNotations.
Require Import Conc.TwoPLDefs Conc.DeadlockDefs.

(* ------------------------------------------------------------------------------------------ *)
(* generic list facts                                                                         *)
(* ------------------------------------------------------------------------------------------ *)

Lemma forallb_false_ex {A : Type} (f : A -> bool) (l : list A) :
  forallb f l = false -> exists x, In x l /\ f x = false.
Proof.
  induction l as [|a l IH]; simpl; intro H.
  - discriminate.
  - destruct (f a) eqn:Ha.
    + simpl in H. destruct (IH H) as [x [Hin Hx]]. exists x; auto.
    + exists a; auto.
Qed.

Lemma nth_error_mid {A : Type} (pre : list A) (x : A) (post : list A) :
  nth_error (pre ++ x :: post) (length pre) = Some x.
Proof.
  rewrite nth_error_app2 by lia. rewrite Nat.sub_diag. reflexivity.
Qed.

Lemma nth_error_replace {A : Type} (pre : list A) (x y : A) (post : list A) (j : nat) :
  j <> length pre -> nth_error (pre ++ y :: post) j = nth_error (pre ++ x :: post) j.
Proof.
  intro Hj. destruct (lt_dec j (length pre)) as [Hlt | Hge].
  - rewrite !nth_error_app1 by exact Hlt. reflexivity.
  - rewrite !nth_error_app2 by lia.
    destruct (j - length pre) as [|k] eqn:Hk; [lia | reflexivity].
Qed.

(* ------------------------------------------------------------------------------------------ *)
(* held locks                                                                                 *)
(* ------------------------------------------------------------------------------------------ *)

Lemma map_fst_drop_lock (h : list (nat * mode)) (l : nat) :
  map fst (drop_lock h l) = filter (fun x => negb (Nat.eqb x l)) (map fst h).
Proof.
  unfold drop_lock. induction h as [|[k m] h IH]; simpl.
  - reflexivity.
  - destruct (Nat.eqb k l); simpl; rewrite IH; reflexivity.
Qed.

Lemma in_held_holds (th : thread) (l : nat) (m : mode) :
  In (l, m) (th_held th) -> holds_lock th l = true.
Proof.
  intro Hin. unfold holds_lock. apply existsb_exists. exists (l, m). split; [exact Hin|].
  simpl. apply Nat.eqb_refl.
Qed.

Lemma in_held_holds_w (th : thread) (l : nat) :
  In (l, W) (th_held th) -> holds_lock_w th l = true.
Proof.
  intro Hin. unfold holds_lock_w. apply existsb_exists. exists (l, W). split; [exact Hin|].
  simpl. rewrite Nat.eqb_refl. reflexivity.
Qed.

Lemma holds_w_holds (th : thread) (l : nat) :
  holds_lock_w th l = true -> holds_lock th l = true.
Proof.
  unfold holds_lock_w, holds_lock. intro H.
  apply existsb_exists in H. destruct H as [p [Hin Hp]].
  apply andb_true_iff in Hp. destruct Hp as [Hp _].
  apply existsb_exists. exists p. auto.
Qed.

Lemma not_free_holder (s : sys) (l : nat) :
  free s l = false -> exists h, In h s /\ holds_lock h l = true.
Proof.
  unfold free. intro H. apply forallb_false_ex in H. destruct H as [h [Hin Hh]].
  exists h. split; [exact Hin|]. apply negb_false_iff in Hh. exact Hh.
Qed.

(* ------------------------------------------------------------------------------------------ *)
(* the lock-order invariant                                                                   *)
(* ------------------------------------------------------------------------------------------ *)

Definition th_ok (th : thread) : Prop :=
  ordered_from (map fst (th_held th)) (th_prog th) = true.
Definition inv (s : sys) : Prop := forall th, In th s -> th_ok th.

Lemma th_step_ok (s : sys) (th th' : thread) : th_step s th th' -> th_ok th -> th_ok th'.
Proof.
  unfold th_ok. intros Hs Hok. destruct Hs; simpl in *.
  - exact Hok.
  - apply andb_true_iff in Hok. destruct Hok as [_ Hok]. exact Hok.
  - apply andb_true_iff in Hok. destruct Hok as [_ Hok]. exact Hok.
  - apply andb_true_iff in Hok. destruct Hok as [_ Hok].
    rewrite map_fst_drop_lock. exact Hok.
Qed.

Lemma inv_step (s s' : sys) : step s s' -> inv s -> inv s'.
Proof.
  intros Hs Hinv. destruct Hs as [pre th th' post Hth]. intros x Hx.
  apply in_app_or in Hx. destruct Hx as [Hx | [Hx | Hx]].
  - apply Hinv. apply in_or_app. left. exact Hx.
  - subst x. apply (th_step_ok _ _ _ Hth). apply Hinv. apply in_or_app. right. left. reflexivity.
  - apply Hinv. apply in_or_app. right. right. exact Hx.
Qed.

Lemma inv_init (progs : list (list instr)) :
  Forall (fun p => ordered p = true) progs -> inv (init progs).
Proof.
  intros HF th Hin. unfold init in Hin. apply in_map_iff in Hin.
  destruct Hin as [p [Hp Hin]]. subst th. unfold th_ok. simpl.
  rewrite Forall_forall in HF. apply HF. exact Hin.
Qed.

Lemma inv_reachable (progs : list (list instr)) (s : sys) :
  Forall (fun p => ordered p = true) progs -> reachable (init progs) s -> inv s.
Proof.
  intros HF Hr. induction Hr as [|s s' Hr IH Hs].
  - apply inv_init. exact HF.
  - apply (inv_step _ _ Hs IH).
Qed.

(* ------------------------------------------------------------------------------------------ *)
(* enabledness is decidable                                                                   *)
(* ------------------------------------------------------------------------------------------ *)

Definition enabled (s : sys) (th : thread) : bool :=
  match th_prog th with
  | [] => false
  | IAcq W l :: _ => if th_ann th then free s l else true
  | IAcq R l :: _ => readable s l
  | IRel _ :: _ => true
  end.

Lemma enabled_th_step (s : sys) (th : thread) :
  enabled s th = true -> exists th', th_step s th th'.
Proof.
  destruct th as [h a p]. unfold enabled. simpl. destruct p as [|[m l|l] r]; intro H.
  - discriminate.
  - destruct m.
    + eexists. apply TGrantR. exact H.
    + destruct a.
      * eexists. apply TGrantW. exact H.
      * eexists. apply TAnnounce.
  - eexists. apply TRelease.
Qed.

Lemma enabled_step (s : sys) (th : thread) :
  In th s -> enabled s th = true -> exists s', step s s'.
Proof.
  intros Hin He. destruct (enabled_th_step _ _ He) as [th' Hth'].
  apply in_split in Hin. destruct Hin as [pre [post Heq]]. subst s.
  eexists. apply Step. exact Hth'.
Qed.

(* the lock a blocked thread is asking for *)
Definition req (th : thread) : nat :=
  match th_prog th with IAcq _ l :: _ => l | _ => 0 end.

Lemma max_unfinished_aux (s : sys) :
  (forall u, In u s -> th_prog u = []) \/
  (exists t, In t s /\ th_prog t <> [] /\
             forall u, In u s -> th_prog u <> [] -> req u <= req t).
Proof.
  induction s as [|a s IH].
  - left. intros u [].
  - destruct (th_prog a) as [|i r] eqn:Ha.
    + destruct IH as [IH | [t [Hin [Hne Hmax]]]].
      * left. intros u [Hu | Hu]; [subst u; exact Ha | apply IH; exact Hu].
      * right. exists t. split; [right; exact Hin|]. split; [exact Hne|].
        intros u [Hu | Hu] Hune; [subst u; congruence | apply Hmax; assumption].
    + assert (Hane : th_prog a <> []) by (rewrite Ha; discriminate).
      destruct IH as [IH | [t [Hin [Hne Hmax]]]].
      * right. exists a. split; [left; reflexivity|]. split; [exact Hane|].
        intros u [Hu | Hu] Hune; [subst u; lia | exfalso; apply Hune; apply IH; exact Hu].
      * right. destruct (le_lt_dec (req a) (req t)) as [Hle | Hlt].
        -- exists t. split; [right; exact Hin|]. split; [exact Hne|].
           intros u [Hu | Hu] Hune; [subst u; exact Hle | apply Hmax; assumption].
        -- exists a. split; [left; reflexivity|]. split; [exact Hane|].
           intros u [Hu | Hu] Hune; [subst u; lia|].
           specialize (Hmax u Hu Hune). lia.
Qed.

Lemma max_unfinished (s : sys) :
  unfinished s ->
  exists t, In t s /\ th_prog t <> [] /\
            forall u, In u s -> th_prog u <> [] -> req u <= req t.
Proof.
  intros [th [Hin Hne]]. destruct (max_unfinished_aux s) as [Hall | Hex].
  - exfalso. apply Hne. apply Hall. exact Hin.
  - exact Hex.
Qed.

(* a blocked thread that holds L is unfinished and asks for something above L *)
Lemma holder_blocked (s : sys) (h : thread) (L : nat) :
  inv s -> In h s -> enabled s h = false -> holds_lock h L = true ->
  th_prog h <> [] /\ L < req h.
Proof.
  intros Hinv Hin Hen Hh. specialize (Hinv h Hin). unfold th_ok in Hinv.
  unfold holds_lock in Hh. apply existsb_exists in Hh. destruct Hh as [[k m] [Hk Hkl]].
  simpl in Hkl. apply Nat.eqb_eq in Hkl. subst k.
  assert (HinL : In L (map fst (th_held h))).
  { apply in_map_iff. exists (L, m). split; [reflexivity | exact Hk]. }
  unfold enabled in Hen. unfold req. destruct (th_prog h) as [|[m' l'|l'] r].
  - simpl in Hinv. destruct (map fst (th_held h)); [destruct HinL | discriminate].
  - simpl in Hinv. apply andb_true_iff in Hinv. destruct Hinv as [Hall _].
    rewrite forallb_forall in Hall. specialize (Hall L HinL). apply Nat.ltb_lt in Hall.
    split; [discriminate | exact Hall].
  - discriminate.
Qed.

(* in a state where nobody can move, the lock an unfinished thread asks for is held *)
Lemma blocked_holder (s : sys) (t : thread) :
  (forall u, In u s -> enabled s u = false) -> In t s -> th_prog t <> [] ->
  exists h, In h s /\ holds_lock h (req t) = true.
Proof.
  intros Hall Hin Hne. pose proof (Hall t Hin) as Hen. unfold enabled in Hen. unfold req.
  destruct (th_prog t) as [|[m l|l] r] eqn:Hp.
  - congruence.
  - destruct m.
    + (* reader: a writer holds l, or a writer is announced on l and is itself blocked *)
      unfold readable in Hen. apply forallb_false_ex in Hen. destruct Hen as [w [Hw Hwf]].
      apply andb_false_iff in Hwf. destruct Hwf as [Hwf | Hwf]; apply negb_false_iff in Hwf.
      * exists w. split; [exact Hw|]. apply holds_w_holds. exact Hwf.
      * pose proof (Hall w Hw) as Hwen. unfold waiting_writer in Hwf. unfold enabled in Hwen.
        destruct (th_prog w) as [|[[|] l'|l'] r']; try discriminate.
        apply andb_true_iff in Hwf. destruct Hwf as [Ha Hl]. rewrite Ha in Hwen.
        apply Nat.eqb_eq in Hl. subst l'. apply not_free_holder. exact Hwen.
    + (* writer: necessarily announced, and somebody holds l *)
      destruct (th_ann t); [|discriminate]. apply not_free_holder. exact Hen.
  - discriminate.
Qed.

Theorem deadlock_free :
  forall progs s, Forall (fun p => ordered p = true) progs ->
    reachable (init progs) s -> unfinished s -> exists s', step s s'.
Proof.
  intros progs s HF Hr Hu.
  pose proof (inv_reachable _ _ HF Hr) as Hinv.
  destruct (existsb (enabled s) s) eqn:He.
  - apply existsb_exists in He. destruct He as [th [Hin Hen]].
    apply (enabled_step s th Hin Hen).
  - exfalso.
    assert (Hall : forall u, In u s -> enabled s u = false).
    { intros u Hu'. destruct (enabled s u) eqn:E; [|reflexivity].
      assert (Ht : existsb (enabled s) s = true) by (apply existsb_exists; exists u; auto).
      congruence. }
    destruct (max_unfinished s Hu) as [t [Hin [Hne Hmax]]].
    destruct (blocked_holder s t Hall Hin Hne) as [h [Hh Hhold]].
    destruct (holder_blocked s h _ Hinv Hh (Hall h Hh) Hhold) as [Hhne Hlt].
    specialize (Hmax h Hh Hhne). lia.
Qed.

(* ------------------------------------------------------------------------------------------ *)
(* mutual exclusion                                                                           *)
(* ------------------------------------------------------------------------------------------ *)

Definition compat (a b : thread) : Prop :=
  forall l m m', In (l, m) (th_held a) -> In (l, m') (th_held b) -> m = R /\ m' = R.

Definition excl_ix (s : sys) : Prop :=
  forall i j a b, i <> j -> nth_error s i = Some a -> nth_error s j = Some b -> compat a b.

Lemma compat_sym (a b : thread) : compat a b -> compat b a.
Proof.
  intros H l m m' Hb Ha. destruct (H l m' m Ha Hb) as [H1 H2]. split; assumption.
Qed.

Lemma excl_ix_exclusive (s : sys) : excl_ix s -> exclusive s.
Proof.
  intros Hx pre th mid th' post l m m' Heq Hin Hin'.
  assert (Hc : compat th th').
  { apply (Hx (length pre) (length (pre ++ th :: mid)) th th').
    - rewrite app_length. simpl. lia.
    - subst s. apply nth_error_mid.
    - subst s.
      replace (pre ++ th :: mid ++ th' :: post) with ((pre ++ th :: mid) ++ th' :: post).
      + apply nth_error_mid.
      + rewrite <- app_assoc. reflexivity. }
  apply (Hc l m m' Hin Hin').
Qed.

(* the thread that moved is compatible with every other thread *)
Lemma th_step_compat (s : sys) (k : nat) (th th' : thread) :
  th_step s th th' -> nth_error s k = Some th -> excl_ix s ->
  forall j b, j <> k -> nth_error s j = Some b -> compat th' b.
Proof.
  intros Hth Hk Hx j b Hj Hb.
  assert (Hold : compat th b) by (apply (Hx k j th b); auto).
  assert (Hbin : In b s) by (apply nth_error_In with (n := j); exact Hb).
  unfold compat in *. destruct Hth; simpl in *.
  - exact Hold.
  - intros l0 m m' [Heq | Hin] Hin'.
    + inversion Heq; subst l0 m. exfalso.
      unfold free in H. rewrite forallb_forall in H. specialize (H b Hbin).
      rewrite (in_held_holds b l m' Hin') in H. discriminate.
    + apply (Hold l0 m m' Hin Hin').
  - intros l0 m m' [Heq | Hin] Hin'.
    + inversion Heq; subst l0 m. split; [reflexivity|].
      destruct m'; [reflexivity|]. exfalso.
      unfold readable in H. rewrite forallb_forall in H. specialize (H b Hbin).
      rewrite (in_held_holds_w b l Hin') in H. discriminate.
    + apply (Hold l0 m m' Hin Hin').
  - intros l0 m m' Hin Hin'. unfold drop_lock in Hin. apply filter_In in Hin.
    destruct Hin as [Hin _]. apply (Hold l0 m m' Hin Hin').
Qed.

Lemma excl_ix_step (s s' : sys) : step s s' -> excl_ix s -> excl_ix s'.
Proof.
  intros Hs Hx. destruct Hs as [pre th th' post Hth].
  set (s := pre ++ th :: post) in *.
  assert (Hk : nth_error s (length pre) = Some th) by apply nth_error_mid.
  intros i j a b Hij Ha Hb.
  destruct (Nat.eq_dec i (length pre)) as [Hi | Hi];
    destruct (Nat.eq_dec j (length pre)) as [Hj | Hj].
  - lia.
  - subst i. rewrite nth_error_mid in Ha. inversion Ha; subst a.
    rewrite (nth_error_replace pre th th' post j Hj) in Hb.
    apply (th_step_compat s (length pre) th th' Hth Hk Hx j b Hj Hb).
  - subst j. rewrite nth_error_mid in Hb. inversion Hb; subst b.
    rewrite (nth_error_replace pre th th' post i Hi) in Ha.
    apply compat_sym.
    apply (th_step_compat s (length pre) th th' Hth Hk Hx i a Hi Ha).
  - rewrite (nth_error_replace pre th th' post i Hi) in Ha.
    rewrite (nth_error_replace pre th th' post j Hj) in Hb.
    apply (Hx i j a b Hij Ha Hb).
Qed.

Lemma excl_ix_init (progs : list (list instr)) : excl_ix (init progs).
Proof.
  intros i j a b _ Ha _ l m m' Hin _.
  apply nth_error_In in Ha. unfold init in Ha. apply in_map_iff in Ha.
  destruct Ha as [p [Hp _]]. subst a. destruct Hin.
Qed.

Theorem exclusive_invariant :
  forall progs s, reachable (init progs) s -> exclusive s.
Proof.
  intros progs s Hr. apply excl_ix_exclusive.
  induction Hr as [|s s' Hr IH Hs].
  - apply excl_ix_init.
  - apply (excl_ix_step _ _ Hs IH).
Qed.

(* ------------------------------------------------------------------------------------------ *)
(* termination                                                                                *)
(* ------------------------------------------------------------------------------------------ *)

Lemma measure_app (s1 s2 : sys) : measure (s1 ++ s2) = measure s1 + measure s2.
Proof.
  unfold measure. induction s1 as [|a s1 IH]; simpl.
  - reflexivity.
  - rewrite IH. lia.
Qed.

Lemma measure_cons (a : thread) (s : sys) : measure (a :: s) = th_measure a + measure s.
Proof. reflexivity. Qed.

Lemma th_step_decreases (s : sys) (th th' : thread) :
  th_step s th th' -> th_measure th' < th_measure th.
Proof.
  intro H. destruct H; unfold th_measure; cbn [th_prog th_ann length].
  - lia.
  - lia.
  - destruct a; lia.
  - destruct a; lia.
Qed.

Theorem step_decreases : forall s s', step s s' -> measure s' < measure s.
Proof.
  intros s s' Hs. destruct Hs as [pre th th' post Hth].
  rewrite !measure_app, !measure_cons.
  pose proof (th_step_decreases _ _ _ Hth). lia.
Qed.

Theorem all_runs_finish :
  forall progs s, Forall (fun p => ordered p = true) progs ->
    reachable (init progs) s -> (~ exists s', step s s') ->
    Forall (fun th => th_prog th = []) s.
Proof.
  intros progs s HF Hr Hstuck. apply Forall_forall. intros th Hin.
  destruct (th_prog th) as [|i r] eqn:Hp; [reflexivity|].
  exfalso. apply Hstuck. apply (deadlock_free progs s HF Hr).
  exists th. split; [exact Hin|]. rewrite Hp. discriminate.
Qed.

(* every run from [s] has at most [measure s] steps *)
Inductive steps : nat -> sys -> sys -> Prop :=
| Steps0 : forall s, steps 0 s s
| StepsS : forall n s s' s'', step s s' -> steps n s' s'' -> steps (S n) s s''.

Corollary runs_bounded : forall n s s', steps n s s' -> n + measure s' <= measure s.
Proof.
  intros n s s' H. induction H as [s | n s s' s'' Hs _ IH].
  - lia.
  - apply step_decreases in Hs. lia.
Qed.

(* ------------------------------------------------------------------------------------------ *)
(* the hypothesis matters                                                                     *)
(* ------------------------------------------------------------------------------------------ *)

Lemma step_ex (s s' : sys) : step s s' -> exists th th', In th s /\ th_step s th th'.
Proof.
  intro Hs. destruct Hs as [pre th th' post Hth]. exists th, th'. split; [|exact Hth].
  apply in_or_app. right. left. reflexivity.
Qed.

Ltac stuck_case H :=
  inversion H; subst;
  match goal with Hc : _ = true |- _ => vm_compute in Hc; discriminate Hc end.

Definition prog_ab : list instr := [IAcq W 0; IAcq W 1; IRel 1; IRel 0].
Definition prog_ba : list instr := [IAcq W 1; IAcq W 0; IRel 0; IRel 1].

Lemma prog_ab_ordered : ordered prog_ab = true.
Proof. reflexivity. Qed.
Lemma prog_ba_not_ordered : ordered prog_ba = false.
Proof. reflexivity. Qed.

Theorem ordered_needed :
  exists s, reachable (init [prog_ab; prog_ba]) s /\ unfinished s /\ ~ exists s', step s s'.
Proof.
  set (ra := [IAcq W 1; IRel 1; IRel 0]).
  set (rb := [IAcq W 0; IRel 0; IRel 1]).
  exists [mkT [(0, W)] true ra; mkT [(1, W)] true rb].
  split; [|split].
  - (* t1 announces, t1 gets 0, t2 announces, t2 gets 1, t1 announces, t2 announces *)
    apply ReachStep with (s := [mkT [(0, W)] true ra; mkT [(1, W)] false rb]).
    apply ReachStep with (s := [mkT [(0, W)] false ra; mkT [(1, W)] false rb]).
    apply ReachStep with (s := [mkT [(0, W)] false ra; mkT [] true prog_ba]).
    apply ReachStep with (s := [mkT [(0, W)] false ra; mkT [] false prog_ba]).
    apply ReachStep with (s := [mkT [] true prog_ab; mkT [] false prog_ba]).
    apply ReachStep with (s := [mkT [] false prog_ab; mkT [] false prog_ba]).
    + apply ReachInit.
    + apply (Step [] (mkT [] false prog_ab) _ [mkT [] false prog_ba]). apply TAnnounce.
    + apply (Step [] (mkT [] true prog_ab) _ [mkT [] false prog_ba]). apply TGrantW.
      reflexivity.
    + apply (Step [mkT [(0, W)] false ra] (mkT [] false prog_ba) _ []). apply TAnnounce.
    + apply (Step [mkT [(0, W)] false ra] (mkT [] true prog_ba) _ []). apply TGrantW.
      reflexivity.
    + apply (Step [] (mkT [(0, W)] false ra) _ [mkT [(1, W)] false rb]). apply TAnnounce.
    + apply (Step [mkT [(0, W)] true ra] (mkT [(1, W)] false rb) _ []). apply TAnnounce.
  - exists (mkT [(0, W)] true ra). split; [left; reflexivity | discriminate].
  - intros [s' Hs]. apply step_ex in Hs. destruct Hs as [th [th' [Hin Hth]]].
    destruct Hin as [Heq | [Heq | []]]; subst th.
    + stuck_case Hth.
    + stuck_case Hth.
Qed.

(* writer preference: re-entrant RLock deadlocks against a writer announced in between *)
Definition prog_rr : list instr := [IAcq R 0; IAcq R 0; IRel 0].
Definition prog_w : list instr := [IAcq W 0; IRel 0].

Lemma prog_rr_not_ordered : ordered prog_rr = false.
Proof. reflexivity. Qed.
Lemma prog_w_ordered : ordered prog_w = true.
Proof. reflexivity. Qed.

Theorem reentrant_read_stuck :
  exists s, reachable (init [prog_rr; prog_w]) s /\ unfinished s /\ ~ exists s', step s s'.
Proof.
  set (rr := [IAcq R 0; IRel 0]).
  exists [mkT [(0, R)] false rr; mkT [] true prog_w].
  split; [|split].
  - (* the reader gets 0, the writer announces *)
    apply ReachStep with (s := [mkT [(0, R)] false rr; mkT [] false prog_w]).
    apply ReachStep with (s := [mkT [] false prog_rr; mkT [] false prog_w]).
    + apply ReachInit.
    + apply (Step [] (mkT [] false prog_rr) _ [mkT [] false prog_w]). apply TGrantR.
      reflexivity.
    + apply (Step [mkT [(0, R)] false rr] (mkT [] false prog_w) _ []). apply TAnnounce.
  - exists (mkT [(0, R)] false rr). split; [left; reflexivity | discriminate].
  - intros [s' Hs]. apply step_ex in Hs. destruct Hs as [th [th' [Hin Hth]]].
    destruct Hin as [Heq | [Heq | []]]; subst th.
    + stuck_case Hth.
    + stuck_case Hth.
Qed.

Print Assumptions deadlock_free.
Print Assumptions exclusive_invariant.
Print Assumptions step_decreases.
Print Assumptions all_runs_finish.
Print Assumptions runs_bounded.
Print Assumptions ordered_needed.
Print Assumptions reentrant_read_stuck.
