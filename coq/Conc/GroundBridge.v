(* From the ground monitor [gsafe] (Conc/SkelSem.v) to the hypotheses of the two theorems about
   all schedules:
     - [gsafe_ordered]: the lock instructions of a monitored action sequence satisfy [ordered]
       (Conc/DeadlockDefs.v: lock ordering => deadlock freedom);
     - [gsafe_wl]: every critical section of a monitored action sequence, with the ghost Commit
       put at its lock point, satisfies [wl] (Conc/TwoPLDefs.v: two-phase locking =>
       serializable), with locations = keys, locks = stripe indexes, guard = [stripe nlocks],
       for any choice of the data functions attached to the reads and writes. *)
Require Import List Bool Arith NArith Lia.
Import ListNotations.
Require Import Base.Bytes Conc.TwoPLDefs Conc.DeadlockDefs Conc.LockModel Conc.SkelSem.

Section Bridge.
  Variable nlocks : N.

  (* ================================================================================== *)
  (* Part 1: lock ordering                                                              *)
  (* ================================================================================== *)

  Definition lockprog (t : list gact) : list instr :=
    flat_map (fun a => match a with
                       | GAcq m l => [IAcq m (N.to_nat l)]
                       | GRel l => [IRel (N.to_nat l)]
                       | _ => []
                       end) t.

  (* the stripes held, as ordered_from sees them *)
  Definition hkeys (h : ghold) : list nat := map (fun p => N.to_nat (fst p)) h.

  Lemma ltb_to_nat : forall a b : N, Nat.ltb (N.to_nat a) (N.to_nat b) = N.ltb a b.
  Proof.
    intros a b.
    destruct (N.ltb_spec a b) as [Hlt | Hge].
    - apply Nat.ltb_lt. lia.
    - apply Nat.ltb_ge. lia.
  Qed.

  Lemma eqb_to_nat : forall a b : N, Nat.eqb (N.to_nat a) (N.to_nat b) = N.eqb a b.
  Proof.
    intros a b.
    destruct (N.eqb_spec a b) as [Heq | Hne].
    - subst b. apply Nat.eqb_refl.
    - apply Nat.eqb_neq. intro Heq. apply Hne. apply N2Nat.inj. exact Heq.
  Qed.

  Lemma hkeys_forallb_lt : forall (h : ghold) (l : N),
    forallb (fun x => Nat.ltb x (N.to_nat l)) (hkeys h) = forallb (fun p => N.ltb (fst p) l) h.
  Proof.
    intros h l. induction h as [| p h IHh]; simpl.
    - reflexivity.
    - rewrite ltb_to_nat, IHh. reflexivity.
  Qed.

  Lemma hkeys_existsb_eq : forall (h : ghold) (l : N),
    existsb (Nat.eqb (N.to_nat l)) (hkeys h) = gholds h l.
  Proof.
    intros h l. unfold gholds. induction h as [| p h IHh]; simpl.
    - reflexivity.
    - rewrite eqb_to_nat, IHh, (N.eqb_sym l (fst p)). reflexivity.
  Qed.

  Lemma hkeys_gdrop : forall (h : ghold) (l : N),
    filter (fun x => negb (Nat.eqb x (N.to_nat l))) (hkeys h) = hkeys (gdrop h l).
  Proof.
    intros h l. unfold gdrop. induction h as [| p h IHh]; simpl.
    - reflexivity.
    - rewrite eqb_to_nat. destruct (N.eqb (fst p) l); simpl.
      + exact IHh.
      + rewrite IHh. reflexivity.
  Qed.

  (* the monitor accepting t from state s means ordered_from consumes the lock instructions of t *)
  Lemma gmon_ordered_from : forall (t : list gact) (s s' : ghold * bool) (p : list instr),
    gmon nlocks s t = Some s' ->
    ordered_from (hkeys (fst s)) (lockprog t ++ p) = ordered_from (hkeys (fst s')) p.
  Proof.
    induction t as [| a t IHt]; intros s s' p Hmon.
    - simpl in Hmon. injection Hmon as Hs. subst s'. reflexivity.
    - simpl in Hmon.
      destruct (gstep nlocks s a) as [s1 |] eqn:Hstep; [| discriminate Hmon].
      specialize (IHt s1 s' p Hmon).
      destruct s as [h rel]. destruct a as [m l | l | k | k]; simpl in Hstep |- *.
      + destruct (negb rel && forallb (fun q => N.ltb (fst q) l) h) eqn:Hc; [| discriminate Hstep].
        injection Hstep as Hs1. subst s1.
        apply andb_prop in Hc. destruct Hc as [_ Hlt].
        rewrite hkeys_forallb_lt, Hlt. simpl. exact IHt.
      + destruct (gholds h l) eqn:Hh; [| discriminate Hstep].
        injection Hstep as Hs1. subst s1.
        rewrite hkeys_existsb_eq, Hh, hkeys_gdrop. simpl. exact IHt.
      + destruct (gholds h (st nlocks k)); [| discriminate Hstep].
        injection Hstep as Hs1. subst s1. exact IHt.
      + destruct (gholds_w h (st nlocks k)); [| discriminate Hstep].
        injection Hstep as Hs1. subst s1. exact IHt.
  Qed.

  Lemma gsafe_gmon : forall t, gsafe nlocks t = true -> exists b, gmon nlocks ([], false) t = Some ([], b).
  Proof.
    intros t Hsafe. unfold gsafe in Hsafe.
    destruct (gmon nlocks ([], false) t) as [[h b] |]; [| discriminate Hsafe].
    destruct h as [| q h]; [| discriminate Hsafe].
    exists b. reflexivity.
  Qed.

  Lemma gmon_gsafe : forall t b, gmon nlocks ([], false) t = Some ([], b) -> gsafe nlocks t = true.
  Proof. intros t b Hmon. unfold gsafe. rewrite Hmon. reflexivity. Qed.

  Theorem gsafe_ordered : forall t, gsafe nlocks t = true -> ordered (lockprog t) = true.
  Proof.
    intros t Hsafe. destruct (gsafe_gmon t Hsafe) as [b Hmon].
    pose proof (gmon_ordered_from t _ _ [] Hmon) as Ho.
    rewrite app_nil_r in Ho. simpl in Ho. exact Ho.
  Qed.

  (* ================================================================================== *)
  (* Part 2: two-phase locking                                                          *)
  (* ================================================================================== *)

  (* Critical sections: cut after every action at which the monitor's hold set is empty.  If the
     monitor rejects an action the rest of the sequence is kept as one (last) piece, so that
     concatenating the pieces always gives the sequence back. *)
  Fixpoint sections_from (s : ghold * bool) (t : list gact) : list (list gact) :=
    match t with
    | [] => []
    | a :: r =>
        match gstep nlocks s a with
        | Some s' =>
            match fst s' with
            | [] => [a] :: sections_from s' r
            | _ :: _ =>
                match sections_from s' r with
                | [] => [[a]]
                | sec :: rest => (a :: sec) :: rest
                end
            end
        | None => [t]
        end
    end.

  Lemma sections_from_cons : forall s a r,
    sections_from s (a :: r) =
    match gstep nlocks s a with
    | Some s' =>
        match fst s' with
        | [] => [a] :: sections_from s' r
        | _ :: _ =>
            match sections_from s' r with
            | [] => [[a]]
            | sec :: rest => (a :: sec) :: rest
            end
        end
    | None => [a :: r]
    end.
  Proof. reflexivity. Qed.

  Definition sections (t : list gact) : list (list gact) := sections_from ([], false) t.

  Lemma concat_sections_from : forall t s, concat (sections_from s t) = t.
  Proof.
    induction t as [| a t IHt]; intros s; simpl.
    - reflexivity.
    - destruct (gstep nlocks s a) as [s1 |]; simpl.
      + specialize (IHt s1). destruct (fst s1) as [| q h1]; simpl.
        * rewrite IHt. reflexivity.
        * destruct (sections_from s1 t) as [| sec rest]; simpl in IHt |- *.
          -- rewrite <- IHt. reflexivity.
          -- rewrite <- IHt. reflexivity.
      + rewrite app_nil_r. reflexivity.
  Qed.

  Theorem concat_sections : forall t, concat (sections t) = t.
  Proof. intros t. apply concat_sections_from. Qed.

  (* every piece is itself a monitored sequence: a stretch from "nothing held" to "nothing held" *)
  Lemma gstep_nil_false : forall s a r, gstep nlocks s a = Some ([], r) -> r = false.
  Proof.
    intros [h rel] a r Hstep. destruct a as [m l | l | k | k]; simpl in Hstep.
    - destruct (negb rel && forallb (fun q => N.ltb (fst q) l) h); discriminate Hstep.
    - destruct (gholds h l); [| discriminate Hstep].
      injection Hstep as Hh Hr. rewrite Hh in Hr. symmetry. exact Hr.
    - destruct (gholds h (st nlocks k)) eqn:Hh; [| discriminate Hstep].
      injection Hstep as Hh1 Hr. subst h. simpl in Hh. discriminate Hh.
    - destruct (gholds_w h (st nlocks k)) eqn:Hh; [| discriminate Hstep].
      injection Hstep as Hh1 Hr. subst h. simpl in Hh. discriminate Hh.
  Qed.

  Lemma gmon_sections_safe : forall (t : list gact) (h : ghold) (rel b : bool),
    gmon nlocks (h, rel) t = Some ([], b) ->
    (h = [] -> rel = false) ->
    match h with
    | [] => Forall (fun sec => gsafe nlocks sec = true) (sections_from (h, rel) t)
    | _ :: _ => exists sec rest,
        sections_from (h, rel) t = sec :: rest /\
        (exists b', gmon nlocks (h, rel) sec = Some ([], b')) /\
        Forall (fun sec => gsafe nlocks sec = true) rest
    end.
  Proof.
    induction t as [| a t IHt]; intros h rel b Hmon Hinv.
    - simpl in Hmon. injection Hmon as Hh Hb. subst h. simpl. constructor.
    - cbn [gmon] in Hmon.
      destruct (gstep nlocks (h, rel) a) as [[h1 rel1] |] eqn:Hstep; [| discriminate Hmon].
      assert (Hinv1 : h1 = [] -> rel1 = false).
      { intros Hh1. subst h1. exact (gstep_nil_false _ _ _ Hstep). }
      specialize (IHt h1 rel1 b Hmon Hinv1).
      rewrite sections_from_cons, Hstep. cbn [fst].
      assert (Hone : gmon nlocks (h, rel) [a] = Some (h1, rel1)).
      { cbn [gmon]. rewrite Hstep. reflexivity. }
      destruct h1 as [| q1 h1].
      + (* the piece ends here *)
        destruct h as [| q h].
        * rewrite (Hinv eq_refl) in Hone. constructor; [| exact IHt].
          exact (gmon_gsafe _ _ Hone).
        * exists [a], (sections_from ([], rel1) t).
          split; [reflexivity |]. split; [| exact IHt].
          exists rel1. exact Hone.
      + destruct IHt as [sec [rest [Hsec [[b' Hb'] Hrest]]]].
        rewrite Hsec.
        assert (Hcons : gmon nlocks (h, rel) (a :: sec) = Some ([], b')).
        { cbn [gmon]. rewrite Hstep. exact Hb'. }
        destruct h as [| q h].
        * rewrite (Hinv eq_refl) in Hcons. constructor; [| exact Hrest].
          exact (gmon_gsafe _ _ Hcons).
        * exists (a :: sec), rest.
          split; [reflexivity |]. split; [| exact Hrest].
          exists b'. exact Hcons.
  Qed.

  Theorem sections_gsafe : forall t, gsafe nlocks t = true ->
    Forall (fun sec => gsafe nlocks sec = true) (sections t).
  Proof.
    intros t Hsafe. destruct (gsafe_gmon t Hsafe) as [b Hmon].
    exact (gmon_sections_safe t [] false b Hmon (fun _ => eq_refl)).
  Qed.

  Section Tx.
    Variables Val Lst : Type.
    Variable fr : bytes -> Lst -> Val -> Lst.
    Variable fw : bytes -> Lst -> Val -> Lst * Val.

    (* c: the ghost Commit has been emitted already *)
    Fixpoint to_tx_from (c : bool) (sec : list gact) : list (act bytes N Val Lst) :=
      match sec with
      | [] => []
      | GAcq m l :: r => Acq m l :: to_tx_from c r
      | GRel l :: r => if c then Rel l :: to_tx_from true r
                       else Commit :: Rel l :: to_tx_from true r
      | GRd k :: r => Rd k (fr k) :: to_tx_from c r
      | GWr k :: r => Wr k (fw k) :: to_tx_from c r
      end.

    Definition to_tx (sec : list gact) : list (act bytes N Val Lst) := to_tx_from false sec.

    (* what to_tx does, stated without the flag: translate action by action, one Commit
       immediately before the first GRel *)
    Definition to_act (a : gact) : act bytes N Val Lst :=
      match a with
      | GAcq m l => Acq m l
      | GRel l => Rel l
      | GRd k => Rd k (fr k)
      | GWr k => Wr k (fw k)
      end.

    Definition is_rel (a : gact) : bool := match a with GRel _ => true | _ => false end.

    Lemma to_tx_from_true : forall sec, to_tx_from true sec = map to_act sec.
    Proof.
      induction sec as [| a sec IHsec]; simpl.
      - reflexivity.
      - destruct a as [m l | l | k | k]; simpl; rewrite IHsec; reflexivity.
    Qed.

    Lemma to_tx_no_rel : forall pre, forallb (fun a => negb (is_rel a)) pre = true ->
      forall post, to_tx_from false (pre ++ post) = map to_act pre ++ to_tx_from false post.
    Proof.
      induction pre as [| a pre IHpre]; intros Hpre post; simpl.
      - reflexivity.
      - simpl in Hpre. apply andb_prop in Hpre. destruct Hpre as [Ha Hpre].
        destruct a as [m l | l | k | k]; simpl in Ha |- *;
          try discriminate Ha; rewrite (IHpre Hpre); reflexivity.
    Qed.

    Theorem to_tx_spec : forall pre l post, forallb (fun a => negb (is_rel a)) pre = true ->
      to_tx (pre ++ GRel l :: post) = map to_act pre ++ Commit :: Rel l :: map to_act post.
    Proof.
      intros pre l post Hpre. unfold to_tx.
      rewrite (to_tx_no_rel pre Hpre). simpl. rewrite to_tx_from_true. reflexivity.
    Qed.

    Theorem to_tx_no_rel_spec : forall sec, forallb (fun a => negb (is_rel a)) sec = true ->
      to_tx sec = map to_act sec.
    Proof.
      intros sec Hsec. unfold to_tx.
      pose proof (to_tx_no_rel sec Hsec []) as H. rewrite app_nil_r in H.
      rewrite H. simpl. apply app_nil_r.
    Qed.

    Notation wlf := (wl_from bytes N Val Lst N.eqb (stripe nlocks)).
    Notation wlb := (wl bytes N Val Lst N.eqb (stripe nlocks)).

    Lemma forallb_lt_not_holds : forall (h : ghold) (l : N),
      forallb (fun p => N.ltb (fst p) l) h = true -> holds N N.eqb h l = false.
    Proof.
      intros h l. unfold holds. induction h as [| p h IHh]; simpl; intros Hlt.
      - reflexivity.
      - apply andb_prop in Hlt. destruct Hlt as [Hp Hlt].
        rewrite (IHh Hlt). apply N.ltb_lt in Hp.
        destruct (N.eqb_spec (fst p) l) as [Heq | Hne]; [lia | reflexivity].
    Qed.

    (* Main invariant.  The monitor state (h, rel) is the well-lockedness state (h, committed)
       inside a section: rel = "a release has happened in this section" = "Commit emitted". *)
    Lemma gmon_wl_from : forall (t : list gact) (h : ghold) (rel b : bool),
      gmon nlocks (h, rel) t = Some ([], b) ->
      match h with
      | [] => Forall (fun sec => wlb (to_tx sec) = true) (sections_from (h, rel) t)
      | _ :: _ => exists sec rest,
          sections_from (h, rel) t = sec :: rest /\
          wlf h rel (to_tx_from rel sec) = true /\
          Forall (fun sec => wlb (to_tx sec) = true) rest
      end.
    Proof.
      induction t as [| a t IHt]; intros h rel b Hmon.
      - simpl in Hmon. injection Hmon as Hh Hb. subst h. simpl. constructor.
      - cbn [gmon] in Hmon.
        destruct (gstep nlocks (h, rel) a) as [[h1 rel1] |] eqn:Hstep; [| discriminate Hmon].
        specialize (IHt h1 rel1 b Hmon).
        assert (Hsf : sections_from (h, rel) (a :: t) =
                      match h1 with
                      | [] => [a] :: sections_from (h1, rel1) t
                      | _ :: _ => match sections_from (h1, rel1) t with
                                  | [] => [[a]]
                                  | sec :: rest => (a :: sec) :: rest
                                  end
                      end).
        { rewrite sections_from_cons, Hstep. reflexivity. }
        destruct a as [m l | l | k | k]; simpl in Hstep.
        + (* acquire *)
          destruct (negb rel && forallb (fun q => N.ltb (fst q) l) h) eqn:Hc; [| discriminate Hstep].
          injection Hstep as Hh1 Hrel1. subst h1 rel1.
          apply andb_prop in Hc. destruct Hc as [Hrel Hlt].
          apply negb_true_iff in Hrel. subst rel.
          destruct IHt as [sec [rest [Hsec [Hwl Hrest]]]].
          rewrite Hsec in Hsf.
          assert (Hw : wlf h false (to_tx_from false (GAcq m l :: sec)) = true).
          { simpl. rewrite (forallb_lt_not_holds h l Hlt). simpl. exact Hwl. }
          destruct h as [| q h].
          * rewrite Hsf. constructor; [exact Hw | exact Hrest].
          * exists (GAcq m l :: sec), rest. split; [exact Hsf |]. split; [exact Hw | exact Hrest].
        + (* release *)
          destruct (gholds h l) eqn:Hh; [| discriminate Hstep].
          injection Hstep as Hh1 Hrel1. rewrite Hh1 in Hrel1.
          assert (Hho : holds N N.eqb h l = true) by exact Hh.
          assert (Hr : release N N.eqb h l = h1) by exact Hh1.
          destruct h as [| q h]; [simpl in Hh; discriminate Hh |].
          remember (q :: h) as h0 eqn:Hh0.
          destruct h1 as [| q1 h1].
          * (* the section ends here *)
            exists [GRel l], (sections_from ([], rel1) t).
            split; [exact Hsf |]. split; [| exact IHt].
            destruct rel; simpl; rewrite Hho, Hr; reflexivity.
          * destruct IHt as [sec [rest [Hsec [Hwl Hrest]]]].
            rewrite Hsec in Hsf.
            exists (GRel l :: sec), rest.
            split; [exact Hsf |]. split; [| exact Hrest].
            simpl in Hrel1. subst rel1.
            destruct rel; simpl; rewrite Hho, Hr; simpl; exact Hwl.
        + (* read *)
          destruct (gholds h (st nlocks k)) eqn:Hh; [| discriminate Hstep].
          injection Hstep as Hh1 Hrel1. subst h1 rel1.
          assert (Hho : holds N N.eqb h (stripe nlocks k) = true) by exact Hh.
          destruct h as [| q h]; [simpl in Hh; discriminate Hh |].
          destruct IHt as [sec [rest [Hsec [Hwl Hrest]]]].
          rewrite Hsec in Hsf.
          exists (GRd k :: sec), rest.
          split; [exact Hsf |]. split; [| exact Hrest].
          cbn [to_tx_from wl_from]. rewrite Hho. exact Hwl.
        + (* write *)
          destruct (gholds_w h (st nlocks k)) eqn:Hh; [| discriminate Hstep].
          injection Hstep as Hh1 Hrel1. subst h1 rel1.
          assert (Hho : holds_w N N.eqb h (stripe nlocks k) = true) by exact Hh.
          destruct h as [| q h]; [simpl in Hh; discriminate Hh |].
          destruct IHt as [sec [rest [Hsec [Hwl Hrest]]]].
          rewrite Hsec in Hsf.
          exists (GWr k :: sec), rest.
          split; [exact Hsf |]. split; [| exact Hrest].
          cbn [to_tx_from wl_from]. rewrite Hho. exact Hwl.
    Qed.

    Theorem gsafe_wl : forall t, gsafe nlocks t = true ->
      Forall (fun sec => wl bytes N Val Lst N.eqb (stripe nlocks) (to_tx sec) = true) (sections t).
    Proof.
      intros t Hsafe. destruct (gsafe_gmon t Hsafe) as [b Hmon].
      exact (gmon_wl_from t [] false b Hmon).
    Qed.
  End Tx.

  (* ---- the monitor is not vacuous ---- *)
  Example gsafe_ex_ok : forall k,
    gsafe nlocks [GAcq W (stripe nlocks k); GRd k; GWr k; GRel (stripe nlocks k)] = true.
  Proof.
    intros k. unfold gsafe, gmon, gstep, st. generalize (stripe nlocks k) as l. intros l.
    repeat (simpl; rewrite ?N.eqb_refl). reflexivity.
  Qed.

  Example gsafe_ex_bare_write : forall k, gsafe nlocks [GWr k] = false.
  Proof. intros k. reflexivity. Qed.

  Example gsafe_ex_write_under_rlock : forall k,
    gsafe nlocks [GAcq R (stripe nlocks k); GWr k; GRel (stripe nlocks k)] = false.
  Proof.
    intros k. unfold gsafe, gmon, gstep, st. generalize (stripe nlocks k) as l. intros l.
    simpl. rewrite andb_false_r. reflexivity.
  Qed.
End Bridge.

Print Assumptions gsafe_ordered.
Print Assumptions concat_sections.
Print Assumptions sections_gsafe.
Print Assumptions to_tx_spec.
Print Assumptions gsafe_wl.
Print Assumptions gsafe_ex_ok.
Print Assumptions gsafe_ex_bare_write.
Print Assumptions gsafe_ex_write_under_rlock.
