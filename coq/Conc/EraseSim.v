(* The lock actions of any run of a skeleton are the lock actions of a run of its erased
   (lock-only) skeleton: so the obligation [ordered_acquisition sk] (Conc/Skel.v), which is decided
   on [erase 64 sk], speaks about the runs of sk itself.

     depth_ok n l          : the nesting depth (EDefer / ELoop / EGo / EBranch) of l is below n,
                             i.e. [erase n l] never hits its fuel
     erase_er              : depth_ok n l = true -> erase n l = er l        (er: fuel-free erasure)
     erase_fuel_indep      : depth_ok n l = true -> depth_ok m l = true -> erase n l = erase m l
     exec_er               : exec clo r D evs r' D' t o ->
                             exists t', exec clo r (map er D) (er evs) r' (map er D') t' o /\
                                        lockprog t' = lockprog t
     erase_run             : depth_ok 64 sk = true -> run_of nlocks lower sk args t ->
                             exists t', run_of nlocks lower (erase 64 sk) args t' /\
                                        lockprog t' = lockprog t
     ordered_acquisition_sound :
                             depth_ok 64 sk = true -> ordered_acquisition sk = true ->
                             run_of nlocks lower sk args t -> ordered (lockprog t) = true *)
Require Import List String Bool Arith NArith.
Import ListNotations.
Require Import Base.Bytes Conc.TwoPLDefs Conc.DeadlockDefs Conc.LockModel Conc.Skel Conc.SkelSem
               Conc.GroundBridge Conc.SkelSound.

(* ---- nesting depth: exactly the recursion of [erase] ---- *)
Fixpoint depth_ok (n : nat) (l : list ev) : bool :=
  match n with
  | O => false
  | S n =>
      forallb (fun e =>
        match e with
        | EDefer b | ELoop b | EGo b => depth_ok n b
        | EBranch alts => forallb (depth_ok n) alts
        | _ => true
        end) l
  end.

(* ---- fuel-free erasure ---- *)
Fixpoint er1 (e : ev) : list ev :=
  match e with
  | EDb _ _ _ | ETtl _ _ _ | EVal _ _ _ | EDbAll _ _ => []
  | EDefer b => [EDefer (flat_map er1 b)]
  | ELoop b => [ELoop (flat_map er1 b)]
  | EGo b => [EGo (flat_map er1 b)]
  | EBranch alts => [EBranch (map (flat_map er1) alts)]
  | e => [e]
  end.

Definition er (l : list ev) : list ev := flat_map er1 l.

Lemma er_cons : forall e l, er (e :: l) = er1 e ++ er l.
Proof. reflexivity. Qed.

Lemma er_app : forall l l', er (l ++ l') = er l ++ er l'.
Proof. intros. unfold er. apply flat_map_app. Qed.

Lemma map_ext_forallb : forall (f g : list ev -> list ev) (p : list ev -> bool) l,
  (forall x, p x = true -> f x = g x) -> forallb p l = true -> map f l = map g l.
Proof.
  intros f g p l H. induction l as [| a l IH]; simpl; intros Hl; [reflexivity |].
  apply andb_true_iff in Hl. destruct Hl as [Ha Hl].
  rewrite (H a Ha), (IH Hl). reflexivity.
Qed.

Lemma erase_er : forall n l, depth_ok n l = true -> erase n l = er l.
Proof.
  induction n as [| n IHn]; intros l Hd; [discriminate Hd |].
  simpl in Hd. simpl erase. unfold er.
  induction l as [| e l IHl]; [reflexivity |].
  simpl in Hd. apply andb_true_iff in Hd. destruct Hd as [He Hl].
  simpl flat_map. rewrite (IHl Hl). f_equal.
  destruct e; try reflexivity; simpl.
  - rewrite (IHn _ He). reflexivity.
  - rewrite (map_ext_forallb (erase n) er (depth_ok n) alts IHn He). reflexivity.
  - rewrite (IHn _ He). reflexivity.
  - rewrite (IHn _ He). reflexivity.
Qed.

Lemma erase_fuel_indep : forall n m l,
  depth_ok n l = true -> depth_ok m l = true -> erase n l = erase m l.
Proof. intros n m l Hn Hm. rewrite (erase_er n l Hn), (erase_er m l Hm). reflexivity. Qed.

Lemma ordered_acquisition_eq : forall sk, ordered_acquisition sk = well_locked (erase 64 sk).
Proof. intros. unfold ordered_acquisition. reflexivity. Qed.

Lemma lockprog_app : forall t t', lockprog (t ++ t') = lockprog t ++ lockprog t'.
Proof. intros. unfold lockprog. apply flat_map_app. Qed.

Section EraseSim.
  Variable nlocks : N.
  Variable lower : bytes -> bytes.

  Notation exec := (exec nlocks lower).
  Notation exec1 := (exec1 nlocks lower).
  Notation unwind := (unwind nlocks lower).
  Notation run_of := (run_of nlocks lower).

  (* ---- sequencing of runs ---- *)
  Lemma exec_app : forall l1 l2 clo r D r1 D1 t1 r2 D2 t2 o,
    exec clo r D l1 r1 D1 t1 ONormal -> exec clo r1 D1 l2 r2 D2 t2 o ->
    exec clo r D (l1 ++ l2) r2 D2 (t1 ++ t2) o.
  Proof.
    induction l1 as [| e l1 IH]; intros l2 clo r D r1 D1 t1 r2 D2 t2 o H1 H2.
    - inversion H1; subst. exact H2.
    - inversion H1; subst.
      + rewrite <- app_assoc. simpl. eapply XCons; [eassumption |]. eapply IH; eassumption.
      + exfalso. auto.
  Qed.

  Lemma exec_app_stop : forall l1 l2 clo r D r1 D1 t1 o,
    exec clo r D l1 r1 D1 t1 o -> o <> ONormal -> exec clo r D (l1 ++ l2) r1 D1 t1 o.
  Proof.
    induction l1 as [| e l1 IH]; intros l2 clo r D r1 D1 t1 o H1 Ho.
    - inversion H1; subst. exfalso. auto.
    - inversion H1; subst.
      + simpl. eapply XCons; [eassumption |]. eapply IH; eassumption.
      + simpl. eapply XStop; eassumption.
  Qed.

  Lemma exec1_single : forall clo r D e r' D' t o,
    exec1 clo r D e r' D' t o -> exec clo r D [e] r' D' t o.
  Proof.
    intros clo r D e r' D' t o H. destruct o.
    - rewrite <- (app_nil_r t). eapply XCons; [exact H | apply XNil].
    - apply XStop; [exact H | discriminate].
    - apply XStop; [exact H | discriminate].
  Qed.

  Lemma exec_single_inv : forall clo r D e r' D' t o,
    exec clo r D [e] r' D' t o -> exec1 clo r D e r' D' t o.
  Proof.
    intros clo r D e r' D' t o H. inversion H; subst.
    - match goal with Hn : exec _ _ _ [] _ _ _ _ |- _ => inversion Hn; subst end.
      rewrite app_nil_r. assumption.
    - assumption.
  Qed.

  (* ---- the simulation ---- *)
  Scheme exec_mut := Minimality for SkelSem.exec Sort Prop
    with exec1_mut := Minimality for SkelSem.exec1 Sort Prop
    with unwind_mut := Minimality for SkelSem.unwind Sort Prop.
  Combined Scheme exec_mutind from exec_mut, exec1_mut, unwind_mut.

  Let P (clo : bool) (r : env) (D : list (list ev)) (evs : list ev) (r' : env)
        (D' : list (list ev)) (t : list gact) (o : outcome) : Prop :=
    exists t', exec clo r (map er D) (er evs) r' (map er D') t' o /\ lockprog t' = lockprog t.
  Let P1 (clo : bool) (r : env) (D : list (list ev)) (e : ev) (r' : env)
         (D' : list (list ev)) (t : list gact) (o : outcome) : Prop :=
    exists t', exec clo r (map er D) (er1 e) r' (map er D') t' o /\ lockprog t' = lockprog t.
  Let PU (r : env) (D : list (list ev)) (r' : env) (t : list gact) : Prop :=
    exists t', unwind r (map er D) r' t' /\ lockprog t' = lockprog t.

  Lemma sim_all :
    (forall clo r D evs r' D' t o, exec clo r D evs r' D' t o -> P clo r D evs r' D' t o) /\
    (forall clo r D e r' D' t o, exec1 clo r D e r' D' t o -> P1 clo r D e r' D' t o) /\
    (forall r D r' t, unwind r D r' t -> PU r D r' t).
  Proof.
    apply (exec_mutind nlocks lower P P1 PU); unfold P, P1, PU; intros.
    - (* XNil *) exists []. split; [apply XNil | reflexivity].
    - (* XCons *)
      destruct H0 as (t1' & Hx1 & Hl1). destruct H2 as (t2' & Hx2 & Hl2).
      exists (t1' ++ t2'). split.
      + rewrite er_cons. eapply exec_app; eassumption.
      + rewrite !lockprog_app, Hl1, Hl2. reflexivity.
    - (* XStop *)
      destruct H0 as (t1' & Hx1 & Hl1). exists t1'. split; [| exact Hl1].
      rewrite er_cons. apply exec_app_stop; assumption.
    - (* X1Lock *) eexists. split; [apply exec1_single; eapply X1Lock; eassumption | reflexivity].
    - (* X1Unlock *) eexists. split; [apply exec1_single; eapply X1Unlock; eassumption | reflexivity].
    - (* X1LockMulti *)
      eexists. split; [apply exec1_single; eapply X1LockMulti; eassumption | reflexivity].
    - (* X1UnlockMulti *)
      eexists. split; [apply exec1_single; eapply X1UnlockMulti; eassumption | reflexivity].
    - (* X1Defer *)
      eexists. split; [apply exec1_single; simpl; apply (X1Defer nlocks lower clo r (map er D) (er b)) | reflexivity].
    - (* X1Db *) exists []. split; [apply XNil | destruct a; reflexivity].
    - (* X1DbAll *) exists []. split; [apply XNil | reflexivity].
    - (* X1Ttl *) exists []. split; [apply XNil | destruct a; reflexivity].
    - (* X1Val *) exists []. split; [apply XNil | destruct a; reflexivity].
    - (* X1CheckLive *) eexists. split; [apply exec1_single; apply X1CheckLive | reflexivity].
    - (* X1CheckExpired *)
      eexists. split; [apply exec1_single; eapply X1CheckExpired; eassumption | reflexivity].
    - (* X1Bind *) eexists. split; [apply exec1_single; apply X1Bind | reflexivity].
    - (* X1Return *)
      destruct H0 as (t' & Hu & Hl). exists t'. split; [| exact Hl].
      apply exec1_single. apply (X1Return nlocks lower r (map er D) r' t' Hu).
    - (* X1ReturnClo *) eexists. split; [apply exec1_single; apply X1ReturnClo | reflexivity].
    - (* X1Jump *) eexists. split; [apply exec1_single; apply X1Jump | reflexivity].
    - (* X1Branch *)
      destruct H1 as (t' & Hx & Hl). exists t'. split; [| exact Hl].
      apply exec1_single. simpl.
      apply (X1Branch nlocks lower clo r (map er D) (map er alts) (er alt) r' (map er D') t' o);
        [apply in_map; assumption | exact Hx].
    - (* X1LoopDone *) eexists. split; [apply exec1_single; apply X1LoopDone | reflexivity].
    - (* X1LoopIter *)
      destruct H0 as (t1' & Hx1 & Hl1). destruct H3 as (t2' & Hx2 & Hl2).
      exists (t1' ++ t2'). split.
      + apply exec1_single. simpl. simpl in Hx2. apply exec_single_inv in Hx2.
        eapply X1LoopIter; [exact Hx1 | assumption | exact Hx2].
      + rewrite !lockprog_app, Hl1, Hl2. reflexivity.
    - (* X1LoopReturn *)
      destruct H0 as (t1' & Hx1 & Hl1). exists t1'. split; [| exact Hl1].
      apply exec1_single. simpl. apply X1LoopReturn. exact Hx1.
    - (* X1Go *) eexists. split; [apply exec1_single; simpl; apply X1Go | reflexivity].
    - (* UNil *) exists []. split; [apply UNil | reflexivity].
    - (* UCons *)
      destruct H0 as (t1' & Hx1 & Hl1). destruct H3 as (t2' & Hu2 & Hl2).
      exists (t1' ++ t2'). split.
      + simpl. eapply UCons; [exact Hx1 | assumption | exact Hu2].
      + rewrite !lockprog_app, Hl1, Hl2. reflexivity.
  Qed.

  Theorem exec_er : forall clo r D evs r' D' t o,
    exec clo r D evs r' D' t o ->
    exists t', exec clo r (map er D) (er evs) r' (map er D') t' o /\ lockprog t' = lockprog t.
  Proof. exact (proj1 sim_all). Qed.

  Theorem unwind_er : forall r D r' t,
    unwind r D r' t -> exists t', unwind r (map er D) r' t' /\ lockprog t' = lockprog t.
  Proof. exact (proj2 (proj2 sim_all)). Qed.

  Theorem er_run : forall sk args t,
    run_of sk args t -> exists t', run_of (er sk) args t' /\ lockprog t' = lockprog t.
  Proof.
    intros sk args t (kv & sv & r' & D' & o & Hx).
    destruct (exec_er _ _ _ _ _ _ _ _ Hx) as (t' & Hx' & Hl).
    exists t'. split; [| exact Hl].
    exists kv, sv, r', (map er D'), o. rewrite er_app in Hx'. exact Hx'.
  Qed.

  Theorem erase_run : forall sk args t,
    depth_ok 64 sk = true -> run_of sk args t ->
    exists t', run_of (erase 64 sk) args t' /\ lockprog t' = lockprog t.
  Proof.
    intros sk args t Hd Hr. rewrite (erase_er 64 sk Hd). apply er_run. exact Hr.
  Qed.

  Theorem ordered_acquisition_sound : forall sk args t,
    depth_ok 64 sk = true -> ordered_acquisition sk = true ->
    run_of sk args t -> ordered (lockprog t) = true.
  Proof.
    intros sk args t Hd Ho Hr.
    destruct (erase_run sk args t Hd Hr) as (t' & Hr' & Hl).
    rewrite <- Hl. apply (gsafe_ordered nlocks).
    rewrite ordered_acquisition_eq in Ho.
    apply (well_locked_sound nlocks lower (erase 64 sk) args t'); [exact Ho | exact Hr'].
  Qed.
End EraseSim.

Print Assumptions erase_er.
Print Assumptions exec_er.
Print Assumptions erase_run.
Print Assumptions ordered_acquisition_sound.
