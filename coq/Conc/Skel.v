(* Lock skeletons of the memdb executors and their abstract interpreter (DESIGN.md 2.3 (T), A.3).

   The translator (translator/, Go, go/ast) regenerates from VERIF_REPO's memdb/*.go, on every
   check, one skeleton per registered command: the tree of lock events, keyspace accesses,
   returns, defers, branches and loops of its executor, with symbolic key expressions.
   This file is the grammar plus the boolean checker [well_locked] that decides, by abstract
   interpretation over all paths of a skeleton, that

     (a) every access to key k's slot (m.db), deadline (m.ttlKeys, SetTTL, DelTTL) or value
         object happens while a lock covering stripe(k) is held -- in W mode for a write;
     (b) locks are taken only when nothing is held (one Lock/RLock or ONE *Multi call per
         critical section; CheckTTL, which locks internally, only outside a section):
         so every section is two-phase and acquisitions follow the sorted order of LockMulti;
     (c) every exit path (return, end of function; deferred calls run LIFO) releases everything;
     (d) a variable mentioned by a held lock or a pending defer is not reassigned meanwhile;
     (e) nothing unclassifiable ([EUnknown]) occurs.

   An executor may consist of several sections in sequence (MGET, multi-key DEL/EXISTS, BLPOP
   polling, the *STORE forms): [single_section] tells; the obligations require it for every
   command outside an explicit list of commands the properties do not require to be atomic. *)
Require Import List String Bool Arith.
Import ListNotations.
Require Import Conc.TwoPLDefs.   (* mode R | W *)
Local Open Scope string_scope.

(* ---- key expressions ---- *)
Inductive kset :=
| SArgs (from drop : nat)      (* the keys cmd[from : len(cmd)-drop] *)
| SVar (x : string)            (* a []string variable filled by the executor *)
| SUnknown.

Inductive kexpr :=
| KArg (i : nat)               (* string(cmd[i]) *)
| KLower (e : kexpr)           (* strings.ToLower(e) *)
| KVar (x : string)            (* a string variable, fixed until its next EBind *)
| KIn (x : string) (s : kset)  (* a variable known to hold an element of s (range variable) *)
| KIdx (s : kset)              (* s[i]: some element of s *)
| KUnknown.

Inductive ktarget := TKey (k : kexpr) | TSet (s : kset).

Inductive acc := ARead | AWrite.

Inductive ev :=
| ELock (m : mode) (k : kexpr)
| EUnlock (m : mode) (k : kexpr)
| ELockMulti (m : mode) (ts : list ktarget)
| EUnlockMulti (m : mode) (ts : list ktarget)
| EDefer (body : list ev)
| EDb (a : acc) (op : string) (k : kexpr)      (* m.db.<op>(k, ...) *)
| EDbAll (a : acc) (op : string)               (* m.db.Keys() / Len() / KeyVals(): whole map *)
| ETtl (a : acc) (op : string) (k : kexpr)     (* m.ttlKeys.<op>(k), m.SetTTL, m.DelTTL *)
| EVal (a : acc) (op : string) (k : kexpr)     (* method call / field access on the value stored at k *)
| ECheckTTL (k : kexpr)                        (* m.CheckTTL(k): takes and releases stripe(k) itself *)
| EBind (x : string)                           (* variable x is (re)assigned *)
| EReturn
| EJump                                        (* break / continue of the innermost loop *)
| EBranch (alts : list (list ev))              (* if / switch / select *)
| ELoop (body : list ev)                       (* for / range / callback run any number of times *)
| EGo (body : list ev)                         (* go func() {...}() *)
| EUnknown (why : string).

(* ---- decidable equalities ---- *)
Definition kset_eqb (a b : kset) : bool :=
  match a, b with
  | SArgs f d, SArgs f' d' => Nat.eqb f f' && Nat.eqb d d'
  | SVar x, SVar y => String.eqb x y
  | _, _ => false                         (* SUnknown equals nothing, not even itself *)
  end.

Fixpoint kexpr_eqb (a b : kexpr) : bool :=
  match a, b with
  | KArg i, KArg j => Nat.eqb i j
  | KLower e, KLower f => kexpr_eqb e f
  | KVar x, KVar y => String.eqb x y
  | KIn x s, KIn y t => String.eqb x y && kset_eqb s t
  | _, _ => false                         (* KIdx / KUnknown equal nothing *)
  end.

Definition ktarget_eqb (a b : ktarget) : bool :=
  match a, b with
  | TKey k, TKey k' => kexpr_eqb k k'
  | TSet s, TSet s' => kset_eqb s s'
  | _, _ => false
  end.

Fixpoint list_eqb {A} (eqb : A -> A -> bool) (l l' : list A) : bool :=
  match l, l' with
  | [], [] => true
  | a :: r, b :: r' => eqb a b && list_eqb eqb r r'
  | _, _ => false
  end.

Definition mode_leb (need have : mode) : bool :=
  match need, have with W, R => false | _, _ => true end.

Definition need_of (a : acc) : mode := match a with ARead => R | AWrite => W end.

(* an expression one may lock on: denotes one definite key between two EBinds *)
Definition kset_known (s : kset) : bool := match s with SUnknown => false | _ => true end.
Fixpoint kexpr_stable (k : kexpr) : bool :=
  match k with
  | KArg _ | KVar _ => true
  | KLower e => kexpr_stable e
  | KIn _ s => kset_known s
  | KIdx _ | KUnknown => false
  end.
Definition ktarget_ok (t : ktarget) : bool :=
  match t with TKey k => kexpr_stable k | TSet s => kset_known s end.

(* does holding [t] cover an access to [k]? *)
Definition covers1 (t : ktarget) (k : kexpr) : bool :=
  match t with
  | TKey k' => kexpr_eqb k' k
  | TSet s =>
      match k with
      | KIn _ s' | KIdx s' => kset_eqb s s'
      | KArg i => match s with SArgs f 0 => Nat.leb f i | _ => false end
      | _ => false
      end
  end.

Definition hentry := (mode * list ktarget)%type.

Definition covered (h : list hentry) (a : acc) (k : kexpr) : bool :=
  existsb (fun e => mode_leb (need_of a) (fst e) && existsb (fun t => covers1 t k) (snd e)) h.

(* which variables an expression mentions *)
Definition kset_mentions (x : string) (s : kset) : bool :=
  match s with SVar y => String.eqb x y | _ => false end.
Fixpoint kexpr_mentions (x : string) (k : kexpr) : bool :=
  match k with
  | KVar y => String.eqb x y
  | KLower e => kexpr_mentions x e
  | KIn y s => String.eqb x y || kset_mentions x s
  | KIdx s => kset_mentions x s
  | _ => false
  end.
Definition ktarget_mentions (x : string) (t : ktarget) : bool :=
  match t with TKey k => kexpr_mentions x k | TSet s => kset_mentions x s end.

Fixpoint ev_mentions (fuel : nat) (x : string) (e : ev) : bool :=
  match fuel with
  | O => true
  | S fuel =>
      let many := existsb (ev_mentions fuel x) in
      match e with
      | ELock _ k | EUnlock _ k | EDb _ _ k | ETtl _ _ k | EVal _ _ k | ECheckTTL k => kexpr_mentions x k
      | ELockMulti _ ts | EUnlockMulti _ ts => existsb (ktarget_mentions x) ts
      | EDefer b | ELoop b | EGo b => many b
      | EBranch alts => existsb many alts
      | EBind y => String.eqb x y
      | _ => false
      end
  end.

(* ---- abstract state ---- *)
Record ast := mkA {
  a_held : list hentry;            (* lock groups held, most recent first *)
  a_defers : list (list ev);       (* pending deferred calls, most recent first *)
  a_rel : bool;                    (* something was released while something else is still held *)
  a_closed : bool                  (* a critical section has already been completed *)
}.

Definition a0 : ast := mkA [] [] false false.

Definition hentry_eqb (a b : hentry) : bool :=
  mode_eqb (fst a) (fst b) && list_eqb ktarget_eqb (snd a) (snd b).

(* sizes, for fuel and for comparing deferred bodies cheaply *)
Fixpoint ev_size (fuel : nat) (e : ev) : nat :=
  match fuel with
  | O => 1
  | S fuel =>
      let many l := fold_right (fun e n => ev_size fuel e + n) 0 l in
      match e with
      | EDefer b | ELoop b | EGo b => 1 + many b
      | EBranch alts => 1 + fold_right (fun l n => 1 + many l + n) 0 alts
      | _ => 1
      end
  end.

(* structural equality of events (needed to compare the defer stacks at joins) *)
Definition acc_eqb (a b : acc) : bool :=
  match a, b with ARead, ARead | AWrite, AWrite => true | _, _ => false end.

Fixpoint ev_eqb (fuel : nat) (a b : ev) : bool :=
  match fuel with
  | O => false
  | S fuel =>
      let many := list_eqb (ev_eqb fuel) in
      match a, b with
      | ELock m k, ELock m' k' | EUnlock m k, EUnlock m' k' => mode_eqb m m' && kexpr_eqb k k'
      | ELockMulti m t, ELockMulti m' t' | EUnlockMulti m t, EUnlockMulti m' t' =>
          mode_eqb m m' && list_eqb ktarget_eqb t t'
      | EDefer x, EDefer y | ELoop x, ELoop y | EGo x, EGo y => many x y
      | EDb c o k, EDb c' o' k' | ETtl c o k, ETtl c' o' k' | EVal c o k, EVal c' o' k' =>
          acc_eqb c c' && String.eqb o o' && kexpr_eqb k k'
      | EDbAll c o, EDbAll c' o' => acc_eqb c c' && String.eqb o o'
      | ECheckTTL k, ECheckTTL k' => kexpr_eqb k k'
      | EBind x, EBind y => String.eqb x y
      | EReturn, EReturn | EJump, EJump => true
      | EBranch x, EBranch y => list_eqb many x y
      | _, _ => false
      end
  end.

Definition same_state (fuel : nat) (a b : ast) : bool :=
  list_eqb hentry_eqb (a_held a) (a_held b) &&
  list_eqb (list_eqb (ev_eqb fuel)) (a_defers a) (a_defers b) &&
  Bool.eqb (a_rel a) (a_rel b).

(* ---- results ---- *)
Inductive res :=
| Fail (why : string)
| Falls (s : ast)        (* control reaches the end of the event list in state s *)
| Exits.                 (* every path returned (having released everything) or jumped *)

Record flags := mkF {
  f_resec : bool;        (* a lock was taken after an earlier section had been completed *)
  f_snap : bool          (* a whole-map operation (Keys, Len, KeyVals) is used *)
}.
Definition f0 := mkF false false.
Definition f_or (a b : flags) := mkF (f_resec a || f_resec b) (f_snap a || f_snap b).

Definition remove_entry (e : hentry) (h : list hentry) : option (list hentry) :=
  (fix go (h : list hentry) : option (list hentry) :=
     match h with
     | [] => None
     | x :: r => if hentry_eqb x e then Some r
                 else match go r with Some r' => Some (x :: r') | None => None end
     end) h.

Definition has_release (fuel : nat) (l : list ev) : bool :=
  existsb (fun e => (fix hr (fuel : nat) (e : ev) : bool :=
     match fuel with
     | O => true
     | S fuel =>
         match e with
         | EUnlock _ _ | EUnlockMulti _ _ => true
         | EDefer b | ELoop b | EGo b => existsb (hr fuel) b
         | EBranch alts => existsb (existsb (hr fuel)) alts
         | _ => false
         end
     end) fuel e) l.

Definition has_lock_ev (fuel : nat) (l : list ev) : bool :=
  existsb (fun e => (fix hl (fuel : nat) (e : ev) : bool :=
     match fuel with
     | O => true
     | S fuel =>
         match e with
         | ELock _ _ | ELockMulti _ _ | EUnlock _ _ | EUnlockMulti _ _ | ECheckTTL _
         | EDefer _ | EGo _ | EUnknown _ => true
         | ELoop b => existsb (hl fuel) b
         | EBranch alts => existsb (existsb (hl fuel)) alts
         | _ => false
         end
     end) fuel e) l.

Definition acquire (s : ast) (m : mode) (ts : list ktarget) : res * flags :=
  if negb (forallb ktarget_ok ts) then (Fail "lock on an unknown or unstable key expression", f0)
  else match a_held s with
       | _ :: _ => (Fail "lock acquired while another is held (not through one *Multi call)", f0)
       | [] => (Falls (mkA [(m, ts)] (a_defers s) false (a_closed s)), mkF (a_closed s) false)
       end.

Definition release_st (s : ast) (m : mode) (ts : list ktarget) : res * flags :=
  match remove_entry (m, ts) (a_held s) with
  | None => (Fail "unlock of a lock that is not held (or held under another expression / mode)", f0)
  | Some [] => (Falls (mkA [] (a_defers s) false true), f0)
  | Some h => (Falls (mkA h (a_defers s) true (a_closed s)), f0)
  end.

Definition access (s : ast) (a : acc) (op : string) (k : kexpr) : res * flags :=
  if covered (a_held s) a k then (Falls s, f0)
  else (Fail (match a_held s with
              | [] => "access without the key's lock: " ++ op
              | _ => "access not covered by the held locks (other key or read lock for a write): " ++ op
              end), f0).

(* join of the fall-through states of the alternatives of a branch *)
Fixpoint join (fuel : nat) (acc : option ast) (rs : list res) : res :=
  match rs with
  | [] => match acc with Some s => Falls s | None => Exits end
  | Fail w :: _ => Fail w
  | Exits :: r => join fuel acc r
  | Falls s :: r =>
      match acc with
      | None => join fuel (Some s) r
      | Some s0 =>
          if same_state fuel s0 s
          then join fuel (Some (mkA (a_held s0) (a_defers s0) (a_rel s0) (a_closed s0 || a_closed s))) r
          else Fail "branches leave different locks held / defers pending"
      end
  end.

(* ---- the interpreter ---- *)
Fixpoint interp (fuel : nat) (loop : option ast) (s : ast) (l : list ev) {struct fuel} : res * flags :=
  match fuel with
  | O => (Fail "fuel", f0)
  | S fuel =>
      match l with
      | [] => (Falls s, f0)
      | e :: rest =>
          let continue (r : res * flags) : res * flags :=
            match r with
            | (Falls s', fl) => let (r2, fl2) := interp fuel loop s' rest in (r2, f_or fl fl2)
            | other => other
            end in
          (* run the deferred calls, most recent first, then require that nothing is held *)
          let unwind :=
            (fix unwind (n : nat) (s : ast) : res * flags :=
               match n with
               | O => (Fail "fuel", f0)
               | S n =>
                   match a_defers s with
                   | [] => match a_held s with
                           | [] => (Exits, f0)
                           | _ => (Fail "exit path with a lock still held", f0)
                           end
                   | d :: ds =>
                       let s1 := mkA (a_held s) ds (a_rel s) (a_closed s) in
                       match interp fuel None s1 d with
                       | (Falls s2, fl) => let (r, fl2) := unwind n s2 in (r, f_or fl fl2)
                       | (Exits, fl) =>
                           if has_lock_ev fuel d then (Fail "deferred closure returns early around lock calls", fl)
                           else let (r, fl2) := unwind n s1 in (r, f_or fl fl2)
                       | (Fail w, fl) => (Fail w, fl)
                       end
                   end
               end) in
          match e with
          | ELock m k => continue (acquire s m [TKey k])
          | ELockMulti m ts => continue (acquire s m ts)
          | EUnlock m k => continue (release_st s m [TKey k])
          | EUnlockMulti m ts => continue (release_st s m ts)
          | EDefer b => continue (Falls (mkA (a_held s) (b :: a_defers s) (a_rel s) (a_closed s)), f0)
          | EDb a op k => continue (access s a ("db." ++ op) k)
          | ETtl a op k => continue (access s a ("ttl." ++ op) k)
          | EVal a op k => continue (access s a ("value." ++ op) k)
          | EDbAll _ _ => continue (Falls s, mkF false true)
          | ECheckTTL k =>
              match a_held s with
              | [] => continue (Falls s, f0)
              | _ => (Fail "CheckTTL (locks internally) called while a lock is held", f0)
              end
          | EBind x =>
              if existsb (fun h => existsb (ktarget_mentions x) (snd h)) (a_held s)
                 || existsb (existsb (ev_mentions fuel x)) (a_defers s)
              then (Fail ("variable reassigned while a held lock or pending defer mentions it: " ++ x), f0)
              else continue (Falls s, f0)
          | EReturn => unwind (S (List.length (a_defers s))) s
          | EJump =>
              match loop with
              | Some s0 => if same_state fuel s0 s then (Exits, f0)
                           else (Fail "break/continue with different locks held than at loop entry", f0)
              | None => (Fail "break/continue outside a loop", f0)
              end
          | EBranch alts =>
              let rs := map (interp fuel loop s) alts in
              continue (join fuel None (map fst rs), fold_right (fun r f => f_or (snd r) f) f0 rs)
          | ELoop b =>
              let s1 := mkA (a_held s) (a_defers s) (a_rel s) (a_closed s || has_release fuel b) in
              match interp fuel (Some s1) s1 b with
              | (Fail w, fl) => (Fail w, fl)
              | (Exits, fl) => continue (Falls s1, fl)
              | (Falls s2, fl) =>
                  if same_state fuel s1 s2 then continue (Falls s1, fl)
                  else (Fail "loop body changes the locks held / defers pending", fl)
              end
          | EGo b =>
              match interp fuel None a0 (b ++ [EReturn]) with
              | (Exits, fl) => continue (Falls s, fl)
              | (Fail w, fl) => (Fail ("in goroutine: " ++ w), fl)
              | (Falls _, fl) => (Fail "goroutine body falls through", fl)
              end
          | EUnknown w => (Fail ("unclassified: " ++ w), f0)
          end
      end
  end.

Definition sk_size (l : list ev) : nat := fold_right (fun e n => ev_size 64 e + n) 0 l.
Definition fuel_of (l : list ev) : nat := 3 * sk_size l + 16.

Definition run_sk (l : list ev) : res * flags := interp (fuel_of l) None a0 (l ++ [EReturn]).

Definition well_locked (l : list ev) : bool :=
  match fst (run_sk l) with Exits => true | _ => false end.

Definition why_not (l : list ev) : string :=
  match fst (run_sk l) with Fail w => w | Exits => "" | Falls _ => "falls through" end.

Definition single_section (l : list ev) : bool :=
  negb (f_resec (snd (run_sk l))) && negb (f_snap (snd (run_sk l))).

(* lock discipline only: erase the data events and check that acquisitions happen with nothing
   held, releases match, every exit releases -- what deadlock freedom needs (A.4) *)
Fixpoint erase (fuel : nat) (l : list ev) : list ev :=
  match fuel with
  | O => [EUnknown "fuel"]
  | S fuel =>
      flat_map (fun e =>
        match e with
        | EDb _ _ _ | ETtl _ _ _ | EVal _ _ _ | EDbAll _ _ => []
        | EDefer b => [EDefer (erase fuel b)]
        | ELoop b => [ELoop (erase fuel b)]
        | EGo b => [EGo (erase fuel b)]
        | EBranch alts => [EBranch (map (erase fuel) alts)]
        | e => [e]
        end) l
  end.

Definition ordered_acquisition (l : list ev) : bool := well_locked (erase 64 l).

(* ---- helper bodies (SetTTL, DelTTL): run with the key's write lock assumed held ---- *)
Definition helper_ok (param : string) (l : list ev) : bool :=
  let k := KVar param in
  let s := mkA [(W, [TKey k])] [[EUnlock W k]] false false in   (* the caller's lock and its release *)
  match interp (fuel_of l) None s (l ++ [EReturn]) with
  | (Exits, _) => true
  | _ => false
  end.

(* CheckTTL itself: an optimistic unlocked look at the deadline (used only to return early
   without doing anything), then everything again under the key's write lock *)
Definition checkttl_ok (l : list ev) : bool :=
  match l with
  | ETtl ARead _ k :: rest =>
      well_locked rest &&
      existsb (fun e => match e with ELock W k' => kexpr_eqb k k' | _ => false end) rest
  | _ => false
  end.
