(* Soundness of the lock-skeleton abstract interpreter (Conc/Skel.v) with respect to the ground
   semantics of skeletons and the action monitor (Conc/SkelSem.v).

     well_locked_sound :
       well_locked sk = true -> run_of nlocks lower sk args t -> gsafe nlocks t = true
     go_bodies_sound :
       well_locked sk = true -> In b (go_bodies sk) -> run_of nlocks lower b args t ->
       gsafe nlocks t = true
     go_bodies_all_sound : the same for [live (gbs true) sk] under [neb sk = true]

   Proof of the first: a simulation [Sim] between (environment, defer stack, monitor state) and
   the abstract state -- nothing held and the monitor at ([], false), or exactly one held group
   (m, ts) whose targets denote keys and the monitor holding [poses keys] in mode m -- preserved by
   every event; induction on the interpreter's fuel ([sound_all]), with a nested induction on the
   derivation for loops ([loop_sound]) and on the unwinding fuel for returns ([unwindA_sound]).
   A return inside a deferred closure is covered because the interpreter, at that return, already
   unwinds the calls still pending there ([SafeUnw] in [Post]); the [has_lock_ev] test of the
   interpreter is not needed for this semantics.

   [go_bodies sk]: the bodies of the [EGo] events of the live code of sk at any depth -- inside
   loops, alternatives of branches, goroutine bodies, and deferred calls.  Two restrictions, both
   necessary:
     - code after an event at which the interpreter stops ([stops]: return, break / continue, a
       branch all of whose alternatives stop) is not interpreted, so it is not collected:
       [EReturn; EGo [ELock W (KArg 1)]] is well locked;
     - deferred calls are interpreted when a return unwinds them; a branch without alternatives
       stops the interpreter without any unwinding (and has no run), so
       [EDefer [EGo [ELock W (KArg 1)]]; EBranch []] is well locked.  Goroutines started by
       deferred calls are therefore collected only if no such branch occurs ([neb sk]).
   The translator emits nothing after return / break / continue; [neb] is a boolean that the
   obligations can evaluate on the generated skeletons.
   Proof: [G_all], backwards over the interpreter: if the deferred calls pending where a list
   ends have only checked goroutines, so have those pending where it starts and the list itself.

   No axioms. *)
Require Import List String Bool Arith NArith Lia.
Require Import Sorting.Sorted.
Import ListNotations.
Require Import Base.Bytes Conc.TwoPLDefs Conc.Skel Conc.LockModel Conc.LockOrder Conc.SkelSem.

(* ================================================================================================ *)
(* 1. the boolean equalities of Skel.v imply Leibniz equality                                       *)
(* ================================================================================================ *)

Lemma mode_eqb_eq a b : mode_eqb a b = true -> a = b.
Proof. destruct a, b; simpl; congruence. Qed.

Lemma acc_eqb_eq a b : acc_eqb a b = true -> a = b.
Proof. destruct a, b; simpl; congruence. Qed.

Lemma kset_eqb_eq a b : kset_eqb a b = true -> a = b.
Proof.
  destruct a as [f d | x | ], b as [f' d' | y | ]; simpl; try discriminate; intros H.
  - apply andb_true_iff in H. destruct H as [H1 H2].
    apply Nat.eqb_eq in H1. apply Nat.eqb_eq in H2. congruence.
  - apply String.eqb_eq in H. congruence.
Qed.

Lemma kexpr_eqb_eq a : forall b, kexpr_eqb a b = true -> a = b.
Proof.
  induction a as [i | e IHe | x | x s | s | ]; intros b H; destruct b; simpl in H; try discriminate.
  - apply Nat.eqb_eq in H. congruence.
  - f_equal. apply IHe. exact H.
  - apply String.eqb_eq in H. congruence.
  - apply andb_true_iff in H. destruct H as [H1 H2].
    apply String.eqb_eq in H1. apply kset_eqb_eq in H2. congruence.
Qed.

Lemma ktarget_eqb_eq a b : ktarget_eqb a b = true -> a = b.
Proof.
  destruct a, b; simpl; try discriminate; intros H.
  - apply kexpr_eqb_eq in H. congruence.
  - apply kset_eqb_eq in H. congruence.
Qed.

Lemma list_eqb_eq {A} (eqb : A -> A -> bool) :
  (forall a b, eqb a b = true -> a = b) -> forall l l', list_eqb eqb l l' = true -> l = l'.
Proof.
  intros Heq. induction l as [|a l IH]; intros [|b l'] H; simpl in H; try discriminate.
  - reflexivity.
  - apply andb_true_iff in H. destruct H as [H1 H2]. f_equal; [apply Heq; exact H1 | apply IH; exact H2].
Qed.

Lemma hentry_eqb_eq a b : hentry_eqb a b = true -> a = b.
Proof.
  destruct a as [m ts], b as [m' ts']. unfold hentry_eqb. simpl. intros H.
  apply andb_true_iff in H. destruct H as [H1 H2].
  apply mode_eqb_eq in H1. apply (list_eqb_eq _ ktarget_eqb_eq) in H2. congruence.
Qed.

Ltac eqb_clean :=
  repeat match goal with
  | H : (_ && _)%bool = true |- _ => apply andb_true_iff in H; destruct H
  | H : mode_eqb _ _ = true |- _ => apply mode_eqb_eq in H
  | H : acc_eqb _ _ = true |- _ => apply acc_eqb_eq in H
  | H : kexpr_eqb _ _ = true |- _ => apply kexpr_eqb_eq in H
  | H : String.eqb _ _ = true |- _ => apply String.eqb_eq in H
  | H : list_eqb ktarget_eqb _ _ = true |- _ => apply (list_eqb_eq _ ktarget_eqb_eq) in H
  end.

Lemma ev_eqb_eq n : forall a b, ev_eqb n a b = true -> a = b.
Proof.
  induction n as [|n IH]; intros a b H; [discriminate|].
  destruct a, b; simpl in H; try discriminate; eqb_clean; subst; try reflexivity.
  - apply (list_eqb_eq _ IH) in H. congruence.
  - apply (list_eqb_eq _ (list_eqb_eq _ IH)) in H. congruence.
  - apply (list_eqb_eq _ IH) in H. congruence.
  - apply (list_eqb_eq _ IH) in H. congruence.
Qed.

Lemma same_state_eq n a b :
  same_state n a b = true -> a_held a = a_held b /\ a_defers a = a_defers b.
Proof.
  unfold same_state. intros H.
  apply andb_true_iff in H. destruct H as [H _].
  apply andb_true_iff in H. destruct H as [H1 H2].
  apply (list_eqb_eq _ hentry_eqb_eq) in H1.
  apply (list_eqb_eq _ (list_eqb_eq _ (ev_eqb_eq n))) in H2. auto.
Qed.

(* ================================================================================================ *)
(* 2. the interpreter, one event at a time                                                          *)
(* ================================================================================================ *)

Definition nofail (x : res) : Prop := match x with Fail _ => False | _ => True end.

Definition cont (f : nat) (loop : option ast) (rest : list ev) (r : res * flags) : res * flags :=
  match r with
  | (Falls s', fl) => let (r2, fl2) := interp f loop s' rest in (r2, f_or fl fl2)
  | other => other
  end.

(* the interpreter's local [unwind], with the fuel [f] of the bodies as a parameter *)
Definition unwindA (f : nat) : nat -> ast -> res * flags :=
  fix unwindA (n : nat) (s : ast) {struct n} : res * flags :=
  match n with
  | O => (Fail "fuel", f0)
  | S n =>
      match a_defers s with
      | [] => match a_held s with
              | [] => (Exits, f0)
              | _ => (Fail "exit path with a lock still held", f0)
              end
      | d :: ds =>
          let s1 := mkA (a_held s) ds (a_rel s) (a_closed s) in
          match interp f None s1 d with
          | (Falls s2, fl) => let (r, fl2) := unwindA n s2 in (r, f_or fl fl2)
          | (Exits, fl) =>
              if has_lock_ev f d then (Fail "deferred closure returns early around lock calls", fl)
              else let (r, fl2) := unwindA n s1 in (r, f_or fl fl2)
          | (Fail w, fl) => (Fail w, fl)
          end
      end
  end.

Definition istep (f : nat) (loop : option ast) (s : ast) (e : ev) (rest : list ev) : res * flags :=
  match e with
  | ELock m k => cont f loop rest (acquire s m [TKey k])
  | ELockMulti m ts => cont f loop rest (acquire s m ts)
  | EUnlock m k => cont f loop rest (release_st s m [TKey k])
  | EUnlockMulti m ts => cont f loop rest (release_st s m ts)
  | EDefer b => cont f loop rest (Falls (mkA (a_held s) (b :: a_defers s) (a_rel s) (a_closed s)), f0)
  | EDb a op k => cont f loop rest (access s a ("db." ++ op) k)
  | ETtl a op k => cont f loop rest (access s a ("ttl." ++ op) k)
  | EVal a op k => cont f loop rest (access s a ("value." ++ op) k)
  | EDbAll _ _ => cont f loop rest (Falls s, mkF false true)
  | ECheckTTL k =>
      match a_held s with
      | [] => cont f loop rest (Falls s, f0)
      | _ => (Fail "CheckTTL (locks internally) called while a lock is held", f0)
      end
  | EBind x =>
      if existsb (fun h => existsb (ktarget_mentions x) (snd h)) (a_held s)
         || existsb (existsb (ev_mentions f x)) (a_defers s)
      then (Fail ("variable reassigned while a held lock or pending defer mentions it: " ++ x), f0)
      else cont f loop rest (Falls s, f0)
  | EReturn => unwindA f (S (List.length (a_defers s))) s
  | EJump =>
      match loop with
      | Some s0 => if same_state f s0 s then (Exits, f0)
                   else (Fail "break/continue with different locks held than at loop entry", f0)
      | None => (Fail "break/continue outside a loop", f0)
      end
  | EBranch alts =>
      let rs := map (interp f loop s) alts in
      cont f loop rest (join f None (map fst rs), fold_right (fun r fl => f_or (snd r) fl) f0 rs)
  | ELoop b =>
      let s1 := mkA (a_held s) (a_defers s) (a_rel s) (a_closed s || has_release f b) in
      match interp f (Some s1) s1 b with
      | (Fail w, fl) => (Fail w, fl)
      | (Exits, fl) => cont f loop rest (Falls s1, fl)
      | (Falls s2, fl) =>
          if same_state f s1 s2 then cont f loop rest (Falls s1, fl)
          else (Fail "loop body changes the locks held / defers pending", fl)
      end
  | EGo b =>
      match interp f None a0 (b ++ [EReturn]) with
      | (Exits, fl) => cont f loop rest (Falls s, fl)
      | (Fail w, fl) => (Fail ("in goroutine: " ++ w), fl)
      | (Falls _, fl) => (Fail "goroutine body falls through", fl)
      end
  | EUnknown w => (Fail ("unclassified: " ++ w), f0)
  end%string.

Lemma interp_cons f loop s e rest : interp (S f) loop s (e :: rest) = istep f loop s e rest.
Proof. reflexivity. Qed.

Lemma interp_nil f loop s : interp (S f) loop s [] = (Falls s, f0).
Proof. reflexivity. Qed.

Lemma unwindA_S f n s :
  unwindA f (S n) s =
  match a_defers s with
  | [] => match a_held s with
          | [] => (Exits, f0)
          | _ => (Fail "exit path with a lock still held", f0)
          end
  | d :: ds =>
      let s1 := mkA (a_held s) ds (a_rel s) (a_closed s) in
      match interp f None s1 d with
      | (Falls s2, fl) => let (r, fl2) := unwindA f n s2 in (r, f_or fl fl2)
      | (Exits, fl) =>
          if has_lock_ev f d then (Fail "deferred closure returns early around lock calls", fl)
          else let (r, fl2) := unwindA f n s1 in (r, f_or fl fl2)
      | (Fail w, fl) => (Fail w, fl)
      end
  end.
Proof. reflexivity. Qed.

Lemma cont_falls f loop rest s1 fl : fst (cont f loop rest (Falls s1, fl)) = fst (interp f loop s1 rest).
Proof. unfold cont. destruct (interp f loop s1 rest). reflexivity. Qed.

Lemma cont_nofail f loop rest p : nofail (fst (cont f loop rest p)) -> nofail (fst p).
Proof. destruct p as [[w | s1 | ] fl]; simpl; auto. Qed.

(* join: no alternative failed, and every alternative that falls through does so holding what
   the joined state holds *)
Lemma join_spec f : forall rs acc, nofail (join f acc rs) ->
  (forall x, In x rs -> nofail x) /\
  (forall sa, acc = Some sa \/ In (Falls sa) rs ->
     exists s', join f acc rs = Falls s' /\ a_held s' = a_held sa /\ a_defers s' = a_defers sa).
Proof.
  induction rs as [|x rs IH]; intros acc Hnf.
  - split; [intros x []|]. intros sa [Hacc | []]. subst acc. simpl. eauto.
  - destruct x as [w | sx | ]; simpl in Hnf.
    + contradiction.
    + destruct acc as [s0|].
      * destruct (same_state f s0 sx) eqn:Hss; [|contradiction].
        destruct (same_state_eq _ _ _ Hss) as [Hh Hd].
        apply IH in Hnf. destruct Hnf as [Hall Hs]. split.
        { intros x [<- | Hin]; [exact I | auto]. }
        intros sa Hsa. simpl. rewrite Hss.
        destruct (Hs _ (or_introl eq_refl)) as (s' & He & Hh' & Hd'). simpl in Hh', Hd'.
        destruct Hsa as [Hacc | [Heq | Hin]].
        -- inversion Hacc; subst sa. exists s'. auto.
        -- inversion Heq; subst sa. exists s'. repeat split; [exact He | congruence | congruence].
        -- apply Hs. right. exact Hin.
      * apply IH in Hnf. destruct Hnf as [Hall Hs]. split.
        { intros x [<- | Hin]; [exact I | auto]. }
        intros sa Hsa. simpl.
        destruct Hsa as [Hacc | [Heq | Hin]].
        -- discriminate.
        -- inversion Heq; subst sa. apply Hs. left. reflexivity.
        -- apply Hs. right. exact Hin.
    + apply IH in Hnf. destruct Hnf as [Hall Hs]. split.
      { intros x [<- | Hin]; [exact I | auto]. }
      intros sa Hsa. simpl.
      destruct Hsa as [Hacc | [Heq | Hin]].
      * apply Hs. left. exact Hacc.
      * discriminate.
      * apply Hs. right. exact Hin.
Qed.

(* ================================================================================================ *)
(* 3. list facts                                                                                    *)
(* ================================================================================================ *)

Lemma nth_error_in_skipn {A} : forall f (l : list A) i x,
  f <= i -> nth_error l i = Some x -> In x (skipn f l).
Proof.
  induction f as [|f IH]; intros l i x Hle Hn.
  - simpl. eapply nth_error_In; eauto.
  - destruct l as [|a l].
    + destruct i; discriminate.
    + destruct i as [|i]; [lia|]. simpl in *. apply IH with i; [lia | exact Hn].
Qed.

Lemma poses_single nlocks key : poses nlocks [key] = [stripe nlocks key].
Proof. reflexivity. Qed.

(* ================================================================================================ *)
(* 4. denotations, the monitor, the simulation                                                      *)
(* ================================================================================================ *)

Section Sound.
  Variable nlocks : N.
  Variable lower : bytes -> bytes.

  Local Notation kden := (SkelSem.kden lower).
  Local Notation tden := (SkelSem.tden lower).
  Local Notation tsden := (SkelSem.tsden lower).
  Local Notation exec := (SkelSem.exec nlocks lower).
  Local Notation exec1 := (SkelSem.exec1 nlocks lower).
  Local Notation unwind := (SkelSem.unwind nlocks lower).
  Local Notation st := (SkelSem.st nlocks).
  Local Notation gstep := (SkelSem.gstep nlocks).
  Local Notation gmon := (SkelSem.gmon nlocks).
  Local Notation gsafe := (SkelSem.gsafe nlocks).
  Local Notation run_of := (SkelSem.run_of nlocks lower).

  (* ---- a lockable expression denotes at most one key ---- *)
  Lemma kden_fun r k : kexpr_stable k = true -> forall a b, kden r k a -> kden r k b -> a = b.
  Proof.
    induction k as [i | e IHe | x | x s | s | ]; simpl; intros Hst a b Ha Hb; try discriminate;
      inversion Ha; subst; inversion Hb; subst.
    - congruence.
    - f_equal. eapply IHe; eauto.
    - reflexivity.
    - reflexivity.
  Qed.

  Lemma tden_fun r t : ktarget_ok t = true -> forall a b, tden r t a -> tden r t b -> a = b.
  Proof.
    destruct t as [k | s]; simpl; intros Hok a b Ha Hb; inversion Ha; subst; inversion Hb; subst.
    - f_equal. eapply kden_fun; eauto.
    - congruence.
  Qed.

  Lemma tsden_fun r ts : forallb ktarget_ok ts = true ->
    forall a b, tsden r ts a -> tsden r ts b -> a = b.
  Proof.
    induction ts as [|t ts IH]; simpl; intros Hok a b Ha Hb; inversion Ha; subst; inversion Hb; subst.
    - reflexivity.
    - apply andb_true_iff in Hok. destruct Hok as [Hok1 Hok2]. f_equal.
      + eapply tden_fun; eauto.
      + eapply IH; eauto.
  Qed.

  Lemma den_sargs r f : den_set r (SArgs f 0) = Some (skipn f (e_args r)).
  Proof. simpl. f_equal. apply firstn_all2. rewrite skipn_length. lia. Qed.

  (* ---- a covered access is to one of the locked keys ---- *)
  Lemma covers1_in r t ks k key :
    ktarget_ok t = true -> tden r t ks -> covers1 t k = true -> kden r k key -> In key ks.
  Proof.
    intros Hok Ht Hc Hk. destruct t as [k' | s]; simpl in Hok, Hc.
    - apply kexpr_eqb_eq in Hc. subst k'. inversion Ht as [k0 key0 Hk0 | ]; subst.
      rewrite (kden_fun r k Hok _ _ Hk0 Hk). left. reflexivity.
    - inversion Ht as [ | s0 ks0 Hs]; subst.
      destruct k as [i | e | x | x s' | s' | ]; try discriminate.
      + destruct s as [f d | y | ]; try discriminate. destruct d as [|d]; try discriminate.
        apply Nat.leb_le in Hc. rewrite den_sargs in Hs. inversion Hs; subst ks.
        inversion Hk; subst. eapply nth_error_in_skipn; eauto.
      + apply kset_eqb_eq in Hc. subst s'. inversion Hk; subst. congruence.
      + apply kset_eqb_eq in Hc. subst s'. inversion Hk; subst. congruence.
  Qed.

  Lemma covers_in r k key : forall ts keys,
    forallb ktarget_ok ts = true -> tsden r ts keys ->
    existsb (fun t => covers1 t k) ts = true -> kden r k key -> In key keys.
  Proof.
    intros ts keys Hok Hts. revert Hok.
    induction Hts as [ | t ts ks ks' Ht Hts IH]; simpl; intros Hok Hc Hk; [discriminate|].
    apply andb_true_iff in Hok. destruct Hok as [Hok1 Hok2].
    apply in_or_app. apply orb_true_iff in Hc. destruct Hc as [Hc | Hc].
    - left. eapply covers1_in; eauto.
    - right. auto.
  Qed.

  (* ---- rebinding a variable an expression does not mention ---- *)
  Lemma den_set_bind r x v vs s : kset_mentions x s = false -> den_set (bind r x v vs) s = den_set r s.
  Proof.
    destruct s as [f d | y | ]; simpl; intros Hm; try reflexivity.
    rewrite String.eqb_sym in Hm. rewrite Hm. reflexivity.
  Qed.

  Lemma kden_bind r x v vs k key :
    kexpr_mentions x k = false -> kden r k key -> kden (bind r x v vs) k key.
  Proof.
    intros Hm Hk. induction Hk as [i k Hn | e k Hk IH | y | y s ks Hs Hin | s ks k Hs Hin | k]; simpl in Hm.
    - constructor. exact Hn.
    - constructor. auto.
    - rewrite String.eqb_sym in Hm.
      replace (e_kv r y) with (e_kv (bind r x v vs) y) by (simpl; rewrite Hm; reflexivity).
      constructor.
    - apply orb_false_iff in Hm. destruct Hm as [Hm1 Hm2]. rewrite String.eqb_sym in Hm1.
      replace (e_kv r y) with (e_kv (bind r x v vs) y) by (simpl; rewrite Hm1; reflexivity).
      econstructor.
      + rewrite den_set_bind by exact Hm2. exact Hs.
      + simpl. rewrite Hm1. exact Hin.
    - econstructor; [rewrite den_set_bind by exact Hm; exact Hs | exact Hin].
    - constructor.
  Qed.

  Lemma tsden_bind r x v vs ts keys :
    existsb (ktarget_mentions x) ts = false -> tsden r ts keys -> tsden (bind r x v vs) ts keys.
  Proof.
    intros Hm Hts. induction Hts as [ | t ts ks ks' Ht Hts IH]; simpl in Hm.
    - constructor.
    - apply orb_false_iff in Hm. destruct Hm as [Hm1 Hm2]. constructor; [|auto].
      destruct Ht as [k key Hk | s ks Hs]; simpl in Hm1.
      + constructor. apply kden_bind; assumption.
      + constructor. rewrite den_set_bind by exact Hm1. exact Hs.
  Qed.

  (* ---- the monitor ---- *)
  Lemma gmon_app g t1 : forall t2 g1, gmon g t1 = Some g1 -> gmon g (t1 ++ t2) = gmon g1 t2.
  Proof.
    revert g. induction t1 as [|a t1 IH]; simpl; intros g t2 g1 H.
    - inversion H; subst. reflexivity.
    - destruct (gstep g a) as [g'|]; [|discriminate]. apply IH. exact H.
  Qed.

  Definition gof (m : mode) (keys : list bytes) : ghold :=
    rev (map (fun l => (l, m)) (poses nlocks keys)).

  Lemma gmon_acq m : forall ps (h : ghold),
    StronglySorted N.lt ps -> (forall p l, In p h -> In l ps -> N.lt (fst p) l) ->
    gmon (h, false) (map (GAcq m) ps) = Some (rev (map (fun l => (l, m)) ps) ++ h, false).
  Proof.
    induction ps as [|a ps IH]; intros h Hs Hlt.
    - reflexivity.
    - simpl map. simpl gmon.
      assert (Hall : forallb (fun p : N * mode => N.ltb (fst p) a) h = true).
      { apply forallb_forall. intros p Hp. apply N.ltb_lt. apply Hlt; [exact Hp | left; reflexivity]. }
      rewrite Hall. simpl. inversion Hs as [ | a' ps' Hs' Hfa]; subst.
      rewrite IH.
      + rewrite <- app_assoc. reflexivity.
      + exact Hs'.
      + intros p l [<- | Hp] Hl.
        * simpl. rewrite Forall_forall in Hfa. apply Hfa. exact Hl.
        * apply Hlt; [exact Hp | right; exact Hl].
  Qed.

  Lemma gmon_rel : forall ps (h : ghold) b,
    NoDup ps -> (forall l, In l ps <-> In l (map fst h)) ->
    gmon (h, b) (map GRel ps) = Some ([], match ps with [] => b | _ => false end).
  Proof.
    induction ps as [|l ps IH]; intros h b Hnd Hset.
    - destruct h as [|p h]; [reflexivity|]. exfalso. apply (Hset (fst p)). left. reflexivity.
    - simpl map. simpl gmon.
      assert (Hh : gholds h l = true).
      { unfold gholds. apply existsb_exists.
        assert (Hin : In l (map fst h)) by (apply Hset; left; reflexivity).
        apply in_map_iff in Hin. destruct Hin as (p & Hp & Hin). exists p. split; [exact Hin|].
        rewrite Hp. apply N.eqb_refl. }
      rewrite Hh. inversion Hnd as [ | l' ps' Hnotin Hnd']; subst.
      assert (Hset' : forall l', In l' ps <-> In l' (map fst (gdrop h l))).
      { intros l'. unfold gdrop. split.
        - intros Hin. assert (Hin' : In l' (map fst h)) by (apply Hset; right; exact Hin).
          apply in_map_iff in Hin'. destruct Hin' as (p & Hp & Hin'). apply in_map_iff. exists p.
          split; [exact Hp|]. apply filter_In. split; [exact Hin'|].
          apply negb_true_iff. apply N.eqb_neq. rewrite Hp. intros ->. contradiction.
        - intros Hin. apply in_map_iff in Hin. destruct Hin as (p & Hp & Hin).
          apply filter_In in Hin. destruct Hin as [Hin Hne].
          apply negb_true_iff in Hne. apply N.eqb_neq in Hne.
          assert (Hin' : In l' (l :: ps)).
          { apply Hset. apply in_map_iff. exists p. auto. }
          destruct Hin' as [-> | Hin']; [congruence | exact Hin']. }
      rewrite (IH _ _ Hnd' Hset'). destruct ps as [|l2 ps]; [|reflexivity].
      destruct (gdrop h l) as [|p h'] eqn:Hg; [reflexivity|].
      exfalso. apply (Hset' (fst p)). left. reflexivity.
  Qed.

  Lemma gof_fst m keys l : In l (poses nlocks keys) <-> In l (map fst (gof m keys)).
  Proof.
    unfold gof. rewrite map_rev, map_map. simpl. rewrite map_id. apply in_rev.
  Qed.

  Lemma gmon_acq_poses m keys :
    gmon ([], false) (map (GAcq m) (poses nlocks keys)) = Some (gof m keys, false).
  Proof.
    rewrite gmon_acq.
    - rewrite app_nil_r. reflexivity.
    - apply poses_sorted.
    - intros p l [].
  Qed.

  Lemma gmon_rel_poses m keys :
    gmon (gof m keys, false) (map GRel (poses nlocks keys)) = Some ([], false).
  Proof.
    rewrite (gmon_rel (poses nlocks keys) (gof m keys) false).
    - destruct (poses nlocks keys); reflexivity.
    - apply poses_nodup.
    - intros l. apply gof_fst.
  Qed.

  Lemma gof_holds m keys key : In key keys -> gholds (gof m keys) (st key) = true.
  Proof.
    intros Hin. unfold gholds. apply existsb_exists. exists (st key, m). split.
    - unfold gof. apply in_rev. rewrite rev_involutive. apply in_map_iff. exists (st key). split; [reflexivity|].
      apply poses_same_set. apply in_map. exact Hin.
    - simpl. apply N.eqb_refl.
  Qed.

  Lemma gof_holds_w keys key : In key keys -> gholds_w (gof W keys) (st key) = true.
  Proof.
    intros Hin. unfold gholds_w. apply existsb_exists. exists (st key, W). split.
    - unfold gof. apply in_rev. rewrite rev_involutive. apply in_map_iff. exists (st key). split; [reflexivity|].
      apply poses_same_set. apply in_map. exact Hin.
    - simpl. rewrite N.eqb_refl. reflexivity.
  Qed.

  (* ---- the simulation ---- *)
  Inductive HeldSim (r : env) : list hentry -> ghold * bool -> Prop :=
  | HS0 : HeldSim r [] ([], false)
  | HS1 : forall m ts keys, forallb ktarget_ok ts = true -> tsden r ts keys ->
      HeldSim r [(m, ts)] (gof m keys, false).

  Definition Sim (r : env) (D : list (list ev)) (s : ast) (g : ghold * bool) : Prop :=
    a_defers s = D /\ HeldSim r (a_held s) g.

  Lemma Sim_ext r D s s' g :
    a_held s' = a_held s -> a_defers s' = a_defers s -> Sim r D s g -> Sim r D s' g.
  Proof. intros Hh Hd [H1 H2]. split; [congruence | rewrite Hh; exact H2]. Qed.

  Lemma covered_sound r h g a k key :
    HeldSim r h g -> covered h a k = true -> kden r k key -> gstep g (acc_act a key) = Some g.
  Proof.
    intros Hh Hc Hk. destruct Hh as [ | m ts keys Hok Hts]; [discriminate|].
    unfold covered in Hc. simpl in Hc. rewrite orb_false_r in Hc.
    apply andb_true_iff in Hc. destruct Hc as [Hm Hc].
    assert (Hin : In key keys) by (eapply covers_in; eauto).
    destruct a; simpl.
    - rewrite (gof_holds m keys key Hin). reflexivity.
    - destruct m; [discriminate|]. rewrite (gof_holds_w keys key Hin). reflexivity.
  Qed.

  Lemma HeldSim_bind r x v vs h g :
    HeldSim r h g -> existsb (fun e : hentry => existsb (ktarget_mentions x) (snd e)) h = false ->
    HeldSim (bind r x v vs) h g.
  Proof.
    intros Hh. destruct Hh as [ | m ts keys Hok Hts]; simpl; intros Hm.
    - constructor.
    - rewrite orb_false_r in Hm. constructor; [exact Hok | apply tsden_bind; assumption].
  Qed.

  Lemma tsden_single r k key : kden r k key -> tsden r [TKey k] [key].
  Proof.
    intros Hk. change [key] with ([key] ++ []). constructor; [constructor; exact Hk | constructor].
  Qed.

  Lemma remove_entry_nil e : remove_entry e [] = None.
  Proof. reflexivity. Qed.

  Lemma remove_entry_single e x : remove_entry e [x] = if hentry_eqb x e then Some [] else None.
  Proof. unfold remove_entry. destruct (hentry_eqb x e); reflexivity. Qed.

  (* ---- single events ---- *)
  Lemma acquire_step f loop rest s m ts r D g keys :
    nofail (fst (cont f loop rest (acquire s m ts))) -> Sim r D s g -> tsden r ts keys ->
    exists g1 s1, gmon g (map (GAcq m) (poses nlocks keys)) = Some g1 /\ Sim r D s1 g1 /\
      fst (cont f loop rest (acquire s m ts)) = fst (interp f loop s1 rest).
  Proof.
    intros Hnf [Hd Hh] Hts. unfold acquire in *.
    destruct (forallb ktarget_ok ts) eqn:Hok; simpl negb in *; cbv iota in *; [|contradiction].
    destruct (a_held s) as [|e h] eqn:Hheld; [|contradiction].
    inversion Hh; subst.
    exists (gof m keys, false), (mkA [(m, ts)] (a_defers s) false (a_closed s)).
    split; [apply gmon_acq_poses|]. split.
    - split; simpl; [reflexivity | constructor; assumption].
    - apply cont_falls.
  Qed.

  Lemma release_step f loop rest s m ts r D g keys :
    nofail (fst (cont f loop rest (release_st s m ts))) -> Sim r D s g -> tsden r ts keys ->
    exists g1 s1, gmon g (map GRel (poses nlocks keys)) = Some g1 /\ Sim r D s1 g1 /\
      fst (cont f loop rest (release_st s m ts)) = fst (interp f loop s1 rest).
  Proof.
    intros Hnf [Hd Hh] Hts. unfold release_st in *.
    destruct (a_held s) as [|[m0 ts0] h] eqn:Hheld.
    - rewrite remove_entry_nil in Hnf. contradiction.
    - inversion Hh as [ | m1 ts1 keys0 Hok0 Hts0]; subst.
      rewrite remove_entry_single in *.
      destruct (hentry_eqb (m0, ts0) (m, ts)) eqn:He; [|contradiction].
      apply hentry_eqb_eq in He. inversion He; subst m0 ts0.
      rewrite (tsden_fun r ts Hok0 _ _ Hts0 Hts).
      exists ([], false), (mkA [] (a_defers s) false true).
      split; [apply gmon_rel_poses|]. split.
      + split; simpl; [reflexivity | constructor].
      + apply cont_falls.
  Qed.

  Lemma access_step f loop rest s a op k r D g key :
    nofail (fst (cont f loop rest (access s a op k))) -> Sim r D s g -> kden r k key ->
    gstep g (acc_act a key) = Some g /\
    fst (cont f loop rest (access s a op k)) = fst (interp f loop s rest).
  Proof.
    intros Hnf [Hd Hh] Hk. unfold access in *.
    destruct (covered (a_held s) a k) eqn:Hc; [|contradiction].
    split; [eapply covered_sound; eauto | apply cont_falls].
  Qed.

  Lemma checkttl_trace key :
    gmon ([], false) [GAcq W (st key); GRd key; GWr key; GRel (st key)] = Some ([], false).
  Proof.
    assert (Hgen : forall l, st key = l ->
              gmon ([], false) [GAcq W l; GRd key; GWr key; GRel l] = Some ([], false)).
    { intros l Hl. unfold SkelSem.gmon, SkelSem.gstep. rewrite Hl.
      unfold gholds, gholds_w, gdrop. simpl.
      repeat (rewrite N.eqb_refl; simpl). reflexivity. }
    apply Hgen. reflexivity.
  Qed.

  (* ---- what the induction proves ---- *)
  Definition SafeUnw (r : env) (D : list (list ev)) (g : ghold * bool) : Prop :=
    forall r2 t2, unwind r D r2 t2 -> gmon g t2 = Some ([], false).

  Definition Post (clo : bool) (loop : option ast) (r' : env) (D' : list (list ev))
             (g' : ghold * bool) (o : outcome) (normal : ast -> Prop) : Prop :=
    match o with
    | ONormal => exists s', normal s' /\ Sim r' D' s' g'
    | OReturn => if clo then SafeUnw r' D' g' else g' = ([], false)
    | OJump => exists s0, loop = Some s0 /\ Sim r' D' s0 g'
    end.

  Definition Sound (f : nat) : Prop :=
    forall loop s evs clo r D r' D' t o g,
      nofail (fst (interp f loop s evs)) -> Sim r D s g -> exec clo r D evs r' D' t o ->
      exists g', gmon g t = Some g' /\
        Post clo loop r' D' g' o (fun s' => fst (interp f loop s evs) = Falls s').

  Lemma unwindA_sound f : Sound f -> forall n s r D g,
    nofail (fst (unwindA f n s)) -> Sim r D s g -> SafeUnw r D g.
  Proof.
    intros HS. induction n as [|n IH]; intros s r D g Hnf [Hd Hh]; [contradiction|].
    rewrite unwindA_S in Hnf. intros r2 t2 Hu.
    destruct (a_defers s) as [|d ds] eqn:Hdef; subst D; cbv beta iota zeta in Hnf.
    - inversion Hu; subst. destruct (a_held s); [|contradiction]. inversion Hh; subst. reflexivity.
    - inversion Hu as [ | r0 d0 ds0 r1 D1 t1 o r3 t3 Hex Ho Hu']; subst.
      set (s1 := mkA (a_held s) ds (a_rel s) (a_closed s)) in *.
      assert (Hsim1 : Sim r ds s1 g) by (split; [reflexivity | exact Hh]).
      destruct (interp f None s1 d) as [rd fld] eqn:Hi.
      assert (Hnf1 : nofail (fst (interp f None s1 d))).
      { rewrite Hi. simpl. destruct rd; simpl in *; auto. }
      destruct (HS None s1 d true r ds r1 D1 t1 o g Hnf1 Hsim1 Hex) as (g1 & Hg1 & Hpost).
      rewrite (gmon_app _ _ _ _ Hg1).
      destruct Ho as [-> | ->]; simpl in Hpost.
      + destruct Hpost as (s2 & Hf & Hsim2). rewrite Hi in Hf. simpl in Hf. subst rd.
        eapply IH; [|exact Hsim2|exact Hu'].
        destruct (unwindA f n s2); exact Hnf.
      + exact (Hpost _ _ Hu').
  Qed.

  Lemma loop_sound f b s1 : Sound f ->
    nofail (fst (interp f (Some s1) s1 b)) ->
    (forall s2, fst (interp f (Some s1) s1 b) = Falls s2 ->
                a_held s1 = a_held s2 /\ a_defers s1 = a_defers s2) ->
    forall clo r D e r2 D2 t2 o2, exec1 clo r D e r2 D2 t2 o2 -> e = ELoop b ->
    forall g, Sim r D s1 g ->
    exists g2, gmon g t2 = Some g2 /\
      match o2 with
      | ONormal => Sim r2 D2 s1 g2
      | OReturn => if clo then SafeUnw r2 D2 g2 else g2 = ([], false)
      | OJump => False
      end.
  Proof.
    intros HS Hnf Hsame clo r D e r2 D2 t2 o2 Hx.
    induction Hx; intros Heq g Hsim; try discriminate Heq; inversion Heq; subst.
    - (* no more iterations *)
      exists g. split; [reflexivity | exact Hsim].
    - (* one iteration, then the rest *)
      match goal with Hb : SkelSem.exec _ _ _ _ _ _ _ _ _ _ |- _ =>
        destruct (HS _ _ _ _ _ _ _ _ _ _ g Hnf Hsim Hb) as (g1 & Hg1 & Hpost) end.
      assert (Hsim1 : Sim r1 D1 s1 g1).
      { match goal with Ho : _ \/ _ |- _ => destruct Ho as [-> | ->] end; simpl in Hpost.
        - destruct Hpost as (s2 & Hf & Hs2). destruct (Hsame s2 Hf) as [Hh Hd].
          eapply Sim_ext; [exact Hh | exact Hd | exact Hs2].
        - destruct Hpost as (s0 & Heq0 & Hs0). inversion Heq0; subst. exact Hs0. }
      destruct (IHHx eq_refl g1 Hsim1) as (g2 & Hg2 & Hp2).
      exists g2. split; [rewrite (gmon_app _ _ _ _ Hg1); exact Hg2 | exact Hp2].
    - (* the body returns *)
      match goal with Hb : SkelSem.exec _ _ _ _ _ _ _ _ _ _ |- _ =>
        destruct (HS _ _ _ _ _ _ _ _ _ _ g Hnf Hsim Hb) as (g1 & Hg1 & Hpost) end.
      exists g1. split; [exact Hg1 | exact Hpost].
  Qed.

  Lemma sound1 f : Sound f -> forall loop s e rest clo r D r1 D1 t1 o1 g,
    nofail (fst (istep f loop s e rest)) -> Sim r D s g -> exec1 clo r D e r1 D1 t1 o1 ->
    exists g1, gmon g t1 = Some g1 /\
      Post clo loop r1 D1 g1 o1 (fun s1 => fst (istep f loop s e rest) = fst (interp f loop s1 rest)).
  Proof.
    intros HS loop s e rest clo r D r1 D1 t1 o1 g Hnf Hsim Hx.
    destruct e as [m k | m k | m ts | m ts | b | a op k | a op | a op k | a op k | k | x | | | alts | b | b | w];
      unfold istep in Hnf |- *.
    - (* ELock *)
      inversion Hx; subst.
      eapply acquire_step in Hnf; [ | exact Hsim | apply tsden_single; eassumption].
      destruct Hnf as (g1 & s1 & Hg & Hs & He). rewrite poses_single in Hg.
      exists g1. split; [exact Hg|]. exists s1. split; [exact He | exact Hs].
    - (* EUnlock *)
      inversion Hx; subst.
      eapply release_step in Hnf; [ | exact Hsim | apply tsden_single; eassumption].
      destruct Hnf as (g1 & s1 & Hg & Hs & He). rewrite poses_single in Hg.
      exists g1. split; [exact Hg|]. exists s1. split; [exact He | exact Hs].
    - (* ELockMulti *)
      inversion Hx; subst.
      eapply acquire_step in Hnf; [ | exact Hsim | eassumption].
      destruct Hnf as (g1 & s1 & Hg & Hs & He).
      exists g1. split; [exact Hg|]. exists s1. split; [exact He | exact Hs].
    - (* EUnlockMulti *)
      inversion Hx; subst.
      eapply release_step in Hnf; [ | exact Hsim | eassumption].
      destruct Hnf as (g1 & s1 & Hg & Hs & He).
      exists g1. split; [exact Hg|]. exists s1. split; [exact He | exact Hs].
    - (* EDefer *)
      inversion Hx; subst. exists g. split; [reflexivity|].
      exists (mkA (a_held s) (b :: a_defers s) (a_rel s) (a_closed s)). split; [apply cont_falls|].
      destruct Hsim as [Hd Hh]. split; simpl; [congruence | exact Hh].
    - (* EDb *)
      inversion Hx; subst.
      eapply access_step in Hnf; [ | exact Hsim | eassumption]. destruct Hnf as [Hg He].
      exists g. split; [simpl; rewrite Hg; reflexivity|]. exists s. split; [exact He | exact Hsim].
    - (* EDbAll *)
      inversion Hx; subst. exists g. split; [reflexivity|].
      exists s. split; [apply cont_falls | exact Hsim].
    - (* ETtl *)
      inversion Hx; subst.
      eapply access_step in Hnf; [ | exact Hsim | eassumption]. destruct Hnf as [Hg He].
      exists g. split; [simpl; rewrite Hg; reflexivity|]. exists s. split; [exact He | exact Hsim].
    - (* EVal *)
      inversion Hx; subst.
      eapply access_step in Hnf; [ | exact Hsim | eassumption]. destruct Hnf as [Hg He].
      exists g. split; [simpl; rewrite Hg; reflexivity|]. exists s. split; [exact He | exact Hsim].
    - (* ECheckTTL *)
      destruct Hsim as [Hd Hh].
      destruct (a_held s) as [|e0 h0] eqn:Hheld; [|contradiction].
      inversion Hh; subst.
      assert (Hsim : Sim r (a_defers s) s ([], false)) by (split; [reflexivity | rewrite Hheld; constructor]).
      inversion Hx; subst.
      + exists ([], false). split; [reflexivity|]. exists s. split; [apply cont_falls | exact Hsim].
      + exists ([], false). split; [apply checkttl_trace|]. exists s. split; [apply cont_falls | exact Hsim].
    - (* EBind *)
      inversion Hx; subst.
      match type of Hnf with context [if ?c then _ else _] => destruct c eqn:Hm end; [contradiction|].
      apply orb_false_iff in Hm. destruct Hm as [Hm1 Hm2].
      exists g. split; [reflexivity|]. exists s. split; [apply cont_falls|].
      destruct Hsim as [Hd Hh]. split; [exact Hd | apply HeldSim_bind; assumption].
    - (* EReturn *)
      inversion Hx; subst.
      + exists ([], false). split; [|reflexivity].
        eapply unwindA_sound; eauto.
      + exists g. split; [reflexivity|]. simpl. eapply unwindA_sound; eauto.
    - (* EJump *)
      inversion Hx; subst. destruct loop as [s0|]; [|contradiction].
      destruct (same_state f s0 s) eqn:Hss; [|contradiction].
      destruct (same_state_eq _ _ _ Hss) as [Hh Hd].
      exists g. split; [reflexivity|]. exists s0. split; [reflexivity|].
      eapply Sim_ext; [exact Hh | exact Hd | exact Hsim].
    - (* EBranch *)
      inversion Hx; subst. cbv zeta in Hnf |- *.
      pose proof (cont_nofail _ _ _ _ Hnf) as Hj. simpl in Hj.
      destruct (join_spec _ _ _ Hj) as [Hall Hfalls].
      match goal with Hin : In ?alt alts |- _ =>
        assert (Hin' : In (fst (interp f loop s alt)) (map fst (map (interp f loop s) alts)))
          by (apply in_map; apply in_map; exact Hin) end.
      match goal with Hb : SkelSem.exec _ _ _ _ _ _ _ _ _ _ |- _ =>
        destruct (HS _ _ _ _ _ _ _ _ _ _ g (Hall _ Hin') Hsim Hb) as (g1 & Hg1 & Hpost) end.
      exists g1. split; [exact Hg1|].
      destruct o1; simpl in Hpost |- *.
      + destruct Hpost as (sa & Hfa & Hsa). rewrite Hfa in Hin'.
        destruct (Hfalls sa (or_intror Hin')) as (s' & Hj' & Hh' & Hd').
        exists s'. split; [rewrite Hj'; apply cont_falls|].
        eapply Sim_ext; [exact Hh' | exact Hd' | exact Hsa].
      + exact Hpost.
      + exact Hpost.
    - (* ELoop *)
      cbv zeta in Hnf |- *.
      set (s1 := mkA (a_held s) (a_defers s) (a_rel s) (a_closed s || has_release f b)) in *.
      assert (Hsim1 : Sim r D s1 g) by (destruct Hsim as [Hd Hh]; split; [exact Hd | exact Hh]).
      destruct (interp f (Some s1) s1 b) as [rb flb] eqn:Hi.
      assert (Hnfb : nofail (fst (interp f (Some s1) s1 b))).
      { rewrite Hi. simpl. destruct rb; simpl in *; auto. }
      assert (Hsame : forall s2, fst (interp f (Some s1) s1 b) = Falls s2 ->
                                 a_held s1 = a_held s2 /\ a_defers s1 = a_defers s2).
      { rewrite Hi. simpl. intros s2 ->.
        destruct (same_state f s1 s2) eqn:Hss; [|contradiction]. eapply same_state_eq; eauto. }
      assert (Hfst : fst match rb with
                         | Fail w => (Fail w, flb)
                         | Falls s2 =>
                             if same_state f s1 s2 then cont f loop rest (Falls s1, flb)
                             else (Fail "loop body changes the locks held / defers pending", flb)
                         | Exits => cont f loop rest (Falls s1, flb)
                         end = fst (interp f loop s1 rest)).
      { destruct rb as [w | s2 | ].
        - contradiction.
        - destruct (same_state f s1 s2); [apply cont_falls | contradiction].
        - apply cont_falls. }
      destruct (loop_sound f b s1 HS Hnfb Hsame _ _ _ _ _ _ _ _ Hx eq_refl g Hsim1) as (g2 & Hg2 & Hp2).
      exists g2. split; [exact Hg2|].
      destruct o1; simpl.
      + exists s1. split; [exact Hfst | exact Hp2].
      + exact Hp2.
      + contradiction.
    - (* EGo *)
      inversion Hx; subst.
      destruct (interp f None a0 (b ++ [EReturn])) as [[w | s' | ] fl]; try contradiction.
      exists g. split; [reflexivity|]. exists s. split; [apply cont_falls | exact Hsim].
    - (* EUnknown *)
      contradiction.
  Qed.

  Theorem sound_all : forall f, Sound f.
  Proof.
    induction f as [|f IH]; intros loop s evs clo r D r' D' t o g Hnf Hsim Hx; [contradiction|].
    destruct evs as [|e rest].
    - inversion Hx; subst. exists g. split; [reflexivity|].
      exists s. split; [reflexivity | exact Hsim].
    - rewrite interp_cons in Hnf |- *.
      inversion Hx as [ | clo0 r0 D0 e0 rest0 r1 D1 t1 r2 D2 t2 o0 Hx1 Hx2
                        | clo0 r0 D0 e0 rest0 r1 D1 t1 o0 Hx1 Hne]; subst.
      + destruct (sound1 f IH _ _ _ _ _ _ _ _ _ _ _ _ Hnf Hsim Hx1) as (g1 & Hg1 & Hp1).
        simpl in Hp1. destruct Hp1 as (s1 & He & Hs1).
        rewrite He in Hnf |- *.
        destruct (IH _ _ _ _ _ _ _ _ _ _ _ Hnf Hs1 Hx2) as (g2 & Hg2 & Hp2).
        exists g2. split; [rewrite (gmon_app _ _ _ _ Hg1); exact Hg2 | exact Hp2].
      + destruct (sound1 f IH _ _ _ _ _ _ _ _ _ _ _ _ Hnf Hsim Hx1) as (g1 & Hg1 & Hp1).
        exists g1. split; [exact Hg1|].
        destruct o; [congruence | exact Hp1 | exact Hp1].
  Qed.

  (* ---- the theorem ---- *)
  Lemma Sim_init r : Sim r [] a0 ([], false).
  Proof. split; [reflexivity | constructor]. Qed.

  Lemma exits_sound f b kv sv args r' D' t o :
    fst (interp f None a0 b) = Exits ->
    exec false (mkEnv args kv sv) [] b r' D' t o -> gsafe t = true.
  Proof.
    intros Hi Hx.
    assert (Hnf : nofail (fst (interp f None a0 b))) by (rewrite Hi; exact I).
    destruct (sound_all _ _ _ _ _ _ _ _ _ _ _ _ Hnf (Sim_init _) Hx) as (g' & Hg & Hp).
    unfold SkelSem.gsafe. rewrite Hg. destruct o; simpl in Hp.
    - destruct Hp as (s' & Hf & _). rewrite Hi in Hf. discriminate.
    - subst g'. reflexivity.
    - destruct Hp as (s0 & Hf & _). discriminate.
  Qed.

  Theorem well_locked_sound : forall sk args t,
    well_locked sk = true -> run_of sk args t -> gsafe t = true.
  Proof.
    intros sk args t Hwl (kv & sv & r' & D' & o & Hx).
    unfold well_locked, run_sk in Hwl.
    destruct (fst (interp (fuel_of sk) None a0 (sk ++ [EReturn]))) as [w | s' | ] eqn:Hi;
      try discriminate.
    eapply exits_sound; eauto.
  Qed.
End Sound.

(* ================================================================================================ *)
(* 5. goroutine bodies                                                                              *)
(* ================================================================================================ *)

(* An event after which the interpreter does not look at the rest of its list: the interpreter
   answers [Exits] only for return, break / continue, and a branch all of whose alternatives
   exit.  (The translator emits nothing after such an event.) *)
Fixpoint stops (e : ev) : bool :=
  match e with
  | EReturn | EJump => true
  | EBranch alts => forallb (existsb stops) alts
  | _ => false
  end.

(* collect over the events of a list up to and including the first that stops *)
Definition live {A} (g : ev -> list A) : list ev -> list A :=
  fix live (l : list ev) : list A :=
    match l with
    | [] => []
    | e :: r => g e ++ (if stops e then [] else live r)
    end.

(* no branch without alternatives, at any depth (such a branch has no run, and the interpreter
   stops at it without having looked at the pending deferred calls) *)
Fixpoint neb_ev (e : ev) : bool :=
  match e with
  | EBranch alts => match alts with [] => false | _ => true end && forallb (forallb neb_ev) alts
  | EDefer b | ELoop b | EGo b => forallb neb_ev b
  | _ => true
  end.
Definition neb (l : list ev) : bool := forallb neb_ev l.

(* the bodies of the goroutines started by an event: in loops, in every alternative of a branch,
   in goroutine bodies, and -- if [dfr] -- in deferred calls *)
Fixpoint gbs (dfr : bool) (e : ev) : list (list ev) :=
  match e with
  | EGo b => b :: live (gbs dfr) b
  | EDefer b => if dfr then live (gbs dfr) b else []
  | ELoop b => live (gbs dfr) b
  | EBranch alts => flat_map (live (gbs dfr)) alts
  | _ => []
  end.

Definition go_bodies (sk : list ev) : list (list ev) := live (gbs (neb sk)) sk.

Definition GoOK (b : list ev) : Prop := exists f, fst (interp f None a0 (b ++ [EReturn])) = Exits.

Lemma live_cons {A} (g : ev -> list A) e r :
  live g (e :: r) = g e ++ (if stops e then [] else live g r).
Proof. reflexivity. Qed.

Lemma live_app_return {A} (g : ev -> list A) : g EReturn = [] ->
  forall l, live g (l ++ [EReturn]) = live g l.
Proof.
  intros Hg. induction l as [|e l IH].
  - simpl. rewrite Hg. reflexivity.
  - simpl app. rewrite !live_cons. rewrite IH. reflexivity.
Qed.

Lemma neb_app_return l : neb l = true -> neb (l ++ [EReturn]) = true.
Proof. unfold neb. intros H. rewrite forallb_app. rewrite H. reflexivity. Qed.

Lemma acquire_falls s m ts : nofail (fst (acquire s m ts)) ->
  exists s1 fl, acquire s m ts = (Falls s1, fl) /\ a_defers s1 = a_defers s.
Proof.
  unfold acquire. destruct (negb (forallb ktarget_ok ts)); simpl; [contradiction|].
  destruct (a_held s); simpl; [|contradiction].
  intros _. eexists. eexists. split; reflexivity.
Qed.

Lemma release_falls s m ts : nofail (fst (release_st s m ts)) ->
  exists s1 fl, release_st s m ts = (Falls s1, fl) /\ a_defers s1 = a_defers s.
Proof.
  unfold release_st. destruct (remove_entry (m, ts) (a_held s)) as [[|x h]|]; simpl; intros H;
    try contradiction; eexists; eexists; split; reflexivity.
Qed.

Lemma access_falls s a op k : nofail (fst (access s a op k)) ->
  exists s1 fl, access s a op k = (Falls s1, fl) /\ a_defers s1 = a_defers s.
Proof.
  unfold access. destruct (covered (a_held s) a k); simpl; [|contradiction].
  intros _. exists s, f0. split; reflexivity.
Qed.

Lemma unwindA_never_falls f : forall n s s', fst (unwindA f n s) <> Falls s'.
Proof.
  induction n as [|n IH]; intros s s'; [discriminate|].
  rewrite unwindA_S. destruct (a_defers s) as [|d ds].
  - destruct (a_held s); discriminate.
  - cbv zeta. destruct (interp f None _ d) as [[w | s2 | ] fl].
    + discriminate.
    + specialize (IH s2 s'). destruct (unwindA f n s2). exact IH.
    + destruct (has_lock_ev f d); [discriminate|].
      match goal with |- context [unwindA f n ?x] => specialize (IH x s'); destruct (unwindA f n x) end.
      exact IH.
Qed.

Lemma join_exits f : forall rs acc, join f acc rs = Exits -> acc = None /\ forall x, In x rs -> x = Exits.
Proof.
  induction rs as [|x rs IH]; intros acc H; simpl in H.
  - destruct acc; [discriminate|]. split; [reflexivity | intros x []].
  - destruct x as [w | sx | ].
    + discriminate.
    + destruct acc as [s0|].
      * destruct (same_state f s0 sx); [|discriminate]. apply IH in H. destruct H as [H _]. discriminate.
      * apply IH in H. destruct H as [H _]. discriminate.
    + apply IH in H. destruct H as [Hacc Hall]. split; [exact Hacc|].
      intros x [<- | Hin]; [reflexivity | auto].
Qed.

Lemma join_falls_inv f : forall rs acc s', join f acc rs = Falls s' ->
  exists sa, (acc = Some sa \/ In (Falls sa) rs) /\ a_defers s' = a_defers sa.
Proof.
  induction rs as [|x rs IH]; intros acc s' H; simpl in H.
  - destruct acc as [s0|]; [|discriminate]. inversion H; subst. exists s'. auto.
  - destruct x as [w | sx | ].
    + discriminate.
    + destruct acc as [s0|].
      * destruct (same_state f s0 sx); [|discriminate]. apply IH in H.
        destruct H as (sa & [Hacc | Hin] & Hd).
        -- inversion Hacc; subst sa. simpl in Hd. exists s0. auto.
        -- exists sa. split; [right; right; exact Hin | exact Hd].
      * apply IH in H. destruct H as (sa & [Hacc | Hin] & Hd).
        -- inversion Hacc; subst sa. exists sx. split; [right; left; reflexivity | exact Hd].
        -- exists sa. split; [right; right; exact Hin | exact Hd].
    + apply IH in H. destruct H as (sa & [Hacc | Hin] & Hd).
      * exists sa. auto.
      * exists sa. split; [right; right; exact Hin | exact Hd].
Qed.

Lemma gbs_defer_in dfr b b' :
  In b' (gbs dfr (EDefer b)) -> dfr = true /\ In b' (live (gbs dfr) b).
Proof. simpl. destruct dfr; [auto | intros []]. Qed.

Section GoBodies.
  Variable dfr : bool.
  Local Notation gb := (gbs dfr).

  Definition AllOK (l : list ev) : Prop := forall b, In b (live gb l) -> GoOK b.
  Definition DefsOK (D : list (list ev)) : Prop := dfr = true -> forall d, In d D -> AllOK d.
  Definition NB (l : list ev) : Prop := dfr = true -> neb l = true.
  Definition Inv (s : ast) : Prop := dfr = true -> forall d, In d (a_defers s) -> neb d = true.
  Definition LP (loop : option ast) : Prop := forall s0, loop = Some s0 -> DefsOK (a_defers s0).
  Definition Fin (loop : option ast) (x : res) : Prop :=
    LP loop /\ forall s', x = Falls s' -> DefsOK (a_defers s').

  (* backwards: if the deferred calls pending where the list ends are fine, so are those pending
     where it starts, and every goroutine it starts *)
  Definition Gconcl (f : nat) (loop : option ast) (s : ast) (l : list ev) : Prop :=
    (fst (interp f loop s l) = Exits -> existsb stops l = true) /\
    (forall s', fst (interp f loop s l) = Falls s' -> Inv s') /\
    (Fin loop (fst (interp f loop s l)) -> DefsOK (a_defers s) /\ AllOK l).

  Definition G (f : nat) : Prop :=
    forall loop s l, nofail (fst (interp f loop s l)) -> NB l -> Inv s -> Gconcl f loop s l.

  Lemma NB_cons e rest : NB (e :: rest) -> (dfr = true -> neb_ev e = true) /\ NB rest.
  Proof.
    intros H. split; intros Hd; specialize (H Hd); unfold neb in H; simpl in H;
      apply andb_true_iff in H; destruct H as [H1 H2]; assumption.
  Qed.

  Lemma Inv_ext s s' : a_defers s' = a_defers s -> Inv s -> Inv s'.
  Proof. unfold Inv. intros ->. auto. Qed.

  Lemma unwindA_G f : G f -> forall n s, nofail (fst (unwindA f n s)) -> Inv s -> DefsOK (a_defers s).
  Proof.
    intros HG. induction n as [|n IH]; intros s Hnf Hinv; [contradiction|].
    rewrite unwindA_S in Hnf. destruct (a_defers s) as [|d ds] eqn:Hdef.
    - intros _ d [].
    - cbv beta iota zeta in Hnf.
      set (s1 := mkA (a_held s) ds (a_rel s) (a_closed s)) in *.
      assert (Hnbd : NB d). { intros Hd. apply (Hinv Hd). rewrite Hdef. left. reflexivity. }
      assert (Hinv1 : Inv s1). { intros Hd x Hx. apply (Hinv Hd). rewrite Hdef. right. exact Hx. }
      destruct (interp f None s1 d) as [rd fld] eqn:Hi.
      assert (Hnf1 : nofail (fst (interp f None s1 d))).
      { rewrite Hi. simpl. destruct rd; simpl in *; auto. }
      destruct (HG None s1 d Hnf1 Hnbd Hinv1) as (_ & H2 & H3). rewrite Hi in H2, H3. simpl in H2, H3.
      assert (Hfin : Fin None rd).
      { split; [intros s0 Hs0; discriminate|]. intros s2 ->.
        apply IH; [|apply H2; reflexivity]. destruct (unwindA f n s2); exact Hnf. }
      destruct (H3 Hfin) as [Hds Hd].
      intros Hdfr x [<- | Hx]; [exact Hd | exact (Hds Hdfr x Hx)].
  Qed.

  Lemma G_step f loop s e rest s1 :
    G f -> nofail (fst (istep f loop s e rest)) -> NB (e :: rest) ->
    fst (istep f loop s e rest) = fst (interp f loop s1 rest) ->
    Inv s1 ->
    (LP loop -> DefsOK (a_defers s1) -> DefsOK (a_defers s) /\ forall b, In b (gb e) -> GoOK b) ->
    Gconcl (S f) loop s (e :: rest).
  Proof.
    intros HG Hnf Hnb Heq Hinv1 Hloc. unfold Gconcl. rewrite interp_cons. rewrite Heq in *.
    destruct (NB_cons _ _ Hnb) as [_ Hnb'].
    destruct (HG loop s1 rest Hnf Hnb' Hinv1) as (H1 & H2 & H3). split; [|split].
    - intros He. simpl. rewrite (H1 He). apply orb_true_r.
    - exact H2.
    - intros [Hlp Hf]. destruct (H3 (conj Hlp Hf)) as [Hd1 Hrest].
      destruct (Hloc Hlp Hd1) as [Hds Hge]. split; [exact Hds|].
      intros b Hb. rewrite live_cons in Hb. apply in_app_or in Hb. destruct Hb as [Hb | Hb]; [auto|].
      destruct (stops e); [destruct Hb | auto].
  Qed.

  Lemma G_simple f loop s e rest p :
    G f -> istep f loop s e rest = cont f loop rest p ->
    (nofail (fst p) -> exists s1 fl, p = (Falls s1, fl) /\ a_defers s1 = a_defers s) ->
    gb e = [] ->
    nofail (fst (istep f loop s e rest)) -> NB (e :: rest) -> Inv s ->
    Gconcl (S f) loop s (e :: rest).
  Proof.
    intros HG Hi Hp Hgb Hnf Hnb Hinv.
    assert (Hnfp : nofail (fst p)) by (rewrite Hi in Hnf; eapply cont_nofail; eauto).
    destruct (Hp Hnfp) as (s1 & fl & -> & Hd).
    apply G_step with s1; auto.
    - rewrite Hi. apply cont_falls.
    - eapply Inv_ext; eauto.
    - intros _ Hd1. split; [rewrite <- Hd; exact Hd1|]. rewrite Hgb. intros b [].
  Qed.

  Theorem G_all : forall f, G f.
  Proof.
    induction f as [|f IH]; intros loop s l Hnf Hnb Hinv; [contradiction|].
    destruct l as [|e rest].
    - unfold Gconcl. rewrite interp_nil. simpl. split; [discriminate|]. split.
      + intros s' Hs'. inversion Hs'; subst. exact Hinv.
      + intros [Hlp Hf]. split; [apply Hf; reflexivity | intros b []].
    - rewrite interp_cons in Hnf. destruct (NB_cons _ _ Hnb) as [Hnbe Hnbr].
      destruct e as [m k | m k | m ts | m ts | b | a op k | a op | a op k | a op k | k | x | | | alts | b | b | w].
      + (* ELock *)
        eapply G_simple with (p := acquire s m [TKey k]);
          [exact IH | reflexivity | apply acquire_falls | reflexivity | exact Hnf | exact Hnb | exact Hinv].
      + (* EUnlock *)
        eapply G_simple with (p := release_st s m [TKey k]);
          [exact IH | reflexivity | apply release_falls | reflexivity | exact Hnf | exact Hnb | exact Hinv].
      + (* ELockMulti *)
        eapply G_simple with (p := acquire s m ts);
          [exact IH | reflexivity | apply acquire_falls | reflexivity | exact Hnf | exact Hnb | exact Hinv].
      + (* EUnlockMulti *)
        eapply G_simple with (p := release_st s m ts);
          [exact IH | reflexivity | apply release_falls | reflexivity | exact Hnf | exact Hnb | exact Hinv].
      + (* EDefer *)
        apply G_step with (mkA (a_held s) (b :: a_defers s) (a_rel s) (a_closed s)); auto.
        * apply cont_falls.
        * intros Hd d [<- | Hin]; [exact (Hnbe Hd) | exact (Hinv Hd d Hin)].
        * intros _ Hd1. simpl in Hd1. split.
          -- intros Hd d Hin. apply Hd1; [exact Hd | right; exact Hin].
          -- intros b' Hb'. apply gbs_defer_in in Hb'. destruct Hb' as [Hd Hb'].
             exact (Hd1 Hd b (or_introl eq_refl) b' Hb').
      + (* EDb *)
        eapply G_simple with (p := access s a _ k);
          [exact IH | reflexivity | apply access_falls | reflexivity | exact Hnf | exact Hnb | exact Hinv].
      + (* EDbAll *)
        eapply G_simple with (p := (Falls s, mkF false true)); eauto.
      + (* ETtl *)
        eapply G_simple with (p := access s a _ k);
          [exact IH | reflexivity | apply access_falls | reflexivity | exact Hnf | exact Hnb | exact Hinv].
      + (* EVal *)
        eapply G_simple with (p := access s a _ k);
          [exact IH | reflexivity | apply access_falls | reflexivity | exact Hnf | exact Hnb | exact Hinv].
      + (* ECheckTTL *)
        eapply G_simple with
          (p := match a_held s with
                | [] => (Falls s, f0)
                | _ => (Fail "CheckTTL (locks internally) called while a lock is held"%string, f0)
                end);
          [exact IH | | | reflexivity | exact Hnf | exact Hnb | exact Hinv].
        * unfold istep. destruct (a_held s); reflexivity.
        * destruct (a_held s); simpl; [eauto | contradiction].
      + (* EBind *)
        pose proof Hnf as Hnf0. unfold istep in Hnf0.
        match type of Hnf0 with context [if ?c then (Fail ?w, _) else _] =>
          eapply G_simple with (p := if c then (Fail w, f0) else (Falls s, f0));
            [exact IH | | | reflexivity | exact Hnf | exact Hnb | exact Hinv];
            [unfold istep; destruct c; reflexivity | destruct c; simpl; [contradiction | eauto]]
        end.
      + (* EReturn *)
        unfold Gconcl. rewrite interp_cons. unfold istep in Hnf |- *. split; [reflexivity|]. split.
        * intros s' Hs'. exfalso. eapply unwindA_never_falls; eauto.
        * intros _. split; [eapply unwindA_G; eauto | intros b' []].
      + (* EJump *)
        unfold Gconcl. rewrite interp_cons. unfold istep in Hnf |- *.
        destruct loop as [s0|]; [|contradiction].
        destruct (same_state f s0 s) eqn:Hss; [|contradiction].
        destruct (same_state_eq _ _ _ Hss) as [_ Hd].
        split; [reflexivity|]. split; [discriminate|].
        intros [Hlp _]. split; [rewrite <- Hd; apply (Hlp s0 eq_refl) | intros b' []].
      + (* EBranch *)
        pose proof Hnf as Hnf0. unfold istep in Hnf0. cbv zeta in Hnf0.
        pose proof (cont_nofail _ _ _ _ Hnf0) as Hj. simpl in Hj.
        destruct (join_spec _ _ _ Hj) as [Hall Hfalls].
        assert (Hin' : forall alt, In alt alts ->
                  In (fst (interp f loop s alt)) (map fst (map (interp f loop s) alts)))
          by (intros alt Hin; apply in_map; apply in_map; exact Hin).
        assert (Hnba : forall alt, In alt alts -> NB alt).
        { intros alt Hin Hd. specialize (Hnbe Hd). simpl in Hnbe.
          apply andb_true_iff in Hnbe. destruct Hnbe as [_ Hnbe].
          rewrite forallb_forall in Hnbe. apply Hnbe. exact Hin. }
        assert (IHalt : forall alt, In alt alts -> Gconcl f loop s alt).
        { intros alt Hin. apply IH; [apply Hall; apply Hin'; exact Hin | apply Hnba; exact Hin | exact Hinv]. }
        destruct (join f None (map fst (map (interp f loop s) alts))) as [w | s' | ] eqn:Hjoin;
          [contradiction | | ].
        * (* some alternative falls through *)
          assert (Halt : LP loop -> DefsOK (a_defers s') ->
                         forall alt, In alt alts -> DefsOK (a_defers s) /\ AllOK alt).
          { intros Hlp Hd' alt Hin. destruct (IHalt alt Hin) as (_ & _ & H3). apply H3.
            split; [exact Hlp|]. intros sa Hsa.
            destruct (Hfalls sa) as (s'' & Hs'' & _ & Hdd).
            { right. rewrite <- Hsa. apply Hin'. exact Hin. }
            inversion Hs''; subst s''. rewrite <- Hdd. exact Hd'. }
          apply G_step with s'; auto.
          -- unfold istep. cbv zeta. rewrite Hjoin. apply cont_falls.
          -- destruct (join_falls_inv _ _ _ _ Hjoin) as (sa & [Hacc | Hsa] & Hdd); [discriminate|].
             apply in_map_iff in Hsa. destruct Hsa as (p & Hp & Hsa).
             apply in_map_iff in Hsa. destruct Hsa as (alt & Halt' & Hin). subst p.
             destruct (IHalt alt Hin) as (_ & H2 & _).
             eapply Inv_ext; [exact Hdd | apply H2; exact Hp].
          -- intros Hlp Hd'. split.
             ++ destruct alts as [|alt0 alts]; [discriminate|].
                apply (Halt Hlp Hd' alt0). left. reflexivity.
             ++ intros b' Hb'. simpl in Hb'. apply in_flat_map in Hb'. destruct Hb' as (alt & Hin & Hb').
                apply (Halt Hlp Hd' alt Hin). exact Hb'.
        * (* every alternative exits *)
          pose proof (proj2 (join_exits _ _ _ Hjoin)) as Hex.
          assert (Hst : stops (EBranch alts) = true).
          { simpl. apply forallb_forall. intros alt Hin.
            destruct (IHalt alt Hin) as (H1 & _ & _). apply H1. apply Hex. apply Hin'. exact Hin. }
          assert (Halt : LP loop -> forall alt, In alt alts -> DefsOK (a_defers s) /\ AllOK alt).
          { intros Hlp alt Hin. destruct (IHalt alt Hin) as (_ & _ & H3). apply H3.
            split; [exact Hlp|]. intros sa Hsa. rewrite (Hex _ (Hin' alt Hin)) in Hsa. discriminate. }
          unfold Gconcl. rewrite interp_cons. unfold istep. cbv zeta. rewrite Hjoin. simpl fst.
          split; [|split].
          -- intros _. change (stops (EBranch alts) || existsb stops rest = true). rewrite Hst. reflexivity.
          -- discriminate.
          -- intros [Hlp _]. split.
             ++ intros Hd. specialize (Hnbe Hd). simpl in Hnbe.
                destruct alts as [|alt0 alts]; [discriminate|].
                apply (Halt Hlp alt0); [left; reflexivity | exact Hd].
             ++ intros b' Hb'. rewrite live_cons in Hb'. rewrite Hst in Hb'. rewrite app_nil_r in Hb'.
                simpl in Hb'. apply in_flat_map in Hb'. destruct Hb' as (alt & Hin & Hb').
                apply (Halt Hlp alt Hin). exact Hb'.
      + (* ELoop *)
        pose proof Hnf as Hnf0. unfold istep in Hnf0. cbv zeta in Hnf0.
        set (s1 := mkA (a_held s) (a_defers s) (a_rel s) (a_closed s || has_release f b)) in *.
        destruct (interp f (Some s1) s1 b) as [rb flb] eqn:Hi.
        assert (Hnfb : nofail (fst (interp f (Some s1) s1 b))).
        { rewrite Hi. simpl. destruct rb; simpl in *; auto. }
        assert (Hsame : forall s2, rb = Falls s2 -> a_defers s1 = a_defers s2).
        { intros s2 ->. destruct (same_state f s1 s2) eqn:Hss; [|contradiction].
          eapply same_state_eq; eauto. }
        apply G_step with s1; auto.
        * unfold istep. cbv zeta. fold s1. rewrite Hi.
          destruct rb as [w | s2 | ].
          -- contradiction.
          -- destruct (same_state f s1 s2); [apply cont_falls | contradiction].
          -- apply cont_falls.
        * intros Hlp Hd1. split; [exact Hd1|].
          assert (Hnbb : NB b) by (intros Hd; exact (Hnbe Hd)).
          destruct (IH (Some s1) s1 b Hnfb Hnbb Hinv) as (_ & _ & H3). rewrite Hi in H3. simpl fst in H3.
          apply H3. split.
          -- intros s0 Hs0. inversion Hs0; subst s0. exact Hd1.
          -- intros s2 Hs2. rewrite <- (Hsame s2 Hs2). exact Hd1.
      + (* EGo *)
        pose proof Hnf as Hnf0. unfold istep in Hnf0.
        destruct (interp f None a0 (b ++ [EReturn])) as [[w | s' | ] fl] eqn:Hgo; try contradiction.
        apply G_step with s; auto.
        * unfold istep. rewrite Hgo. apply cont_falls.
        * intros _ Hd1. split; [exact Hd1|].
          intros b' [<- | Hb'].
          -- exists f. rewrite Hgo. reflexivity.
          -- assert (Hnfg : nofail (fst (interp f None a0 (b ++ [EReturn])))) by (rewrite Hgo; exact I).
             assert (Hnbg : NB (b ++ [EReturn])).
             { intros Hd. apply neb_app_return. exact (Hnbe Hd). }
             assert (Hinv0 : Inv a0) by (intros _ d []).
             destruct (IH None a0 _ Hnfg Hnbg Hinv0) as (_ & _ & H3). rewrite Hgo in H3. simpl fst in H3.
             destruct H3 as [_ H3].
             { split; [intros s0 Hs0; discriminate | intros s2 Hs2; discriminate]. }
             apply H3. rewrite live_app_return by reflexivity. exact Hb'.
      + (* EUnknown *)
        contradiction.
  Qed.

  Lemma go_ok sk : well_locked sk = true -> NB sk -> forall b, In b (live gb sk) -> GoOK b.
  Proof.
    intros Hwl Hnb b Hb. unfold well_locked, run_sk in Hwl.
    destruct (fst (interp (fuel_of sk) None a0 (sk ++ [EReturn]))) as [w | s' | ] eqn:Hi;
      try discriminate.
    assert (Hnf : nofail (fst (interp (fuel_of sk) None a0 (sk ++ [EReturn])))) by (rewrite Hi; exact I).
    assert (Hnb' : NB (sk ++ [EReturn])) by (intros Hd; apply neb_app_return; exact (Hnb Hd)).
    assert (Hinv0 : Inv a0) by (intros _ d []).
    destruct (G_all _ None a0 _ Hnf Hnb' Hinv0) as (_ & _ & H3). rewrite Hi in H3.
    destruct H3 as [_ H3].
    { split; [intros s0 Hs0; discriminate | intros s2 Hs2; discriminate]. }
    apply H3. rewrite live_app_return by reflexivity. exact Hb.
  Qed.
End GoBodies.

Section GoSound.
  Variable nlocks : N.
  Variable lower : bytes -> bytes.

  (* Every goroutine started by live code of a well-locked skeleton -- in loops, branches, other
     goroutines and (when the skeleton has no branch without alternatives) deferred calls -- is
     itself safe. *)
  Theorem go_bodies_sound : forall sk b args t,
    well_locked sk = true -> In b (go_bodies sk) -> run_of nlocks lower b args t ->
    gsafe nlocks t = true.
  Proof.
    intros sk b args t Hwl Hb (kv & sv & r' & D' & o & Hx).
    destruct (go_ok (neb sk) sk Hwl (fun H => H) b Hb) as (f & Hf).
    eapply exits_sound; eauto.
  Qed.

  (* the same with the deferred calls always included, under the side condition spelled out *)
  Corollary go_bodies_all_sound : forall sk b args t,
    well_locked sk = true -> neb sk = true -> In b (live (gbs true) sk) ->
    run_of nlocks lower b args t -> gsafe nlocks t = true.
  Proof.
    intros sk b args t Hwl Hneb Hb. apply go_bodies_sound with sk; [exact Hwl|].
    unfold go_bodies. rewrite Hneb. exact Hb.
  Qed.
End GoSound.

Print Assumptions well_locked_sound.
Print Assumptions go_bodies_sound.
Print Assumptions go_bodies_all_sound.
