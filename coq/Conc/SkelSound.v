(* Soundness of the lock-skeleton abstract interpreter (Conc/Skel.v) with respect to the ground
   semantics of skeletons and the action monitor (Conc/SkelSem.v).

     well_locked_sound : well_locked sk = true -> run_of nlocks lower sk args t -> gsafe nlocks t = true
     go_bodies_sound   : the same for the body of every goroutine the interpreter visits

   Proof: a simulation [Sim] between (environment, defer stack, monitor state) and the abstract
   state, preserved by every event; induction on the interpreter's fuel, with a nested induction
   on the derivation for loops and on the length of the defer stack for returns.  No axioms. *)
Require Import List String Bool Arith NArith Lia.
Require Import Sorting.Sorted.
Import ListNotations.
Require Import Base.Bytes Conc.TwoPLDefs Conc.Skel Conc.LockModel Conc.LockOrder Conc.SkelSem.

(* ================================================================================================ *)
(* 1. the boolean equalities of Skel.v imply Leibniz equality                                       *)
(* ================================================================================================ *)

Lemma mode_eqb_eq a b : mode_eqb a b = true -> a = b.
Proof. destruct a, b; simpl; congruence. Qed.

Lemma acc_eqb_eq a b : acc_eqb a b = true -> a = b.
Proof. destruct a, b; simpl; congruence. Qed.

Lemma kset_eqb_eq a b : kset_eqb a b = true -> a = b.
Proof.
  destruct a as [f d | x | ], b as [f' d' | y | ]; simpl; try discriminate; intros H.
  - apply andb_true_iff in H. destruct H as [H1 H2].
    apply Nat.eqb_eq in H1. apply Nat.eqb_eq in H2. congruence.
  - apply String.eqb_eq in H. congruence.
Qed.

Lemma kexpr_eqb_eq a : forall b, kexpr_eqb a b = true -> a = b.
Proof.
  induction a as [i | e IHe | x | x s | s | ]; intros b H; destruct b; simpl in H; try discriminate.
  - apply Nat.eqb_eq in H. congruence.
  - f_equal. apply IHe. exact H.
  - apply String.eqb_eq in H. congruence.
  - apply andb_true_iff in H. destruct H as [H1 H2].
    apply String.eqb_eq in H1. apply kset_eqb_eq in H2. congruence.
Qed.

Lemma ktarget_eqb_eq a b : ktarget_eqb a b = true -> a = b.
Proof.
  destruct a, b; simpl; try discriminate; intros H.
  - apply kexpr_eqb_eq in H. congruence.
  - apply kset_eqb_eq in H. congruence.
Qed.

Lemma list_eqb_eq {A} (eqb : A -> A -> bool) :
  (forall a b, eqb a b = true -> a = b) -> forall l l', list_eqb eqb l l' = true -> l = l'.
Proof.
  intros Heq. induction l as [|a l IH]; intros [|b l'] H; simpl in H; try discriminate.
  - reflexivity.
  - apply andb_true_iff in H. destruct H as [H1 H2]. f_equal; [apply Heq; exact H1 | apply IH; exact H2].
Qed.

Lemma hentry_eqb_eq a b : hentry_eqb a b = true -> a = b.
Proof.
  destruct a as [m ts], b as [m' ts']. unfold hentry_eqb. simpl. intros H.
  apply andb_true_iff in H. destruct H as [H1 H2].
  apply mode_eqb_eq in H1. apply (list_eqb_eq _ ktarget_eqb_eq) in H2. congruence.
Qed.

Ltac eqb_clean :=
  repeat match goal with
  | H : (_ && _)%bool = true |- _ => apply andb_true_iff in H; destruct H
  | H : mode_eqb _ _ = true |- _ => apply mode_eqb_eq in H
  | H : acc_eqb _ _ = true |- _ => apply acc_eqb_eq in H
  | H : kexpr_eqb _ _ = true |- _ => apply kexpr_eqb_eq in H
  | H : String.eqb _ _ = true |- _ => apply String.eqb_eq in H
  | H : list_eqb ktarget_eqb _ _ = true |- _ => apply (list_eqb_eq _ ktarget_eqb_eq) in H
  end.

Lemma ev_eqb_eq n : forall a b, ev_eqb n a b = true -> a = b.
Proof.
  induction n as [|n IH]; intros a b H; [discriminate|].
  destruct a, b; simpl in H; try discriminate; eqb_clean; subst; try reflexivity.
  - apply (list_eqb_eq _ IH) in H. congruence.
  - apply (list_eqb_eq _ (list_eqb_eq _ IH)) in H. congruence.
  - apply (list_eqb_eq _ IH) in H. congruence.
  - apply (list_eqb_eq _ IH) in H. congruence.
Qed.

Lemma same_state_eq n a b :
  same_state n a b = true -> a_held a = a_held b /\ a_defers a = a_defers b.
Proof.
  unfold same_state. intros H.
  apply andb_true_iff in H. destruct H as [H _].
  apply andb_true_iff in H. destruct H as [H1 H2].
  apply (list_eqb_eq _ hentry_eqb_eq) in H1.
  apply (list_eqb_eq _ (list_eqb_eq _ (ev_eqb_eq n))) in H2. auto.
Qed.

(* ================================================================================================ *)
(* 2. the interpreter, one event at a time                                                          *)
(* ================================================================================================ *)

Definition nofail (x : res) : Prop := match x with Fail _ => False | _ => True end.

Definition cont (f : nat) (loop : option ast) (rest : list ev) (r : res * flags) : res * flags :=
  match r with
  | (Falls s', fl) => let (r2, fl2) := interp f loop s' rest in (r2, f_or fl fl2)
  | other => other
  end.

(* the interpreter's local [unwind], with the fuel [f] of the bodies as a parameter *)
Definition unwindA (f : nat) : nat -> ast -> res * flags :=
  fix unwindA (n : nat) (s : ast) {struct n} : res * flags :=
  match n with
  | O => (Fail "fuel", f0)
  | S n =>
      match a_defers s with
      | [] => match a_held s with
              | [] => (Exits, f0)
              | _ => (Fail "exit path with a lock still held", f0)
              end
      | d :: ds =>
          let s1 := mkA (a_held s) ds (a_rel s) (a_closed s) in
          match interp f None s1 d with
          | (Falls s2, fl) => let (r, fl2) := unwindA n s2 in (r, f_or fl fl2)
          | (Exits, fl) =>
              if has_lock_ev f d then (Fail "deferred closure returns early around lock calls", fl)
              else let (r, fl2) := unwindA n s1 in (r, f_or fl fl2)
          | (Fail w, fl) => (Fail w, fl)
          end
      end
  end.

Definition istep (f : nat) (loop : option ast) (s : ast) (e : ev) (rest : list ev) : res * flags :=
  match e with
  | ELock m k => cont f loop rest (acquire s m [TKey k])
  | ELockMulti m ts => cont f loop rest (acquire s m ts)
  | EUnlock m k => cont f loop rest (release_st s m [TKey k])
  | EUnlockMulti m ts => cont f loop rest (release_st s m ts)
  | EDefer b => cont f loop rest (Falls (mkA (a_held s) (b :: a_defers s) (a_rel s) (a_closed s)), f0)
  | EDb a op k => cont f loop rest (access s a ("db." ++ op) k)
  | ETtl a op k => cont f loop rest (access s a ("ttl." ++ op) k)
  | EVal a op k => cont f loop rest (access s a ("value." ++ op) k)
  | EDbAll _ _ => cont f loop rest (Falls s, mkF false true)
  | ECheckTTL k =>
      match a_held s with
      | [] => cont f loop rest (Falls s, f0)
      | _ => (Fail "CheckTTL (locks internally) called while a lock is held", f0)
      end
  | EBind x =>
      if existsb (fun h => existsb (ktarget_mentions x) (snd h)) (a_held s)
         || existsb (existsb (ev_mentions f x)) (a_defers s)
      then (Fail ("variable reassigned while a held lock or pending defer mentions it: " ++ x), f0)
      else cont f loop rest (Falls s, f0)
  | EReturn => unwindA f (S (List.length (a_defers s))) s
  | EJump =>
      match loop with
      | Some s0 => if same_state f s0 s then (Exits, f0)
                   else (Fail "break/continue with different locks held than at loop entry", f0)
      | None => (Fail "break/continue outside a loop", f0)
      end
  | EBranch alts =>
      let rs := map (interp f loop s) alts in
      cont f loop rest (join f None (map fst rs), fold_right (fun r fl => f_or (snd r) fl) f0 rs)
  | ELoop b =>
      let s1 := mkA (a_held s) (a_defers s) (a_rel s) (a_closed s || has_release f b) in
      match interp f (Some s1) s1 b with
      | (Fail w, fl) => (Fail w, fl)
      | (Exits, fl) => cont f loop rest (Falls s1, fl)
      | (Falls s2, fl) =>
          if same_state f s1 s2 then cont f loop rest (Falls s1, fl)
          else (Fail "loop body changes the locks held / defers pending", fl)
      end
  | EGo b =>
      match interp f None a0 (b ++ [EReturn]) with
      | (Exits, fl) => cont f loop rest (Falls s, fl)
      | (Fail w, fl) => (Fail ("in goroutine: " ++ w), fl)
      | (Falls _, fl) => (Fail "goroutine body falls through", fl)
      end
  | EUnknown w => (Fail ("unclassified: " ++ w), f0)
  end%string.

Lemma interp_cons f loop s e rest : interp (S f) loop s (e :: rest) = istep f loop s e rest.
Proof. reflexivity. Qed.

Lemma interp_nil f loop s : interp (S f) loop s [] = (Falls s, f0).
Proof. reflexivity. Qed.

Lemma unwindA_S f n s :
  unwindA f (S n) s =
  match a_defers s with
  | [] => match a_held s with
          | [] => (Exits, f0)
          | _ => (Fail "exit path with a lock still held", f0)
          end
  | d :: ds =>
      let s1 := mkA (a_held s) ds (a_rel s) (a_closed s) in
      match interp f None s1 d with
      | (Falls s2, fl) => let (r, fl2) := unwindA f n s2 in (r, f_or fl fl2)
      | (Exits, fl) =>
          if has_lock_ev f d then (Fail "deferred closure returns early around lock calls", fl)
          else let (r, fl2) := unwindA f n s1 in (r, f_or fl fl2)
      | (Fail w, fl) => (Fail w, fl)
      end
  end.
Proof. reflexivity. Qed.

Lemma cont_falls f loop rest s1 fl : fst (cont f loop rest (Falls s1, fl)) = fst (interp f loop s1 rest).
Proof. unfold cont. destruct (interp f loop s1 rest). reflexivity. Qed.

Lemma cont_nofail f loop rest p : nofail (fst (cont f loop rest p)) -> nofail (fst p).
Proof. destruct p as [[w | s1 | ] fl]; simpl; auto. Qed.

(* join: no alternative failed, and every alternative that falls through does so holding what
   the joined state holds *)
Lemma join_spec f : forall rs acc, nofail (join f acc rs) ->
  (forall x, In x rs -> nofail x) /\
  (forall sa, acc = Some sa \/ In (Falls sa) rs ->
     exists s', join f acc rs = Falls s' /\ a_held s' = a_held sa /\ a_defers s' = a_defers sa).
Proof.
  induction rs as [|x rs IH]; intros acc Hnf.
  - split; [intros x []|]. intros sa [Hacc | []]. subst acc. simpl. eauto.
  - destruct x as [w | sx | ]; simpl in Hnf.
    + contradiction.
    + destruct acc as [s0|].
      * destruct (same_state f s0 sx) eqn:Hss; [|contradiction].
        destruct (same_state_eq _ _ _ Hss) as [Hh Hd].
        apply IH in Hnf. destruct Hnf as [Hall Hs]. split.
        { intros x [<- | Hin]; [exact I | auto]. }
        intros sa Hsa. simpl. rewrite Hss.
        destruct (Hs _ (or_introl eq_refl)) as (s' & He & Hh' & Hd'). simpl in Hh', Hd'.
        destruct Hsa as [Hacc | [Heq | Hin]].
        -- inversion Hacc; subst sa. exists s'. auto.
        -- inversion Heq; subst sa. exists s'. repeat split; [exact He | congruence | congruence].
        -- apply Hs. right. exact Hin.
      * apply IH in Hnf. destruct Hnf as [Hall Hs]. split.
        { intros x [<- | Hin]; [exact I | auto]. }
        intros sa Hsa. simpl.
        destruct Hsa as [Hacc | [Heq | Hin]].
        -- discriminate.
        -- inversion Heq; subst sa. apply Hs. left. reflexivity.
        -- apply Hs. right. exact Hin.
    + apply IH in Hnf. destruct Hnf as [Hall Hs]. split.
      { intros x [<- | Hin]; [exact I | auto]. }
      intros sa Hsa. simpl.
      destruct Hsa as [Hacc | [Heq | Hin]].
      * apply Hs. left. exact Hacc.
      * discriminate.
      * apply Hs. right. exact Hin.
Qed.

(* ================================================================================================ *)
(* 3. list facts                                                                                    *)
(* ================================================================================================ *)

Lemma nth_error_in_skipn {A} : forall f (l : list A) i x,
  f <= i -> nth_error l i = Some x -> In x (skipn f l).
Proof.
  induction f as [|f IH]; intros l i x Hle Hn.
  - simpl. eapply nth_error_In; eauto.
  - destruct l as [|a l].
    + destruct i; discriminate.
    + destruct i as [|i]; [lia|]. simpl in *. apply IH with i; [lia | exact Hn].
Qed.

Lemma poses_single nlocks key : poses nlocks [key] = [stripe nlocks key].
Proof. reflexivity. Qed.

(* ================================================================================================ *)
(* 4. denotations, the monitor, the simulation                                                      *)
(* ================================================================================================ *)

Section Sound.
  Variable nlocks : N.
  Variable lower : bytes -> bytes.

  Local Notation kden := (SkelSem.kden lower).
  Local Notation tden := (SkelSem.tden lower).
  Local Notation tsden := (SkelSem.tsden lower).
  Local Notation exec := (SkelSem.exec nlocks lower).
  Local Notation exec1 := (SkelSem.exec1 nlocks lower).
  Local Notation unwind := (SkelSem.unwind nlocks lower).
  Local Notation st := (SkelSem.st nlocks).
  Local Notation gstep := (SkelSem.gstep nlocks).
  Local Notation gmon := (SkelSem.gmon nlocks).
  Local Notation gsafe := (SkelSem.gsafe nlocks).
  Local Notation run_of := (SkelSem.run_of nlocks lower).

  (* ---- a lockable expression denotes at most one key ---- *)
  Lemma kden_fun r k : kexpr_stable k = true -> forall a b, kden r k a -> kden r k b -> a = b.
  Proof.
    induction k as [i | e IHe | x | x s | s | ]; simpl; intros Hst a b Ha Hb; try discriminate;
      inversion Ha; subst; inversion Hb; subst.
    - congruence.
    - f_equal. eapply IHe; eauto.
    - reflexivity.
    - reflexivity.
  Qed.

  Lemma tden_fun r t : ktarget_ok t = true -> forall a b, tden r t a -> tden r t b -> a = b.
  Proof.
    destruct t as [k | s]; simpl; intros Hok a b Ha Hb; inversion Ha; subst; inversion Hb; subst.
    - f_equal. eapply kden_fun; eauto.
    - congruence.
  Qed.

  Lemma tsden_fun r ts : forallb ktarget_ok ts = true ->
    forall a b, tsden r ts a -> tsden r ts b -> a = b.
  Proof.
    induction ts as [|t ts IH]; simpl; intros Hok a b Ha Hb; inversion Ha; subst; inversion Hb; subst.
    - reflexivity.
    - apply andb_true_iff in Hok. destruct Hok as [Hok1 Hok2]. f_equal.
      + eapply tden_fun; eauto.
      + eapply IH; eauto.
  Qed.

  Lemma den_sargs r f : den_set r (SArgs f 0) = Some (skipn f (e_args r)).
  Proof. simpl. f_equal. apply firstn_all2. rewrite skipn_length. lia. Qed.

  (* ---- a covered access is to one of the locked keys ---- *)
  Lemma covers1_in r t ks k key :
    ktarget_ok t = true -> tden r t ks -> covers1 t k = true -> kden r k key -> In key ks.
  Proof.
    intros Hok Ht Hc Hk. destruct t as [k' | s]; simpl in Hok, Hc.
    - apply kexpr_eqb_eq in Hc. subst k'. inversion Ht as [k0 key0 Hk0 | ]; subst.
      rewrite (kden_fun r k Hok _ _ Hk0 Hk). left. reflexivity.
    - inversion Ht as [ | s0 ks0 Hs]; subst.
      destruct k as [i | e | x | x s' | s' | ]; try discriminate.
      + destruct s as [f d | y | ]; try discriminate. destruct d as [|d]; try discriminate.
        apply Nat.leb_le in Hc. rewrite den_sargs in Hs. inversion Hs; subst ks.
        inversion Hk; subst. eapply nth_error_in_skipn; eauto.
      + apply kset_eqb_eq in Hc. subst s'. inversion Hk; subst. congruence.
      + apply kset_eqb_eq in Hc. subst s'. inversion Hk; subst. congruence.
  Qed.

  Lemma covers_in r k key : forall ts keys,
    forallb ktarget_ok ts = true -> tsden r ts keys ->
    existsb (fun t => covers1 t k) ts = true -> kden r k key -> In key keys.
  Proof.
    intros ts keys Hok Hts. revert Hok.
    induction Hts as [ | t ts ks ks' Ht Hts IH]; simpl; intros Hok Hc Hk; [discriminate|].
    apply andb_true_iff in Hok. destruct Hok as [Hok1 Hok2].
    apply in_or_app. apply orb_true_iff in Hc. destruct Hc as [Hc | Hc].
    - left. eapply covers1_in; eauto.
    - right. auto.
  Qed.

  (* ---- rebinding a variable an expression does not mention ---- *)
  Lemma den_set_bind r x v vs s : kset_mentions x s = false -> den_set (bind r x v vs) s = den_set r s.
  Proof.
    destruct s as [f d | y | ]; simpl; intros Hm; try reflexivity.
    rewrite String.eqb_sym in Hm. rewrite Hm. reflexivity.
  Qed.

  Lemma kden_bind r x v vs k key :
    kexpr_mentions x k = false -> kden r k key -> kden (bind r x v vs) k key.
  Proof.
    intros Hm Hk. induction Hk as [i k Hn | e k Hk IH | y | y s ks Hs Hin | s ks k Hs Hin | k]; simpl in Hm.
    - constructor. exact Hn.
    - constructor. auto.
    - rewrite String.eqb_sym in Hm.
      replace (e_kv r y) with (e_kv (bind r x v vs) y) by (simpl; rewrite Hm; reflexivity).
      constructor.
    - apply orb_false_iff in Hm. destruct Hm as [Hm1 Hm2]. rewrite String.eqb_sym in Hm1.
      replace (e_kv r y) with (e_kv (bind r x v vs) y) by (simpl; rewrite Hm1; reflexivity).
      econstructor.
      + rewrite den_set_bind by exact Hm2. exact Hs.
      + simpl. rewrite Hm1. exact Hin.
    - econstructor; [rewrite den_set_bind by exact Hm; exact Hs | exact Hin].
    - constructor.
  Qed.

  Lemma tsden_bind r x v vs ts keys :
    existsb (ktarget_mentions x) ts = false -> tsden r ts keys -> tsden (bind r x v vs) ts keys.
  Proof.
    intros Hm Hts. induction Hts as [ | t ts ks ks' Ht Hts IH]; simpl in Hm.
    - constructor.
    - apply orb_false_iff in Hm. destruct Hm as [Hm1 Hm2]. constructor; [|auto].
      destruct Ht as [k key Hk | s ks Hs]; simpl in Hm1.
      + constructor. apply kden_bind; assumption.
      + constructor. rewrite den_set_bind by exact Hm1. exact Hs.
  Qed.

  (* ---- the monitor ---- *)
  Lemma gmon_app g t1 : forall t2 g1, gmon g t1 = Some g1 -> gmon g (t1 ++ t2) = gmon g1 t2.
  Proof.
    revert g. induction t1 as [|a t1 IH]; simpl; intros g t2 g1 H.
    - inversion H; subst. reflexivity.
    - destruct (gstep g a) as [g'|]; [|discriminate]. apply IH. exact H.
  Qed.

  Definition gof (m : mode) (keys : list bytes) : ghold :=
    rev (map (fun l => (l, m)) (poses nlocks keys)).

  Lemma gmon_acq m : forall ps (h : ghold),
    StronglySorted N.lt ps -> (forall p l, In p h -> In l ps -> N.lt (fst p) l) ->
    gmon (h, false) (map (GAcq m) ps) = Some (rev (map (fun l => (l, m)) ps) ++ h, false).
  Proof.
    induction ps as [|a ps IH]; intros h Hs Hlt.
    - reflexivity.
    - simpl map. simpl gmon.
      assert (Hall : forallb (fun p : N * mode => N.ltb (fst p) a) h = true).
      { apply forallb_forall. intros p Hp. apply N.ltb_lt. apply Hlt; [exact Hp | left; reflexivity]. }
      rewrite Hall. simpl. inversion Hs as [ | a' ps' Hs' Hfa]; subst.
      rewrite IH.
      + rewrite <- app_assoc. reflexivity.
      + exact Hs'.
      + intros p l [<- | Hp] Hl.
        * simpl. rewrite Forall_forall in Hfa. apply Hfa. exact Hl.
        * apply Hlt; [exact Hp | right; exact Hl].
  Qed.

  Lemma gmon_rel : forall ps (h : ghold) b,
    NoDup ps -> (forall l, In l ps <-> In l (map fst h)) ->
    gmon (h, b) (map GRel ps) = Some ([], match ps with [] => b | _ => false end).
  Proof.
    induction ps as [|l ps IH]; intros h b Hnd Hset.
    - destruct h as [|p h]; [reflexivity|]. exfalso. apply (Hset (fst p)). left. reflexivity.
    - simpl map. simpl gmon.
      assert (Hh : gholds h l = true).
      { unfold gholds. apply existsb_exists.
        assert (Hin : In l (map fst h)) by (apply Hset; left; reflexivity).
        apply in_map_iff in Hin. destruct Hin as (p & Hp & Hin). exists p. split; [exact Hin|].
        rewrite Hp. apply N.eqb_refl. }
      rewrite Hh. inversion Hnd as [ | l' ps' Hnotin Hnd']; subst.
      assert (Hset' : forall l', In l' ps <-> In l' (map fst (gdrop h l))).
      { intros l'. unfold gdrop. split.
        - intros Hin. assert (Hin' : In l' (map fst h)) by (apply Hset; right; exact Hin).
          apply in_map_iff in Hin'. destruct Hin' as (p & Hp & Hin'). apply in_map_iff. exists p.
          split; [exact Hp|]. apply filter_In. split; [exact Hin'|].
          apply negb_true_iff. apply N.eqb_neq. rewrite Hp. intros ->. contradiction.
        - intros Hin. apply in_map_iff in Hin. destruct Hin as (p & Hp & Hin).
          apply filter_In in Hin. destruct Hin as [Hin Hne].
          apply negb_true_iff in Hne. apply N.eqb_neq in Hne.
          assert (Hin' : In l' (l :: ps)).
          { apply Hset. apply in_map_iff. exists p. auto. }
          destruct Hin' as [-> | Hin']; [congruence | exact Hin']. }
      rewrite (IH _ _ Hnd' Hset'). destruct ps as [|l2 ps]; [|reflexivity].
      destruct (gdrop h l) as [|p h'] eqn:Hg; [reflexivity|].
      exfalso. apply (Hset' (fst p)). left. reflexivity.
  Qed.

  Lemma gof_fst m keys l : In l (poses nlocks keys) <-> In l (map fst (gof m keys)).
  Proof.
    unfold gof. rewrite map_rev, map_map. simpl. rewrite map_id. apply in_rev.
  Qed.

  Lemma gmon_acq_poses m keys :
    gmon ([], false) (map (GAcq m) (poses nlocks keys)) = Some (gof m keys, false).
  Proof.
    rewrite gmon_acq.
    - rewrite app_nil_r. reflexivity.
    - apply poses_sorted.
    - intros p l [].
  Qed.

  Lemma gmon_rel_poses m keys :
    gmon (gof m keys, false) (map GRel (poses nlocks keys)) = Some ([], false).
  Proof.
    rewrite (gmon_rel (poses nlocks keys) (gof m keys) false).
    - destruct (poses nlocks keys); reflexivity.
    - apply poses_nodup.
    - intros l. apply gof_fst.
  Qed.

  Lemma gof_holds m keys key : In key keys -> gholds (gof m keys) (st key) = true.
  Proof.
    intros Hin. unfold gholds. apply existsb_exists. exists (st key, m). split.
    - unfold gof. apply in_rev. rewrite rev_involutive. apply in_map_iff. exists (st key). split; [reflexivity|].
      apply poses_same_set. apply in_map. exact Hin.
    - simpl. apply N.eqb_refl.
  Qed.

  Lemma gof_holds_w keys key : In key keys -> gholds_w (gof W keys) (st key) = true.
  Proof.
    intros Hin. unfold gholds_w. apply existsb_exists. exists (st key, W). split.
    - unfold gof. apply in_rev. rewrite rev_involutive. apply in_map_iff. exists (st key). split; [reflexivity|].
      apply poses_same_set. apply in_map. exact Hin.
    - simpl. rewrite N.eqb_refl. reflexivity.
  Qed.

  (* ---- the simulation ---- *)
  Inductive HeldSim (r : env) : list hentry -> ghold * bool -> Prop :=
  | HS0 : HeldSim r [] ([], false)
  | HS1 : forall m ts keys, forallb ktarget_ok ts = true -> tsden r ts keys ->
      HeldSim r [(m, ts)] (gof m keys, false).

  Definition Sim (r : env) (D : list (list ev)) (s : ast) (g : ghold * bool) : Prop :=
    a_defers s = D /\ HeldSim r (a_held s) g.

  Lemma Sim_ext r D s s' g :
    a_held s' = a_held s -> a_defers s' = a_defers s -> Sim r D s g -> Sim r D s' g.
  Proof. intros Hh Hd [H1 H2]. split; [congruence | rewrite Hh; exact H2]. Qed.

  Lemma covered_sound r h g a k key :
    HeldSim r h g -> covered h a k = true -> kden r k key -> gstep g (acc_act a key) = Some g.
  Proof.
    intros Hh Hc Hk. destruct Hh as [ | m ts keys Hok Hts]; [discriminate|].
    unfold covered in Hc. simpl in Hc. rewrite orb_false_r in Hc.
    apply andb_true_iff in Hc. destruct Hc as [Hm Hc].
    assert (Hin : In key keys) by (eapply covers_in; eauto).
    destruct a; simpl.
    - rewrite (gof_holds m keys key Hin). reflexivity.
    - destruct m; [discriminate|]. rewrite (gof_holds_w keys key Hin). reflexivity.
  Qed.
