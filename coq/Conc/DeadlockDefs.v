(* Lock ordering => no deadlock: definitions (DESIGN.md Appendix A.4).

   Any number of threads, each running a fixed program of lock acquisitions and releases over
   any number of reader-writer locks (indexed by nat: the stripe index of memdb/dblock.go).
   The lock semantics is Go's sync.RWMutex as far as blocking is concerned:
     - Lock()  announces itself first (from then on NEW readers are refused: writer preference)
               and is granted when nobody holds the lock;
     - RLock() is granted when no writer holds the lock and no writer is announced on it;
     - Unlock()/RUnlock() never block.
   The lock table is not a separate component: who holds what is read off the threads. *)
Require Import List Arith Bool.
Import ListNotations.
Require Import Conc.TwoPLDefs.   (* mode R | W *)

Inductive instr := IAcq (m : mode) (l : nat) | IRel (l : nat).

Record thread := mkT {
  th_held : list (nat * mode);     (* locks currently held *)
  th_ann : bool;                   (* has announced the pending Lock() at the head of th_prog *)
  th_prog : list instr             (* what remains to be executed *)
}.

Definition sys := list thread.

Definition init (progs : list (list instr)) : sys := map (fun p => mkT [] false p) progs.

Definition holds_lock (th : thread) (l : nat) : bool :=
  existsb (fun p => Nat.eqb (fst p) l) (th_held th).
Definition holds_lock_w (th : thread) (l : nat) : bool :=
  existsb (fun p => Nat.eqb (fst p) l && mode_eqb (snd p) W) (th_held th).
Definition waiting_writer (th : thread) (l : nat) : bool :=
  match th_prog th with
  | IAcq W l' :: _ => th_ann th && Nat.eqb l' l
  | _ => false
  end.

Definition free (s : sys) (l : nat) : bool := forallb (fun th => negb (holds_lock th l)) s.
Definition readable (s : sys) (l : nat) : bool :=
  forallb (fun th => negb (holds_lock_w th l) && negb (waiting_writer th l)) s.

Definition drop_lock (h : list (nat * mode)) (l : nat) : list (nat * mode) :=
  filter (fun p => negb (Nat.eqb (fst p) l)) h.

(* what thread [th] can do next in system [s] *)
Inductive th_step (s : sys) : thread -> thread -> Prop :=
| TAnnounce : forall h l r,
    th_step s (mkT h false (IAcq W l :: r)) (mkT h true (IAcq W l :: r))
| TGrantW : forall h l r,
    free s l = true ->
    th_step s (mkT h true (IAcq W l :: r)) (mkT ((l, W) :: h) false r)
| TGrantR : forall h a l r,
    readable s l = true ->
    th_step s (mkT h a (IAcq R l :: r)) (mkT ((l, R) :: h) false r)
| TRelease : forall h a l r,
    th_step s (mkT h a (IRel l :: r)) (mkT (drop_lock h l) false r).

(* one thread moves, the others stay *)
Inductive step : sys -> sys -> Prop :=
| Step : forall pre th th' post,
    th_step (pre ++ th :: post) th th' ->
    step (pre ++ th :: post) (pre ++ th' :: post).

Inductive reachable (s0 : sys) : sys -> Prop :=
| ReachInit : reachable s0 s0
| ReachStep : forall s s', reachable s0 s -> step s s' -> reachable s0 s'.

Definition unfinished (s : sys) : Prop := exists th, In th s /\ th_prog th <> [].

(* the discipline: a lock is requested only if it is above every lock held (so never one that
   is already held), only held locks are released, nothing is held at the end *)
Fixpoint ordered_from (h : list nat) (p : list instr) : bool :=
  match p with
  | [] => match h with [] => true | _ => false end
  | IAcq _ l :: r => forallb (fun x => Nat.ltb x l) h && ordered_from (l :: h) r
  | IRel l :: r => existsb (Nat.eqb l) h && ordered_from (filter (fun x => negb (Nat.eqb x l)) h) r
  end.
Definition ordered (p : list instr) : bool := ordered_from [] p.

(* mutual exclusion, to be shown invariant: two different threads hold the same lock only if
   both hold it as readers *)
Definition exclusive (s : sys) : Prop :=
  forall pre th mid th' post l m m',
    s = pre ++ th :: mid ++ th' :: post ->
    In (l, m) (th_held th) -> In (l, m') (th_held th') -> m = R /\ m' = R.

(* remaining work: strictly decreases with every step *)
Definition th_measure (th : thread) : nat :=
  2 * length (th_prog th) - (if th_ann th then 1 else 0).
Definition measure (s : sys) : nat := fold_right (fun th n => th_measure th + n) 0 s.
