(* Replies that alias stored state (C05).

   The 2PL theorem speaks of reads performed INSIDE the critical section ([wl]: a Rd needs its
   guard held).  The executors hand the stored []byte to the reply, and the reply is serialised
   after the lock is released: the bytes are read late.  That late read is harmless exactly when
   stored byte slices are immutable (every writer stores a new slice): then reading the slice late
   yields what reading it at the lock point yields.  [replies_do_not_alias_mutable_state] is that
   premise as a boolean over the facts the translator regenerates (in-place writes into stored
   byte slices; replies handing out the stored slice); [aliasing_reply_refuted] shows what
   happens without it: a reader that takes the read lock, releases it and then reads the two
   halves of a value, interleaved with a writer that holds the write lock for both of its
   writes, observes a value the location never held -- no serial order explains it. *)
Require Import List Arith Bool String.
Import ListNotations.
Require Import Conc.TwoPLDefs.

Definition replies_do_not_alias_mutable_state
           (inplace_writes escaping_replies : list (string * string)) : bool :=
  match inplace_writes with
  | [] => true                                   (* stored byte slices are immutable *)
  | _ :: _ => match escaping_replies with [] => true | _ :: _ => false end
  end.

(* ---- a decidable form of [legal], for concrete schedules ---- *)
Section Legalb.
  Variables Loc Lk Val Lst : Type.
  Variable Lk_eqb : Lk -> Lk -> bool.
  Hypothesis Lk_eqb_spec : forall a b, reflect (a = b) (Lk_eqb a b).

  Definition conflicts_with (pre : schedule Loc Lk Val Lst) (t : tid) (m : mode) (l : Lk) (t' : tid) : bool :=
    Nat.eqb t' t ||
    forallb (fun p => negb (Lk_eqb (fst p) l) || (mode_eqb m R && mode_eqb (snd p) R))
            (holding Loc Lk Val Lst Lk_eqb pre t').

  Fixpoint legalb_from (pre rest : schedule Loc Lk Val Lst) : bool :=
    match rest with
    | [] => true
    | (t, a) :: r =>
        (match a with
         | Acq m l => forallb (conflicts_with pre t m l) (tids Loc Lk Val Lst pre)
         | _ => true
         end) && legalb_from (pre ++ [(t, a)]) r
    end.
  Definition legalb (s : schedule Loc Lk Val Lst) : bool := legalb_from [] s.

  Lemma events_of_not_in : forall pre t', ~ In t' (tids Loc Lk Val Lst pre) ->
    events_of Loc Lk Val Lst t' pre = [].
  Proof.
    induction pre as [|[t a] pre IH]; intros t' H; [reflexivity|].
    unfold events_of in *. simpl in *.
    destruct (Nat.eqb_spec t t') as [->|N].
    - exfalso. apply H. left. reflexivity.
    - apply IH. intros Hin. apply H. right. exact Hin.
  Qed.

  Lemma holding_not_in : forall pre t', ~ In t' (tids Loc Lk Val Lst pre) ->
    holding Loc Lk Val Lst Lk_eqb pre t' = [].
  Proof.
    intros pre t' H. unfold holding, proj. rewrite (events_of_not_in pre t' H). reflexivity.
  Qed.

  Lemma legalb_from_sound : forall rest pre,
    legalb_from pre rest = true ->
    forall p t m l post, rest = p ++ (t, Acq m l) :: post ->
      forall t' m', t' <> t -> In (l, m') (holding Loc Lk Val Lst Lk_eqb (pre ++ p) t') -> m = R /\ m' = R.
  Proof.
    induction rest as [|[t0 a0] rest IH]; intros pre H p t m l post E t' m' Hne Hin.
    - destruct p; discriminate.
    - simpl in H. apply andb_true_iff in H as [H1 H2].
      destruct p as [|e p].
      + simpl in E. inversion E; subst. rewrite app_nil_r in Hin.
        destruct (in_dec Nat.eq_dec t' (tids Loc Lk Val Lst pre)) as [Ht'|Ht'].
        * rewrite forallb_forall in H1. specialize (H1 t' Ht').
          unfold conflicts_with in H1. apply orb_true_iff in H1 as [H1|H1].
          { apply Nat.eqb_eq in H1. contradiction. }
          rewrite forallb_forall in H1. specialize (H1 (l, m') Hin). simpl in H1.
          apply orb_true_iff in H1 as [H1|H1].
          { destruct (Lk_eqb_spec l l); [discriminate|contradiction]. }
          apply andb_true_iff in H1 as [Ha Hb]. destruct m, m'; try discriminate. split; reflexivity.
        * rewrite (holding_not_in pre t' Ht') in Hin. destruct Hin.
      + simpl in E. inversion E; subst.
        apply (IH (pre ++ [(t0, a0)]) H2 p t m l post eq_refl t' m' Hne).
        rewrite <- app_assoc. simpl. exact Hin.
  Qed.

  Theorem legalb_sound : forall s, legalb s = true -> legal Loc Lk Val Lst Lk_eqb s.
  Proof.
    intros s H pre t m l post E t' m' Hne Hin.
    exact (legalb_from_sound s [] H pre t m l post E t' m' Hne Hin).
  Qed.
End Legalb.

(* ---- the refutation: two byte positions of one value, one lock ---- *)
Definition rd_fst : nat * nat -> nat -> nat * nat := fun l v => (v, snd l).
Definition rd_snd : nat * nat -> nat -> nat * nat := fun l v => (fst l, v).
Definition wr_one : nat * nat -> nat -> (nat * nat) * nat := fun l _ => (l, 1).

Definition A := act nat nat nat (nat * nat).
Definition writer : list A := [Acq W 0; Commit; Wr 0 wr_one; Wr 1 wr_one; Rel 0].
(* the reader releases the read lock and serialises the reply afterwards *)
Definition late_reader : list A := [Acq R 0; Commit; Rel 0; Rd 0 rd_fst; Rd 1 rd_snd].
Definition good_reader : list A := [Acq R 0; Commit; Rd 0 rd_fst; Rd 1 rd_snd; Rel 0].

Definition on (t : tid) (tx : list A) : schedule nat nat nat (nat * nat) := map (fun a => (t, a)) tx.
Definition torn_schedule : schedule nat nat nat (nat * nat) :=
  on 1 [Acq R 0; Commit; Rel 0; Rd 0 rd_fst] ++ on 2 writer ++ on 1 [Rd 1 rd_snd].

Definition st0 : state nat nat (nat * nat) := mkState nat nat (nat * nat) (fun _ => (7, 7)) (fun _ => 0).
Definition guard0 : nat -> nat := fun _ => 0.      (* both positions under the key's one stripe *)

Theorem aliasing_reply_refuted :
  legal nat nat nat (nat * nat) Nat.eqb torn_schedule /\
  wl nat nat nat (nat * nat) Nat.eqb guard0 (proj nat nat nat (nat * nat) 2 torn_schedule) = true /\
  wl nat nat nat (nat * nat) Nat.eqb guard0 (proj nat nat nat (nat * nat) 1 torn_schedule) = false /\
  (* the reader saw old first half, new second half ... *)
  locals nat nat (nat * nat) (run nat nat nat (nat * nat) Nat.eqb torn_schedule st0) 1 = (0, 1) /\
  (* ... which neither serial order produces *)
  locals nat nat (nat * nat) (run nat nat nat (nat * nat) Nat.eqb (on 1 late_reader ++ on 2 writer) st0) 1 = (0, 0) /\
  locals nat nat (nat * nat) (run nat nat nat (nat * nat) Nat.eqb (on 2 writer ++ on 1 late_reader) st0) 1 = (1, 1) /\
  (* reading inside the section is what [wl] demands *)
  wl nat nat nat (nat * nat) Nat.eqb guard0 good_reader = true.
Proof.
  split; [apply (legalb_sound nat nat nat (nat * nat) Nat.eqb Nat.eqb_spec); vm_compute; reflexivity|].
  repeat split; vm_compute; reflexivity.
Qed.

Local Open Scope string_scope.
Example premise_examples :
  replies_do_not_alias_mutable_state [] [("get", "reply aliases the stored slice")] = true /\
  replies_do_not_alias_mutable_state [("setrange", "copy into a stored byte slice")]
                                     [("get", "reply aliases the stored slice")] = false.
Proof. split; reflexivity. Qed.

Print Assumptions aliasing_reply_refuted.
Print Assumptions legalb_sound.
