(* The obligations the regenerated lock skeletons must meet (DESIGN.md 2.3 (T)); stated once here
   as boolean functions of the generated data, decided by vm_compute in Gen/Obligations.v on every
   check run. *)
Require Import List String Bool.
Import ListNotations.
Require Import Conc.TwoPLDefs Conc.Skel Conc.Alias.
Local Open Scope string_scope.

Definition smem (x : string) (l : list string) : bool := existsb (String.eqb x) l.

(* Commands the properties do not require to be one atomic step: C05 speaks of single-key
   commands, C13 demands atomicity of MSET, RENAME, LMOVE, SMOVE only and deadlock freedom of the
   rest.  Each of these may run several critical sections (one key per section, or a snapshot of
   the key map), every one of which must still be well locked. *)
Definition nonatomic_ok : list string :=
  ["mget"; "del"; "exists"; "keys"; "blpop"; "brpop";
   "sdiffstore"; "sinterstore"; "sunionstore"].

(* Commands that must be present and be exactly one two-phase critical section. *)
Definition must_be_atomic : list string :=
  ["mset"; "rename"; "lmove"; "smove";
   "set"; "get"; "setnx"; "setex"; "append"; "strlen"; "getrange"; "setrange";
   "incr"; "incrby"; "decr"; "decrby"; "incrbyfloat";
   "lpush"; "rpush"; "lpushx"; "rpushx"; "lpop"; "rpop"; "llen"; "lindex"; "lrange"; "lset"; "lrem"; "ltrim";
   "sadd"; "srem"; "spop"; "scard"; "sismember"; "smembers";
   "hset"; "hget"; "hdel"; "hincrby";
   "expire"; "persist"; "ttl"; "type"].

Definition skel_of (name : string) (skels : list (string * list ev)) : option (list ev) :=
  match find (fun p => String.eqb (fst p) name) skels with Some p => Some (snd p) | None => None end.

Section Obligations.
  Variable known : list string.                  (* executors with an open, listed finding *)
  Variable skels : list (string * list ev).
  Variable helpers : list (string * list ev).
  Variable facts : list (string * bool).
  Variables inplace escaping : list (string * string).   (* stored byte slices: writes in place / handed to replies *)

  Definition exempt (name : string) : bool := smem name known && negb (smem name must_be_atomic).

  Definition obl_well_locked : bool :=
    forallb (fun p => exempt (fst p) || well_locked (snd p)) skels.
  Definition obl_ordered_acquisition : bool :=
    forallb (fun p => ordered_acquisition (snd p)) skels.
  Definition obl_sections : bool :=
    forallb (fun p => exempt (fst p) || single_section (snd p) || smem (fst p) nonatomic_ok) skels.
  Definition obl_atomic_present : bool :=
    forallb (fun n => match skel_of n skels with
                      | Some sk => well_locked sk && single_section sk
                      | None => false
                      end) must_be_atomic.
  Definition obl_helpers : bool :=
    match skel_of "@CheckTTL" helpers, skel_of "@SetTTL" helpers, skel_of "@DelTTL" helpers with
    | Some c, Some s, Some d => checkttl_ok c && helper_ok "key" s && helper_ok "key" d
    | _, _, _ => false
    end.
  Definition obl_facts : bool := negb (match facts with [] => true | _ => false end) && forallb snd facts.

  (* premise of reading the reply after the lock is released: stored byte slices are immutable *)
  Definition obl_replies : bool := replies_do_not_alias_mutable_state inplace escaping.

  Definition all_obligations : list (string * bool) :=
    [("well_locked", obl_well_locked); ("ordered_acquisition", obl_ordered_acquisition);
     ("sections", obl_sections); ("atomic_present", obl_atomic_present);
     ("helpers", obl_helpers); ("shape_facts", obl_facts);
     ("replies_do_not_alias_mutable_state", obl_replies)].
End Obligations.

(* one printable line per executor, for the check's report *)
Definition b2s (b : bool) : string := if b then "1" else "0".
Definition report_line (p : string * list ev) : string :=
  fst p ++ "|" ++ why_not (snd p) ++ "|" ++ b2s (single_section (snd p)) ++ "|" ++
  b2s (ordered_acquisition (snd p)) ++ "|" ++ why_not (erase 64 (snd p)).
