(* The chain from the decidable obligation to the theorems about all schedules.

     well_locked sk = true        (vm_compute over the regenerated skeletons, every check run)
       => every ground run of sk is accepted by the monitor gsafe          (SkelSound)
       => its critical sections are well-locked two-phase transactions wl   (GroundBridge)
          and its lock program follows the ordered discipline               (GroundBridge)
       => any legal interleaving of such transactions equals the serial execution in lock-point
          order, which respects real time                                   (TwoPL)
          and no reachable state of any number of such threads is stuck     (Deadlock).        *)
Require Import List Arith Bool NArith.
Import ListNotations.
Require Import Base.Bytes.
Require Import Conc.TwoPLDefs Conc.TwoPL Conc.DeadlockDefs Conc.Deadlock.
Require Import Conc.LockModel Conc.LockOrder Conc.Skel Conc.SkelSem Conc.SkelSound Conc.GroundBridge.

Lemma ordered_from_app : forall p h q,
  ordered_from h p = true -> ordered_from h (p ++ q) = ordered_from [] q.
Proof.
  induction p as [|i p IH]; intros h q H; simpl in *.
  - destruct h; [reflexivity|discriminate].
  - destruct i as [m l|l].
    + apply andb_true_iff in H as [H1 H2]. rewrite H1. simpl. apply IH. exact H2.
    + apply andb_true_iff in H as [H1 H2]. rewrite H1. simpl. apply IH. exact H2.
Qed.

Lemma ordered_app : forall p q, ordered p = true -> ordered q = true -> ordered (p ++ q) = true.
Proof.
  unfold ordered. intros p q Hp Hq. rewrite (ordered_from_app p [] q Hp). exact Hq.
Qed.

Lemma lockprog_app : forall a b, lockprog (a ++ b) = lockprog a ++ lockprog b.
Proof. intros a b. unfold lockprog. apply flat_map_app. Qed.

Lemma sorted_dedup : forall nlocks keys,
  Sorted.StronglySorted N.lt (poses nlocks keys) /\
  (forall p, In p (poses nlocks keys) <-> In p (map (stripe nlocks) keys)).
Proof. intros nlocks keys. split; [apply poses_sorted | apply poses_same_set]. Qed.

Lemma multi_is_ordered : forall nlocks lower sk args t,
  well_locked sk = true -> run_of nlocks lower sk args t -> ordered (lockprog t) = true.
Proof.
  intros nlocks lower sk args t Hw Hr.
  exact (gsafe_ordered nlocks t (well_locked_sound nlocks lower sk args t Hw Hr)).
Qed.

Section Chain.
  Variable nlocks : N.
  Variable lower : bytes -> bytes.

  (* one command execution: a skeleton the obligation accepted, an argument vector, one of its runs *)
  Record cmd_run := mkRun { cr_sk : list ev; cr_args : list bytes; cr_trace : list (gact) }.

  Definition good_run (c : cmd_run) : Prop :=
    well_locked (cr_sk c) = true /\ run_of nlocks lower (cr_sk c) (cr_args c) (cr_trace c).

  (* a client thread: any sequence of command executions *)
  Definition thread_trace (th : list cmd_run) : list gact := concat (map cr_trace th).

  Lemma run_ordered : forall c, good_run c -> ordered (lockprog (cr_trace c)) = true.
  Proof.
    intros c [Hw Hr]. apply (gsafe_ordered nlocks). eapply well_locked_sound; eassumption.
  Qed.

  Lemma thread_ordered : forall th, Forall good_run th -> ordered (lockprog (thread_trace th)) = true.
  Proof.
    induction th as [|c th IH]; intros H.
    - reflexivity.
    - inversion H as [|? ? Hc Hth]; subst.
      unfold thread_trace. simpl. rewrite lockprog_app.
      apply ordered_app; [apply run_ordered; exact Hc | apply IH; exact Hth].
  Qed.

  (* C13: any number of client threads, each executing any sequence of commands whose executors
     passed the obligation, on any arguments (any key overlap, any stripe collisions): no
     reachable state of the lock system is stuck, and every maximal run ends with all finished *)
  Theorem executors_deadlock_free : forall (threads : list (list cmd_run)) s,
    Forall (Forall good_run) threads ->
    reachable (init (map (fun th => lockprog (thread_trace th)) threads)) s ->
    unfinished s -> exists s', DeadlockDefs.step s s'.
  Proof.
    intros threads s H Hr Hu.
    eapply deadlock_free; [|exact Hr|exact Hu].
    apply Forall_forall. intros p Hp. apply in_map_iff in Hp as [th [<- Hth]].
    apply thread_ordered. rewrite Forall_forall in H. apply H. exact Hth.
  Qed.

  Theorem executors_all_finish : forall (threads : list (list cmd_run)) s,
    Forall (Forall good_run) threads ->
    reachable (init (map (fun th => lockprog (thread_trace th)) threads)) s ->
    (~ exists s', DeadlockDefs.step s s') -> Forall (fun th => th_prog th = []) s.
  Proof.
    intros threads s H Hr Hn.
    eapply all_runs_finish; [|exact Hr|exact Hn].
    apply Forall_forall. intros p Hp. apply in_map_iff in Hp as [th [<- Hth]].
    apply thread_ordered. rewrite Forall_forall in H. apply H. exact Hth.
  Qed.

  (* C05 / C13 atomicity: the critical sections of accepted executors are well-locked
     transactions, whatever the data functions (what the command computes) are *)
  Section Data.
    Variables Val Lst : Type.
    Variable fr : bytes -> Lst -> Val -> Lst.
    Variable fw : bytes -> Lst -> Val -> Lst * Val.

    Definition is_section_of (c : cmd_run) (tx : list (act bytes N Val Lst)) : Prop :=
      exists sec, In sec (sections nlocks (cr_trace c)) /\ tx = to_tx Val Lst fr fw sec.

    Lemma sections_wl : forall c tx, good_run c -> is_section_of c tx ->
      wl bytes N Val Lst N.eqb (stripe nlocks) tx = true.
    Proof.
      intros c tx [Hw Hr] [sec [Hin ->]].
      pose proof (gsafe_wl nlocks Val Lst fr fw (cr_trace c)
                    (well_locked_sound nlocks lower _ _ _ Hw Hr)) as HF.
      rewrite Forall_forall in HF. apply HF. exact Hin.
    Qed.

    (* every transaction of the schedule is a critical section of some accepted executor run *)
    Definition from_executors (s : schedule bytes N Val Lst) : Prop :=
      forall t, In t (tids bytes N Val Lst s) ->
        exists c, good_run c /\ is_section_of c (proj bytes N Val Lst t s).

    Theorem executors_serializable : forall s,
      legal bytes N Val Lst N.eqb s -> from_executors s ->
      (forall st, state_eq bytes Val Lst (run bytes N Val Lst bytes_eqb (serial bytes N Val Lst s) st)
                                          (run bytes N Val Lst bytes_eqb s st)) /\
      NoDup (commit_order bytes N Val Lst s) /\
      (forall t, In t (commit_order bytes N Val Lst s) <-> In t (tids bytes N Val Lst s)) /\
      (forall t t', precedes bytes N Val Lst s t t' -> before (commit_order bytes N Val Lst s) t t').
    Proof.
      intros s Hl Hf.
      assert (HW : forall t, In t (tids bytes N Val Lst s) ->
                 wl bytes N Val Lst N.eqb (stripe nlocks) (proj bytes N Val Lst t s) = true).
      { intros t Ht. destruct (Hf t Ht) as [c [Hg Hs]]. eapply sections_wl; eassumption. }
      split; [|split; [|split]].
      - intros st. apply (twopl_serializable bytes N Val Lst bytes_eqb N.eqb bytes_eqb_spec N.eqb_spec
                            (stripe nlocks) s Hl HW).
      - apply (commit_order_complete bytes N Val Lst N.eqb (stripe nlocks) s HW).
      - apply (commit_order_complete bytes N Val Lst N.eqb (stripe nlocks) s HW).
      - intros t t'. apply (commit_order_realtime bytes N Val Lst N.eqb (stripe nlocks) s t t' HW).
    Qed.
  End Data.
End Chain.
