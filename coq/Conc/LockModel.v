(* Executable model of memdb/dblock.go's stripe selection (util.HashKey, GetKeyPos,
   sortedLockPoses) -- definitions only; compared bit-exactly with Go on every check run. *)
Require Import Base.Bytes Base.Reply Mem.Types Mem.Exec.
Local Open Scope N_scope.

(* hash/fnv New32(): FNV-1, 32 bit -- multiply by the prime, then xor the byte *)
Definition fnv_offset : N := 2166136261.
Definition fnv_prime : N := 16777619.
Definition fnv_step (h : N) (c : byte) : N := N.lxor (N.land (h * fnv_prime) 4294967295) (bval c).
Definition fnv1_32 (b : bytes) : N := fold_left fnv_step b fnv_offset.

(* util.HashKey: "@#&" + key + "*^%$" *)
Definition hk_prefix : bytes := ["@"; "#"; "&"]%byte.
Definition hk_suffix : bytes := ["*"; "^"; "%"; "$"]%byte.
Definition hash_key (k : bytes) : N := fnv1_32 (hk_prefix ++ k ++ hk_suffix).

(* Locks.GetKeyPos with len(l.locks) = nlocks; ConcurrentMap.getKeyPos with the shard count *)
Definition stripe (nlocks : N) (k : bytes) : N := hash_key k mod nlocks.

(* sortedLockPoses: the set of stripe indexes (a Go map used as a set), then sort.Ints *)
Fixpoint ins (x : N) (l : list N) : list N :=
  match l with
  | [] => [x]
  | y :: r => if x <=? y then x :: l else y :: ins x r
  end.
Definition isort (l : list N) : list N := fold_right ins [] l.
Definition poses (nlocks : N) (keys : list bytes) : list N :=
  isort (nodup N.eq_dec (map (stripe nlocks) keys)).

(* which command names the sequential model knows (so the checker can tell "not modelled"
   from "replies with an error") *)
Definition modelled (name : bytes) : bool :=
  existsb (fun f : family =>
             match f empty_db 0%Z 0%Z name [name] RNil with Some _ => true | None => false end)
          families.
