(* Two-phase locking over an abstract store: definitions (DESIGN.md Appendix A.3).

   A schedule is an interleaving of the events of any number of transactions (one transaction =
   one command invocation, identified by a [tid]).  Events are lock acquisitions / releases on
   reader-writer locks, reads and writes of store locations, no-ops (invocation / response
   markers) and one ghost [Commit] per transaction, which marks its lock point (after its last
   acquisition, before its first release): the instant at which the transaction "takes effect".

   Everything is parametric in the types of locations, locks, values and transaction-local
   states (the local state accumulates what the transaction has read, i.e. its reply). *)
Require Import List Arith Bool.
Import ListNotations.

Inductive mode := R | W.

Definition mode_eqb (a b : mode) : bool :=
  match a, b with R, R => true | W, W => true | _, _ => false end.

Section Defs.
  Variables Loc Lk Val Lst : Type.
  Variable Loc_eqb : Loc -> Loc -> bool.
  Variable Lk_eqb : Lk -> Lk -> bool.
  Hypothesis Loc_eqb_spec : forall a b, reflect (a = b) (Loc_eqb a b).
  Hypothesis Lk_eqb_spec : forall a b, reflect (a = b) (Lk_eqb a b).
  Variable guard : Loc -> Lk.

  Definition tid := nat.

  Inductive act :=
  | Acq (m : mode) (l : Lk)
  | Rel (l : Lk)
  | Commit
  | Nop
  | Rd (x : Loc) (f : Lst -> Val -> Lst)              (* read x, remember something *)
  | Wr (x : Loc) (f : Lst -> Val -> Lst * Val).       (* read-modify-write x *)

  Definition event := (tid * act)%type.
  Definition schedule := list event.

  (* ---- semantics: lock events, Commit and Nop do not touch the data ---- *)
  Record state := mkState { locals : tid -> Lst; store : Loc -> Val }.

  Definition upd_local (f : tid -> Lst) (t : tid) (v : Lst) : tid -> Lst :=
    fun t' => if Nat.eqb t' t then v else f t'.
  Definition upd_store (f : Loc -> Val) (x : Loc) (v : Val) : Loc -> Val :=
    fun x' => if Loc_eqb x' x then v else f x'.

  Definition step (st : state) (e : event) : state :=
    let (t, a) := e in
    match a with
    | Rd x f => mkState (upd_local (locals st) t (f (locals st t) (store st x))) (store st)
    | Wr x f => let (l', v') := f (locals st t) (store st x) in
                mkState (upd_local (locals st) t l') (upd_store (store st) x v')
    | _ => st
    end.

  Definition run (s : schedule) (st : state) : state := fold_left step s st.

  Definition state_eq (a b : state) : Prop :=
    (forall t, locals a t = locals b t) /\ (forall x, store a x = store b x).

  (* ---- per-transaction discipline ---- *)
  Definition held := list (Lk * mode).

  Definition holds (h : held) (l : Lk) : bool := existsb (fun p => Lk_eqb (fst p) l) h.
  Definition holds_w (h : held) (l : Lk) : bool :=
    existsb (fun p => Lk_eqb (fst p) l && mode_eqb (snd p) W) h.
  Definition release (h : held) (l : Lk) : held := filter (fun p => negb (Lk_eqb (fst p) l)) h.

  (* held set after a transaction prefix *)
  Definition held_step (h : held) (a : act) : held :=
    match a with
    | Acq m l => (l, m) :: h
    | Rel l => release h l
    | _ => h
    end.
  Definition held_after (tx : list act) : held := fold_left held_step tx [].

  (* [wl_from h committed tx]: well-locked two-phase transaction suffix.
       - acquisitions only before Commit, never of a lock already held;
       - releases only after Commit, only of a held lock;
       - a read of x needs guard x held (any mode), a write needs it held in W mode;
       - exactly one Commit; at the end nothing is held. *)
  Fixpoint wl_from (h : held) (committed : bool) (tx : list act) : bool :=
    match tx with
    | [] => committed && match h with [] => true | _ => false end
    | Acq m l :: r => negb committed && negb (holds h l) && wl_from ((l, m) :: h) committed r
    | Rel l :: r => committed && holds h l && wl_from (release h l) committed r
    | Commit :: r => negb committed && wl_from h true r
    | Nop :: r => wl_from h committed r
    | Rd x _ :: r => holds h (guard x) && wl_from h committed r
    | Wr x _ :: r => holds_w h (guard x) && wl_from h committed r
    end.
  Definition wl (tx : list act) : bool := wl_from [] false tx.

  (* ---- schedules ---- *)
  Definition events_of (t : tid) (s : schedule) : schedule :=
    filter (fun e => Nat.eqb (fst e) t) s.
  Definition proj (t : tid) (s : schedule) : list act := map snd (events_of t s).
  Definition tids (s : schedule) : list tid := map fst s.

  Definition holding (s : schedule) (t : tid) : held := held_after (proj t s).

  (* reader-writer exclusion: a lock is granted only if no other transaction holds it, except
     that readers share *)
  Definition legal (s : schedule) : Prop :=
    forall pre t m l post, s = pre ++ (t, Acq m l) :: post ->
      forall t' m', t' <> t -> In (l, m') (holding pre t') -> m = R /\ m' = R.

  Definition is_commit (a : act) : bool := match a with Commit => true | _ => false end.

  (* the serial order: transactions in the order of their lock points *)
  Definition commit_order (s : schedule) : list tid :=
    map fst (filter (fun e => is_commit (snd e)) s).
  Definition serial (s : schedule) : schedule :=
    flat_map (fun t => events_of t s) (commit_order s).

  (* real-time order: every event of t comes before every event of t' *)
  Definition precedes (s : schedule) (t t' : tid) : Prop :=
    In t (tids s) /\ In t' (tids s) /\
    exists s1 s2, s = s1 ++ s2 /\ ~ In t' (tids s1) /\ ~ In t (tids s2).
  Definition before (o : list tid) (t t' : tid) : Prop :=
    exists l1 l2 l3, o = l1 ++ t :: l2 ++ t' :: l3.

  (* conflict: same location, different transactions, at least one writes *)
  Definition conflict (a b : act) : bool :=
    match a, b with
    | Rd x _, Wr y _ | Wr x _, Rd y _ | Wr x _, Wr y _ => Loc_eqb x y
    | _, _ => false
    end.
End Defs.

Arguments Acq {Loc Lk Val Lst}.
Arguments Rel {Loc Lk Val Lst}.
Arguments Commit {Loc Lk Val Lst}.
Arguments Nop {Loc Lk Val Lst}.
Arguments Rd {Loc Lk Val Lst}.
Arguments Wr {Loc Lk Val Lst}.
