(* Instances of the two-phase-locking theorem (Conc/TwoPL.v): concrete atomicity properties of
   read-modify-write commands, for ARBITRARY schedules (any number of transactions, any
   interleaving), with Loc := nat, Lk := nat, an arbitrary [guard : nat -> nat] (several
   locations may share one lock = stripe collisions).

   Method: [twopl_serializable] replaces [run s st] by the serial run in commit order; the serial
   run processes whole transactions one after the other ([run_as_serial_fold]); the run of one
   transaction depends only on its data actions ([run_tx_data]); then induction over
   [commit_order s].

   C1 no_lost_incrby / no_lost_increment   INCR / INCRBY never lose an update
   C2 setnx_one_winner                     exactly one SETNX succeeds
   C3 queue_conservation / each_element_popped_once / popped_not_left
   C4 move_atomic                          RPOPLPUSH-like two-location move conserves elements
   C5 counter_commutes / atomic_adds_sum / lost_update_possible

   No axioms. *)
Require Import List Arith Bool ZArith Lia Permutation.
Import ListNotations.
Require Import Conc.TwoPLDefs Conc.TwoPL.

Local Notation locals := (TwoPLDefs.locals nat _ _).
Local Notation store := (TwoPLDefs.store nat _ _).
Local Notation step := (TwoPLDefs.step nat nat _ _ Nat.eqb).
Local Notation run := (TwoPLDefs.run nat nat _ _ Nat.eqb).
Local Notation state_eq := (TwoPLDefs.state_eq nat _ _).
Local Notation events_of := (TwoPLDefs.events_of nat nat _ _).
Local Notation proj := (TwoPLDefs.proj nat nat _ _).
Local Notation tids := (TwoPLDefs.tids nat nat _ _).
Local Notation legal := (TwoPLDefs.legal nat nat _ _ Nat.eqb).
Local Notation commit_order := (TwoPLDefs.commit_order nat nat _ _).
Local Notation serial := (TwoPLDefs.serial nat nat _ _).
Local Notation wl := (TwoPLDefs.wl nat nat _ _ Nat.eqb).

(* ====================================================================== *)
(* Generic reduction: a legal well-locked schedule runs like a fold over whole transactions *)

Section Generic.
  Variables Val Lst : Type.
  Variable guard : nat -> nat.
  Local Notation act := (TwoPLDefs.act nat nat Val Lst).
  Local Notation schedule := (TwoPLDefs.schedule nat nat Val Lst).
  Local Notation state := (TwoPLDefs.state nat Val Lst).

  Definition is_data (a : act) : bool :=
    match a with Rd _ _ | Wr _ _ => true | _ => false end.

  (* the data actions of transaction t in s, in program order *)
  Definition data (t : nat) (s : schedule) : list act := filter is_data (proj t s).

  (* run the actions tx as transaction t, uninterrupted *)
  Definition run_tx (t : nat) (tx : list act) (st : state) : state :=
    run (map (pair t) tx) st.

  (* every transaction occurring in s is well-locked and two-phase *)
  Definition WL (s : schedule) : Prop :=
    forall t, In t (tids s) -> wl guard (proj t s) = true.

  Lemma events_of_map t (s : schedule) : events_of t s = map (pair t) (proj t s).
  Proof.
    unfold TwoPLDefs.proj, TwoPLDefs.events_of.
    induction s as [|[u a] s IH]; simpl; auto.
    destruct (Nat.eqb_spec u t) as [->|N]; simpl; [f_equal|]; exact IH.
  Qed.

  Lemma run_tx_data t tx : forall st, run_tx t tx st = run_tx t (filter is_data tx) st.
  Proof.
    unfold run_tx. induction tx as [|a tx IH]; intros st; simpl; auto.
    destruct a; simpl; apply IH.
  Qed.

  Lemma run_events_of t (s : schedule) st : run (events_of t s) st = run_tx t (data t s) st.
  Proof. rewrite events_of_map. apply run_tx_data. Qed.

  Lemma run_flat_map (f : nat -> schedule) order : forall st : state,
    run (flat_map f order) st = fold_left (fun st t => run (f t) st) order st.
  Proof.
    induction order as [|t order IH]; intros st; simpl; auto.
    rewrite run_app. apply IH.
  Qed.

  Lemma fold_left_ext_In (A B : Type) (f g : A -> B -> A) (l : list B) :
    (forall a b, In b l -> f a b = g a b) -> forall a, fold_left f l a = fold_left g l a.
  Proof.
    induction l as [|x l IH]; intros H a; simpl; auto.
    rewrite (H a x (or_introl eq_refl)). apply IH. intros a' b Hb. apply H. right; exact Hb.
  Qed.

  (* serial execution of whole transactions, each given by its data actions *)
  Definition run_txs (D : nat -> list act) (order : list nat) (st : state) : state :=
    fold_left (fun st t => run_tx t (D t) st) order st.

  Lemma run_txs_cons D t order st :
    run_txs D (t :: order) st = run_txs D order (run_tx t (D t) st).
  Proof. reflexivity. Qed.

  Theorem run_as_serial_fold (s : schedule) st : legal s -> WL s ->
    state_eq (run_txs (fun t => data t s) (commit_order s) st) (run s st).
  Proof.
    intros Hl Hw.
    eapply state_eq_trans; [|apply (twopl_serializable _ _ _ _ _ _ Nat.eqb_spec Nat.eqb_spec guard s Hl Hw)].
    unfold TwoPLDefs.serial. rewrite run_flat_map. unfold run_txs.
    rewrite (fold_left_ext_In _ _ (fun st t => run_tx t (data t s) st)
                                  (fun st t => run (events_of t s) st)).
    - apply state_eq_refl.
    - intros a b _. symmetry. apply run_events_of.
  Qed.

  (* the reduction used by all corollaries: if the data actions of every transaction are
     given by D, the final state is that of running the D t one after the other in commit
     order; commit_order lists every transaction exactly once *)
  Theorem serial_reduction (s : schedule) (D : nat -> list act) st :
    legal s -> WL s -> (forall t, In t (tids s) -> data t s = D t) ->
    state_eq (run_txs D (commit_order s) st) (run s st) /\
    NoDup (commit_order s) /\
    (forall t, In t (commit_order s) <-> In t (tids s)).
  Proof.
    intros Hl Hw HD.
    destruct (commit_order_complete _ _ _ _ _ guard s Hw) as [Hnd Hin].
    split; [|split; assumption].
    replace (run_txs D (commit_order s) st) with (run_txs (fun t => data t s) (commit_order s) st).
    - apply run_as_serial_fold; assumption.
    - unfold run_txs. apply fold_left_ext_In. intros a t Ht. rewrite HD; [reflexivity|].
      apply Hin. exact Ht.
  Qed.

  (* a transaction only changes its own local state *)
  Lemma run_tx_locals_other t tx t' : t' <> t -> forall st,
    locals (run_tx t tx st) t' = locals st t'.
  Proof.
    intros N. unfold run_tx. induction tx as [|a tx IH]; intros st; simpl; auto.
    rewrite IH. destruct a; simpl; auto.
    - unfold upd_local. destruct (Nat.eqb_spec t' t); [contradiction|reflexivity].
    - destruct (f (locals st t) (store st x)); simpl.
      unfold upd_local. destruct (Nat.eqb_spec t' t); [contradiction|reflexivity].
  Qed.

  Lemma run_txs_locals_other D order t' : ~ In t' order -> forall st,
    locals (run_txs D order st) t' = locals st t'.
  Proof.
    induction order as [|t order IH]; intros N st; [reflexivity|].
    rewrite run_txs_cons, IH.
    - apply run_tx_locals_other. intros ->. apply N. left; reflexivity.
    - intros C. apply N. right; exact C.
  Qed.

  (* effect of one read-modify-write *)
  Lemma step_wr_store_same t x (f : Lst -> Val -> Lst * Val) (st : state) :
    store (step st (t, Wr x f)) x = snd (f (locals st t) (store st x)).
  Proof.
    simpl. destruct (f (locals st t) (store st x)); simpl.
    unfold upd_store. rewrite Nat.eqb_refl. reflexivity.
  Qed.

  Lemma step_wr_store_other t x (f : Lst -> Val -> Lst * Val) (st : state) y :
    y <> x -> store (step st (t, Wr x f)) y = store st y.
  Proof.
    intros N. simpl. destruct (f (locals st t) (store st x)); simpl.
    unfold upd_store. destruct (Nat.eqb_spec y x); [contradiction|reflexivity].
  Qed.

  Lemma step_wr_locals_same t x (f : Lst -> Val -> Lst * Val) (st : state) :
    locals (step st (t, Wr x f)) t = fst (f (locals st t) (store st x)).
  Proof.
    simpl. destruct (f (locals st t) (store st x)); simpl.
    unfold upd_local. rewrite Nat.eqb_refl. reflexivity.
  Qed.

  Lemma step_wr_locals_other t x (f : Lst -> Val -> Lst * Val) (st : state) t' :
    t' <> t -> locals (step st (t, Wr x f)) t' = locals st t'.
  Proof.
    intros N. simpl. destruct (f (locals st t) (store st x)); simpl.
    unfold upd_local. destruct (Nat.eqb_spec t' t); [contradiction|reflexivity].
  Qed.

  Lemma nonempty_commit_order (s : schedule) :
    WL s -> s <> [] -> exists t rest, commit_order s = t :: rest.
  Proof.
    intros Hw Hs. destruct (commit_order_complete _ _ _ _ _ guard s Hw) as [_ Hin].
    destruct s as [|[u a] s]; [congruence|].
    assert (H : In u (commit_order ((u, a) :: s))) by (apply Hin; left; reflexivity).
    destruct (commit_order ((u, a) :: s)) as [|t rest] eqn:E; [contradiction|].
    exists t, rest. first [exact E | reflexivity].
  Qed.
End Generic.

Arguments is_data {Val Lst}.
Arguments data {Val Lst}.
Arguments run_tx {Val Lst}.
Arguments run_txs {Val Lst}.
Arguments WL {Val Lst}.

(* one read-modify-write as a whole transaction *)
Lemma run_tx_single_wr (Val Lst : Type) t x (f : Lst -> Val -> Lst * Val) st :
  run_tx t [Wr x f] st = step st (t, Wr x f).
Proof. reflexivity. Qed.

(* ====================================================================== *)
(* C1: INCR / INCRBY -- no lost update *)

Section Incr.
  Variable guard : nat -> nat.
  Local Notation schedule := (TwoPLDefs.schedule nat nat Z unit).
  Local Notation state := (TwoPLDefs.state nat Z unit).
  Local Open Scope Z_scope.

  Definition incrby (d : Z) : unit -> Z -> unit * Z := fun l v => (l, v + d).
  Definition incr : unit -> Z -> unit * Z := fun l v => (l, v + 1).

  Definition zsum (l : list Z) : Z := fold_right Z.add 0 l.

  Lemma incr_fold x (d : nat -> Z) order : forall st : state,
    store (run_txs (fun t => [Wr x (incrby (d t))]) order st) x =
    store st x + zsum (map d order).
  Proof.
    induction order as [|t order IH]; intros st.
    - simpl. lia.
    - rewrite run_txs_cons, IH. simpl. unfold upd_store. rewrite Nat.eqb_refl. lia.
  Qed.

  Lemma incr_fold_other x (d : nat -> Z) y order : y <> x -> forall st : state,
    store (run_txs (fun t => [Wr x (incrby (d t))]) order st) y = store st y.
  Proof.
    intros N. induction order as [|t order IH]; intros st; [reflexivity|].
    rewrite run_txs_cons, IH. simpl. unfold upd_store.
    destruct (Nat.eqb_spec y x); [contradiction|reflexivity].
  Qed.

  (* INCRBY: every transaction's only data action is one atomic add of its own delta d t to
     the same location x; the final value is the initial value plus the sum of all deltas *)
  Theorem no_lost_incrby (s : schedule) (x : nat) (d : nat -> Z) (st : state) :
    legal s -> WL guard s ->
    (forall t, In t (tids s) -> data t s = [Wr x (incrby (d t))]) ->
    store (run s st) x = store st x + zsum (map d (commit_order s)).
  Proof.
    intros Hl Hw HD.
    destruct (serial_reduction _ _ guard s (fun t => [Wr x (incrby (d t))]) st Hl Hw HD)
      as [[_ Hst] _].
    rewrite <- Hst. apply incr_fold.
  Qed.

  (* and nothing else is touched *)
  Theorem incrby_frame (s : schedule) (x : nat) (d : nat -> Z) (st : state) y :
    legal s -> WL guard s ->
    (forall t, In t (tids s) -> data t s = [Wr x (incrby (d t))]) ->
    y <> x -> store (run s st) y = store st y.
  Proof.
    intros Hl Hw HD N.
    destruct (serial_reduction _ _ guard s (fun t => [Wr x (incrby (d t))]) st Hl Hw HD)
      as [[_ Hst] _].
    rewrite <- Hst. apply incr_fold_other. exact N.
  Qed.

  Lemma zsum_const_one (A : Type) (l : list A) : zsum (map (fun _ => 1) l) = Z.of_nat (length l).
  Proof. induction l as [|a l IH]; [reflexivity|].
    change (1 + zsum (map (fun _ : A => 1) l) = Z.of_nat (S (length l))). rewrite IH. lia.
  Qed.

  (* INCR: the number of transactions is length (commit_order s) *)
  Theorem no_lost_increment (s : schedule) (x : nat) (st : state) :
    legal s -> WL guard s ->
    (forall t, In t (tids s) -> data t s = [Wr x incr]) ->
    store (run s st) x = store st x + Z.of_nat (length (commit_order s)).
  Proof.
    intros Hl Hw HD.
    rewrite (no_lost_incrby s x (fun _ => 1) st Hl Hw).
    - rewrite zsum_const_one. reflexivity.
    - exact HD.
  Qed.
End Incr.


(* ====================================================================== *)
(* C5: the key counter -- atomic adds commute; the non-atomic version loses updates *)

Section Counter.
  Local Open Scope Z_scope.

  Lemma fold_add_sum l : forall a, fold_left Z.add l a = a + zsum l.
  Proof.
    induction l as [|d l IH]; intros a; simpl.
    - lia.
    - rewrite IH. lia.
  Qed.

  Lemma zsum_perm l l' : Permutation l l' -> zsum l = zsum l'.
  Proof. induction 1; simpl; lia. Qed.

  (* atomic adds commute: the result does not depend on the order in which they land *)
  Theorem counter_commutes l l' a :
    Permutation l l' -> fold_left Z.add l a = fold_left Z.add l' a.
  Proof. intros H. rewrite !fold_add_sum, (zsum_perm l l' H). reflexivity. Qed.

  (* hence any interleaving l' of the atomic adds l gives initial + sum *)
  Theorem atomic_adds_sum l l' a :
    Permutation l l' -> fold_left Z.add l' a = a + zsum l.
  Proof. intros H. rewrite fold_add_sum, (zsum_perm l l' H). reflexivity. Qed.

  (* the unrepaired code: count++ as two separate steps  tmp := count; count := tmp + 1 *)
  Record thread := mkThread { tmp : Z; pc : nat }.
  Record cstate := mkC { count : Z; th0 : thread; th1 : thread }.

  Definition tstep (c : Z) (th : thread) : Z * thread :=
    match pc th with
    | O => (c, mkThread c 1)                    (* tmp := count *)
    | S O => (tmp th + 1, mkThread (tmp th) 2)  (* count := tmp + 1 *)
    | _ => (c, th)                              (* finished *)
    end.

  (* [false] schedules thread 0, [true] thread 1 *)
  Definition cstep (st : cstate) (who : bool) : cstate :=
    if who then let (c, th) := tstep (count st) (th1 st) in mkC c (th0 st) th
    else let (c, th) := tstep (count st) (th0 st) in mkC c th (th1 st).
  Definition crun (sched : list bool) (st : cstate) : cstate := fold_left cstep sched st.
  Definition cinit (c : Z) : cstate := mkC c (mkThread 0 0) (mkThread 0 0).
  Definition finished (st : cstate) : Prop := pc (th0 st) = 2%nat /\ pc (th1 st) = 2%nat.

  (* both threads run to completion, two increments were issued, the counter moved by one *)
  Example lost_update_possible : forall c,
    let st := crun [false; true; false; true] (cinit c) in
    finished st /\ count st = c + 1.
  Proof. intros c. split; [split|]; reflexivity. Qed.

  (* without interleaving of the two halves nothing is lost *)
  Example sequential_ok : forall c,
    let st := crun [false; false; true; true] (cinit c) in
    finished st /\ count st = c + 1 + 1.
  Proof. intros c. split; [split|]; reflexivity. Qed.
End Counter.

(* ====================================================================== *)
(* C2: SETNX -- exactly one winner *)

Section Setnx.
  Variable guard : nat -> nat.
  Local Notation schedule := (TwoPLDefs.schedule nat nat (option nat) (option bool)).
  Local Notation state := (TwoPLDefs.state nat (option nat) (option bool)).

  (* set-if-absent; the local state records whether this transaction did the set *)
  Definition setnx_f (tag : nat) : option bool -> option nat -> option bool * option nat :=
    fun _ v => match v with
               | None => (Some true, Some tag)
               | Some w => (Some false, Some w)
               end.

  Lemma setnx_losers x (tag : nat -> nat) order : NoDup order -> forall (st : state) w,
    store st x = Some w ->
    store (run_txs (fun t => [Wr x (setnx_f (tag t))]) order st) x = Some w /\
    (forall t, In t order ->
       locals (run_txs (fun t => [Wr x (setnx_f (tag t))]) order st) t = Some false).
  Proof.
    induction 1 as [|t order Hn Hd IH]; intros st w Hw.
    - split; [exact Hw|]. intros t [].
    - rewrite run_txs_cons, run_tx_single_wr.
      assert (H1 : store (step st (t, Wr x (setnx_f (tag t)))) x = Some w).
      { rewrite step_wr_store_same. unfold setnx_f. rewrite Hw. reflexivity. }
      destruct (IH _ w H1) as [IHs IHl]. split; [exact IHs|].
      intros t' [<-|Ht'].
      + rewrite run_txs_locals_other by exact Hn.
        rewrite step_wr_locals_same. unfold setnx_f. rewrite Hw. reflexivity.
      + apply IHl. exact Ht'.
  Qed.

  (* stronger form: the winner is the transaction that commits (reaches its lock point) first *)
  Theorem setnx_first_committer_wins (s : schedule) (x : nat) (tag : nat -> nat) (st : state) t rest :
    legal s -> WL guard s ->
    (forall t, In t (tids s) -> data t s = [Wr x (setnx_f (tag t))]) ->
    store st x = None ->
    commit_order s = t :: rest ->
    locals (run s st) t = Some true /\
    (forall t', In t' (commit_order s) -> t' <> t -> locals (run s st) t' = Some false) /\
    store (run s st) x = Some (tag t).
  Proof.
    intros Hl Hw HD Hx E.
    destruct (serial_reduction _ _ guard s (fun t => [Wr x (setnx_f (tag t))]) st Hl Hw HD)
      as [[Hloc Hst] [Hnd _]].
    rewrite E in *. inversion Hnd as [|t0 r0 Hn Hd]; subst.
    rewrite run_txs_cons, run_tx_single_wr in Hloc, Hst.
    assert (H1 : store (step st (t, Wr x (setnx_f (tag t)))) x = Some (tag t)).
    { rewrite step_wr_store_same. unfold setnx_f. rewrite Hx. reflexivity. }
    destruct (setnx_losers x tag rest Hd _ _ H1) as [Ls Ll].
    split; [|split].
    - rewrite <- Hloc. rewrite run_txs_locals_other by exact Hn.
      rewrite step_wr_locals_same. unfold setnx_f. rewrite Hx. reflexivity.
    - intros t' [->|Ht'] N; [congruence|]. rewrite <- Hloc. apply Ll. exact Ht'.
    - rewrite <- Hst. exact Ls.
  Qed.

  Theorem setnx_one_winner (s : schedule) (x : nat) (tag : nat -> nat) (st : state) :
    legal s -> WL guard s ->
    (forall t, In t (tids s) -> data t s = [Wr x (setnx_f (tag t))]) ->
    store st x = None ->
    s <> [] ->
    exists t, In t (commit_order s) /\
      locals (run s st) t = Some true /\
      (forall t', In t' (commit_order s) -> t' <> t -> locals (run s st) t' = Some false) /\
      store (run s st) x = Some (tag t).
  Proof.
    intros Hl Hw HD Hx Hs.
    destruct (nonempty_commit_order _ _ guard s Hw Hs) as (t & rest & E).
    exists t. split; [rewrite E; left; reflexivity|].
    apply (setnx_first_committer_wins s x tag st t rest Hl Hw HD Hx E).
  Qed.
End Setnx.

(* ====================================================================== *)
(* queue operations shared by C3 and C4; the local state records what a pop returned *)

Definition pop_f : option (option nat) -> list nat -> option (option nat) * list nat :=
  fun _ v => match v with
             | [] => (Some None, [])
             | h :: r => (Some (Some h), r)
             end.
Definition push_f (e : nat) : option (option nat) -> list nat -> option (option nat) * list nat :=
  fun l v => (l, v ++ [e]).
(* push what this transaction popped before (if anything) *)
Definition pushl_f : option (option nat) -> list nat -> option (option nat) * list nat :=
  fun l v => (l, match l with Some (Some h) => v ++ [h] | _ => v end).

(* ====================================================================== *)
(* C4: a two-location transaction: move the head of one queue to the tail of another *)

Section Move.
  Variable guard : nat -> nat.
  Local Notation act := (TwoPLDefs.act nat nat (list nat) (option (option nat))).
  Local Notation schedule := (TwoPLDefs.schedule nat nat (list nat) (option (option nat))).
  Local Notation state := (TwoPLDefs.state nat (list nat) (option (option nat))).

  Definition move (src dst : nat) : list act := [Wr src pop_f; Wr dst pushl_f].

  Lemma move_tx src dst t (st : state) : src <> dst ->
    Permutation (store st src ++ store st dst)
                (store (run_tx t (move src dst) st) src ++ store (run_tx t (move src dst) st) dst).
  Proof.
    intros N.
    change (run_tx t (move src dst) st)
      with (step (step st (@pair tid _ t (Wr src pop_f))) (@pair tid _ t (Wr dst pushl_f))).
    rewrite step_wr_store_same.
    rewrite (step_wr_store_other _ _ t dst pushl_f _ src N).
    rewrite step_wr_locals_same, step_wr_store_same.
    rewrite (step_wr_store_other _ _ t src pop_f st dst) by (intros E; apply N; symmetry; exact E).
    unfold pop_f, pushl_f. destruct (store st src) as [|h r]; simpl.
    - apply Permutation_refl.
    - rewrite app_assoc. apply Permutation_cons_append.
  Qed.

  Lemma move_fold a b (D : nat -> list act) order : a <> b ->
    (forall t, In t order -> D t = move a b \/ D t = move b a) ->
    forall st : state,
      Permutation (store st a ++ store st b)
                  (store (run_txs D order st) a ++ store (run_txs D order st) b).
  Proof.
    intros N. induction order as [|t order IH]; intros HD st.
    - apply Permutation_refl.
    - rewrite run_txs_cons.
      eapply Permutation_trans; [|apply IH; intros u Hu; apply HD; right; exact Hu].
      destruct (HD t (or_introl eq_refl)) as [E|E]; rewrite E.
      + apply move_tx. exact N.
      + eapply Permutation_trans; [apply Permutation_app_comm|].
        eapply Permutation_trans; [|apply Permutation_app_comm].
        apply move_tx. intros C. apply N. symmetry. exact C.
  Qed.

  (* every transaction is a move a->b or b->a (any mix, any number, any interleaving; a and b
     may or may not share a lock): nothing is lost and nothing is duplicated *)
  Theorem move_atomic (s : schedule) (a b : nat) (st : state) :
    a <> b -> legal s -> WL guard s ->
    (forall t, In t (tids s) -> data t s = move a b \/ data t s = move b a) ->
    Permutation (store st a ++ store st b) (store (run s st) a ++ store (run s st) b).
  Proof.
    intros N Hl Hw HD.
    destruct (run_as_serial_fold _ _ guard s st Hl Hw) as [_ Hst].
    rewrite <- !Hst. apply move_fold; [exact N|].
    intros t Ht. apply HD. apply (commit_order_tids _ _ _ _ t s Ht).
  Qed.
End Move.

(* ====================================================================== *)
(* C3: a queue at location x: pushes and pops; every element is popped at most once *)

Section Queue.
  Variable guard : nat -> nat.
  Variable x : nat.
  (* what each transaction is: [Some e] = push e, [None] = pop *)
  Variable kind : nat -> option nat.
  Local Notation act := (TwoPLDefs.act nat nat (list nat) (option (option nat))).
  Local Notation schedule := (TwoPLDefs.schedule nat nat (list nat) (option (option nat))).
  Local Notation state := (TwoPLDefs.state nat (list nat) (option (option nat))).

  Definition qop (t : nat) := match kind t with Some e => push_f e | None => pop_f end.

  (* all pushed elements, in commit order *)
  Definition pushed (order : list nat) : list nat :=
    flat_map (fun t => match kind t with Some e => [e] | None => [] end) order.
  (* what transaction t returned in state st: pops return at most one element *)
  Definition returned (st : state) (t : nat) : list nat :=
    match kind t with
    | Some _ => []
    | None => match locals st t with Some (Some h) => [h] | _ => [] end
    end.
  Definition popped (st : state) (order : list nat) : list nat := flat_map (returned st) order.

  Lemma popped_ext (st st' : state) order :
    (forall t, locals st t = locals st' t) -> popped st order = popped st' order.
  Proof.
    intros H. unfold popped. induction order as [|t order IH]; simpl; auto.
    rewrite IH. unfold returned. rewrite H. reflexivity.
  Qed.

  Lemma queue_fold order : NoDup order -> forall st : state,
    Permutation (store st x ++ pushed order)
                (popped (run_txs (fun t => [Wr x (qop t)]) order st) order ++
                 store (run_txs (fun t => [Wr x (qop t)]) order st) x).
  Proof.
    induction 1 as [|t order Hn Hd IH]; intros st.
    - simpl. rewrite app_nil_r. apply Permutation_refl.
    - rewrite run_txs_cons, run_tx_single_wr.
      specialize (IH (step st (t, Wr x (qop t)))).
      rewrite step_wr_store_same in IH.
      change (pushed (t :: order))
        with ((match kind t with Some e => [e] | None => [] end) ++ pushed order).
      set (st' := run_txs (fun t => [Wr x (qop t)]) order (step st (t, Wr x (qop t)))) in *.
      change (popped st' (t :: order)) with (returned st' t ++ popped st' order).
      assert (Hl : locals st' t = fst (qop t (locals st t) (store st x))).
      { unfold st'. rewrite run_txs_locals_other by exact Hn. apply step_wr_locals_same. }
      unfold returned. rewrite Hl. unfold qop in *.
      destruct (kind t) as [e|].
      + unfold push_f in *. simpl in *. rewrite <- app_assoc in IH. exact IH.
      + unfold pop_f in *. destruct (store st x) as [|h r]; simpl in *.
        * exact IH.
        * constructor. exact IH.
  Qed.

  (* conservation: initial queue + everything pushed = everything popped + final queue,
     as multisets, for every interleaving *)
  Theorem queue_conservation (s : schedule) (st : state) :
    legal s -> WL guard s ->
    (forall t, In t (tids s) -> data t s = [Wr x (qop t)]) ->
    Permutation (store st x ++ pushed (commit_order s))
                (popped (run s st) (commit_order s) ++ store (run s st) x).
  Proof.
    intros Hl Hw HD.
    destruct (serial_reduction _ _ guard s (fun t => [Wr x (qop t)]) st Hl Hw HD)
      as [[Hloc Hst] [Hnd _]].
    rewrite <- Hst. rewrite <- (popped_ext _ _ (commit_order s) Hloc).
    apply queue_fold. exact Hnd.
  Qed.

  Lemma NoDup_app_disjoint (A : Type) (l1 l2 : list A) :
    NoDup (l1 ++ l2) -> forall a, In a l1 -> In a l2 -> False.
  Proof.
    induction l1 as [|b l1 IH]; simpl; intros Hd a H1 H2; [contradiction|].
    inversion Hd as [|b' l' Hb Hd']; subst. destruct H1 as [->|H1].
    - apply Hb. apply in_or_app. right; exact H2.
    - apply (IH Hd' a H1 H2).
  Qed.

  Lemma NoDup_app_r (A : Type) (l1 l2 : list A) : NoDup (l1 ++ l2) -> NoDup l2.
  Proof.
    induction l1 as [|b l1 IH]; simpl; intros Hd; [exact Hd|].
    inversion Hd; subst. apply IH. assumption.
  Qed.

  Lemma NoDup_app_l (A : Type) (l1 l2 : list A) : NoDup (l1 ++ l2) -> NoDup l1.
  Proof.
    induction l1 as [|b l1 IH]; simpl; intros Hd; [constructor|].
    inversion Hd as [|b' l' Hb Hd']; subst. constructor.
    - intros C. apply Hb. apply in_or_app. left; exact C.
    - apply IH. exact Hd'.
  Qed.

  Lemma NoDup_flat_map_disjoint (g : nat -> list nat) order :
    NoDup (flat_map g order) -> forall t t' h, In t order -> In t' order -> t <> t' ->
    In h (g t) -> In h (g t') -> False.
  Proof.
    induction order as [|u order IH]; simpl; intros Hd t t' h Ht Ht' N Hh Hh'; [contradiction|].
    destruct Ht as [->|Ht], Ht' as [->|Ht'].
    - congruence.
    - apply (NoDup_app_disjoint _ _ _ Hd h Hh). apply in_flat_map. exists t'. split; assumption.
    - apply (NoDup_app_disjoint _ _ _ Hd h Hh'). apply in_flat_map. exists t. split; assumption.
    - apply (IH (NoDup_app_r _ _ _ Hd) t t' h Ht Ht' N Hh Hh').
  Qed.

  Lemma returned_pop (st : state) t h :
    kind t = None -> locals st t = Some (Some h) -> In h (returned st t).
  Proof. intros K L. unfold returned. rewrite K, L. left; reflexivity. Qed.

  (* if the initial queue and the pushed elements are pairwise distinct, no element is
     returned by two different pops ... *)
  Theorem each_element_popped_once (s : schedule) (st : state) :
    legal s -> WL guard s ->
    (forall t, In t (tids s) -> data t s = [Wr x (qop t)]) ->
    NoDup (store st x ++ pushed (commit_order s)) ->
    forall t t' h h', In t (commit_order s) -> In t' (commit_order s) -> t <> t' ->
      kind t = None -> kind t' = None ->
      locals (run s st) t = Some (Some h) -> locals (run s st) t' = Some (Some h') ->
      h <> h'.
  Proof.
    intros Hl Hw HD Hnd t t' h h' Ht Ht' N K K' L L' E. subst h'.
    pose proof (Permutation_NoDup (queue_conservation s st Hl Hw HD) Hnd) as Hnd'.
    apply NoDup_app_l in Hnd'.
    apply (NoDup_flat_map_disjoint _ _ Hnd' t t' h Ht Ht' N);
      apply returned_pop; assumption.
  Qed.

  (* ... and no returned element is still in the queue *)
  Theorem popped_not_left (s : schedule) (st : state) :
    legal s -> WL guard s ->
    (forall t, In t (tids s) -> data t s = [Wr x (qop t)]) ->
    NoDup (store st x ++ pushed (commit_order s)) ->
    forall t h, In t (commit_order s) -> kind t = None ->
      locals (run s st) t = Some (Some h) -> ~ In h (store (run s st) x).
  Proof.
    intros Hl Hw HD Hnd t h Ht K L Hin.
    pose proof (Permutation_NoDup (queue_conservation s st Hl Hw HD) Hnd) as Hnd'.
    apply (NoDup_app_disjoint _ _ _ Hnd' h); [|exact Hin].
    apply in_flat_map. exists t. split; [exact Ht|]. apply returned_pop; assumption.
  Qed.

  (* every returned element was in the initial queue or was pushed *)
  Theorem popped_was_pushed (s : schedule) (st : state) :
    legal s -> WL guard s ->
    (forall t, In t (tids s) -> data t s = [Wr x (qop t)]) ->
    forall t h, In t (commit_order s) -> kind t = None ->
      locals (run s st) t = Some (Some h) ->
      In h (store st x) \/ In h (pushed (commit_order s)).
  Proof.
    intros Hl Hw HD t h Ht K L.
    apply in_app_or.
    apply (Permutation_in h (Permutation_sym (queue_conservation s st Hl Hw HD))).
    apply in_or_app. left. apply in_flat_map. exists t. split; [exact Ht|].
    apply returned_pop; assumption.
  Qed.
End Queue.

Print Assumptions run_as_serial_fold.
Print Assumptions serial_reduction.
Print Assumptions no_lost_incrby.
Print Assumptions incrby_frame.
Print Assumptions no_lost_increment.
Print Assumptions counter_commutes.
Print Assumptions atomic_adds_sum.
Print Assumptions lost_update_possible.
Print Assumptions setnx_first_committer_wins.
Print Assumptions setnx_one_winner.
Print Assumptions move_atomic.
Print Assumptions queue_conservation.
Print Assumptions each_element_popped_once.
Print Assumptions popped_not_left.
Print Assumptions popped_was_pushed.
