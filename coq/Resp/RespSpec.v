(* C02 specification side: how a conforming client encodes a command.
   A command is a non-empty list of argument byte strings; its wire form is a RESP array of
   bulk strings:  "*" n CRLF  then for each argument  "$" len CRLF data CRLF.
   Lengths are rendered in decimal exactly like strconv.Itoa (Base.GoInt.z_to_dec). *)
Require Import Base.Bytes Base.GoInt Base.Reply.
Local Open Scope Z_scope.

Definition bStar : byte := "*"%byte.
Definition bDollar : byte := "$"%byte.
Definition bPlus : byte := "+"%byte.
Definition bMinus : byte := "-"%byte.
Definition bColon : byte := ":"%byte.

Definition zlen {A} (l : list A) : Z := Z.of_nat (length l).

Definition encode_bulk (a : bytes) : bytes :=
  bDollar :: z_to_dec (zlen a) ++ CRLF ++ a ++ CRLF.

Definition encode_cmd (args : list bytes) : bytes :=
  bStar :: z_to_dec (zlen args) ++ CRLF ++ concat (map encode_bulk args).

Definition encode_pipeline (cmds : list (list bytes)) : bytes :=
  concat (map encode_cmd cmds).

(* The largest bulk length the server accepts (resp/parser.go: maxBulkLen, 512 MB). *)
Definition max_bulk_len : Z := 536870912.

(* Side conditions under which the property promises exact decoding: the command has at
   least one argument (the command name), its argument count fits Go's int (always true of a
   list that exists in memory; needed because Coq lists are unbounded) and every argument is
   within the server's bulk limit. Nothing is assumed about the argument bytes. *)
Definition cmd_ok (c : list bytes) : Prop :=
  c <> [] /\ zlen c <= int64_max /\ Forall (fun a => zlen a <= max_bulk_len) c.
