(* C03, codec half: the reply encoder of resp/structure.go (every ToBytes) and an
   independent streaming decoder written the way a conforming RESP2 client reads replies.
   Definitions only; theorems are in ReplyCodecProofs.v.  The decoder shares no code with
   the request parser model (Resp/RespModel.v). *)
Require Import Base.Bytes Base.GoInt Base.Reply.
Local Open Scope Z_scope.

(* ---------------------------------------------------------------- encoder (the server) *)

Fixpoint encode_reply (r : reply) : bytes :=
  match r with
  | RSimple s => "+"%byte :: s ++ CRLF                     (* StringData.ToBytes *)
  | RErr s => "-"%byte :: s ++ CRLF                        (* ErrorData.ToBytes  *)
  | RInt z => ":"%byte :: z_to_dec z ++ CRLF               (* IntData.ToBytes: FormatInt *)
  | RBulk b =>                                             (* BulkData.ToBytes: Itoa(len) *)
    "$"%byte :: z_to_dec (Z.of_nat (length b)) ++ CRLF ++ b ++ CRLF
  | RNil => "$"%byte :: "-"%byte :: "1"%byte :: CRLF       (* NIL *)
  | RArr l =>                                              (* ArrayData.ToBytes *)
    "*"%byte :: z_to_dec (Z.of_nat (length l)) ++ CRLF ++ concat (map encode_reply l)
  | RNilArr => "*"%byte :: "-"%byte :: "1"%byte :: CRLF
  | RPlain s => s ++ CRLF                                  (* PlainData.ToBytes *)
  end.

(* what Handle writes for a sequence of replies *)
Definition encode_replies (rs : list reply) : bytes := concat (map encode_reply rs).

(* ---------------------------------------------------------------- decoder (the client) *)

(* the bytes before the first CRLF, and what follows it *)
Fixpoint split_crlf (bs : bytes) : option (bytes * bytes) :=
  match bs with
  | [] => None
  | c :: r =>
    match r with
    | [] => None
    | d :: r' =>
      if beqb c bCR && beqb d bLF then Some ([], r')
      else match split_crlf r with
           | Some (l, rest) => Some (c :: l, rest)
           | None => None
           end
    end
  end.

(* exactly n payload bytes *)
Fixpoint split_at (bs : bytes) (n : Z) {struct bs} : option (bytes * bytes) :=
  if n <=? 0 then Some ([], bs)
  else match bs with
       | [] => None
       | b :: r =>
         match split_at r (n - 1) with
         | Some (d, rest) => Some (b :: d, rest)
         | None => None
         end
       end.

Definition expect_crlf (bs : bytes) : option bytes :=
  match bs with
  | c :: d :: r => if beqb c bCR && beqb d bLF then Some r else None
  | _ => None
  end.

(* n consecutive values; `fl` only bounds the recursion (every value takes at least one byte,
   so the remaining input itself is enough fuel) *)
Fixpoint dec_n (d : bytes -> option (reply * bytes)) (n : Z) (fl : bytes) (bs : bytes)
  {struct fl} : option (list reply * bytes) :=
  if n <=? 0 then Some ([], bs)
  else match fl with
       | [] => None
       | _ :: fl' =>
         match d bs with
         | None => None
         | Some (r, rest) =>
           match dec_n d (n - 1) fl' rest with
           | Some (l, rest') => Some (r :: l, rest')
           | None => None
           end
         end
       end.

(* one value: type byte, header line up to CRLF, then by type. fuel bounds the nesting. *)
Fixpoint dec (fuel : nat) (bs : bytes) : option (reply * bytes) :=
  match fuel with
  | O => None
  | S f =>
    match bs with
    | [] => None
    | t :: r =>
      match split_crlf r with
      | None => None                                  (* incomplete header line *)
      | Some (line, rest) =>
        if beqb t "+"%byte then Some (RSimple line, rest)
        else if beqb t "-"%byte then Some (RErr line, rest)
        else if beqb t ":"%byte then
          match parse_int_unbounded line with
          | Some z => Some (RInt z, rest)
          | None => None
          end
        else if beqb t "$"%byte then
          match parse_int_unbounded line with
          | None => None
          | Some n =>
            if n =? -1 then Some (RNil, rest)
            else if n <? 0 then None
            else match split_at rest n with
                 | None => None                       (* incomplete payload *)
                 | Some (d, rest') =>
                   match expect_crlf rest' with
                   | Some rest'' => Some (RBulk d, rest'')
                   | None => None
                   end
                 end
          end
        else if beqb t "*"%byte then
          match parse_int_unbounded line with
          | None => None
          | Some n =>
            if n =? -1 then Some (RNilArr, rest)
            else if n <? 0 then None
            else match dec_n (dec f) n rest rest with
                 | Some (l, rest') => Some (RArr l, rest')
                 | None => None
                 end
          end
        else None                                     (* not a RESP2 type byte *)
      end
    end
  end.

(* decode one value from the front of bs; None = malformed or incomplete *)
Definition decode_reply (bs : bytes) : option (reply * bytes) := dec (S (length bs)) bs.

Fixpoint dall (fuel : nat) (bs : bytes) : option (list reply) :=
  match bs with
  | [] => Some []
  | _ =>
    match fuel with
    | O => None
    | S f =>
      match dec (S f) bs with
      | None => None
      | Some (r, rest) =>
        match dall f rest with
        | Some l => Some (r :: l)
        | None => None
        end
      end
    end
  end.

(* the whole byte string as a sequence of values *)
Definition decode_all (bs : bytes) : option (list reply) := dall (S (length bs)) bs.

(* as many values as decode, and the undecodable / incomplete remainder (for the harness) *)
Fixpoint dstream (fuel : nat) (bs : bytes) : list reply * bytes :=
  match bs with
  | [] => ([], [])
  | _ =>
    match fuel with
    | O => ([], bs)
    | S f =>
      match dec (S f) bs with
      | None => ([], bs)
      | Some (r, rest) => let (l, left) := dstream f rest in (r :: l, left)
      end
    end
  end.

Definition decode_stream (bs : bytes) : list reply * bytes := dstream (S (length bs)) bs.

(* nesting depth, the only thing the decoder's fuel must exceed *)
Fixpoint depth (r : reply) : nat :=
  match r with
  | RArr l => S (fold_right (fun x m => Nat.max (depth x) m) O l)
  | _ => 1%nat
  end.

(* RInt payloads the server can produce *)
Fixpoint ints_in_range (r : reply) : bool :=
  match r with
  | RInt z => in_int64 z
  | RArr l => forallb ints_in_range l
  | _ => true
  end.
