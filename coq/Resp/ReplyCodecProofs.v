(* C03, codec half: a conforming client decodes exactly the reply the server encoded, for
   every well-formed reply (simple strings / errors without CR or LF; bulk payloads are
   arbitrary bytes), whatever follows it on the wire; and a whole pipeline of replies decodes
   to exactly that sequence. *)
Require Import Base.Bytes Base.GoInt Base.Reply Resp.ReplyCodec.
Local Open Scope Z_scope.

(* ---------------------------------------------------------------- induction over nested replies *)
Section ReplyInd.
  Variable P : reply -> Prop.
  Hypothesis HSimple : forall s, P (RSimple s).
  Hypothesis HErr : forall s, P (RErr s).
  Hypothesis HInt : forall z, P (RInt z).
  Hypothesis HBulk : forall b, P (RBulk b).
  Hypothesis HNil : P RNil.
  Hypothesis HArr : forall l, Forall P l -> P (RArr l).
  Hypothesis HNilArr : P RNilArr.
  Hypothesis HPlain : forall s, P (RPlain s).

  Fixpoint reply_ind' (r : reply) : P r :=
    match r with
    | RSimple s => HSimple s
    | RErr s => HErr s
    | RInt z => HInt z
    | RBulk b => HBulk b
    | RNil => HNil
    | RArr l =>
      HArr l ((fix go (l : list reply) : Forall P l :=
                 match l with
                 | [] => Forall_nil P
                 | x :: l' => Forall_cons x (reply_ind' x) (go l')
                 end) l)
    | RNilArr => HNilArr
    | RPlain s => HPlain s
    end.
End ReplyInd.

(* ---------------------------------------------------------------- line framing *)

Lemma split_crlf_cons2 c d r :
  split_crlf (c :: d :: r) =
  if beqb c bCR && beqb d bLF then Some ([], r)
  else match split_crlf (d :: r) with
       | Some (l, rest) => Some (c :: l, rest)
       | None => None
       end.
Proof. reflexivity. Qed.

Lemma split_crlf_line s rest :
  no_crlf s = true -> split_crlf (s ++ CRLF ++ rest) = Some (s, rest).
Proof.
  induction s as [|c s IH]; intros Hs.
  - reflexivity.
  - unfold no_crlf in Hs. cbn [forallb] in Hs. apply andb_true_iff in Hs as [Hc Hs].
    apply andb_true_iff in Hc as [Hc _]. apply negb_true_iff in Hc.
    specialize (IH Hs). cbn [app].
    destruct (s ++ CRLF ++ rest) as [|d r] eqn:E.
    + destruct s; discriminate E.
    + rewrite split_crlf_cons2. rewrite Hc. cbn [andb]. rewrite IH. reflexivity.
Qed.

Lemma uint_no_crlf u : no_crlf (uint_to_bytes u) = true.
Proof.
  unfold no_crlf. induction u; cbn [uint_to_bytes forallb]; try reflexivity; rewrite IHu; reflexivity.
Qed.

Lemma z_to_dec_no_crlf z : no_crlf (z_to_dec z) = true.
Proof.
  destruct z as [|p|p]; unfold z_to_dec; [reflexivity|apply uint_no_crlf|].
  unfold no_crlf. cbn [forallb]. fold (no_crlf (n_to_dec (N.pos p))).
  unfold n_to_dec. rewrite uint_no_crlf. reflexivity.
Qed.

Lemma split_at_exact (d rest : bytes) : split_at (d ++ rest) (Z.of_nat (length d)) = Some (d, rest).
Proof.
  induction d as [|b d IH].
  - cbn [app length]. destruct rest; reflexivity.
  - cbn [app split_at]. destruct (Z.of_nat (length (b :: d)) <=? 0) eqn:E.
    + apply Z.leb_le in E. cbn [length] in E. lia.
    + replace (Z.of_nat (length (b :: d)) - 1) with (Z.of_nat (length d)) by (cbn [length]; lia).
      rewrite IH. reflexivity.
Qed.

Lemma expect_crlf_ok rest : expect_crlf (CRLF ++ rest) = Some rest.
Proof. reflexivity. Qed.

(* ---------------------------------------------------------------- unfolding the decoder *)

Lemma dec_unfold f t r :
  dec (S f) (t :: r) =
  match split_crlf r with
  | None => None
  | Some (line, rest) =>
    if beqb t "+"%byte then Some (RSimple line, rest)
    else if beqb t "-"%byte then Some (RErr line, rest)
    else if beqb t ":"%byte then
      match parse_int_unbounded line with
      | Some z => Some (RInt z, rest)
      | None => None
      end
    else if beqb t "$"%byte then
      match parse_int_unbounded line with
      | None => None
      | Some n =>
        if n =? -1 then Some (RNil, rest)
        else if n <? 0 then None
        else match split_at rest n with
             | None => None
             | Some (d, rest') =>
               match expect_crlf rest' with
               | Some rest'' => Some (RBulk d, rest'')
               | None => None
               end
             end
      end
    else if beqb t "*"%byte then
      match parse_int_unbounded line with
      | None => None
      | Some n =>
        if n =? -1 then Some (RNilArr, rest)
        else if n <? 0 then None
        else match dec_n (dec f) n rest rest with
             | Some (l, rest') => Some (RArr l, rest')
             | None => None
             end
      end
    else None
  end.
Proof. reflexivity. Qed.

Lemma dec_n_unfold d n x fl bs :
  dec_n d n (x :: fl) bs =
  if n <=? 0 then Some ([], bs)
  else match d bs with
       | None => None
       | Some (r, rest) =>
         match dec_n d (n - 1) fl rest with
         | Some (l, rest') => Some (r :: l, rest')
         | None => None
         end
       end.
Proof. reflexivity. Qed.

Lemma dec_n_ok d : forall l fl rest,
  Forall (fun r => forall rest, d (encode_reply r ++ rest) = Some (r, rest)) l ->
  (length l <= length fl)%nat ->
  dec_n d (Z.of_nat (length l)) fl (concat (map encode_reply l) ++ rest) = Some (l, rest).
Proof.
  induction l as [|r l IH]; intros fl rest Hall Hfl.
  - destruct fl; reflexivity.
  - destruct fl as [|x fl]; [cbn [length] in Hfl; lia|].
    rewrite dec_n_unfold. destruct (Z.of_nat (length (r :: l)) <=? 0) eqn:E; [apply Z.leb_le in E; cbn [length] in E; lia|].
    cbn [map concat]. rewrite <- app_assoc. rewrite (Forall_inv Hall).
    replace (Z.of_nat (length (r :: l)) - 1) with (Z.of_nat (length l)) by (cbn [length]; lia).
    rewrite IH; [reflexivity|exact (Forall_inv_tail Hall)|cbn [length] in Hfl; lia].
Qed.

(* ---------------------------------------------------------------- sizes *)

Lemma encode_reply_nonempty r : (1 <= length (encode_reply r))%nat.
Proof.
  destruct r; cbn [encode_reply length]; try lia.
  rewrite app_length. cbn [length CRLF]. lia.
Qed.

Lemma length_concat_encode l : (length l <= length (concat (map encode_reply l)))%nat.
Proof.
  induction l as [|r l IH]; [reflexivity|].
  cbn [map concat length]. rewrite app_length. pose proof (encode_reply_nonempty r). lia.
Qed.

Lemma depth_bound_all l k :
  (fold_right (fun x m => Nat.max (depth x) m) O l <= k)%nat -> Forall (fun x => (depth x <= k)%nat) l.
Proof.
  induction l as [|x l IH]; intros H; [constructor|].
  cbn [fold_right] in H. constructor; [lia|apply IH; lia].
Qed.

Lemma depth_le_length r : (depth r <= length (encode_reply r))%nat.
Proof.
  induction r using reply_ind'; try (pose proof (encode_reply_nonempty r); cbn [depth]; lia);
    try (cbn [depth]; apply encode_reply_nonempty).
  cbn [depth encode_reply length]. apply le_n_S. rewrite !app_length.
  assert (fold_right (fun x m => Nat.max (depth x) m) O l <= length (concat (map encode_reply l)))%nat as Hm.
  { induction H as [|x l Hx _ IH]; [cbn; lia|].
    cbn [fold_right map concat]. rewrite app_length. lia. }
  lia.
Qed.

(* ---------------------------------------------------------------- round trip of one reply *)

Lemma forallb_Forall {A} (p : A -> bool) l : forallb p l = true -> Forall (fun x => p x = true) l.
Proof.
  induction l as [|x l IH]; intros H; [constructor|].
  cbn [forallb] in H. apply andb_true_iff in H as [H1 H2]. constructor; [exact H1|exact (IH H2)].
Qed.

Lemma dec_encode : forall r,
  reply_wf r = true ->
  forall f rest, (depth r <= f)%nat -> dec f (encode_reply r ++ rest) = Some (r, rest).
Proof.
  induction r using reply_ind'; intros Hwf f rest Hf;
    (destruct f as [|f]; [cbn [depth] in Hf; lia|]); cbn [reply_wf] in Hwf.
  - (* RSimple *)
    cbn [encode_reply app]. rewrite <- app_assoc. rewrite dec_unfold.
    rewrite split_crlf_line by exact Hwf. reflexivity.
  - (* RErr *)
    cbn [encode_reply app]. rewrite <- app_assoc. rewrite dec_unfold.
    rewrite split_crlf_line by exact Hwf. reflexivity.
  - (* RInt *)
    cbn [encode_reply app]. rewrite <- app_assoc. rewrite dec_unfold.
    rewrite split_crlf_line by apply z_to_dec_no_crlf.
    change (beqb ":"%byte "+"%byte) with false. change (beqb ":"%byte "-"%byte) with false.
    change (beqb ":"%byte ":"%byte) with true. cbn iota.
    rewrite parse_int_z_to_dec. reflexivity.
  - (* RBulk *)
    cbn [encode_reply app]. rewrite <- !app_assoc. rewrite dec_unfold.
    rewrite split_crlf_line by apply z_to_dec_no_crlf.
    change (beqb "$"%byte "+"%byte) with false. change (beqb "$"%byte "-"%byte) with false.
    change (beqb "$"%byte ":"%byte) with false. change (beqb "$"%byte "$"%byte) with true.
    cbn iota. rewrite parse_int_z_to_dec.
    destruct (Z.of_nat (length b) =? -1) eqn:E1; [apply Z.eqb_eq in E1; lia|].
    destruct (Z.of_nat (length b) <? 0) eqn:E2; [apply Z.ltb_lt in E2; lia|].
    rewrite split_at_exact. rewrite expect_crlf_ok. reflexivity.
  - (* RNil *) reflexivity.
  - (* RArr *)
    cbn [encode_reply app]. rewrite <- !app_assoc. rewrite dec_unfold.
    rewrite split_crlf_line by apply z_to_dec_no_crlf.
    change (beqb "*"%byte "+"%byte) with false. change (beqb "*"%byte "-"%byte) with false.
    change (beqb "*"%byte ":"%byte) with false. change (beqb "*"%byte "$"%byte) with false.
    change (beqb "*"%byte "*"%byte) with true. cbn iota. rewrite parse_int_z_to_dec.
    destruct (Z.of_nat (length l) =? -1) eqn:E1; [apply Z.eqb_eq in E1; lia|].
    destruct (Z.of_nat (length l) <? 0) eqn:E2; [apply Z.ltb_lt in E2; lia|].
    rewrite dec_n_ok; [reflexivity| |].
    + cbn [depth] in Hf. apply le_S_n in Hf. apply depth_bound_all in Hf.
      apply forallb_Forall in Hwf.
      clear E1 E2. induction H as [|x l Hx _ IH]; [constructor|].
      constructor.
      * intros rest'. apply Hx; [exact (Forall_inv Hwf)|exact (Forall_inv Hf)].
      * apply IH; [exact (Forall_inv_tail Hwf)|exact (Forall_inv_tail Hf)].
    + rewrite app_length. pose proof (length_concat_encode l). lia.
  - (* RNilArr *) reflexivity.
  - (* RPlain *) discriminate Hwf.
Qed.

Theorem decode_encode r rest :
  reply_wf r = true -> decode_reply (encode_reply r ++ rest) = Some (r, rest).
Proof.
  intros Hwf. unfold decode_reply. apply dec_encode; [exact Hwf|].
  rewrite app_length. pose proof (depth_le_length r). lia.
Qed.

(* ---------------------------------------------------------------- round trip of a pipeline *)

Lemma dall_unfold f bs :
  bs <> [] ->
  dall (S f) bs =
  match dec (S f) bs with
  | None => None
  | Some (r, rest) => match dall f rest with Some l => Some (r :: l) | None => None end
  end.
Proof. intros H. destruct bs; [congruence|reflexivity]. Qed.

Lemma encode_reply_app_nonnil r tail : encode_reply r ++ tail <> [].
Proof.
  pose proof (encode_reply_nonempty r) as H. destruct (encode_reply r); [cbn in H; lia|discriminate].
Qed.

Lemma dall_ok : forall rs f,
  Forall (fun r => reply_wf r = true) rs ->
  (length (encode_replies rs) < f)%nat -> dall f (encode_replies rs) = Some rs.
Proof.
  unfold encode_replies.
  induction rs as [|r rs IH]; intros f Hwf Hf.
  - destruct f; reflexivity.
  - destruct f as [|f]; [lia|]. cbn [map concat] in *. rewrite app_length in Hf.
    pose proof (encode_reply_nonempty r) as Hr. pose proof (depth_le_length r) as Hd.
    rewrite dall_unfold by apply encode_reply_app_nonnil.
    rewrite dec_encode; [|exact (Forall_inv Hwf)|lia].
    rewrite IH; [reflexivity|exact (Forall_inv_tail Hwf)|lia].
Qed.

Theorem decode_all_encode rs :
  Forall (fun r => reply_wf r = true) rs -> decode_all (encode_replies rs) = Some rs.
Proof. intros Hwf. unfold decode_all. apply dall_ok; [exact Hwf|lia]. Qed.

Lemma dstream_unfold f bs :
  bs <> [] ->
  dstream (S f) bs =
  match dec (S f) bs with
  | None => ([], bs)
  | Some (r, rest) => let (l, left) := dstream f rest in (r :: l, left)
  end.
Proof. intros H. destruct bs; [congruence|reflexivity]. Qed.

Lemma dstream_ok : forall rs f,
  Forall (fun r => reply_wf r = true) rs ->
  (length (encode_replies rs) < f)%nat -> dstream f (encode_replies rs) = (rs, []).
Proof.
  unfold encode_replies.
  induction rs as [|r rs IH]; intros f Hwf Hf.
  - destruct f; reflexivity.
  - destruct f as [|f]; [lia|]. cbn [map concat] in *. rewrite app_length in Hf.
    pose proof (encode_reply_nonempty r) as Hr. pose proof (depth_le_length r) as Hd.
    rewrite dstream_unfold by apply encode_reply_app_nonnil.
    rewrite dec_encode; [|exact (Forall_inv Hwf)|lia].
    rewrite IH; [reflexivity|exact (Forall_inv_tail Hwf)|lia].
Qed.

(* the function the TCP harness uses: all replies, nothing left over *)
Theorem decode_stream_encode rs :
  Forall (fun r => reply_wf r = true) rs -> decode_stream (encode_replies rs) = (rs, []).
Proof. intros Hwf. unfold decode_stream. apply dstream_ok; [exact Hwf|lia]. Qed.

(* ---------------------------------------------------------------- why reply_wf matters *)

(* a simple string (or error text) containing CRLF does not round-trip: the client sees a
   shorter string and is left with stray bytes that it will read as the next reply *)
Lemma simple_with_crlf_desyncs :
  let r := RSimple ["a"; "013"; "010"; "b"]%byte in
  decode_reply (encode_reply r) = Some (RSimple ["a"%byte], ["b"; "013"; "010"]%byte)
  /\ decode_reply (encode_reply r) <> Some (r, []).
Proof. split; [vm_compute; reflexivity|vm_compute; discriminate]. Qed.

(* concretely for the server's unknown-command reply: a command name holding CRLF and a fake
   reply makes the client decode two replies for one command *)
Lemma error_with_crlf_injects_reply :
  let name := ["x"; "013"; "010"; "+"; "O"; "K"]%byte in
  decode_stream (encode_reply (RErr name)) = ([RErr ["x"%byte]; RSimple ["O"; "K"]%byte], []).
Proof. vm_compute. reflexivity. Qed.

(* non-vacuity: a nested reply with binary payloads is well formed and round-trips *)
Example decode_encode_example :
  let r := RArr [RBulk ["013"; "010"; "000"; "255"]%byte; RNil; RInt (-42); RArr [RSimple ["O"; "K"]%byte]; RNilArr] in
  reply_wf r = true /\ decode_reply (encode_reply r) = Some (r, []).
Proof. split; vm_compute; reflexivity. Qed.
