(* C03: the connection loop of Resp/ReplyLoop.v instantiated with the command model
   (Mem/Server.v srv_exec), whose replies are all well formed (Mem/ReplyWf.v). *)
Require Import Base.Bytes Base.GoInt Base.Reply.
Require Import Resp.RespSpec Resp.RespModel Resp.RespProofs Resp.RespRoundtrip Resp.RespHandle.
Require Import Resp.ReplyCodec Resp.ReplyCodecProofs Resp.ReplyLoop.
Require Import Mem.Types Mem.Exec Mem.Server Mem.ReplyWf.
Local Open Scope Z_scope.

(* Per command the clock (s, ms) and the observed reply used as hint (acceptor form) are inputs
   of the command model; the state of the loop carries the ones still to come, so the theorem
   below quantifies over every such sequence. *)
Definition srv_env := list (Z * Z * reply).
Definition srv_state := (server * srv_env)%type.

Definition srv_step (conn : Z) (st : srv_state) (args : list bytes) : option reply * srv_state :=
  let '(now, nowms, hint) := match snd st with e :: _ => e | [] => (0, 0, RNil) end in
  let (r, s') := srv_exec (fst st) conn now nowms args hint in
  (Some r, (s', tl (snd st))).

Lemma srv_step_wf conn st c r st' : srv_step conn st c = (Some r, st') -> reply_wf r = true.
Proof.
  unfold srv_step. intros H.
  destruct (match snd st with e :: _ => e | [] => (0, 0, RNil) end) as [[now nowms] hint].
  pose proof (srv_exec_wf (fst st) conn now nowms c hint) as Hwf.
  destruct (srv_exec (fst st) conn now nowms c hint) as [r0 s']. cbn [fst] in Hwf.
  inversion H; subst. exact Hwf.
Qed.

Theorem srv_one_reply_in_order conn st bs :
  decode_stream (conn_output srv_state (srv_step conn) st bs)
  = (replies srv_state (srv_step conn) st (executed bs), [])
  /\ List.length (replies srv_state (srv_step conn) st (executed bs)) = List.length (executed bs).
Proof. apply one_reply_in_order. apply srv_step_wf. Qed.

(* with C02: a pipeline of well-formed commands gets exactly one reply per command *)
Theorem srv_pipeline_replies conn st cmds :
  Forall cmd_ok cmds ->
  decode_stream (conn_output srv_state (srv_step conn) st (encode_pipeline cmds))
  = (replies srv_state (srv_step conn) st cmds, []).
Proof.
  intros Hok. pose proof (srv_one_reply_in_order conn st (encode_pipeline cmds)) as [H _].
  rewrite H. f_equal. f_equal. apply (Resp.RespRoundtrip.executed_roundtrip cmds Hok).
Qed.
