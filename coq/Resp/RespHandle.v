(* C02: the connection loop (Handle) executes exactly the array events that precede the first
   protocol error, then closes the connection; what the parser goroutine delivers (or would
   deliver) afterwards is never executed. *)
Require Import Base.Bytes Base.GoInt Base.Reply Resp.RespSpec Resp.RespModel Resp.RespProofs.
Local Open Scope Z_scope.

Lemma handle_stops_at_error : forall pre post,
  Forall benign pre -> ~ In EvProtoErr pre ->
  handle (pre ++ EvProtoErr :: post) = (cmds_in pre, ClosedOnError).
Proof.
  induction pre as [|e pre IH]; intros post Hb Hno; [reflexivity|].
  pose proof (Forall_inv Hb) as He. pose proof (Forall_inv_tail Hb) as Hb'.
  assert (~ In EvProtoErr pre) as Hno' by (intros H; apply Hno; right; exact H).
  destruct e; try contradiction.
  - cbn [app]. destruct r; cbn [handle cmds_in]; rewrite (IH post Hb' Hno'); reflexivity.
  - exfalso. apply Hno. left. reflexivity.
Qed.

Lemma wt_prefix_benign : forall pre e post,
  well_terminated (pre ++ e :: post) -> Forall benign pre.
Proof.
  induction pre as [|x pre IH]; intros e post Hwt; [constructor|].
  cbn [app] in Hwt. inversion Hwt as [Heq|r evs Hwt' Heq|evs Hwt' Heq]; subst.
  - destruct pre; discriminate.
  - constructor; [exact I|]. eapply IH. exact Hwt'.
  - constructor; [exact I|]. eapply IH. exact Hwt'.
Qed.

Lemma wt_handle_no_error evs :
  well_terminated evs -> ~ In EvProtoErr evs -> handle evs = (cmds_in evs, ClosedOnEof).
Proof.
  induction 1 as [|r evs Hwt IH|evs Hwt IH]; intros Hno.
  - reflexivity.
  - assert (~ In EvProtoErr evs) as Hno' by (intros H; apply Hno; right; exact H).
    destruct r; cbn [handle cmds_in]; rewrite (IH Hno'); reflexivity.
  - exfalso. apply Hno. left. reflexivity.
Qed.

Theorem nothing_after_error bs pre post :
  events bs = pre ++ EvProtoErr :: post -> ~ In EvProtoErr pre ->
  executed bs = cmds_in pre /\ conn_end_of bs = ClosedOnError.
Proof.
  intros Hev Hno. unfold executed, conn_end_of.
  pose proof (events_from_wt st0 bs st0_ok) as Hwt. fold (events bs) in Hwt.
  rewrite Hev in Hwt |- *. apply wt_prefix_benign in Hwt.
  rewrite handle_stops_at_error by assumption. split; reflexivity.
Qed.

Theorem no_error_all_executed bs :
  ~ In EvProtoErr (events bs) ->
  executed bs = cmds_in (events bs) /\ conn_end_of bs = ClosedOnEof.
Proof.
  intros Hno. unfold executed, conn_end_of.
  rewrite wt_handle_no_error; [split; reflexivity| |exact Hno].
  apply events_from_wt, st0_ok.
Qed.
