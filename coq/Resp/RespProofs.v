(* C02 proofs about the parser model (Resp/RespModel.v). *)
Require Import Base.Bytes Base.GoInt Base.Reply Resp.RespSpec Resp.RespModel.
Local Open Scope Z_scope.

(* ================================================================ lengths and slices *)

Lemma zlen_nil {A} : zlen (@nil A) = 0.
Proof. reflexivity. Qed.

Lemma zlen_cons {A} (x : A) l : zlen (x :: l) = zlen l + 1.
Proof. unfold zlen. cbn [length]. lia. Qed.

Lemma zlen_app {A} (a b : list A) : zlen (a ++ b) = zlen a + zlen b.
Proof. unfold zlen. rewrite app_length. lia. Qed.

Lemma zlen_nonneg {A} (l : list A) : 0 <= zlen l.
Proof. unfold zlen. lia. Qed.

Lemma zlen_to_nat {A} (l : list A) : Z.to_nat (zlen l) = length l.
Proof. unfold zlen. lia. Qed.

Lemma bCR_neq_bLF : beqb bCR bLF = false.
Proof. reflexivity. Qed.

Lemma at_z_lt (msg : bytes) i : 0 <= i < zlen msg -> exists c, at_z msg i = Some c.
Proof.
  intros Hi. unfold at_z. destruct (i <? 0) eqn:E; [lia|].
  destruct (nth_error msg (Z.to_nat i)) eqn:En; [eauto|].
  apply nth_error_None in En. unfold zlen in Hi. lia.
Qed.

Lemma at_z_0 c (msg : bytes) : at_z (c :: msg) 0 = Some c.
Proof. reflexivity. Qed.

Lemma at_z_app_r (a b : bytes) i :
  zlen a <= i -> at_z (a ++ b) i = at_z b (i - zlen a).
Proof.
  intros Hi. pose proof (zlen_nonneg a) as Ha. unfold at_z.
  destruct (i <? 0) eqn:E1; [lia|]. destruct (i - zlen a <? 0) eqn:E2; [lia|].
  rewrite nth_error_app2 by (unfold zlen in *; lia).
  f_equal. unfold zlen in *. lia.
Qed.

Lemma zlen_crlf : zlen CRLF = 2.
Proof. reflexivity. Qed.

(* msg = d ++ CRLF : the last two bytes and the payload slice *)
Lemma at_z_crlf_cr (d : bytes) : at_z (d ++ CRLF) (zlen (d ++ CRLF) - 2) = Some bCR.
Proof.
  rewrite zlen_app, zlen_crlf. rewrite at_z_app_r by lia.
  replace (zlen d + 2 - 2 - zlen d) with 0 by lia. reflexivity.
Qed.

Lemma at_z_crlf_lf (d : bytes) : at_z (d ++ CRLF) (zlen (d ++ CRLF) - 1) = Some bLF.
Proof.
  rewrite zlen_app, zlen_crlf. rewrite at_z_app_r by lia.
  replace (zlen d + 2 - 1 - zlen d) with 1 by lia. reflexivity.
Qed.

Lemma slice_z_prefix (d e : bytes) : slice_z (d ++ e) 0 (zlen d) = Some d.
Proof.
  pose proof (zlen_nonneg d) as Hd. pose proof (zlen_nonneg e) as He.
  unfold slice_z. rewrite zlen_app.
  destruct (0 <=? 0) eqn:E1; [|lia]. destruct (0 <=? zlen d) eqn:E2; [|lia].
  destruct (zlen d <=? zlen d + zlen e) eqn:E3; [|lia]. cbn [andb].
  replace (Z.to_nat 0) with O by lia. cbn [skipn].
  rewrite Z.sub_0_r, zlen_to_nat. rewrite firstn_app, firstn_all.
  replace (length d - length d)%nat with O by lia. cbn [firstn]. rewrite app_nil_r. reflexivity.
Qed.

Lemma slice_z_tail (t : byte) (d e : bytes) : slice_z (t :: d ++ e) 1 (zlen d + 1) = Some d.
Proof.
  pose proof (zlen_nonneg d) as Hd. pose proof (zlen_nonneg e) as He.
  unfold slice_z. rewrite zlen_cons, zlen_app.
  destruct (0 <=? 1) eqn:E1; [|lia]. destruct (1 <=? zlen d + 1) eqn:E2; [|lia].
  destruct (zlen d + 1 <=? zlen d + zlen e + 1) eqn:E3; [|lia]. cbn [andb].
  replace (Z.to_nat 1) with 1%nat by lia. cbn [skipn].
  replace (zlen d + 1 - 1) with (zlen d) by lia. rewrite zlen_to_nat.
  rewrite firstn_app, firstn_all.
  replace (length d - length d)%nat with O by lia. cbn [firstn]. rewrite app_nil_r. reflexivity.
Qed.

Lemma slice_z_some (msg : bytes) lo hi :
  0 <= lo -> lo <= hi -> hi <= zlen msg -> exists d, slice_z msg lo hi = Some d.
Proof.
  intros H1 H2 H3. unfold slice_z.
  destruct (0 <=? lo) eqn:E1; [|lia]. destruct (lo <=? hi) eqn:E2; [|lia].
  destruct (hi <=? zlen msg) eqn:E3; [|lia]. cbn [andb]. eauto.
Qed.

(* ================================================================ flat reader facts *)

Lemma split_lf_app_eq bs l rest : split_lf bs = Some (l, rest) -> bs = l ++ rest /\ l <> [].
Proof.
  revert l rest. induction bs as [|b r IH]; intros l rest H; cbn [split_lf] in H; [discriminate|].
  destruct (beqb b bLF) eqn:E.
  - inversion H; subst. split; [reflexivity|discriminate].
  - destruct (split_lf r) as [[l' rest']|] eqn:Er; [|discriminate].
    inversion H; subst. destruct (IH _ _ eq_refl) as [-> _]. split; [reflexivity|discriminate].
Qed.

Lemma split_lf_shorter bs l rest : split_lf bs = Some (l, rest) -> (length rest < length bs)%nat.
Proof.
  intros H. apply split_lf_app_eq in H as [-> Hl]. rewrite app_length.
  destruct l; [congruence|]. cbn [length]. lia.
Qed.

Lemma take_z_app_eq bs n d rest : take_z bs n = Some (d, rest) -> bs = d ++ rest.
Proof.
  revert n d rest. induction bs as [|b r IH]; intros n d rest H; cbn [take_z] in H.
  - destruct (n <=? 0); [|discriminate]. inversion H; reflexivity.
  - destruct (n <=? 0); [inversion H; reflexivity|].
    destruct (take_z r (n - 1)) as [[d' rest']|] eqn:Er; [|discriminate].
    inversion H; subst. rewrite (IH _ _ _ Er). reflexivity.
Qed.

Lemma take_z_zlen bs n d rest : 0 <= n -> take_z bs n = Some (d, rest) -> zlen d = n.
Proof.
  revert n d rest. induction bs as [|b r IH]; intros n d rest Hn H; cbn [take_z] in H.
  - destruct (n <=? 0) eqn:E; [|discriminate]. inversion H; subst. rewrite zlen_nil. lia.
  - destruct (n <=? 0) eqn:E; [inversion H; subst; rewrite zlen_nil; lia|].
    destruct (take_z r (n - 1)) as [[d' rest']|] eqn:Er; [|discriminate].
    inversion H; subst. rewrite zlen_cons. rewrite (IH (n - 1) d' rest); [lia|lia|exact Er].
Qed.

Lemma take_z_exact (d rest : bytes) : take_z (d ++ rest) (zlen d) = Some (d, rest).
Proof.
  induction d as [|b d IH].
  - cbn [app]. rewrite zlen_nil. destruct rest; reflexivity.
  - cbn [app take_z]. rewrite zlen_cons. pose proof (zlen_nonneg d) as Hd.
    destruct (zlen d + 1 <=? 0) eqn:E; [lia|].
    replace (zlen d + 1 - 1) with (zlen d) by lia. rewrite IH. reflexivity.
Qed.

(* ================================================================ one iteration *)

(* the only invariant of readState that safety needs *)
Definition st_ok (st : pstate) : Prop := bulkLen st <= max_bulk_len.

Lemma st0_ok : st_ok st0.
Proof. unfold st_ok, st0, max_bulk_len. cbn. lia. Qed.

Definition benign (e : event) : Prop :=
  match e with
  | EvData _ | EvProtoErr => True
  | _ => False
  end.

Notation fstep := (step bytes flat_line flat_full).
Notation fread := (read_line bytes flat_line flat_full).
Notation floop := (parse_loop bytes flat_line flat_full).

(* readLine never panics and always consumes input *)
Lemma read_line_spec st bs :
  st_ok st ->
  match fread st bs with
  | RlEof => True
  | RlErr r' => (length r' < length bs)%nat
  | RlMsg msg r' =>
    (length r' < length bs)%nat /\ 2 <= zlen msg /\ at_z msg (zlen msg - 2) = Some bCR
  | RlCrash | RlBlowup => False
  end.
Proof.
  intros Hok. unfold st_ok in Hok. unfold read_line.
  destruct (multiLine st && (0 <=? bulkLen st)) eqn:Emode.
  - apply andb_true_iff in Emode as [_ Hb]. apply Z.leb_le in Hb.
    unfold alloc, alloc_limit.
    assert (max_bulk_len + 2 <= int64_max) as Hcap by (unfold max_bulk_len, int64_max; lia).
    destruct (bulkLen st + 2 <? 0) eqn:E1; [lia|].
    destruct (int64_max <? bulkLen st + 2) eqn:E2; [lia|]. cbn [orb].
    destruct (max_bulk_len + 2 <? bulkLen st + 2) eqn:E3; [lia|].
    unfold flat_full.
    destruct (take_z bs (bulkLen st + 2)) as [[d rest]|] eqn:Et.
    + assert (0 <= bulkLen st + 2) as Hn0 by lia.
      pose proof (take_z_zlen _ _ _ _ Hn0 Et) as Hlen.
      pose proof (take_z_app_eq _ _ _ _ Et) as Hbs.
      destruct (at_z_lt d (zlen d - 1) ltac:(lia)) as [c1 Hc1].
      destruct (at_z_lt d (zlen d - 2) ltac:(lia)) as [c2 Hc2].
      rewrite Hc1, Hc2.
      assert (length rest < length bs)%nat as Hshort.
      { subst bs. rewrite app_length. unfold zlen in Hlen. lia. }
      destruct (negb (beqb c1 bLF) || negb (beqb c2 bCR)) eqn:Echk; [exact Hshort|].
      apply orb_false_iff in Echk as [_ Hcr]. apply negb_false_iff, beqb_eq in Hcr. subst c2.
      repeat split; [exact Hshort|lia|exact Hc2].
    + destruct bs; [exact I|]. cbn [length]. lia.
  - unfold flat_line. destruct (split_lf bs) as [[msg rest]|] eqn:Es; [|exact I].
    pose proof (split_lf_shorter _ _ _ Es) as Hshort.
    destruct (zlen msg <? 2) eqn:E2; [exact Hshort|].
    destruct (at_z_lt msg (zlen msg - 2) ltac:(lia)) as [c Hc]. rewrite Hc.
    destruct (beqb c bCR) eqn:Ec; [|exact Hshort].
    apply beqb_eq in Ec. subst c. repeat split; [exact Hshort|lia|exact Hc].
Qed.

Lemma push_elem_spec st res (r : bytes) :
  st_ok st ->
  exists evs st', push_elem bytes st res r = Cont evs st' r /\ Forall benign evs /\ st_ok st'.
Proof.
  intros Hok. unfold push_elem. destruct (inArray st).
  - destruct (zlen (arrData st ++ [res]) =? arrayLen st).
    + do 2 eexists. split; [reflexivity|]. split; [repeat constructor|apply st0_ok].
    + do 2 eexists. split; [reflexivity|]. split; [constructor|exact Hok].
  - do 2 eexists. split; [reflexivity|]. split; [repeat constructor|exact Hok].
Qed.

(* one iteration either ends with EOF or goes on with strictly less input, a good state and
   only data / protocol-error events: no index, slice or allocation panic is reachable *)
Lemma step_spec st bs :
  st_ok st ->
  fstep st bs = Stop [EvEof] \/
  exists evs st' bs', fstep st bs = Cont evs st' bs' /\ Forall benign evs /\ st_ok st' /\
                      (length bs' < length bs)%nat.
Proof.
  intros Hok. pose proof (read_line_spec st bs Hok) as Hrl. unfold step.
  destruct (fread st bs) as [msg r'| |r'| |] eqn:Erl; try contradiction.
  2:{ left; reflexivity. }
  2:{ right. do 3 eexists. split; [reflexivity|].
      split; [repeat constructor|]. split; [apply st0_ok|exact Hrl]. }
  destruct Hrl as (Hshort & Hlen & Hcr). right.
  assert (forall evs st', Forall benign evs -> st_ok st' ->
            exists evs0 st0' bs', Cont evs st' r' = Cont evs0 st0' bs' /\ Forall benign evs0 /\
                                  st_ok st0' /\ (length bs' < length bs)%nat) as Hcont.
  { intros evs st' H1 H2. do 3 eexists. split; [reflexivity|]. auto. }
  assert (forall st1 res, st_ok st1 ->
            exists evs0 st0' bs', push_elem bytes st1 res r' = Cont evs0 st0' bs' /\
                                  Forall benign evs0 /\ st_ok st0' /\ (length bs' < length bs)%nat) as Hpush.
  { intros st1 res H1. destruct (push_elem_spec st1 res r' H1) as (evs & st' & -> & H2 & H3).
    apply Hcont; assumption. }
  assert (Forall benign [EvProtoErr]) as Hperr by (repeat constructor).
  destruct (negb (multiLine st)) eqn:Eml.
  - destruct (at_z_lt msg 0 ltac:(lia)) as [t Ht]. rewrite Ht.
    (* a line that starts with '*' or '$' and has CR at len-2 has at least 3 bytes *)
    assert (t <> bCR -> 3 <= zlen msg) as Hlen3.
    { intros Hne. destruct (Z.eq_dec (zlen msg) 2) as [E2|]; [|lia].
      rewrite E2 in Hcr. replace (2 - 2) with 0 in Hcr by lia. rewrite Ht in Hcr. congruence. }
    destruct (beqb t bStar) eqn:Estar.
    + apply beqb_eq in Estar. subst t.
      specialize (Hlen3 ltac:(discriminate)).
      unfold header_num.
      destruct (slice_z_some msg 1 (zlen msg - 2) ltac:(lia) ltac:(lia) ltac:(lia)) as [d Hd].
      rewrite Hd. destruct (atoi64 d) as [n|]; [|apply Hcont; [exact Hperr|apply st0_ok]].
      destruct (n <? 0); [apply Hcont; [exact Hperr|apply st0_ok]|].
      destruct (n =? -1); [apply Hcont; [repeat constructor|apply st0_ok]|].
      destruct (n =? 0); [apply Hcont; [repeat constructor|apply st0_ok]|].
      apply Hcont; [constructor|exact Hok].
    + destruct (beqb t bDollar) eqn:Edol.
      * apply beqb_eq in Edol. subst t.
        specialize (Hlen3 ltac:(discriminate)).
        unfold header_num.
        destruct (slice_z_some msg 1 (zlen msg - 2) ltac:(lia) ltac:(lia) ltac:(lia)) as [d Hd].
        rewrite Hd. destruct (atoi64 d) as [n|]; [|apply Hcont; [exact Hperr|apply st0_ok]].
        destruct ((n <? -1) || (max_bulk_len <? n)) eqn:Erange;
          [apply Hcont; [exact Hperr|apply st0_ok]|].
        apply orb_false_iff in Erange as [_ Hcap]. apply Z.ltb_ge in Hcap.
        destruct (n =? -1).
        -- apply Hpush. unfold st_ok, max_bulk_len. cbn. lia.
        -- apply Hcont; [constructor|]. unfold st_ok. cbn. exact Hcap.
      * unfold parse_single_line. rewrite Ht.
        destruct (zlen msg <? 3) eqn:E3; [apply Hcont; [exact Hperr|apply st0_ok]|].
        destruct (slice_z_some msg 1 (zlen msg - 2) ltac:(lia) ltac:(lia) ltac:(lia)) as [d Hd].
        rewrite Hd.
        destruct (beqb t bPlus); [apply Hpush; exact Hok|].
        destruct (beqb t bMinus); [apply Hpush; exact Hok|].
        destruct (beqb t bColon); [|apply Hpush; exact Hok].
        destruct (atoi64 d); [apply Hpush; exact Hok|apply Hcont; [exact Hperr|apply st0_ok]].
  - unfold parse_multi_line. destruct (zlen msg <? 2) eqn:E2; [lia|].
    destruct (slice_z_some msg 0 (zlen msg - 2) ltac:(lia) ltac:(lia) ltac:(lia)) as [d Hd].
    rewrite Hd. apply Hpush. unfold st_ok, max_bulk_len. cbn. lia.
Qed.

(* ================================================================ the loop *)

(* shape of every event sequence: data and protocol errors, then exactly one EOF *)
Inductive well_terminated : list event -> Prop :=
| wt_eof : well_terminated [EvEof]
| wt_data r evs : well_terminated evs -> well_terminated (EvData r :: evs)
| wt_err evs : well_terminated evs -> well_terminated (EvProtoErr :: evs).

Lemma wt_app evs rest : Forall benign evs -> well_terminated rest -> well_terminated (evs ++ rest).
Proof.
  induction 1 as [|e evs He _ IH]; intros Hr; cbn [app]; [exact Hr|].
  destruct e; try contradiction; constructor; apply IH; exact Hr.
Qed.

Lemma parse_loop_wt fuel : forall st bs,
  st_ok st -> (length bs < fuel)%nat -> well_terminated (floop fuel st bs).
Proof.
  induction fuel as [|f IH]; intros st bs Hok Hf; [lia|].
  cbn [parse_loop]. destruct (step_spec st bs Hok) as [->|(evs & st' & bs' & -> & Hb & Hok' & Hsh)].
  - constructor.
  - apply wt_app; [exact Hb|]. apply IH; [exact Hok'|lia].
Qed.

(* the result does not depend on the fuel once it exceeds the input length *)
Lemma parse_loop_fuel f1 : forall f2 st bs,
  st_ok st -> (length bs < f1)%nat -> (length bs < f2)%nat -> floop f1 st bs = floop f2 st bs.
Proof.
  induction f1 as [|f1 IH]; intros f2 st bs Hok H1 H2; [lia|].
  destruct f2 as [|f2]; [lia|]. cbn [parse_loop].
  destruct (step_spec st bs Hok) as [->|(evs & st' & bs' & -> & Hb & Hok' & Hsh)]; [reflexivity|].
  f_equal. apply IH; [exact Hok'|lia|lia].
Qed.

(* fuel-free unfolding of the loop *)
Lemma events_from_unfold st bs :
  st_ok st ->
  events_from st bs =
  match fstep st bs with
  | Stop evs => evs
  | Cont evs st' bs' => evs ++ events_from st' bs'
  end.
Proof.
  intros Hok. unfold events_from at 1. cbn [parse_loop].
  destruct (step_spec st bs Hok) as [->|(evs & st' & bs' & -> & Hb & Hok' & Hsh)]; [reflexivity|].
  f_equal. unfold events_from. apply parse_loop_fuel; [exact Hok'|lia|lia].
Qed.

Lemma events_from_wt st bs : st_ok st -> well_terminated (events_from st bs).
Proof. intros Hok. apply parse_loop_wt; [exact Hok|lia]. Qed.

Lemma wt_no_bad evs : well_terminated evs ->
  ~ In EvCrash evs /\ ~ In EvBlowup evs /\ ~ In EvHang evs.
Proof.
  induction 1 as [|r evs _ (I1 & I2 & I3)|evs _ (I1 & I2 & I3)]; repeat split; intros Hin;
    cbn [In] in Hin; destruct Hin as [Hin|Hin]; try discriminate; try contradiction; auto.
Qed.

Lemma wt_last evs : well_terminated evs ->
  exists body, evs = body ++ [EvEof] /\ Forall benign body.
Proof.
  induction 1 as [|r evs _ (body & -> & Hb)|evs _ (body & -> & Hb)].
  - exists []. split; [reflexivity|constructor].
  - exists (EvData r :: body). split; [reflexivity|constructor; [exact I|exact Hb]].
  - exists (EvProtoErr :: body). split; [reflexivity|constructor; [exact I|exact Hb]].
Qed.

Theorem events_total bs :
  ~ In EvCrash (events bs) /\ ~ In EvBlowup (events bs) /\ ~ In EvHang (events bs).
Proof. apply wt_no_bad, events_from_wt, st0_ok. Qed.

Theorem events_end_with_eof bs :
  exists body, events bs = body ++ [EvEof] /\ Forall benign body.
Proof. apply wt_last, events_from_wt, st0_ok. Qed.
