(* C02 model: resp/parser.go (parse, readLine, parseSingleLine, parseMultiLine,
   parseArrayHeader, parseBulkHeader) with the bounds/limit repair applied, and the connection
   loop of server/db_manager.go (Handle), as total executable functions.

   Definitions only (proofs are in RespProofs.v) so that the extracted model keeps running
   when a proof breaks.

   Shape:
   - the parser loop is written once, over an abstract buffered reader given by the two
     primitives the Go code uses:  ReadBytes('\n')  and  io.ReadFull(reader, make([]byte,n));
   - `flat` instance: the reader is the remaining byte stream;  `events bs`;
   - `chunk` instance: the reader is (bytes already buffered, chunks the connection will
     still deliver, one per Read call);  `events_chunked chunks`;
   - every Go expression that can panic (index, slice, make) is an explicit partial operation
     whose failure is the event EvCrash / EvBlowup, so "never crashes" is a theorem about
     the guards in the code, not a property of the modelling language. *)
Require Import Base.Bytes Base.GoInt Base.Reply Resp.RespSpec.
Local Open Scope Z_scope.

(* ---------------------------------------------------------------- channel events *)

Inductive event :=
| EvData (r : reply)   (* ParsedRes{Data: r}; RArr = *ArrayData, the only kind Handle executes *)
| EvProtoErr           (* ParsedRes{Err: err}, err != io.EOF *)
| EvEof                (* ParsedRes{Err: io.EOF}, then the channel is closed *)
| EvCrash              (* run-time panic in the parser goroutine: the whole process dies *)
| EvBlowup             (* allocation of a client-chosen size above the server's limit *)
| EvHang.              (* the loop iterates without consuming input (fuel exhausted) *)

(* what a well-formed command must be delivered as *)
Definition EvCmd (args : list bytes) : event := EvData (RArr (map RBulk args)).

(* ---------------------------------------------------------------- Go partial operations *)

(* msg[i] *)
Definition at_z (msg : bytes) (i : Z) : option byte :=
  if i <? 0 then None else nth_error msg (Z.to_nat i).

(* msg[lo:hi] *)
Definition slice_z (msg : bytes) (lo hi : Z) : option bytes :=
  if (0 <=? lo) && (lo <=? hi) && (hi <=? zlen msg)
  then Some (firstn (Z.to_nat (hi - lo)) (skipn (Z.to_nat lo) msg))
  else None.

(* make([]byte, n): what the run time can do with a client-chosen n *)
Definition alloc_limit : Z := max_bulk_len + 2.
Inductive alloc_res := AllocOk | AllocCrash | AllocBlowup.
Definition alloc (n : Z) : alloc_res :=
  if (n <? 0) || (int64_max <? n) then AllocCrash      (* bulkLen+2 wrapped negative: panic *)
  else if alloc_limit <? n then AllocBlowup
  else AllocOk.

(* ---------------------------------------------------------------- readState *)

Record pstate := mkP {
  bulkLen : Z;
  arrayLen : Z;
  multiLine : bool;
  arrData : list reply;     (* state.arrayData.data *)
  inArray : bool
}.

Definition st0 : pstate := mkP 0 0 false [] false.   (* readState{} *)

Inductive pres := POk (r : reply) | PErr | PCrash.

(* resp.MakeErrorData: an error text is framed as one line, so CR and LF in it are replaced by
   spaces (also when the text comes from a client's "-..." line) *)
Definition sanitize_err (s : bytes) : bytes :=
  map (fun c => if beqb c bCR || beqb c bLF then " "%byte else c) s.

Definition parse_single_line (msg : bytes) : pres :=
  match at_z msg 0 with                               (* msgType := msg[0] *)
  | None => PCrash
  | Some t =>
    if zlen msg <? 3 then PErr
    else match slice_z msg 1 (zlen msg - 2) with      (* msg[1 : len(msg)-2] *)
         | None => PCrash
         | Some d =>
           if beqb t bPlus then POk (RSimple d)
           else if beqb t bMinus then POk (RErr (sanitize_err d))
           else if beqb t bColon then
             match atoi64 d with Some z => POk (RInt z) | None => PErr end
           else POk (RPlain d)
         end
  end.

Definition parse_multi_line (msg : bytes) : pres :=
  if zlen msg <? 2 then PErr
  else match slice_z msg 0 (zlen msg - 2) with        (* msg[:len(msg)-2] *)
       | None => PCrash
       | Some d => POk (RBulk d)
       end.

(* strconv.Atoi / ParseInt(…,10,64) of msg[1:len(msg)-2]; outer None = slice panic *)
Definition header_num (msg : bytes) : option (option Z) :=
  match slice_z msg 1 (zlen msg - 2) with
  | None => None
  | Some d => Some (atoi64 d)
  end.

(* ---------------------------------------------------------------- abstract reader *)

Inductive full_res (R : Type) :=
| FullOk (msg : bytes) (r : R)      (* all n bytes read *)
| FullEof                           (* no byte available: io.EOF *)
| FullShort (r : R).                (* fewer than n bytes: io.ErrUnexpectedEOF *)
Arguments FullOk {R}. Arguments FullEof {R}. Arguments FullShort {R}.

Section Parser.
  Variable R : Type.
  (* reader.ReadBytes('\n'): the bytes up to and including the first LF; None = EOF first
     (parse() then discards whatever was read) *)
  Variable rd_line : R -> option (bytes * R).
  (* io.ReadFull(reader, make([]byte, n)) *)
  Variable rd_full : Z -> R -> full_res R.

  Inductive rl_res :=
  | RlMsg (msg : bytes) (r : R)
  | RlEof
  | RlErr (r : R)
  | RlCrash
  | RlBlowup.

  Definition read_line (st : pstate) (r : R) : rl_res :=
    if multiLine st && (0 <=? bulkLen st) then
      let n := bulkLen st + 2 in
      match alloc n with
      | AllocCrash => RlCrash
      | AllocBlowup => RlBlowup
      | AllocOk =>
        match rd_full n r with
        | FullEof => RlEof
        | FullShort r' => RlErr r'
        | FullOk msg r' =>
          match at_z msg (zlen msg - 1), at_z msg (zlen msg - 2) with
          | Some c1, Some c2 =>
            if negb (beqb c1 bLF) || negb (beqb c2 bCR) then RlErr r' else RlMsg msg r'
          | _, _ => RlCrash
          end
        end
      end
    else
      match rd_line r with
      | None => RlEof
      | Some (msg, r') =>
        if zlen msg <? 2 then RlErr r'                 (* the repaired guard *)
        else match at_z msg (zlen msg - 2) with
             | Some c => if beqb c bCR then RlMsg msg r' else RlErr r'
             | None => RlCrash
             end
      end.

  Inductive step_res :=
  | Stop (evs : list event)
  | Cont (evs : list event) (st : pstate) (r : R).

  (* "if state.inArray { append; if complete { send; reset } } else { send }" *)
  Definition push_elem (st : pstate) (res : reply) (r : R) : step_res :=
    if inArray st then
      let d := arrData st ++ [res] in
      if zlen d =? arrayLen st then Cont [EvData (RArr d)] st0 r
      else Cont [] (mkP (bulkLen st) (arrayLen st) (multiLine st) d true) r
    else Cont [EvData res] st r.

  (* one iteration of the for loop of parse() *)
  Definition step (st : pstate) (r : R) : step_res :=
    match read_line st r with
    | RlEof => Stop [EvEof]
    | RlCrash => Stop [EvCrash]
    | RlBlowup => Stop [EvBlowup]
    | RlErr r' => Cont [EvProtoErr] st0 r'
    | RlMsg msg r' =>
      if negb (multiLine st) then
        match at_z msg 0 with
        | None => Stop [EvCrash]
        | Some t =>
          if beqb t bStar then
            match header_num msg with
            | None => Stop [EvCrash]
            | Some None => Cont [EvProtoErr] st0 r'
            | Some (Some n) =>
              if n <? 0 then Cont [EvProtoErr] st0 r'
              else if n =? -1 then Cont [EvData RNilArr] st0 r'   (* dead: n >= 0 here *)
              else if n =? 0 then Cont [EvData (RArr [])] st0 r'
              else Cont [] (mkP (bulkLen st) n (multiLine st) [] true) r'
            end
          else if beqb t bDollar then
            match header_num msg with
            | None => Stop [EvCrash]
            | Some None => Cont [EvProtoErr] st0 r'
            | Some (Some n) =>
              if (n <? -1) || (max_bulk_len <? n) then Cont [EvProtoErr] st0 r'
              else if n =? -1 then
                push_elem (mkP 0 (arrayLen st) false (arrData st) (inArray st)) RNil r'
              else Cont [] (mkP n (arrayLen st) true (arrData st) (inArray st)) r'
            end
          else
            match parse_single_line msg with
            | PCrash => Stop [EvCrash]
            | PErr => Cont [EvProtoErr] st0 r'
            | POk res => push_elem st res r'
            end
        end
      else
        match parse_multi_line msg with
        | PCrash => Stop [EvCrash]
        | PErr => Cont [EvProtoErr] st0 r'
        | POk res => push_elem (mkP 0 (arrayLen st) false (arrData st) (inArray st)) res r'
        end
    end.

  Fixpoint parse_loop (fuel : nat) (st : pstate) (r : R) : list event :=
    match fuel with
    | O => [EvHang]
    | S f =>
      match step st r with
      | Stop evs => evs
      | Cont evs st' r' => evs ++ parse_loop f st' r'
      end
    end.
End Parser.

Arguments RlMsg {R}. Arguments RlEof {R}. Arguments RlErr {R}. Arguments RlCrash {R}.
Arguments RlBlowup {R}. Arguments Stop {R}. Arguments Cont {R}.

(* ---------------------------------------------------------------- flat reader *)

Fixpoint split_lf (bs : bytes) : option (bytes * bytes) :=
  match bs with
  | [] => None
  | b :: r =>
    if beqb b bLF then Some ([b], r)
    else match split_lf r with
         | Some (l, rest) => Some (b :: l, rest)
         | None => None
         end
  end.

(* the first n bytes, if there are that many (n <= 0: none needed) *)
Fixpoint take_z (bs : bytes) (n : Z) {struct bs} : option (bytes * bytes) :=
  if n <=? 0 then Some ([], bs)
  else match bs with
       | [] => None
       | b :: r =>
         match take_z r (n - 1) with
         | Some (d, rest) => Some (b :: d, rest)
         | None => None
         end
       end.

Definition flat_line (bs : bytes) : option (bytes * bytes) := split_lf bs.

Definition flat_full (n : Z) (bs : bytes) : full_res bytes :=
  match take_z bs n with
  | Some (d, rest) => FullOk d rest
  | None => match bs with [] => FullEof | _ => FullShort [] end
  end.

Definition events_from (st : pstate) (bs : bytes) : list event :=
  parse_loop bytes flat_line flat_full (S (length bs)) st bs.

(* the events ParseStream delivers for the byte stream bs followed by EOF *)
Definition events (bs : bytes) : list event := events_from st0 bs.

(* ---------------------------------------------------------------- chunked reader *)

(* (bytes buffered by bufio but not yet consumed, results of the future Read calls) *)
Definition creader := (bytes * list bytes)%type.

Fixpoint c_line (acc : bytes) (pending : list bytes) : option (bytes * creader) :=
  match pending with
  | [] => None
  | c :: cs =>
    match split_lf c with
    | Some (l, rest) => Some (acc ++ l, (rest, cs))
    | None => c_line (acc ++ c) cs
    end
  end.

Definition chunk_line (s : creader) : option (bytes * creader) :=
  match split_lf (fst s) with
  | Some (l, rest) => Some (l, (rest, snd s))
  | None => c_line (fst s) (snd s)
  end.

Fixpoint c_full (acc : bytes) (need : Z) (pending : list bytes) : option (bytes * creader) :=
  match pending with
  | [] => None
  | c :: cs =>
    match take_z c need with
    | Some (d, rest) => Some (acc ++ d, (rest, cs))
    | None => c_full (acc ++ c) (need - zlen c) cs
    end
  end.

Definition all_empty (s : creader) : bool :=
  match fst s with
  | [] => forallb (fun c => match c with [] => true | _ => false end) (snd s)
  | _ => false
  end.

Definition chunk_full (n : Z) (s : creader) : full_res creader :=
  match take_z (fst s) n with
  | Some (d, rest) => FullOk d (rest, snd s)
  | None =>
    match c_full (fst s) (n - zlen (fst s)) (snd s) with
    | Some (d, s') => FullOk d s'
    | None => if all_empty s then FullEof else FullShort ([], [])
    end
  end.

Definition flatten (s : creader) : bytes := fst s ++ concat (snd s).

(* the events ParseStream delivers when the connection's Read calls return these chunks *)
Definition events_chunked (chunks : list bytes) : list event :=
  parse_loop creader chunk_line chunk_full (S (length (concat chunks))) st0 ([], chunks).

(* ---------------------------------------------------------------- Handle *)

(* RedisData.ByteData() *)
Fixpoint byte_data (r : reply) : bytes :=
  match r with
  | RSimple s | RErr s | RBulk s | RPlain s => s
  | RInt z => z_to_dec z
  | RNil | RNilArr => []
  | RArr l => concat (map byte_data l)
  end.

Inductive conn_end :=
| ClosedOnError     (* protocol error: Handle logs and returns, the deferred conn.Close() runs *)
| ClosedOnEof       (* the client closed its side *)
| ProcessDied
| Unfinished.

(* the commands Handle passes to ExecCommand, in order, and how the connection ends *)
Fixpoint handle (evs : list event) : list (list bytes) * conn_end :=
  match evs with
  | [] => ([], Unfinished)
  | EvData (RArr l) :: r => let (x, e) := handle r in (map byte_data l :: x, e)
  | EvData RNilArr :: r => let (x, e) := handle r in ([] :: x, e)
  | EvData _ :: r => handle r             (* "parsedRes.Data is not ArrayData": logged, ignored *)
  | EvProtoErr :: _ => ([], ClosedOnError)
  | EvEof :: _ => ([], ClosedOnEof)
  | EvCrash :: _ | EvBlowup :: _ | EvHang :: _ => ([], ProcessDied)
  end.

Definition executed (bs : bytes) : list (list bytes) := fst (handle (events bs)).
Definition conn_end_of (bs : bytes) : conn_end := snd (handle (events bs)).

(* the array events of a list, with no regard to errors: used to state what was executed *)
Fixpoint cmds_in (evs : list event) : list (list bytes) :=
  match evs with
  | [] => []
  | EvData (RArr l) :: r => map byte_data l :: cmds_in r
  | EvData RNilArr :: r => [] :: cmds_in r
  | _ :: r => cmds_in r
  end.
