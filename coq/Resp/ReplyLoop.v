(* C03, connection-loop half: what server.Manager.Handle writes on a connection.

   The loop takes the events of the request parser (Resp/RespModel.v) one by one; for an array
   event it calls the executor and writes ToBytes() of the result -- or, when the result is nil,
   of MakeErrorData("unknown error"); other data events are logged and skipped; a protocol
   error or EOF ends the loop.  The executor is a parameter: any state type, any function from
   state and argument vector to an optional reply and a new state.  The theorems say that the
   bytes written decode, with the independent decoder of Resp/ReplyCodec.v, to exactly one reply
   per executed command, in the order of the commands, with nothing left over. *)
Require Import Base.Bytes Base.GoInt Base.Reply.
Require Import Resp.RespSpec Resp.RespModel Resp.RespProofs Resp.RespChunking Resp.RespHandle.
Require Import Resp.ReplyCodec Resp.ReplyCodecProofs.
Local Open Scope Z_scope.

(* resp.MakeErrorData("unknown error") *)
Definition unknown_error : reply :=
  RErr (sanitize_err ["u"; "n"; "k"; "n"; "o"; "w"; "n"; " "; "e"; "r"; "r"; "o"; "r"]%byte).

Lemma sanitize_err_no_crlf s : no_crlf (sanitize_err s) = true.
Proof.
  unfold no_crlf, sanitize_err. induction s as [|c s IH]; [reflexivity|].
  cbn [map forallb]. rewrite IH, andb_true_r.
  destruct (beqb c bCR || beqb c bLF) eqn:E; [reflexivity|].
  apply orb_false_iff in E as [-> ->]. reflexivity.
Qed.

(* resp.MakeErrorData(parts...): the concatenated text, sanitised *)
Lemma sanitize_err_wf (parts : list bytes) : reply_wf (RErr (sanitize_err (concat parts))) = true.
Proof. apply sanitize_err_no_crlf. Qed.

(* "if res != nil { conn.Write(res.ToBytes()) } else { conn.Write(errData.ToBytes()) }" *)
Definition reply_or_err (o : option reply) : reply :=
  match o with Some r => r | None => unknown_error end.

Section Loop.
  Variable St : Type.
  Variable exec1 : St -> list bytes -> option reply * St.

  (* the bytes written while consuming the events *)
  Fixpoint serve (s : St) (evs : list event) : bytes :=
    match evs with
    | [] => []
    | EvData (RArr l) :: r =>
      let (o, s') := exec1 s (map byte_data l) in encode_reply (reply_or_err o) ++ serve s' r
    | EvData RNilArr :: r =>
      let (o, s') := exec1 s [] in encode_reply (reply_or_err o) ++ serve s' r
    | EvData _ :: r => serve s r
    | _ => []
    end.

  (* the replies to a sequence of commands, each executed in the state its predecessors left *)
  Fixpoint replies (s : St) (cmds : list (list bytes)) : list reply :=
    match cmds with
    | [] => []
    | c :: r => let (o, s') := exec1 s c in reply_or_err o :: replies s' r
    end.

  Fixpoint state_after (s : St) (cmds : list (list bytes)) : St :=
    match cmds with
    | [] => s
    | c :: r => state_after (snd (exec1 s c)) r
    end.

  (* everything the connection loop writes for the byte stream bs (followed by EOF) *)
  Definition conn_output (s : St) (bs : bytes) : bytes := serve s (events bs).
  Definition conn_output_chunked (s : St) (chunks : list bytes) : bytes := serve s (events_chunked chunks).

  Lemma handle_arr l evs :
    fst (handle (EvData (RArr l) :: evs)) = map byte_data l :: fst (handle evs).
  Proof.
    change (handle (EvData (RArr l) :: evs))
      with (let (x, e) := handle evs in (map byte_data l :: x, e)).
    destruct (handle evs); reflexivity.
  Qed.

  Lemma handle_nilarr evs :
    fst (handle (EvData RNilArr :: evs)) = [] :: fst (handle evs).
  Proof.
    change (handle (EvData RNilArr :: evs)) with (let (x, e) := handle evs in ([] :: x, e)).
    destruct (handle evs); reflexivity.
  Qed.

  Lemma serve_handle : forall evs s,
    serve s evs = encode_replies (replies s (fst (handle evs))).
  Proof.
    unfold encode_replies.
    induction evs as [|e evs IH]; intros s; [reflexivity|].
    destruct e as [r| | | | |]; try reflexivity.
    destruct r; try (cbn [serve handle]; apply IH).
    - (* RArr *)
      rewrite handle_arr. cbn [serve replies].
      destruct (exec1 s (map byte_data l)) as [o s']. cbn [map concat].
      rewrite IH. reflexivity.
    - (* RNilArr *)
      rewrite handle_nilarr. cbn [serve replies].
      destruct (exec1 s []) as [o s']. cbn [map concat].
      rewrite IH. reflexivity.
  Qed.

  Lemma conn_output_executed s bs :
    conn_output s bs = encode_replies (replies s (executed bs)).
  Proof. apply serve_handle. Qed.

  Lemma replies_length : forall cmds s, length (replies s cmds) = length cmds.
  Proof.
    induction cmds as [|c r IH]; intros s; [reflexivity|].
    cbn [replies]. destruct (exec1 s c) as [o s']. cbn [length]. rewrite IH. reflexivity.
  Qed.

  (* the i-th reply answers the i-th command, executed after exactly its predecessors *)
  Lemma replies_nth : forall pre c post s,
    nth_error (replies s (pre ++ c :: post)) (length pre)
    = Some (reply_or_err (fst (exec1 (state_after s pre) c))).
  Proof.
    induction pre as [|p pre IH]; intros c post s.
    - cbn [app replies length state_after]. destruct (exec1 s c) as [o s']. reflexivity.
    - cbn [app replies length state_after]. destruct (exec1 s p) as [o s'] eqn:E.
      cbn [nth_error snd]. apply IH.
  Qed.

  (* the executor only produces well-formed replies *)
  Hypothesis exec1_wf : forall s c r s', exec1 s c = (Some r, s') -> reply_wf r = true.

  Lemma unknown_error_wf : reply_wf unknown_error = true.
  Proof. reflexivity. Qed.

  Lemma replies_wf : forall cmds s, Forall (fun r => reply_wf r = true) (replies s cmds).
  Proof.
    induction cmds as [|c r IH]; intros s; [constructor|].
    cbn [replies]. destruct (exec1 s c) as [o s'] eqn:E. constructor; [|apply IH].
    destruct o as [x|]; [exact (exec1_wf _ _ _ _ E)|exact unknown_error_wf].
  Qed.

  Theorem one_reply_in_order s bs :
    decode_stream (conn_output s bs) = (replies s (executed bs), [])
    /\ length (replies s (executed bs)) = length (executed bs).
  Proof.
    split; [|apply replies_length].
    rewrite conn_output_executed. apply decode_stream_encode. apply replies_wf.
  Qed.

  Theorem one_reply_in_order_chunked s chunks :
    decode_stream (conn_output_chunked s chunks)
    = (replies s (executed (concat chunks)), []).
  Proof.
    unfold conn_output_chunked. rewrite events_chunked_flat.
    exact (proj1 (one_reply_in_order s (concat chunks))).
  Qed.
End Loop.


(* ---------------------------------------------------------------- what a write may leave behind *)

(* [serve] above writes every reply completely.  That is an ASSUMPTION about conn.Write, made
   explicit here.  A call conn.Write(b) either writes all of b (err == nil) or returns an error
   after some of the bytes (a write deadline that expires while the client is not reading, a
   reset).  [wplan] lists the outcome of the successive Write calls of a connection:
   None = complete, Some n = failed after n bytes.  [emit close_on_error plan rs] is what the
   client can read when the loop writes the replies [rs] under these outcomes and, after a failed
   write, either ends the connection ([close_on_error] = true) or goes on to the next reply. *)
Definition wplan := list (option nat).

Fixpoint emit (close_on_error : bool) (plan : wplan) (rs : list reply) : bytes :=
  match rs with
  | [] => []
  | r :: rest =>
    match plan with
    | Some n :: plan' =>
      firstn n (encode_reply r) ++ (if close_on_error then [] else emit close_on_error plan' rest)
    | None :: plan' => encode_reply r ++ emit close_on_error plan' rest
    | [] => encode_reply r ++ emit close_on_error [] rest
    end
  end.

(* THE premise of C03_one_reply_in_order about the transport: every reply write is atomic, or
   the connection is closed at the first write that is not.  It holds of a loop that sets no
   write deadline (a failed write then means a dead connection: every later write fails with
   nothing written) and of a loop that returns on the first write error; `harness_resp
   writecheck` re-reads it from server/db_manager.go on every run. *)
Definition write_atomic_or_close (close_on_error : bool) (plan : wplan) : Prop :=
  close_on_error = true \/ Forall (fun w => w = None) plan.

Lemma emit_atomic c : forall rs plan,
  Forall (fun w => w = None) plan -> emit c plan rs = encode_replies rs.
Proof.
  unfold encode_replies.
  induction rs as [|r rs IH]; intros plan H; [reflexivity|].
  cbn [emit map concat]. destruct plan as [|w plan].
  - rewrite (IH [] H). reflexivity.
  - pose proof (Forall_inv H) as Hw. cbn beta in Hw. subst w.
    rewrite (IH plan (Forall_inv_tail H)). reflexivity.
Qed.

(* closing at the first failed write: complete replies to a prefix of the commands, in order,
   then at most a fragment of the next reply, then nothing *)
Lemma emit_close : forall rs plan,
  emit true plan rs = encode_replies rs
  \/ exists k r n, nth_error rs k = Some r
       /\ emit true plan rs = encode_replies (firstn k rs) ++ firstn n (encode_reply r).
Proof.
  unfold encode_replies.
  induction rs as [|r rs IH]; intros plan; [left; reflexivity|].
  cbn [emit]. destruct plan as [|[n|] plan].
  - destruct (IH []) as [E|(k & r0 & n & Hk & E)].
    + left. rewrite E. reflexivity.
    + right. exists (S k), r0, n. split; [exact Hk|]. rewrite E. cbn [firstn map concat].
      rewrite app_assoc. reflexivity.
  - right. exists O, r, n. split; [reflexivity|]. rewrite app_nil_r. reflexivity.
  - destruct (IH plan) as [E|(k & r0 & n & Hk & E)].
    + left. rewrite E. reflexivity.
    + right. exists (S k), r0, n. split; [exact Hk|]. rewrite E. cbn [firstn map concat].
      rewrite app_assoc. reflexivity.
Qed.

Theorem write_atomic_or_close_sound c plan rs :
  write_atomic_or_close c plan ->
  emit c plan rs = encode_replies rs
  \/ exists k r n, nth_error rs k = Some r
       /\ emit c plan rs = encode_replies (firstn k rs) ++ firstn n (encode_reply r).
Proof.
  intros [->|H]; [apply emit_close|left; apply emit_atomic; exact H].
Qed.

(* with atomic writes [emit] is exactly what [serve] writes *)
Lemma conn_output_emit St (exec1 : St -> list bytes -> option reply * St) c plan s bs :
  Forall (fun w => w = None) plan ->
  conn_output St exec1 s bs = emit c plan (replies St exec1 s (executed bs)).
Proof. intros H. rewrite conn_output_executed, emit_atomic by exact H. reflexivity. Qed.

(* Without the premise the property is false.  GET -> "$5 hello", PING -> "+PONG"; the first write
   gives up after 7 bytes and the loop carries on: the next reply is spliced into the unfinished
   bulk string.  The client can decode NO reply (it waits for 5 payload bytes and a CRLF and finds
   "hel+P" "ON"), let alone the two it is owed; had it closed, the client would at least know. *)
Example splice_counterexample :
  let rs := [RBulk ["h"; "e"; "l"; "l"; "o"]%byte; RSimple ["P"; "O"; "N"; "G"]%byte] in
  emit false [Some 7%nat] rs
    = ["$"; "5"; "013"; "010"; "h"; "e"; "l"; "+"; "P"; "O"; "N"; "G"; "013"; "010"]%byte
  /\ decode_stream (emit false [Some 7%nat] rs) <> (rs, [])
  /\ fst (decode_stream (emit false [Some 7%nat] rs)) = []
  /\ ~ write_atomic_or_close false [Some 7%nat]
  /\ emit true [Some 7%nat] rs = ["$"; "5"; "013"; "010"; "h"; "e"; "l"]%byte.
Proof.
  repeat split; try (vm_compute; reflexivity); try (vm_compute; discriminate).
  intros [H|H]; [discriminate H|]. inversion H as [|w l Hw _]. discriminate Hw.
Qed.

(* a longer payload: the spliced reply is swallowed as payload and the stream stays out of step *)
Example splice_swallows_next_reply :
  let rs := [RBulk ["a"; "b"; "c"; "d"; "e"; "f"; "g"; "h"; "i"; "j"; "k"; "l"]%byte;
             RSimple ["P"; "O"; "N"; "G"]%byte; RInt 1] in
  decode_stream (emit false [Some 8%nat] rs) <> (rs, [])
  /\ List.length (fst (decode_stream (emit false [Some 8%nat] rs))) <> 3%nat.
Proof. split; vm_compute; [discriminate|lia]. Qed.
