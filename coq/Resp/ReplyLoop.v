(* C03, connection-loop half: what server.Manager.Handle writes on a connection.

   The loop takes the events of the request parser (Resp/RespModel.v) one by one; for an array
   event it calls the executor and writes ToBytes() of the result -- or, when the result is nil,
   of MakeErrorData("unknown error"); other data events are logged and skipped; a protocol
   error or EOF ends the loop.  The executor is a parameter: any state type, any function from
   state and argument vector to an optional reply and a new state.  The theorems say that the
   bytes written decode, with the independent decoder of Resp/ReplyCodec.v, to exactly one reply
   per executed command, in the order of the commands, with nothing left over. *)
Require Import Base.Bytes Base.GoInt Base.Reply.
Require Import Resp.RespSpec Resp.RespModel Resp.RespProofs Resp.RespChunking Resp.RespHandle.
Require Import Resp.ReplyCodec Resp.ReplyCodecProofs.
Local Open Scope Z_scope.

(* resp.MakeErrorData("unknown error") *)
Definition unknown_error : reply :=
  RErr (sanitize_err ["u"; "n"; "k"; "n"; "o"; "w"; "n"; " "; "e"; "r"; "r"; "o"; "r"]%byte).

Lemma sanitize_err_no_crlf s : no_crlf (sanitize_err s) = true.
Proof.
  unfold no_crlf, sanitize_err. induction s as [|c s IH]; [reflexivity|].
  cbn [map forallb]. rewrite IH, andb_true_r.
  destruct (beqb c bCR || beqb c bLF) eqn:E; [reflexivity|].
  apply orb_false_iff in E as [-> ->]. reflexivity.
Qed.

(* resp.MakeErrorData(parts...): the concatenated text, sanitised *)
Lemma sanitize_err_wf (parts : list bytes) : reply_wf (RErr (sanitize_err (concat parts))) = true.
Proof. apply sanitize_err_no_crlf. Qed.

(* "if res != nil { conn.Write(res.ToBytes()) } else { conn.Write(errData.ToBytes()) }" *)
Definition reply_or_err (o : option reply) : reply :=
  match o with Some r => r | None => unknown_error end.

Section Loop.
  Variable St : Type.
  Variable exec1 : St -> list bytes -> option reply * St.

  (* the bytes written while consuming the events *)
  Fixpoint serve (s : St) (evs : list event) : bytes :=
    match evs with
    | [] => []
    | EvData (RArr l) :: r =>
      let (o, s') := exec1 s (map byte_data l) in encode_reply (reply_or_err o) ++ serve s' r
    | EvData RNilArr :: r =>
      let (o, s') := exec1 s [] in encode_reply (reply_or_err o) ++ serve s' r
    | EvData _ :: r => serve s r
    | _ => []
    end.

  (* the replies to a sequence of commands, each executed in the state its predecessors left *)
  Fixpoint replies (s : St) (cmds : list (list bytes)) : list reply :=
    match cmds with
    | [] => []
    | c :: r => let (o, s') := exec1 s c in reply_or_err o :: replies s' r
    end.

  Fixpoint state_after (s : St) (cmds : list (list bytes)) : St :=
    match cmds with
    | [] => s
    | c :: r => state_after (snd (exec1 s c)) r
    end.

  (* everything the connection loop writes for the byte stream bs (followed by EOF) *)
  Definition conn_output (s : St) (bs : bytes) : bytes := serve s (events bs).
  Definition conn_output_chunked (s : St) (chunks : list bytes) : bytes := serve s (events_chunked chunks).

  Lemma handle_arr l evs :
    fst (handle (EvData (RArr l) :: evs)) = map byte_data l :: fst (handle evs).
  Proof.
    change (handle (EvData (RArr l) :: evs))
      with (let (x, e) := handle evs in (map byte_data l :: x, e)).
    destruct (handle evs); reflexivity.
  Qed.

  Lemma handle_nilarr evs :
    fst (handle (EvData RNilArr :: evs)) = [] :: fst (handle evs).
  Proof.
    change (handle (EvData RNilArr :: evs)) with (let (x, e) := handle evs in ([] :: x, e)).
    destruct (handle evs); reflexivity.
  Qed.

  Lemma serve_handle : forall evs s,
    serve s evs = encode_replies (replies s (fst (handle evs))).
  Proof.
    unfold encode_replies.
    induction evs as [|e evs IH]; intros s; [reflexivity|].
    destruct e as [r| | | | |]; try reflexivity.
    destruct r; try (cbn [serve handle]; apply IH).
    - (* RArr *)
      rewrite handle_arr. cbn [serve replies].
      destruct (exec1 s (map byte_data l)) as [o s']. cbn [map concat].
      rewrite IH. reflexivity.
    - (* RNilArr *)
      rewrite handle_nilarr. cbn [serve replies].
      destruct (exec1 s []) as [o s']. cbn [map concat].
      rewrite IH. reflexivity.
  Qed.

  Lemma conn_output_executed s bs :
    conn_output s bs = encode_replies (replies s (executed bs)).
  Proof. apply serve_handle. Qed.

  Lemma replies_length : forall cmds s, length (replies s cmds) = length cmds.
  Proof.
    induction cmds as [|c r IH]; intros s; [reflexivity|].
    cbn [replies]. destruct (exec1 s c) as [o s']. cbn [length]. rewrite IH. reflexivity.
  Qed.

  (* the i-th reply answers the i-th command, executed after exactly its predecessors *)
  Lemma replies_nth : forall pre c post s,
    nth_error (replies s (pre ++ c :: post)) (length pre)
    = Some (reply_or_err (fst (exec1 (state_after s pre) c))).
  Proof.
    induction pre as [|p pre IH]; intros c post s.
    - cbn [app replies length state_after]. destruct (exec1 s c) as [o s']. reflexivity.
    - cbn [app replies length state_after]. destruct (exec1 s p) as [o s'] eqn:E.
      cbn [nth_error snd]. apply IH.
  Qed.

  (* the executor only produces well-formed replies *)
  Hypothesis exec1_wf : forall s c r s', exec1 s c = (Some r, s') -> reply_wf r = true.

  Lemma unknown_error_wf : reply_wf unknown_error = true.
  Proof. reflexivity. Qed.

  Lemma replies_wf : forall cmds s, Forall (fun r => reply_wf r = true) (replies s cmds).
  Proof.
    induction cmds as [|c r IH]; intros s; [constructor|].
    cbn [replies]. destruct (exec1 s c) as [o s'] eqn:E. constructor; [|apply IH].
    destruct o as [x|]; [exact (exec1_wf _ _ _ _ E)|exact unknown_error_wf].
  Qed.

  Theorem one_reply_in_order s bs :
    decode_stream (conn_output s bs) = (replies s (executed bs), [])
    /\ length (replies s (executed bs)) = length (executed bs).
  Proof.
    split; [|apply replies_length].
    rewrite conn_output_executed. apply decode_stream_encode. apply replies_wf.
  Qed.

  Theorem one_reply_in_order_chunked s chunks :
    decode_stream (conn_output_chunked s chunks)
    = (replies s (executed (concat chunks)), []).
  Proof.
    unfold conn_output_chunked. rewrite events_chunked_flat.
    exact (proj1 (one_reply_in_order s (concat chunks))).
  Qed.
End Loop.

