(* C02: exact, binary-safe decoding of well-formed commands, however many are pipelined and
   whatever follows them. *)
Require Import Base.Bytes Base.GoInt Base.Reply Resp.RespSpec Resp.RespModel Resp.RespProofs.
Local Open Scope Z_scope.

Notation fstep := (step bytes flat_line flat_full).
Notation fread := (read_line bytes flat_line flat_full).

(* ---------------------------------------------------------------- decimal lengths contain no LF *)

Lemma uint_no_lf u : ~ In bLF (uint_to_bytes u).
Proof.
  unfold bLF. induction u; cbn [uint_to_bytes In]; intros H;
    [exact H | destruct H as [H|H]; [discriminate H | exact (IHu H)] ..].
Qed.

Lemma z_to_dec_no_lf z : ~ In bLF (z_to_dec z).
Proof.
  destruct z as [|p|p]; unfold z_to_dec.
  - unfold bLF. cbn [In]. intros [H|H]; [discriminate H|exact H].
  - apply uint_no_lf.
  - cbn [In]. intros [H|H]; [unfold bLF in H; discriminate H|exact (uint_no_lf _ H)].
Qed.

(* ---------------------------------------------------------------- reading one header line *)

Lemma split_lf_line d rest :
  ~ In bLF d -> split_lf (d ++ bCR :: bLF :: rest) = Some (d ++ [bCR; bLF], rest).
Proof.
  induction d as [|b d IH]; intros Hno.
  - reflexivity.
  - cbn [app split_lf]. destruct (beqb b bLF) eqn:E.
    + apply beqb_eq in E. subst b. exfalso. apply Hno. left. reflexivity.
    + rewrite IH; [reflexivity|]. intros Hin. apply Hno. right. exact Hin.
Qed.

Lemma read_header st t n rest :
  multiLine st = false -> t <> bLF ->
  fread st (t :: z_to_dec n ++ CRLF ++ rest) = RlMsg (t :: z_to_dec n ++ CRLF) rest.
Proof.
  intros Hml Ht. unfold read_line. rewrite Hml. cbn [andb]. unfold flat_line.
  change (t :: z_to_dec n ++ CRLF ++ rest) with ((t :: z_to_dec n) ++ bCR :: bLF :: rest).
  rewrite split_lf_line.
  2:{ cbn [In]. intros [H|H]; [congruence|exact (z_to_dec_no_lf _ H)]. }
  change ((t :: z_to_dec n) ++ [bCR; bLF]) with ((t :: z_to_dec n) ++ CRLF).
  pose proof (zlen_nonneg (z_to_dec n)) as Hd.
  assert (zlen ((t :: z_to_dec n) ++ CRLF) = zlen (z_to_dec n) + 3) as Hlen
    by (rewrite zlen_app, zlen_cons, zlen_crlf; lia).
  destruct (zlen ((t :: z_to_dec n) ++ CRLF) <? 2) eqn:E; [lia|].
  rewrite at_z_crlf_cr. rewrite beqb_refl. reflexivity.
Qed.

Lemma header_num_hdr t d : header_num (t :: d ++ CRLF) = Some (atoi64 d).
Proof.
  unfold header_num.
  replace (zlen (t :: d ++ CRLF) - 2) with (zlen d + 1)
    by (rewrite zlen_cons, zlen_app, zlen_crlf; lia).
  rewrite slice_z_tail. reflexivity.
Qed.

Lemma in_int64_range n : int64_min <= n <= int64_max -> in_int64 n = true.
Proof.
  intros [H1 H2]. unfold in_int64. apply andb_true_iff. split; apply Z.leb_le; assumption.
Qed.

(* "*n CRLF" with n >= 1 opens an array *)
Lemma step_array_header st n rest :
  multiLine st = false -> 1 <= n <= int64_max ->
  fstep st (bStar :: z_to_dec n ++ CRLF ++ rest) = Cont [] (mkP (bulkLen st) n false [] true) rest.
Proof.
  intros Hml Hn. unfold step. rewrite read_header by (assumption || discriminate).
  rewrite Hml. cbn [negb]. rewrite at_z_0. rewrite beqb_refl. rewrite header_num_hdr.
  rewrite atoi64_z_to_dec by (apply in_int64_range; unfold int64_min; lia).
  destruct (n <? 0) eqn:E1; [lia|]. destruct (n =? -1) eqn:E2; [lia|].
  destruct (n =? 0) eqn:E3; [lia|]. reflexivity.
Qed.

(* "$n CRLF" with 0 <= n <= limit switches to bulk mode *)
Lemma step_bulk_header st n rest :
  multiLine st = false -> 0 <= n <= max_bulk_len ->
  fstep st (bDollar :: z_to_dec n ++ CRLF ++ rest) =
  Cont [] (mkP n (arrayLen st) true (arrData st) (inArray st)) rest.
Proof.
  intros Hml Hn. unfold step. rewrite read_header by (assumption || discriminate).
  rewrite Hml. cbn [negb]. rewrite at_z_0.
  change (beqb bDollar bStar) with false. cbn iota. rewrite beqb_refl. rewrite header_num_hdr.
  rewrite atoi64_z_to_dec
    by (apply in_int64_range; unfold int64_min, int64_max, max_bulk_len in *; lia).
  destruct (n <? -1) eqn:E1; [lia|]. destruct (max_bulk_len <? n) eqn:E2; [lia|]. cbn [orb].
  destruct (n =? -1) eqn:E3; [lia|]. reflexivity.
Qed.

(* in bulk mode exactly len bytes are taken, whatever they are, then CRLF is checked *)
Lemma step_payload st a rest :
  multiLine st = true -> bulkLen st = zlen a -> zlen a <= max_bulk_len ->
  fstep st (a ++ CRLF ++ rest) =
  push_elem bytes (mkP 0 (arrayLen st) false (arrData st) (inArray st)) (RBulk a) rest.
Proof.
  intros Hml Hbl Hcap. pose proof (zlen_nonneg a) as Ha.
  unfold step, read_line. rewrite Hml, Hbl. cbn [andb].
  destruct (0 <=? zlen a) eqn:E0; [|lia].
  unfold alloc, alloc_limit.
  assert (max_bulk_len + 2 <= int64_max) as Hmax by (unfold max_bulk_len, int64_max; lia).
  destruct (zlen a + 2 <? 0) eqn:E1; [lia|].
  destruct (int64_max <? zlen a + 2) eqn:E2; [lia|]. cbn [orb].
  destruct (max_bulk_len + 2 <? zlen a + 2) eqn:E3; [lia|].
  unfold flat_full.
  replace (zlen a + 2) with (zlen (a ++ CRLF)) by (rewrite zlen_app, zlen_crlf; lia).
  rewrite (app_assoc a CRLF rest). rewrite take_z_exact.
  rewrite at_z_crlf_lf, at_z_crlf_cr. rewrite !beqb_refl. cbn [negb orb].
  unfold parse_multi_line.
  destruct (zlen (a ++ CRLF) <? 2) eqn:E4; [rewrite zlen_app, zlen_crlf in E4; lia|].
  replace (zlen (a ++ CRLF) - 2) with (zlen a) by (rewrite zlen_app, zlen_crlf; lia).
  rewrite slice_z_prefix. reflexivity.
Qed.

(* ---------------------------------------------------------------- one argument, one command *)

Definition st_arr (k : Z) (acc : list reply) : pstate := mkP 0 k false acc true.

Lemma encode_bulk_app a rest :
  encode_bulk a ++ rest = bDollar :: z_to_dec (zlen a) ++ CRLF ++ (a ++ CRLF ++ rest).
Proof. unfold encode_bulk. cbn [app]. f_equal. rewrite <- !app_assoc. reflexivity. Qed.

Lemma events_bulk_in_array k acc a rest :
  zlen a <= max_bulk_len ->
  events_from (st_arr k acc) (encode_bulk a ++ rest) =
  if zlen (acc ++ [RBulk a]) =? k
  then EvData (RArr (acc ++ [RBulk a])) :: events_from st0 rest
  else events_from (st_arr k (acc ++ [RBulk a])) rest.
Proof.
  intros Hcap. pose proof (zlen_nonneg a) as Ha.
  rewrite events_from_unfold by (unfold st_ok, st_arr, max_bulk_len; cbn; lia).
  rewrite encode_bulk_app. rewrite step_bulk_header by (reflexivity || lia).
  cbn [app st_arr arrayLen arrData inArray].
  rewrite events_from_unfold by (unfold st_ok; cbn; exact Hcap).
  rewrite step_payload by (reflexivity || exact Hcap).
  unfold push_elem. cbn [inArray arrData arrayLen bulkLen multiLine].
  destruct (zlen (acc ++ [RBulk a]) =? k); reflexivity.
Qed.

Lemma events_args : forall args acc k rest,
  args <> [] -> zlen acc + zlen args = k ->
  Forall (fun a => zlen a <= max_bulk_len) args ->
  events_from (st_arr k acc) (concat (map encode_bulk args) ++ rest) =
  EvData (RArr (acc ++ map RBulk args)) :: events_from st0 rest.
Proof.
  induction args as [|a args IH]; intros acc k rest Hne Hk Hall; [congruence|].
  pose proof (Forall_inv Hall) as Ha. pose proof (Forall_inv_tail Hall) as Hall'.
  cbn [map concat]. rewrite <- app_assoc. rewrite events_bulk_in_array by exact Ha.
  assert (zlen (acc ++ [RBulk a]) = zlen acc + 1) as E1
    by (rewrite zlen_app, zlen_cons; pose proof (@zlen_nil reply); lia).
  rewrite zlen_cons in Hk.
  destruct args as [|a' args'].
  - pose proof (@zlen_nil (list byte)) as Hz.
    destruct (zlen (acc ++ [RBulk a]) =? k) eqn:E; [reflexivity|apply Z.eqb_neq in E; lia].
  - pose proof (zlen_nonneg args') as Hpos'. rewrite zlen_cons in Hk.
    destruct (zlen (acc ++ [RBulk a]) =? k) eqn:E; [apply Z.eqb_eq in E; lia|].
    rewrite IH; [|discriminate|rewrite zlen_cons; lia|exact Hall'].
    rewrite <- app_assoc. reflexivity.
Qed.

(* a well-formed command is delivered as exactly its arguments, and the parser is back in its
   initial state in front of whatever follows *)
Lemma events_cmd c rest :
  cmd_ok c -> events (encode_cmd c ++ rest) = EvCmd c :: events rest.
Proof.
  intros (Hne & Hlen & Hall). unfold events.
  rewrite events_from_unfold by apply st0_ok.
  unfold encode_cmd. cbn [app]. rewrite <- !app_assoc.
  pose proof (zlen_nonneg c) as Hc.
  assert (1 <= zlen c) as Hc1.
  { destruct c; [congruence|]. rewrite zlen_cons. pose proof (zlen_nonneg c). lia. }
  rewrite step_array_header by (reflexivity || lia).
  cbn [app bulkLen st0].
  change (mkP 0 (zlen c) false [] true) with (st_arr (zlen c) []).
  rewrite events_args; [reflexivity|exact Hne|reflexivity|exact Hall].
Qed.

Lemma events_nil : events [] = [EvEof].
Proof. reflexivity. Qed.

Theorem events_pipeline_then : forall cmds rest,
  Forall cmd_ok cmds ->
  events (encode_pipeline cmds ++ rest) = map EvCmd cmds ++ events rest.
Proof.
  induction cmds as [|c cmds IH]; intros rest Hall; [reflexivity|].
  inversion Hall as [|? ? Hc Hall']; subst.
  unfold encode_pipeline in *. cbn [map concat app]. rewrite <- app_assoc.
  rewrite events_cmd by exact Hc. rewrite IH by exact Hall'. reflexivity.
Qed.

Theorem events_roundtrip cmds :
  Forall cmd_ok cmds -> events (encode_pipeline cmds) = map EvCmd cmds ++ [EvEof].
Proof.
  intros Hall. rewrite <- (app_nil_r (encode_pipeline cmds)).
  rewrite events_pipeline_then by exact Hall. rewrite events_nil. reflexivity.
Qed.

(* ---------------------------------------------------------------- what Handle executes *)

Lemma byte_data_bulks args : map byte_data (map RBulk args) = args.
Proof. induction args as [|a args IH]; [reflexivity|]. cbn [map byte_data]. rewrite IH. reflexivity. Qed.

Lemma handle_cmds : forall cmds tail,
  handle (map EvCmd cmds ++ tail) = (cmds ++ fst (handle tail), snd (handle tail)).
Proof.
  induction cmds as [|c cmds IH]; intros tail.
  - cbn [map app]. destruct (handle tail); reflexivity.
  - cbn [map app]. unfold EvCmd at 1. cbn [handle]. rewrite IH. cbn [fst snd].
    rewrite byte_data_bulks. reflexivity.
Qed.

Theorem executed_roundtrip cmds :
  Forall cmd_ok cmds ->
  executed (encode_pipeline cmds) = cmds /\ conn_end_of (encode_pipeline cmds) = ClosedOnEof.
Proof.
  intros Hall. unfold executed, conn_end_of. rewrite events_roundtrip by exact Hall.
  rewrite handle_cmds. cbn [handle fst snd]. rewrite app_nil_r. split; reflexivity.
Qed.

Theorem executed_pipeline_then cmds rest :
  Forall cmd_ok cmds ->
  executed (encode_pipeline cmds ++ rest) = cmds ++ executed rest /\
  conn_end_of (encode_pipeline cmds ++ rest) = conn_end_of rest.
Proof.
  intros Hall. unfold executed, conn_end_of. rewrite events_pipeline_then by exact Hall.
  rewrite handle_cmds. cbn [fst snd]. split; reflexivity.
Qed.
