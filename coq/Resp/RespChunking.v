(* C02: the events do not depend on how the byte stream is split across Read calls. *)
Require Import Base.Bytes Base.GoInt Base.Reply Resp.RespSpec Resp.RespModel Resp.RespProofs.
Local Open Scope Z_scope.

(* ================================================================ generic simulation *)
(* Two readers related by a function f (reader 1 state -> reader 2 state) whose primitives
   commute with f drive the parser loop to the same events. *)
Section Sim.
  Variables R1 R2 : Type.
  Variable f : R1 -> R2.
  Variable line1 : R1 -> option (bytes * R1).
  Variable full1 : Z -> R1 -> full_res R1.
  Variable line2 : R2 -> option (bytes * R2).
  Variable full2 : Z -> R2 -> full_res R2.

  Definition map_line (o : option (bytes * R1)) : option (bytes * R2) :=
    match o with Some (l, r) => Some (l, f r) | None => None end.
  Definition map_full (x : full_res R1) : full_res R2 :=
    match x with
    | FullOk m r => FullOk m (f r)
    | FullEof => FullEof
    | FullShort r => FullShort (f r)
    end.
  Definition map_rl (x : rl_res R1) : rl_res R2 :=
    match x with
    | RlMsg m r => RlMsg m (f r)
    | RlEof => RlEof
    | RlErr r => RlErr (f r)
    | RlCrash => RlCrash
    | RlBlowup => RlBlowup
    end.
  Definition map_step (x : step_res R1) : step_res R2 :=
    match x with
    | Stop evs => Stop evs
    | Cont evs st r => Cont evs st (f r)
    end.

  Hypothesis Hline : forall r, line2 (f r) = map_line (line1 r).
  Hypothesis Hfull : forall n r, full2 n (f r) = map_full (full1 n r).

  Lemma read_line_sim st r :
    read_line R2 line2 full2 st (f r) = map_rl (read_line R1 line1 full1 st r).
  Proof.
    unfold read_line. destruct (multiLine st && (0 <=? bulkLen st)).
    - destruct (alloc (bulkLen st + 2)); try reflexivity.
      rewrite Hfull. destruct (full1 (bulkLen st + 2) r) as [m r'| |r']; cbn [map_full map_rl];
        try reflexivity.
      destruct (at_z m (zlen m - 1)); [|reflexivity].
      destruct (at_z m (zlen m - 2)); [|reflexivity].
      destruct (negb (beqb b bLF) || negb (beqb b0 bCR)); reflexivity.
    - rewrite Hline. destruct (line1 r) as [[m r']|]; cbn [map_line map_rl]; [|reflexivity].
      destruct (zlen m <? 2); [reflexivity|].
      destruct (at_z m (zlen m - 2)); [|reflexivity].
      destruct (beqb b bCR); reflexivity.
  Qed.

  Lemma push_elem_sim st res r :
    push_elem R2 st res (f r) = map_step (push_elem R1 st res r).
  Proof.
    unfold push_elem. destruct (inArray st); [|reflexivity].
    destruct (zlen (arrData st ++ [res]) =? arrayLen st); reflexivity.
  Qed.

  Lemma step_sim st r :
    step R2 line2 full2 st (f r) = map_step (step R1 line1 full1 st r).
  Proof.
    unfold step. rewrite read_line_sim.
    destruct (read_line R1 line1 full1 st r) as [m r'| |r'| |]; cbn [map_rl]; try reflexivity.
    destruct (negb (multiLine st)).
    - destruct (at_z m 0) as [t|]; [|reflexivity].
      destruct (beqb t bStar).
      + destruct (header_num m) as [[n|]|]; try reflexivity.
        destruct (n <? 0); [reflexivity|]. destruct (n =? -1); [reflexivity|].
        destruct (n =? 0); reflexivity.
      + destruct (beqb t bDollar).
        * destruct (header_num m) as [[n|]|]; try reflexivity.
          destruct ((n <? -1) || (max_bulk_len <? n)); [reflexivity|].
          destruct (n =? -1); [apply push_elem_sim|reflexivity].
        * destruct (parse_single_line m); try reflexivity. apply push_elem_sim.
    - destruct (parse_multi_line m); try reflexivity. apply push_elem_sim.
  Qed.

  Lemma parse_loop_sim fuel : forall st r,
    parse_loop R2 line2 full2 fuel st (f r) = parse_loop R1 line1 full1 fuel st r.
  Proof.
    induction fuel as [|k IH]; intros st r; [reflexivity|].
    cbn [parse_loop]. rewrite step_sim.
    destruct (step R1 line1 full1 st r) as [evs|evs st' r']; cbn [map_step]; [reflexivity|].
    rewrite IH. reflexivity.
  Qed.
End Sim.

(* ================================================================ the two primitives *)

Lemma split_lf_app a b :
  split_lf (a ++ b) =
  match split_lf a with
  | Some (l, r) => Some (l, r ++ b)
  | None => match split_lf b with
            | Some (l, r) => Some (a ++ l, r)
            | None => None
            end
  end.
Proof.
  induction a as [|x a IH].
  - cbn [app split_lf]. destruct (split_lf b) as [[l r]|]; reflexivity.
  - cbn [app split_lf]. destruct (beqb x bLF); [reflexivity|].
    rewrite IH. destruct (split_lf a) as [[l r]|]; [reflexivity|].
    destruct (split_lf b) as [[l r]|]; reflexivity.
Qed.

Lemma take_z_nonpos bs n : n <= 0 -> take_z bs n = Some ([], bs).
Proof. intros Hn. destruct bs; cbn [take_z]; destruct (n <=? 0) eqn:E; try lia; reflexivity. Qed.

Lemma take_z_none bs : forall n, take_z bs n = None -> zlen bs < n.
Proof.
  induction bs as [|b r IH]; intros n H; cbn [take_z] in H.
  - destruct (n <=? 0) eqn:E; [discriminate|]. rewrite zlen_nil. lia.
  - destruct (n <=? 0) eqn:E; [discriminate|].
    destruct (take_z r (n - 1)) as [[d rest]|] eqn:Er; [discriminate|].
    apply IH in Er. rewrite zlen_cons. lia.
Qed.

Lemma take_z_app a : forall b n,
  take_z (a ++ b) n =
  match take_z a n with
  | Some (d, r) => Some (d, r ++ b)
  | None => match take_z b (n - zlen a) with
            | Some (d, r) => Some (a ++ d, r)
            | None => None
            end
  end.
Proof.
  induction a as [|x a IH]; intros b n.
  - cbn [app]. destruct (n <=? 0) eqn:E.
    + apply Z.leb_le in E. rewrite !take_z_nonpos by exact E. reflexivity.
    + cbn [take_z]. rewrite E. rewrite zlen_nil, Z.sub_0_r.
      destruct (take_z b n) as [[d r]|]; reflexivity.
  - cbn [app take_z]. destruct (n <=? 0); [reflexivity|].
    rewrite IH. destruct (take_z a (n - 1)) as [[d r]|]; [reflexivity|].
    rewrite zlen_cons. replace (n - (zlen a + 1)) with (n - 1 - zlen a) by lia.
    destruct (take_z b (n - 1 - zlen a)) as [[d r]|]; reflexivity.
Qed.

Lemma c_line_spec : forall pending acc,
  split_lf acc = None ->
  split_lf (acc ++ concat pending) = map_line creader bytes flatten (c_line acc pending).
Proof.
  induction pending as [|c cs IH]; intros acc Hacc.
  - cbn [concat c_line map_line]. rewrite app_nil_r. exact Hacc.
  - cbn [concat c_line]. destruct (split_lf c) as [[l rest]|] eqn:Ec.
    + cbn [map_line]. rewrite split_lf_app, Hacc, split_lf_app, Ec. reflexivity.
    + rewrite app_assoc. apply IH. rewrite split_lf_app, Hacc, Ec. reflexivity.
Qed.

Lemma chunk_line_flat s :
  flat_line (flatten s) = map_line creader bytes flatten (chunk_line s).
Proof.
  destruct s as [buf pending]. unfold flat_line, flatten, chunk_line. cbn [fst snd].
  destruct (split_lf buf) as [[l rest]|] eqn:Eb.
  - cbn [map_line]. rewrite split_lf_app, Eb. reflexivity.
  - apply c_line_spec. exact Eb.
Qed.

Lemma c_full_spec : forall pending acc need,
  0 < need ->
  match c_full acc need pending with
  | Some (d, s') => exists d', d = acc ++ d' /\ take_z (concat pending) need = Some (d', flatten s')
  | None => take_z (concat pending) need = None
  end.
Proof.
  induction pending as [|c cs IH]; intros acc need Hneed.
  - cbn [c_full concat take_z]. destruct (need <=? 0) eqn:E; [lia|reflexivity].
  - cbn [c_full concat]. rewrite take_z_app.
    destruct (take_z c need) as [[d rest]|] eqn:Ec.
    + exists d. split; reflexivity.
    + pose proof (take_z_none _ _ Ec) as Hlt.
      specialize (IH (acc ++ c) (need - zlen c) ltac:(lia)).
      destruct (c_full (acc ++ c) (need - zlen c) cs) as [[d s']|].
      * destruct IH as (d' & -> & Ht). exists (c ++ d'). rewrite Ht.
        split; [rewrite app_assoc; reflexivity|reflexivity].
      * rewrite IH. reflexivity.
Qed.

Lemma all_empty_true s : all_empty s = true -> flatten s = [].
Proof.
  destruct s as [buf pending]. unfold all_empty, flatten. cbn [fst snd].
  destruct buf; [|discriminate]. cbn [app]. induction pending as [|c cs IH]; [reflexivity|].
  cbn [forallb concat]. destruct c; [|discriminate]. cbn [andb app]. exact IH.
Qed.

Lemma all_empty_false s : all_empty s = false -> exists b r, flatten s = b :: r.
Proof.
  destruct s as [buf pending]. unfold all_empty, flatten. cbn [fst snd].
  destruct buf as [|b buf]; [|intros _; exists b, (buf ++ concat pending); reflexivity].
  cbn [app]. induction pending as [|c cs IH]; [discriminate|].
  cbn [forallb concat]. destruct c as [|b c]; [cbn [andb app]; exact IH|].
  intros _. exists b, (c ++ concat cs). reflexivity.
Qed.

Lemma chunk_full_flat n s :
  flat_full n (flatten s) = map_full creader bytes flatten (chunk_full n s).
Proof.
  destruct s as [buf pending]. unfold flat_full, chunk_full. cbn [fst snd].
  change (flatten (buf, pending)) with (buf ++ concat pending). rewrite take_z_app.
  destruct (take_z buf n) as [[d rest]|] eqn:Eb; [reflexivity|].
  pose proof (take_z_none _ _ Eb) as Hlt.
  pose proof (c_full_spec pending buf (n - zlen buf) ltac:(lia)) as Hc.
  destruct (c_full buf (n - zlen buf) pending) as [[d s']|].
  - destruct Hc as (d' & -> & Ht). rewrite Ht. reflexivity.
  - rewrite Hc. destruct (all_empty (buf, pending)) eqn:Ee.
    + apply all_empty_true in Ee. unfold flatten in Ee. cbn [fst snd] in Ee. rewrite Ee. reflexivity.
    + apply all_empty_false in Ee as (b & r & Ee). unfold flatten in Ee. cbn [fst snd] in Ee.
      rewrite Ee. reflexivity.
Qed.

(* ================================================================ the theorem *)

Theorem events_chunked_flat chunks : events_chunked chunks = events (concat chunks).
Proof.
  unfold events_chunked, events, events_from.
  change (concat chunks) with (flatten ([], chunks)) at 2 3.
  symmetry. apply parse_loop_sim; [exact chunk_line_flat|exact chunk_full_flat].
Qed.

(* corollary: any two ways of cutting the same stream give the same events *)
Corollary chunking_irrelevant chunks1 chunks2 :
  concat chunks1 = concat chunks2 -> events_chunked chunks1 = events_chunked chunks2.
Proof. intros H. rewrite !events_chunked_flat, H. reflexivity. Qed.
