(* C09, blocking pops: the polling loop of BLPOP/BRPOP over virtual time (Lists.block). *)
Require Import Base.Bytes Base.GoInt Base.Reply Mem.Types Mem.Inv Mem.Lists Mem.ListsSpec Mem.ListsProofs.
Require Import Lia.
Local Open Scope Z_scope.

(* ------------------------------------------------------------------ the bounded loop *)
Fixpoint iter_nat {X Y : Type} (n : nat) (f : X -> Y + X) (x : X) : Y + X :=
  match n with
  | O => inr x
  | S m => match f x with inl y => inl y | inr x' => iter_nat m f x' end
  end.

Lemma iter_nat_add {X Y} (a b : nat) (f : X -> Y + X) x :
  iter_nat (a + b) f x = match iter_nat a f x with inl y => inl y | inr x' => iter_nat b f x' end.
Proof.
  revert x. induction a as [|a IH]; intros x; cbn [iter_nat Nat.add]; [reflexivity|].
  destruct (f x); [reflexivity|apply IH].
Qed.

Lemma iter_until_nat {X Y} (p : positive) (f : X -> Y + X) x :
  iter_until p f x = iter_nat (Pos.to_nat p) f x.
Proof.
  revert x. induction p as [q IH|q IH|]; intros x; cbn [iter_until].
  - rewrite Pos2Nat.inj_xI. replace (S (2 * Pos.to_nat q)) with (1 + (Pos.to_nat q + Pos.to_nat q))%nat by lia.
    rewrite iter_nat_add. cbn [iter_nat]. destruct (f x) as [y|x0]; [reflexivity|].
    rewrite iter_nat_add. rewrite IH. destruct (iter_nat (Pos.to_nat q) f x0); [reflexivity|apply IH].
  - rewrite Pos2Nat.inj_xO. replace (2 * Pos.to_nat q)%nat with (Pos.to_nat q + Pos.to_nat q)%nat by lia.
    rewrite iter_nat_add. rewrite IH. destruct (iter_nat (Pos.to_nat q) f x); [reflexivity|apply IH].
  - change (Pos.to_nat 1) with 1%nat. cbn [iter_nat]. destruct (f x); reflexivity.
Qed.

(* the loop stops at the first success: [k] failing rounds, then a success *)
Lemma iter_nat_first {X Y} (f : X -> Y + X) (k n : nat) (xs : nat -> X) y :
  (k < n)%nat -> (forall j, (j < k)%nat -> f (xs j) = inr (xs (S j))) -> f (xs k) = inl y ->
  iter_nat n f (xs O) = inl y.
Proof.
  intros Hk Hfail Hok. replace n with (k + (S (n - S k)))%nat by lia. rewrite iter_nat_add.
  assert (E : forall j, (j <= k)%nat -> iter_nat j f (xs O) = inr (xs j)).
  { induction j as [|j IHj]; intros Hj; [reflexivity|].
    replace (iter_nat (S j) f (xs O)) with (iter_nat (j + 1) f (xs O)) by (f_equal; lia).
    rewrite iter_nat_add, IHj by lia. cbn [iter_nat]. rewrite Hfail by lia. reflexivity. }
  rewrite E by lia. cbn [iter_nat]. rewrite Hok. reflexivity.
Qed.

Lemma iter_nat_none {X Y} (f : X -> Y + X) (n : nat) (xs : nat -> X) :
  (forall j, (j < n)%nat -> f (xs j) = inr (xs (S j))) -> iter_nat n f (xs O) = inr (xs n).
Proof.
  intros Hfail. induction n as [|n IH]; [reflexivity|].
  replace (iter_nat (S n) f (xs O)) with (iter_nat (n + 1) f (xs O)) by (f_equal; lia).
  rewrite iter_nat_add, IH by (intros; apply Hfail; lia).
  cbn [iter_nat]. rewrite Hfail by lia. reflexivity.
Qed.

(* ------------------------------------------------------------------ the generic blocked process *)
Section BlockFacts.
  Context {S O R : Type}.
  Variable poll : S -> Z -> option (R * S).

  Lemma block_ticks_pos t : 0 <= t -> 1 <= Z.pos (block_ticks t).
  Proof. intros. lia. Qed.

  (* nobody else acts, every poll fails: nil exactly when the timer fires, state untouched *)
  Lemma block_alone_timeout (t0 timeout_s : Z) (s : S) :
    (forall t, t0 + 100 <= t -> poll s t = None) ->
    block (O := O) poll t0 timeout_s [] s = (None, t0 + block_timer_ms timeout_s, [], s, []).
  Proof.
    intros Hnone. unfold block, block_n. rewrite iter_until_nat.
    rewrite (iter_nat_none (btick poll t0) _ (fun j => mkBst (Z.of_nat j) [] s [])).
    - cbn [b_evs b_s b_out run_due app]. reflexivity.
    - intros j _. unfold btick. cbn [b_tick b_evs b_s b_out run_due app].
      rewrite Hnone by lia. f_equal. f_equal. lia.
  Qed.

  (* nobody else acts, the first poll succeeds: the reply comes at the first tick *)
  Lemma block_alone_first (t0 timeout_s : Z) (s s' : S) (r : R) :
    poll s (t0 + 100) = Some (r, s') ->
    block (O := O) poll t0 timeout_s [] s = (Some r, t0 + 100, [], s', []).
  Proof.
    intros Hok. unfold block, block_n. rewrite iter_until_nat.
    rewrite (iter_nat_first (btick poll t0) 0 _ (fun j => mkBst (Z.of_nat j) [] s []) (r, mkBst 1 [] s' [])).
    - cbn [b_tick b_evs b_s b_out]. f_equal. 
    - lia.
    - intros j Hj. lia.
    - unfold btick. cbn [b_tick b_evs b_s b_out run_due app Z.of_nat].
      replace (t0 + 100 * (0 + 1)) with (t0 + 100) by lia. rewrite Hok. reflexivity.
  Qed.

  (* one other connection acts once, at instant te, while the command is blocked.  If no poll
     succeeded before and the first poll after te succeeds, the command returns at that tick:
     later than te, at most one polling period (100 ms) later. *)
  Lemma block_prompt (t0 timeout_s te : Z) (f : S -> O * S) (s s' : S) (r : R) :
    t0 <= te ->
    let i := (te - t0) / 100 + 1 in                         (* first tick after te *)
    i <= Z.pos (block_ticks timeout_s) ->
    (forall t, t0 < t <= te -> poll s t = None) ->
    poll (snd (f s)) (t0 + 100 * i) = Some (r, s') ->
    block poll t0 timeout_s [(te, f)] s = (Some r, t0 + 100 * i, [], s', [fst (f s)])
    /\ te < t0 + 100 * i <= te + 100.
  Proof.
    intros Hte i Hi Hnone Hok.
    assert (Hdiv : 100 * ((te - t0) / 100) <= te - t0 < 100 * ((te - t0) / 100) + 100).
    { pose proof (Z.mul_div_le (te - t0) 100 ltac:(lia)).
      pose proof (Z.mul_succ_div_gt (te - t0) 100 ltac:(lia)). lia. }
    assert (Hi0 : 0 <= (te - t0) / 100) by (apply Z.div_pos; lia).
    split; [|unfold i; lia].
    unfold block, block_n. rewrite iter_until_nat.
    rewrite (iter_nat_first (btick poll t0) (Z.to_nat (i - 1)) _
               (fun j => mkBst (Z.of_nat j) [(te, f)] s [])
               (r, mkBst i [] s' [fst (f s)])).
    - cbn [b_tick b_evs b_s b_out]. reflexivity.
    - unfold i in *. lia.
    - intros j Hj. unfold btick. cbn [b_tick b_evs b_s b_out run_due].
      destruct (te <? t0 + 100 * (Z.of_nat j + 1)) eqn:E; [apply Z.ltb_lt in E; unfold i in Hj; lia|].
      apply Z.ltb_ge in E. rewrite Hnone by (unfold i in Hj; lia). cbn [app].
      f_equal. f_equal. lia.
    - unfold btick. cbn [b_tick b_evs b_s b_out run_due].
      replace (Z.of_nat (Z.to_nat (i - 1)) + 1) with i by (unfold i; lia).
      destruct (te <? t0 + 100 * i) eqn:E; [|apply Z.ltb_ge in E; unfold i in E; lia].
      destruct (f s) as [o s1] eqn:F. cbn [fst snd] in *. rewrite Hok. cbn [app]. reflexivity.
  Qed.
  (* when, at the latest, a blocked command returns -- whatever the other connections do *)
  Lemma btick_tick t0 (st : bst (S := S) (O := O)) :
    match btick poll t0 st with
    | inl (_, st') => b_tick st' = b_tick st + 1
    | inr st' => b_tick st' = b_tick st + 1
    end.
  Proof.
    unfold btick. destruct (run_due (t0 + 100 * (b_tick st + 1)) (b_evs st) (b_s st)) as [[evs s] os].
    destruct (poll s (t0 + 100 * (b_tick st + 1))) as [[r s']|]; reflexivity.
  Qed.

  Lemma iter_nat_btick_bound t0 n : forall st0 r st,
    iter_nat n (btick (O := O) poll t0) st0 = inl (r, st) -> b_tick st0 < b_tick st <= b_tick st0 + Z.of_nat n.
  Proof.
    induction n as [|n IH]; intros st0 r st H; [discriminate|].
    cbn [iter_nat] in H. pose proof (btick_tick t0 st0) as T.
    destruct (btick poll t0 st0) as [[r1 st1]|st1].
    - inversion H; subst. lia.
    - apply IH in H. lia.
  Qed.

  Theorem block_n_end (t0 : Z) (nt : positive) (timer : Z) evs s res tend evs' s' outs :
    block_n (O := O) poll t0 nt timer evs s = (res, tend, evs', s', outs) ->
    (exists r, res = Some r /\ t0 + 100 <= tend <= t0 + 100 * Z.pos nt) \/
    (res = None /\ tend = t0 + timer).
  Proof.
    unfold block_n. rewrite iter_until_nat.
    destruct (iter_nat (Pos.to_nat nt) (btick poll t0) (mkBst 0 evs s [])) as [[r st]|st] eqn:E.
    - intros H. injection H as <- <- <- <- <-. left. exists r. split; [reflexivity|].
      apply iter_nat_btick_bound in E. cbn [b_tick] in E. rewrite positive_nat_Z in E.
      match goal with |- _ <= t0 + ?m <= _ => change m with (100 * b_tick st) end. lia.
    - destruct (run_due (t0 + timer) (b_evs st) (b_s st)) as [[e1 s1] o1].
      intros H. injection H as <- <- <- <- <-. right. split; reflexivity.
  Qed.

  (* a command blocked with timeout t returns after the first polling period and no later than
     t seconds after the call; it returns nil exactly then and only then; with timeout 0 the
     "timeout" is math.MaxInt ns (292 years): it returns only when a poll succeeds *)
  Theorem block_end (t0 timeout_s : Z) evs s res tend evs' s' outs :
    0 <= timeout_s ->
    block (O := O) poll t0 timeout_s evs s = (res, tend, evs', s', outs) ->
    t0 + 100 <= tend <= t0 + block_timer_ms timeout_s /\
    (res = None <-> tend = t0 + block_timer_ms timeout_s).
  Proof.
    intros Ht H. unfold block in H. apply block_n_end in H.
    assert (B : 100 * Z.pos (block_ticks timeout_s) < block_timer_ms timeout_s /\ 100 <= block_timer_ms timeout_s).
    { unfold block_ticks, block_timer_ms. destruct (timeout_s =? 0) eqn:E; [lia|]. apply Z.eqb_neq in E. lia. }
    destruct H as [(r & -> & Hb)|[-> ->]].
    - split; [lia|]. split; [discriminate|lia].
    - split; [lia|]. split; reflexivity.
  Qed.
End BlockFacts.

(* ------------------------------------------------------------------ one polling round, semantically *)
Lemma take_end_put left l x l' : take_end left l = Some (x, l') -> l = put_end left x l'.
Proof.
  rewrite take_end_model. destruct left; cbn [put_end].
  - destruct l; intros H; inversion H; reflexivity.
  - destruct (rev l) as [|y r] eqn:E; intros H; inversion H; subst.
    rewrite <- (rev_involutive l), E. reflexivity.
Qed.

Lemma first_ready_ext left a a' keys :
  (forall k, a k = a' k) -> first_ready left a keys = first_ready left a' keys.
Proof. intros E. induction keys as [|k r IH]; cbn [first_ready]; [reflexivity|]. rewrite E, IH. reflexivity. Qed.

Lemma served_ext left keys a a' b r :
  (forall k, a k = a' k) -> served left keys a b r -> served left keys a' b r.
Proof.
  intros E. unfold served. rewrite (first_ready_ext left a a' keys E).
  destruct (first_ready left a' keys); [tauto| |].
  - intros [-> U]. split; [reflexivity|]. intros k0. rewrite <- E. apply U.
  - intros (-> & Hk & Hs). split; [reflexivity|]. split; [rewrite <- E; exact Hk|].
    intros k0 N. rewrite <- E. apply Hs. exact N.
Qed.

Lemma bpop_try_ok left d keys :
  db_wf d -> lists_ok d ->
  match bpop_try left d keys with
  | None => first_ready left (raw_view d) keys = RdNone
  | Some (r, d') => served left keys (raw_view d) (raw_view d') r /\ lupd d d'
  end.
Proof.
  intros W Hok. unfold served. induction keys as [|k rest IH]; cbn [bpop_try first_ready]; [reflexivity|].
  pose proof (get_list_view d k W Hok) as V.
  destruct (get_list d k) as [| |l].
  - destruct V as [V _]. rewrite V. cbn [as_list].
    assert (E : take_end left [] = None) by (destruct left; reflexivity). rewrite E. exact IH.
  - rewrite V. split; [split; [reflexivity|intros k0; reflexivity]|apply lupd_refl].
  - destruct V as [V Hl]. rewrite V. cbn [as_list deadline_of].
    destruct (take_end_nonempty left l Hl) as (x & l' & TE). rewrite TE.
    rewrite take_end_model in TE.
    destruct left; [destruct l as [|x0 l0]|destruct (rev l) as [|x0 l0]]; inversion TE; subst x0 l'; clear TE;
      (split; [|apply lupd_put]; split; [reflexivity|]; split;
       [rewrite V; apply raw_view_put_same|intros k0 N; apply raw_view_put_other; intros ->; apply N; left; reflexivity]).
Qed.
(* once nothing can be popped, the passing of time alone never makes something poppable *)
Lemma expired_mono d t t' k : t <= t' -> expired d t k = true -> expired d t' k = true.
Proof.
  unfold expired. destruct (db_ttl d k) as [z|]; [|discriminate].
  intros H E. apply Z.leb_le in E. apply Z.leb_le. lia.
Qed.

Lemma bpop_try_none_mono left d keys t t' :
  t <= t' -> bpop_try left (purge d t) keys = None -> bpop_try left (purge d t') keys = None.
Proof.
  intros Ht. induction keys as [|k rest IH]; cbn [bpop_try]; [reflexivity|].
  unfold get_list. rewrite !db_get_purge.
  destruct (expired d t k) eqn:X.
  - rewrite (expired_mono d t t' k Ht X). exact IH.
  - destruct (expired d t' k); [|].
    + destruct (db_get d k) as [[]|]; try discriminate; try exact IH.
      destruct left; [destruct l|destruct (rev l)]; try discriminate; exact IH.
    + destruct (db_get d k) as [[]|]; try discriminate; try exact IH.
      destruct left; [destruct l|destruct (rev l)]; try discriminate; exact IH.
Qed.

Lemma div1000_mono a b : a <= b -> a / 1000 <= b / 1000.
Proof. intros. apply Z.div_le_mono; lia. Qed.

(* ------------------------------------------------------------------ BLPOP / BRPOP alone *)
Theorem bpop_run_alone left d nowms args keys t :
  bpop_parse args = Some (keys, t) ->
  bpop_run left d nowms args =
  match bpop_poll left keys d (nowms + 100) with
  | Some (r, d1) => (r, d1, nowms + 100)                         (* served at the first tick *)
  | None => (RNil, d, nowms + block_timer_ms t)                  (* nil exactly at the timeout *)
  end.
Proof.
  intros P. unfold bpop_run. rewrite P.
  destruct (bpop_poll left keys d (nowms + 100)) as [[r d1]|] eqn:E.
  - rewrite (block_alone_first (O := unit) _ nowms t d d1 r E). reflexivity.
  - rewrite block_alone_timeout; [reflexivity|].
    intros t' Ht'. unfold bpop_poll in *.
    eapply bpop_try_none_mono; [|exact E]. apply div1000_mono. lia.
Qed.

Lemma bpop_parse_range args keys t : bpop_parse args = Some (keys, t) -> 0 <= t <= 9223372036 /\ keys <> [].
Proof.
  unfold bpop_parse. destruct args as [|a0 [|a1 [|a2 rest]]]; try discriminate.
  destruct (atoi64 (last (a1 :: a2 :: rest) [])) as [z|]; [|discriminate].
  destruct ((z <? 0) || (z >? 9223372036)) eqn:E; [discriminate|].
  intros H. inversion H; subst. apply orb_false_iff in E as [E1 E2].
  apply Z.ltb_ge in E1. rewrite Z.gtb_ltb in E2. apply Z.ltb_ge in E2.
  split; [lia|]. cbn [removelast]. destruct rest; discriminate.
Qed.

(* deadlines all in the future: the view does not depend on the clock *)
Definition fresh (d : db) (now : Z) : Prop := forall k t, db_ttl d k = Some t -> now < t.
Lemma fresh_purge d now : db_wf d -> fresh (purge d now) now.
Proof.
  intros W k t H. rewrite db_ttl_purge in H by exact W. unfold expired in H.
  destruct (db_ttl d k) as [z|]; [|discriminate].
  destruct (z <=? now) eqn:E; [discriminate|]. apply Z.leb_gt in E. inversion H; subst. exact E.
Qed.
Lemma fresh_lupd d d' now : lupd d d' -> fresh d now -> fresh d' now.
Proof. intros U F k t H. apply (F k t). eapply lupd_ttl; eassumption. Qed.
Lemma view_fresh d now k : fresh d now -> view d now k = raw_view d k.
Proof.
  intros F. unfold view, raw_view, expired. destruct (db_get d k); [|reflexivity].
  destruct (db_ttl d k) as [t|] eqn:T; [|reflexivity].
  specialize (F k t T). destruct (t <=? now) eqn:E; [apply Z.leb_le in E; lia|reflexivity].
Qed.

(* C09, blocking part, a client alone: with the keyspace as it is at the first polling instant
   (100 ms after the call): WRONGTYPE if a key of another type comes before any non-empty list;
   otherwise [first non-empty key in argument order, its head/tail element], at that instant, the
   element removed (an emptied list deleted), nothing else touched; otherwise nil, exactly
   when the timeout has elapsed, nothing changed. *)
Theorem bpop_blocking left d nowms args keys t :
  db_wf d -> lists_ok d -> bpop_parse args = Some (keys, t) ->
  let t1 := (nowms + 100) / 1000 in
  match first_ready left (view d t1) keys with
  | RdNone => bpop_run left d nowms args = (RNil, d, nowms + block_timer_ms t)
  | _ => exists r d', bpop_run left d nowms args = (r, d', nowms + 100) /\
                      served left keys (view d t1) (view d' t1) r /\
                      db_wf d' /\ lists_ok d'
  end.
Proof.
  intros W Hok P t1. rewrite (bpop_run_alone left d nowms args keys t P). unfold bpop_poll. fold t1.
  pose proof (bpop_try_ok left (purge d t1) keys (db_wf_purge d t1 W) (lists_ok_purge d t1 Hok)) as BT.
  assert (EV : forall k, raw_view (purge d t1) k = view d t1 k) by (intros; apply raw_view_purge; exact W).
  rewrite <- (first_ready_ext left _ _ keys EV).
  destruct (bpop_try left (purge d t1) keys) as [[r d']|].
  - destruct BT as [Sv U].
    assert (Sv' : served left keys (view d t1) (view d' t1) r).
    { apply (served_ext left keys (raw_view (purge d t1))); [exact EV|].
      assert (F : fresh d' t1) by (eapply fresh_lupd; [exact U|apply fresh_purge; exact W]).
      revert Sv. unfold served. destruct (first_ready left (raw_view (purge d t1)) keys); [tauto| |].
      - intros [-> Un]. split; [reflexivity|]. intros k0. rewrite view_fresh by exact F. apply Un.
      - intros (-> & Hk & Hs). split; [reflexivity|]. split; [rewrite view_fresh by exact F; exact Hk|].
        intros k0 N. rewrite view_fresh by exact F. apply Hs. exact N. }
    pose proof Sv as Sv0. unfold served in Sv0.
    destruct (first_ready left (raw_view (purge d t1)) keys); [contradiction| |];
      (exists r, d'; split; [reflexivity|]; split; [exact Sv'|]; split;
       [eapply lupd_wf; [exact U|apply db_wf_purge; exact W]
       |eapply lupd_ok; [exact U|apply lists_ok_purge; exact Hok]]).
  - rewrite BT. reflexivity.
Qed.

(* ------------------------------------------------------------------ each element goes to exactly one popper *)
Definition elems (d : db) (k : bytes) : list bytes :=
  match db_get d k with Some (VList l) => l | _ => [] end.

Lemma elems_put_same d k l : elems (put_list d k l) k = l.
Proof.
  unfold elems. destruct l; cbn [put_list]; [rewrite db_get_del_same|rewrite db_get_set_same]; reflexivity.
Qed.
Lemma elems_put_other d k k0 l : k0 <> k -> elems (put_list d k l) k0 = elems d k0.
Proof.
  intros N. unfold elems. destruct l; cbn [put_list];
    [rewrite db_get_del_other by exact N|rewrite db_get_set_other by exact N]; reflexivity.
Qed.

(* a successful polling round hands out exactly the end element of one listed key and removes it *)
Lemma bpop_try_pops left d keys k x d' :
  bpop_try left d keys = Some (RArr [RBulk k; RBulk x], d') ->
  In k keys /\ elems d k = put_end left x (elems d' k) /\ (forall k0, k0 <> k -> elems d' k0 = elems d k0).
Proof.
  induction keys as [|k1 rest IH]; cbn [bpop_try]; [discriminate|].
  unfold get_list at 1. unfold elems at 1 2 3.
  destruct (db_get d k1) as [v|] eqn:G.
  2:{ intros H. destruct (IH H) as (I & E & F). split; [right; exact I|split; assumption]. }
  destruct v as [b|l|s|h|z|st]; try discriminate.
  assert (KEY : forall x1 l1, take_end left l = Some (x1, l1) ->
     Some (RArr [RBulk k1; RBulk x1], put_list d k1 l1) = Some (RArr [RBulk k; RBulk x], d') ->
     In k (k1 :: rest) /\ match db_get d k with Some (VList l0) => l0 | _ => [] end = put_end left x (elems d' k) /\
     (forall k0, k0 <> k -> elems d' k0 = elems d k0)).
  { intros x1 l1 TE H. inversion H; subst. split; [left; reflexivity|]. split.
    - rewrite G, elems_put_same. apply take_end_put. exact TE.
    - intros k0 N. apply elems_put_other. exact N. }
  pose proof (take_end_model left l) as TM.
  destruct left.
  - destruct l as [|x1 l1].
    + intros H. destruct (IH H) as (I & E & F). split; [right; exact I|split; assumption].
    + apply KEY. exact TM.
  - destruct (rev l) as [|x1 l1].
    + intros H. destruct (IH H) as (I & E & F). split; [right; exact I|split; assumption].
    + apply KEY. exact TM.
Qed.

(* two poppers one after the other: the second works on what the first left, so it can never be
   handed the same element; together they remove exactly the two elements they return *)
Theorem two_poppers left1 left2 d keys1 keys2 k1 x1 d1 k2 x2 d2 :
  bpop_try left1 d keys1 = Some (RArr [RBulk k1; RBulk x1], d1) ->
  bpop_try left2 d1 keys2 = Some (RArr [RBulk k2; RBulk x2], d2) ->
  elems d k1 = put_end left1 x1 (elems d1 k1) /\
  elems d1 k2 = put_end left2 x2 (elems d2 k2) /\
  (forall k, k <> k1 -> k <> k2 -> elems d2 k = elems d k) /\
  (k1 = k2 -> zlength (elems d2 k1) = zlength (elems d k1) - 2) /\
  (k1 <> k2 -> zlength (elems d2 k1) = zlength (elems d k1) - 1 /\
               zlength (elems d2 k2) = zlength (elems d k2) - 1).
Proof.
  intros H1 H2.
  destruct (bpop_try_pops _ _ _ _ _ _ H1) as (_ & E1 & F1).
  destruct (bpop_try_pops _ _ _ _ _ _ H2) as (_ & E2 & F2).
  assert (L : forall lf x l, zlength (put_end lf x l) = zlength l + 1).
  { intros lf x l. destruct lf; cbn [put_end]; [apply zlength_cons|].
    rewrite zlength_app, zlength_cons. change (zlength (@nil bytes)) with 0. lia. }
  split; [exact E1|]. split; [exact E2|]. split; [|split].
  - intros k N1 N2. rewrite F2 by exact N2. apply F1. exact N1.
  - intros <-. rewrite E1, E2, !L. lia.
  - intros N. split.
    + rewrite E1, L. rewrite (F2 k1) by exact N. lia.
    + rewrite <- (F1 k2) by congruence. rewrite E2, L. lia.
Qed.

(* the two generic facts, for the blocking pops *)
Theorem bpop_block_end (O : Type) left keys t0 t (evs : list (Z * (db -> O * db))) d res tend evs' d' outs :
  0 <= t ->
  block (bpop_poll left keys) t0 t evs d = (res, tend, evs', d', outs) ->
  t0 + 100 <= tend <= t0 + block_timer_ms t /\ (res = None <-> tend = t0 + block_timer_ms t).
Proof. exact (block_end (bpop_poll left keys) t0 t evs d res tend evs' d' outs). Qed.

Theorem bpop_block_prompt (O : Type) left keys t0 t te (f : db -> O * db) d d' r :
  t0 <= te ->
  let i := (te - t0) / 100 + 1 in
  i <= Z.pos (block_ticks t) ->
  (forall tt, t0 < tt <= te -> bpop_poll left keys d tt = None) ->
  bpop_poll left keys (snd (f d)) (t0 + 100 * i) = Some (r, d') ->
  block (bpop_poll left keys) t0 t [(te, f)] d = (Some r, t0 + 100 * i, [], d', [fst (f d)])
  /\ te < t0 + 100 * i <= te + 100.
Proof. exact (block_prompt (bpop_poll left keys) t0 t te f d d' r). Qed.
