(* LREM: the executable removal [remove_first] (Mem/Lists.v) against the reference formulation by
   occurrence number [rem_occ_from] / [occs] (Mem/ListsSpec.v). *)
Require Import Base.Bytes Base.GoInt Base.Reply Mem.Types Mem.Lists Mem.ListsSpec.
Require Import Lia ZArith List.
Import ListNotations.
Local Open Scope Z_scope.

(* ------------------------------------------------------------------ occs *)
Lemma occs_nil v : occs v [] = 0.
Proof. reflexivity. Qed.

Lemma occs_cons_eq v x r : bytes_eqb x v = true -> occs v (x :: r) = occs v r + 1.
Proof.
  intros E. unfold occs. cbn [filter]. rewrite E. unfold zlength. cbn [length]. lia.
Qed.

Lemma occs_cons_ne v x r : bytes_eqb x v = false -> occs v (x :: r) = occs v r.
Proof.
  intros E. unfold occs. cbn [filter]. rewrite E. reflexivity.
Qed.

Lemma occs_nonneg v l : 0 <= occs v l.
Proof. unfold occs, zlength. lia. Qed.

Lemma occs_le_len v l : occs v l <= zlength l.
Proof.
  induction l as [|x r IH].
  - rewrite occs_nil. unfold zlength. cbn [length]. lia.
  - assert (zlength (x :: r) = zlength r + 1) as Hz by (unfold zlength; cbn [length]; lia).
    destruct (bytes_eqb x v) eqn:E.
    + rewrite (occs_cons_eq _ _ _ E). lia.
    + rewrite (occs_cons_ne _ _ _ E). lia.
Qed.

Lemma occs_app v l1 l2 : occs v (l1 ++ l2) = occs v l1 + occs v l2.
Proof.
  unfold occs, zlength. rewrite filter_app, app_length. lia.
Qed.

Lemma occs_rev v l : occs v (rev l) = occs v l.
Proof.
  induction l as [|x r IH].
  - reflexivity.
  - cbn [rev]. rewrite occs_app, IH.
    destruct (bytes_eqb x v) eqn:E.
    + rewrite (occs_cons_eq _ _ _ E), (occs_cons_eq _ _ _ E), occs_nil. lia.
    + rewrite (occs_cons_ne _ _ _ E), (occs_cons_ne _ _ _ E), occs_nil. lia.
Qed.

(* ------------------------------------------------------------------ rem_occ_from *)
(* predicates that agree on the occurrence numbers that actually occur give the same result *)
Lemma rem_occ_from_ext o p q v l :
  (forall j, o <= j < o + occs v l -> p j = q j) -> rem_occ_from o p v l = rem_occ_from o q v l.
Proof.
  revert o. induction l as [|x r IH]; intros o H.
  - reflexivity.
  - cbn [rem_occ_from]. pose proof (occs_nonneg v r) as Hn.
    destruct (bytes_eqb x v) eqn:E.
    + rewrite (occs_cons_eq _ _ _ E) in H.
      rewrite (H o) by lia.
      rewrite (IH (o + 1)) by (intros j Hj; apply H; lia).
      reflexivity.
    + rewrite (occs_cons_ne _ _ _ E) in H.
      rewrite (IH o) by (intros j Hj; apply H; lia).
      reflexivity.
Qed.

Lemma rem_occ_from_app o p v l1 l2 :
  rem_occ_from o p v (l1 ++ l2) = rem_occ_from o p v l1 ++ rem_occ_from (o + occs v l1) p v l2.
Proof.
  revert o. induction l1 as [|x r IH]; intros o.
  - cbn [app rem_occ_from]. rewrite occs_nil. f_equal. lia.
  - cbn [app rem_occ_from].
    destruct (bytes_eqb x v) eqn:E.
    + rewrite (occs_cons_eq _ _ _ E). rewrite IH.
      replace (o + 1 + occs v r) with (o + (occs v r + 1)) by lia.
      destruct (p o); reflexivity.
    + rewrite (occs_cons_ne _ _ _ E). rewrite IH. reflexivity.
Qed.

(* nothing selected: nothing removed *)
Lemma rem_occ_from_none o p v l :
  (forall j, o <= j < o + occs v l -> p j = false) -> rem_occ_from o p v l = l.
Proof.
  revert o. induction l as [|x r IH]; intros o H.
  - reflexivity.
  - cbn [rem_occ_from]. pose proof (occs_nonneg v r) as Hn.
    destruct (bytes_eqb x v) eqn:E.
    + rewrite (occs_cons_eq _ _ _ E) in H.
      rewrite (H o) by lia.
      rewrite (IH (o + 1)) by (intros j Hj; apply H; lia).
      reflexivity.
    + rewrite (occs_cons_ne _ _ _ E) in H.
      rewrite (IH o) by (intros j Hj; apply H; lia).
      reflexivity.
Qed.

(* renumbering the occurrences *)
Lemma rem_occ_from_shift o k p v l :
  rem_occ_from (o + k) p v l = rem_occ_from o (fun j => p (j + k)) v l.
Proof.
  revert o. induction l as [|x r IH]; intros o.
  - reflexivity.
  - cbn [rem_occ_from].
    replace (o + k + 1) with (o + 1 + k) by lia.
    rewrite !IH. reflexivity.
Qed.

(* ------------------------------------------------------------------ head to tail *)
Lemma remove_first_ref_from o v n l :
  remove_first v n l =
  (rem_occ_from o (fun j => j <? o + Z.of_nat n) v l, Z.min (Z.of_nat n) (occs v l)).
Proof.
  revert o n. induction l as [|x r IH]; intros o n.
  - destruct n; cbn [remove_first rem_occ_from]; rewrite occs_nil; f_equal; lia.
  - pose proof (occs_nonneg v (x :: r)) as Hn.
    destruct n as [|m].
    + cbn [remove_first]. f_equal.
      * symmetry. apply rem_occ_from_none. intros j Hj. apply Z.ltb_ge. lia.
      * lia.
    + cbn [remove_first rem_occ_from].
      pose proof (occs_nonneg v r) as Hr.
      destruct (bytes_eqb x v) eqn:E.
      * rewrite (IH (o + 1) m). rewrite (occs_cons_eq _ _ _ E).
        assert (o <? o + Z.of_nat (S m) = true) as -> by (apply Z.ltb_lt; lia).
        f_equal.
        -- apply rem_occ_from_ext. intros j Hj. f_equal. lia.
        -- lia.
      * rewrite (IH o (S m)). rewrite (occs_cons_ne _ _ _ E). reflexivity.
Qed.

(* head-to-tail removal of the first n occurrences *)
Lemma remove_first_ref_pos v n l :
  remove_first v n l = (rem_occ_from 0 (fun o => o <? Z.of_nat n) v l, Z.min (Z.of_nat n) (occs v l)).
Proof.
  rewrite (remove_first_ref_from 0). reflexivity.
Qed.

(* ------------------------------------------------------------------ tail to head *)
(* numbering the occurrences from the tail instead of from the head *)
Lemma rem_occ_from_mirror p v l :
  rev (rem_occ_from 0 p v (rev l)) = rem_occ_from 0 (fun j => p (occs v l - 1 - j)) v l.
Proof.
  revert p. induction l as [|x r IH]; intros p.
  - reflexivity.
  - cbn [rev]. rewrite rem_occ_from_app, rev_app_distr, IH, occs_rev.
    cbn [rem_occ_from].
    destruct (bytes_eqb x v) eqn:E.
    + rewrite (occs_cons_eq _ _ _ E).
      replace (occs v r + 1 - 1 - 0) with (0 + occs v r) by lia.
      rewrite (rem_occ_from_shift 0 1).
      assert (rem_occ_from 0 (fun j => p (occs v r - 1 - j)) v r =
              rem_occ_from 0 (fun j => p (occs v r + 1 - 1 - (j + 1))) v r) as ->.
      { apply rem_occ_from_ext. intros j Hj. f_equal. lia. }
      destruct (p (0 + occs v r)); reflexivity.
    + rewrite (occs_cons_ne _ _ _ E). reflexivity.
Qed.

(* tail-to-head: removing the first n occurrences of the reversed list and reversing back removes
   the LAST n occurrences *)
Lemma remove_first_ref_neg v n l :
  remove_first v n (rev l) =
  (rev (rem_occ_from 0 (fun o => o >=? occs v l - Z.of_nat n) v l), Z.min (Z.of_nat n) (occs v l)).
Proof.
  rewrite remove_first_ref_pos, occs_rev. f_equal.
  rewrite <- (rev_involutive (rem_occ_from 0 (fun o => o <? Z.of_nat n) v (rev l))).
  f_equal. rewrite rem_occ_from_mirror.
  apply rem_occ_from_ext. intros j Hj.
  rewrite Z.geb_leb.
  destruct (occs v l - 1 - j <? Z.of_nat n) eqn:A.
  - apply Z.ltb_lt in A. symmetry. apply Z.leb_le. lia.
  - apply Z.ltb_ge in A. symmetry. apply Z.leb_gt. lia.
Qed.

Print Assumptions remove_first_ref_pos.
Print Assumptions remove_first_ref_neg.
