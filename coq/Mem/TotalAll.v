(* [Forall family_ok families] for the six families, from the owners' lemmas:
   db_wf preservation (Mem/SetsCompose.v, [families_keep_wf]) and well-formed replies
   (Mem/ReplyWf.v, [families_wf]); hence the unconditional C04/C03 statements. *)
Require Import Base.Bytes Base.GoInt Base.Reply Mem.Types Mem.Inv Mem.Exec Mem.Server.
Require Import Mem.Total Mem.ReplyWf Mem.SetsExec Mem.SetsCompose.
Local Open Scope Z_scope.

Lemma Forall_family_ok fs :
  Forall family_keeps_wf fs -> Forall family_wf fs -> Forall family_ok fs.
Proof.
  induction fs as [|f fs IH]; intros H1 H2; [constructor|].
  inversion H1 as [|? ? K1 K1']; inversion H2 as [|? ? K2 K2']; subst.
  constructor; [|apply IH; assumption].
  intros d now nowms n args hint r d' W E. split.
  - eapply K1; eassumption.
  - eapply K2; eassumption.
Qed.

Theorem families_ok : Forall family_ok families.
Proof. apply Forall_family_ok; [exact families_keep_wf|exact families_wf]. Qed.

(* one command, any name, any argument vector, any state reachable so far *)
Theorem srv_exec_total s conn now nowms args hint :
  srv_wf s ->
  srv_wf (snd (srv_exec s conn now nowms args hint)) /\
  reply_wf (fst (srv_exec s conn now nowms args hint)) = true.
Proof. apply srv_exec_ok. exact families_ok. Qed.

(* any program of any commands from any connections at any clocks, from the initial server *)
Theorem run_srv_total n prog :
  srv_wf (snd (run_srv (srv_init n) prog)) /\
  Forall (fun r => reply_wf r = true) (fst (run_srv (srv_init n) prog)).
Proof. apply run_srv_ok; [exact families_ok|apply srv_wf_init]. Qed.
