(* Exact decimal arithmetic for HINCRBYFLOAT (memdb/hash_struct.go IncrByFloat: strconv.ParseFloat,
   float64 +, strconv.FormatFloat(v,'f',-1,64)).

   Domain restriction (documented in design.d/C10.md).  A byte string is *in the domain* when it
   is a plain decimal  [+-]? digits [. digits]  |  [+-]? . digits   with at most 15 digits after
   the point, magnitude below 10^15 as written, a value m / 10^e that is a dyadic rational
   (5^e divides m) and that is not a negative zero.  Every such value is a float64 exactly; the
   sum of two of them is a dyadic rational, and when it again has fewer than 16 significant
   digits it is a float64 exactly, so IEEE addition does not round and Go's shortest 'f'
   formatting prints exactly the decimal expansion [fmt_dec].  Outside the domain (exponent or
   hexadecimal syntax, non-dyadic decimals such as 0.1, more than 15 digits, negative zero) the
   model does not compute: the caller follows the observed reply (acceptor form).  What must
   be *rejected* is decided exactly: a string without any decimal digit (this covers nan, inf,
   infinity in every case and sign, and the empty string), a string with a byte that occurs in no
   Go float literal, and a plain sign/digit/dot string that is not a decimal. *)
Require Import Base.Bytes Base.GoInt Base.Reply Mem.Types.
Local Open Scope Z_scope.

Definition is_digit (c : byte) : bool := let n := bval c in (48 <=? n)%N && (n <=? 57)%N.
Definition digit_val (c : byte) : Z := Z.of_N (bval c) - 48.

Fixpoint digits_val (s : bytes) (acc : Z) : option Z :=
  match s with
  | [] => Some acc
  | c :: r => if is_digit c then digits_val r (acc * 10 + digit_val c) else None
  end.

(* split at the first '.' *)
Fixpoint split_dot (s : bytes) : bytes * option bytes :=
  match s with
  | [] => ([], None)
  | c :: r => if beqb c "."%byte then ([], Some r)
              else let '(a, b) := split_dot r in (c :: a, b)
  end.

(* unsigned plain decimal: (all digits as an integer, number of digits after the point) *)
Definition parse_udecimal (s : bytes) : option (Z * N) :=
  let '(ip, fp) := split_dot s in
  match fp with
  | None => match ip with
            | [] => None
            | _ => match digits_val ip 0 with Some m => Some (m, 0%N) | None => None end
            end
  | Some fp =>
    match ip ++ fp with
    | [] => None
    | ds => match digits_val ds 0 with Some m => Some (m, N.of_nat (List.length fp)) | None => None end
    end
  end.

(* (negative?, magnitude, scale):  value = (-1)^neg * m / 10^e *)
Definition parse_dec (s : bytes) : option (bool * Z * N) :=
  match s with
  | "-"%byte :: r => match parse_udecimal r with Some (m, e) => Some (true, m, e) | None => None end
  | "+"%byte :: r => match parse_udecimal r with Some (m, e) => Some (false, m, e) | None => None end
  | _ => match parse_udecimal s with Some (m, e) => Some (false, m, e) | None => None end
  end.

Definition pow10 (n : N) : Z := 10 ^ Z.of_N n.
Definition dec_limit : Z := 10 ^ 15.

Definition dec_in_dom (m : Z) (e : N) : bool :=
  (e <=? 15)%N && (Z.abs m <? dec_limit) && (m mod 5 ^ Z.of_N e =? 0).

Inductive fclass :=
| FDec (m : Z) (e : N)      (* in the domain: the exact value m / 10^e *)
| FBad                      (* certainly not a finite float: must be rejected *)
| FOther.                   (* outside the modelled domain *)

Definition byte_in (c : byte) (l : bytes) : bool := existsb (beqb c) l.
Definition plain_char (c : byte) : bool := is_digit c || byte_in c (B "+-.").
Definition float_char (c : byte) : bool := plain_char c || byte_in c (B "eExXpP_abcdfABCDF").

Definition fclassify (s : bytes) : fclass :=
  if negb (existsb is_digit s) || negb (forallb float_char s) then FBad
  else match parse_dec s with
       | Some (neg, m, e) =>
         if dec_in_dom m e && negb (neg && (m =? 0)) then FDec (if neg then - m else m) e else FOther
       | None => if forallb plain_char s then FBad else FOther
       end.

(* drop trailing zeros of the fraction *)
Fixpoint strip_zeros (fuel : nat) (m : Z) (e : N) : Z * N :=
  match fuel with
  | O => (m, e)
  | S f => if (0 <? e)%N && (m mod 10 =? 0) then strip_zeros f (m / 10) (N.pred e) else (m, e)
  end.
Definition dec_norm (m : Z) (e : N) : Z * N := strip_zeros (N.to_nat e) m e.

Definition dec_add (m1 : Z) (e1 : N) (m2 : Z) (e2 : N) : Z * N :=
  let e := N.max e1 e2 in
  dec_norm (m1 * pow10 (e - e1) + m2 * pow10 (e - e2)) e.

Fixpoint zero_chars (n : nat) : bytes := match n with O => [] | S k => "0"%byte :: zero_chars k end.

(* strconv.FormatFloat(v, 'f', -1, 64) of the exact value m / 10^e (normalised) *)
Definition fmt_dec (m : Z) (e : N) : bytes :=
  let s := n_to_dec (Z.to_N (Z.abs m)) in
  let body :=
    if (e =? 0)%N then s
    else let s' := zero_chars (N.to_nat e + 1 - List.length s) ++ s in
         let k := (List.length s' - N.to_nat e)%nat in
         firstn k s' ++ "."%byte :: skipn k s' in
  if m <? 0 then "-"%byte :: body else body.
