(* Proofs about the set commands (Mem/Sets.v): what C11 states, for all databases satisfying the
   shared invariant [db_wf], all keys, members, operand lists, counts and observed replies. *)
Require Import Base.Bytes Base.GoInt Base.Reply Mem.Types Mem.Inv Mem.Sets.
Local Open Scope Z_scope.

(* ================================================================== A. finite sets as lists *)
Lemma smem_In m s : smem m s = true <-> In m s.
Proof.
  unfold smem. rewrite existsb_exists. split.
  - intros (x & Hx & E). apply bytes_eqb_eq in E. subst. exact Hx.
  - intros H. exists m. split; [exact H|apply bytes_eqb_refl].
Qed.

Lemma smem_false m s : smem m s = false <-> ~ In m s.
Proof.
  rewrite <- smem_In. destruct (smem m s); split; try congruence; intros H; exfalso; apply H; reflexivity.
Qed.

Lemma smem_nil m : smem m [] = false.
Proof. reflexivity. Qed.

(* two lists with the same members answer [smem] alike *)
Lemma smem_ext m s t : (In m s <-> In m t) -> smem m s = smem m t.
Proof.
  intros H. destruct (smem m t) eqn:E.
  - apply smem_In. apply H. apply smem_In. exact E.
  - apply smem_false. intros X. apply H in X. apply smem_In in X. congruence.
Qed.

Lemma In_sadd x s m : In x (sadd s m) <-> In x s \/ x = m.
Proof.
  unfold sadd. destruct (smem m s) eqn:E.
  - split; [intros H; left; exact H|]. intros [H| ->]; [exact H|apply smem_In; exact E].
  - rewrite in_app_iff. cbn. split.
    + intros [H|[H|[]]]; [left; exact H|right; congruence].
    + intros [H| ->]; [left; exact H|right; left; reflexivity].
Qed.

Lemma NoDup_app_single (s : list bytes) m : NoDup s -> ~ In m s -> NoDup (s ++ [m]).
Proof.
  intros ND Hn. rewrite <- (rev_involutive (s ++ [m])). apply NoDup_rev.
  rewrite rev_app_distr. cbn. constructor.
  - intros H. apply Hn. apply in_rev. exact H.
  - apply NoDup_rev. exact ND.
Qed.

Lemma NoDup_sadd s m : NoDup s -> NoDup (sadd s m).
Proof.
  intros ND. unfold sadd. destruct (smem m s) eqn:E; [exact ND|].
  apply NoDup_app_single; [exact ND|apply smem_false; exact E].
Qed.

Lemma In_srem x s m : In x (srem s m) <-> In x s /\ x <> m.
Proof.
  unfold srem. rewrite filter_In. split; intros [H1 H2]; split; try exact H1.
  - intros ->. rewrite bytes_eqb_refl in H2. discriminate.
  - destruct (bytes_eqb_spec x m); [contradiction|reflexivity].
Qed.

Lemma NoDup_srem s m : NoDup s -> NoDup (srem s m).
Proof. intros ND. apply NoDup_filter. exact ND. Qed.

Lemma In_sadd_all x ms : forall s, In x (sadd_all s ms) <-> In x s \/ In x ms.
Proof.
  unfold sadd_all. induction ms as [|m ms IH]; intros s; cbn.
  - tauto.
  - rewrite IH, In_sadd. split.
    + intros [[H|H]|H]; [left; exact H|right; left; congruence|right; right; exact H].
    + intros [H|[H|H]]; [left; left; exact H|left; right; congruence|right; exact H].
Qed.

Lemma NoDup_sadd_all ms : forall s, NoDup s -> NoDup (sadd_all s ms).
Proof.
  unfold sadd_all. induction ms as [|m ms IH]; intros s ND; cbn; [exact ND|].
  apply IH. apply NoDup_sadd. exact ND.
Qed.

Lemma In_srem_all x ms : forall s, In x (srem_all s ms) <-> In x s /\ ~ In x ms.
Proof.
  unfold srem_all. induction ms as [|m ms IH]; intros s; cbn.
  - tauto.
  - rewrite IH, In_srem. split.
    + intros [[H1 H2] H3]. split; [exact H1|]. intros [E|E]; [congruence|contradiction].
    + intros [H1 H2]. split; [split; [exact H1|]|].
      * intros ->. apply H2. left. reflexivity.
      * intros E. apply H2. right. exact E.
Qed.

Lemma NoDup_srem_all ms : forall s, NoDup s -> NoDup (srem_all s ms).
Proof.
  unfold srem_all. induction ms as [|m ms IH]; intros s ND; cbn; [exact ND|].
  apply IH. apply NoDup_srem. exact ND.
Qed.

Lemma In_sunion x s t : In x (sunion s t) <-> In x s \/ In x t.
Proof. apply In_sadd_all. Qed.
Lemma In_sinter x s t : In x (sinter s t) <-> In x s /\ In x t.
Proof. unfold sinter. rewrite filter_In, smem_In. tauto. Qed.
Lemma In_sdiff x s t : In x (sdiff s t) <-> In x s /\ ~ In x t.
Proof.
  unfold sdiff. rewrite filter_In. split; intros [H1 H2]; split; try exact H1.
  - apply smem_false. destruct (smem x t); [discriminate|reflexivity].
  - apply smem_false in H2. rewrite H2. reflexivity.
Qed.

Lemma In_union_fold x ss : forall acc,
  In x (fold_left sunion ss acc) <-> In x acc \/ exists s, In s ss /\ In x s.
Proof.
  induction ss as [|s ss IH]; intros acc; cbn.
  - split; [intros H; left; exact H|]. intros [H|(s & [] & _)]. exact H.
  - rewrite IH, In_sunion. split.
    + intros [[H|H]|(t & Ht & Hx)].
      * left; exact H.
      * right. exists s. split; [left; reflexivity|exact H].
      * right. exists t. split; [right; exact Ht|exact Hx].
    + intros [H|(t & [->|Ht] & Hx)].
      * left; left; exact H.
      * left; right; exact Hx.
      * right. exists t. split; assumption.
Qed.

Lemma NoDup_union_fold ss : forall acc, NoDup acc -> NoDup (fold_left sunion ss acc).
Proof.
  induction ss as [|s ss IH]; intros acc ND; cbn; [exact ND|].
  apply IH. apply NoDup_sadd_all. exact ND.
Qed.

Lemma In_inter_fold x ss : forall s,
  In x (fold_left sinter ss s) <-> In x s /\ forall t, In t ss -> In x t.
Proof.
  induction ss as [|t0 ss IH]; intros s; cbn.
  - split; [intros H; split; [exact H|intros t []]|intros [H _]; exact H].
  - rewrite IH, In_sinter. split.
    + intros [[H1 H2] H3]. split; [exact H1|]. intros t [<-|Ht]; [exact H2|apply H3; exact Ht].
    + intros [H1 H2]. split; [split; [exact H1|apply H2; left; reflexivity]|].
      intros t Ht. apply H2. right. exact Ht.
Qed.

Lemma In_diff_fold x ss : forall s,
  In x (fold_left sdiff ss s) <-> In x s /\ forall t, In t ss -> ~ In x t.
Proof.
  induction ss as [|t0 ss IH]; intros s; cbn.
  - split; [intros H; split; [exact H|intros t []]|intros [H _]; exact H].
  - rewrite IH, In_sdiff. split.
    + intros [[H1 H2] H3]. split; [exact H1|]. intros t [<-|Ht]; [exact H2|apply H3; exact Ht].
    + intros [H1 H2]. split; [split; [exact H1|apply H2; left; reflexivity]|].
      intros t Ht. apply H2. right. exact Ht.
Qed.

Lemma NoDup_inter_fold ss : forall s, NoDup s -> NoDup (fold_left sinter ss s).
Proof.
  induction ss as [|t ss IH]; intros s ND; cbn; [exact ND|]. apply IH. apply NoDup_filter. exact ND.
Qed.
Lemma NoDup_diff_fold ss : forall s, NoDup s -> NoDup (fold_left sdiff ss s).
Proof.
  induction ss as [|t ss IH]; intros s ND; cbn; [exact ND|]. apply IH. apply NoDup_filter. exact ND.
Qed.

(* the three n-ary operations, as mathematics *)
Lemma In_union_all x ss : In x (union_all ss) <-> exists s, In s ss /\ In x s.
Proof.
  unfold union_all. rewrite In_union_fold. split; [intros [[]|H]; exact H|intros H; right; exact H].
Qed.
Lemma NoDup_union_all ss : NoDup (union_all ss).
Proof. apply NoDup_union_fold. constructor. Qed.

Lemma In_inter_all x ss : ss <> [] -> (In x (inter_all ss) <-> forall s, In s ss -> In x s).
Proof.
  destruct ss as [|s ss]; [congruence|intros _]. cbn [inter_all]. rewrite In_inter_fold. split.
  - intros [H1 H2] t [<-|Ht]; [exact H1|apply H2; exact Ht].
  - intros H. split; [apply H; left; reflexivity|intros t Ht; apply H; right; exact Ht].
Qed.
Lemma NoDup_inter_all ss : (forall s, In s ss -> NoDup s) -> NoDup (inter_all ss).
Proof.
  destruct ss as [|s ss]; intros H; [constructor|]. apply NoDup_inter_fold. apply H. left. reflexivity.
Qed.

Lemma In_diff_all x s ss : In x (diff_all (s :: ss)) <-> In x s /\ forall t, In t ss -> ~ In x t.
Proof. apply In_diff_fold. Qed.
Lemma NoDup_diff_all ss : (forall s, In s ss -> NoDup s) -> NoDup (diff_all ss).
Proof.
  destruct ss as [|s ss]; intros H; [constructor|]. apply NoDup_diff_fold. apply H. left. reflexivity.
Qed.

(* cardinalities *)
Lemma zlength_sadd s m : zlength (sadd s m) - zlength s = if smem m s then 0 else 1.
Proof.
  unfold sadd, zlength. destruct (smem m s); cbv iota; [lia|]. rewrite app_length. cbn [List.length]. lia.
Qed.

Lemma srem_notin s m : ~ In m s -> srem s m = s.
Proof.
  unfold srem. induction s as [|y s IH]; cbn; intros Hn; [reflexivity|].
  destruct (bytes_eqb_spec y m) as [->|Ny]; cbn.
  - exfalso. apply Hn. left. reflexivity.
  - f_equal. apply IH. intros H. apply Hn. right. exact H.
Qed.

Lemma length_srem s m : NoDup s ->
  List.length s = (List.length (srem s m) + if smem m s then 1 else 0)%nat.
Proof.
  induction s as [|x s IH]; intros ND; [reflexivity|].
  inversion ND as [|? ? Hn ND']; subst.
  unfold srem, smem. cbn [filter existsb List.length].
  destruct (bytes_eqb_spec x m) as [->|N].
  - rewrite bytes_eqb_refl. cbn [negb orb].
    fold (srem s m). rewrite (srem_notin s m Hn). lia.
  - destruct (bytes_eqb_spec m x) as [->|N2]; [congruence|]. cbn [negb orb List.length].
    fold (srem s m). fold (smem m s). specialize (IH ND'). lia.
Qed.

Lemma zlength_srem s m : NoDup s -> zlength s - zlength (srem s m) = if smem m s then 1 else 0.
Proof.
  intros ND. unfold zlength. rewrite (length_srem s m ND) at 1. destruct (smem m s); lia.
Qed.

(* executable duplicate-freeness / inclusion *)
Lemma nodupb_NoDup l : nodupb l = true <-> NoDup l.
Proof.
  induction l as [|x l IH]; cbn.
  - split; [constructor|reflexivity].
  - rewrite andb_true_iff, negb_true_iff, smem_false, IH. split.
    + intros [H1 H2]. constructor; assumption.
    + intros H. inversion H; subst. split; assumption.
Qed.

Lemma subsetb_incl l s : subsetb l s = true <-> forall m, In m l -> In m s.
Proof.
  unfold subsetb. rewrite forallb_forall. split; intros H m Hm.
  - apply smem_In. apply H. exact Hm.
  - apply smem_In. apply H. exact Hm.
Qed.

Lemma NoDup_firstn (n : nat) (s : list bytes) : NoDup s -> NoDup (firstn n s).
Proof.
  revert s. induction n as [|n IH]; intros s ND; cbn; [constructor|].
  destruct s as [|x s]; [constructor|]. inversion ND as [|? ? Hn ND']; subst.
  constructor; [|apply IH; exact ND'].
  intros H. apply Hn. rewrite <- (firstn_skipn n s). apply in_or_app. left. exact H.
Qed.

Lemma In_firstn (n : nat) (s : list bytes) x : In x (firstn n s) -> In x s.
Proof. intros H. rewrite <- (firstn_skipn n s). apply in_or_app. left. exact H. Qed.

Lemma bulks_map ms : bulks (RArr (map RBulk ms)) = Some ms.
Proof.
  cbn. induction ms as [|m ms IH]; cbn; [reflexivity|]. rewrite IH. reflexivity.
Qed.

(* ---- the acceptors: what they return is allowed, and everything allowed is accepted ---- *)
Lemma choose_one_sound s hint m : choose_one s hint = Some m -> In m s.
Proof.
  unfold choose_one. intros H.
  assert (D : hd_error s = Some m -> In m s).
  { destruct s; cbn; intros E; [discriminate|]. inversion E. left. reflexivity. }
  destruct hint; try (apply D; exact H).
  destruct (smem b s) eqn:E; [|apply D; exact H].
  inversion H; subst. apply smem_In. exact E.
Qed.

Lemma choose_one_total s hint : s <> [] -> exists m, choose_one s hint = Some m.
Proof.
  intros N. unfold choose_one.
  assert (D : exists m, hd_error s = Some m) by (destruct s; [congruence|eexists; reflexivity]).
  destruct hint; try exact D. destruct (smem b s); [eexists; reflexivity|exact D].
Qed.

Lemma choose_one_complete s m : In m s -> choose_one s (RBulk m) = Some m.
Proof. intros H. cbn. apply smem_In in H. rewrite H. reflexivity. Qed.

Lemma choose_one_none s hint : choose_one s hint = None -> s = [].
Proof.
  intros H. destruct s as [|x s]; [reflexivity|].
  destruct (choose_one_total (x :: s) hint) as [m E]; [discriminate|congruence].
Qed.

Lemma choose_distinct_sound s n hint : NoDup s -> (n <= List.length s)%nat ->
  let ms := choose_distinct s n hint in
  NoDup ms /\ (forall m, In m ms -> In m s) /\ List.length ms = n.
Proof.
  intros ND Hn. cbn zeta. unfold choose_distinct.
  assert (D : NoDup (firstn n s) /\ (forall m, In m (firstn n s) -> In m s) /\ List.length (firstn n s) = n).
  { split; [apply NoDup_firstn; exact ND|]. split; [intros m; apply In_firstn|].
    apply firstn_length_le. exact Hn. }
  destruct (bulks hint) as [ms|]; [|exact D].
  destruct (nodupb ms && subsetb ms s && Nat.eqb (List.length ms) n) eqn:E; [|exact D].
  apply andb_true_iff in E as [E E3]. apply andb_true_iff in E as [E1 E2].
  split; [apply nodupb_NoDup; exact E1|]. split; [apply subsetb_incl; exact E2|].
  apply Nat.eqb_eq. exact E3.
Qed.

Lemma choose_distinct_complete s n ms :
  NoDup ms -> (forall m, In m ms -> In m s) -> List.length ms = n ->
  choose_distinct s n (RArr (map RBulk ms)) = ms.
Proof.
  intros H1 H2 H3. unfold choose_distinct. rewrite bulks_map.
  apply nodupb_NoDup in H1. apply subsetb_incl in H2. apply Nat.eqb_eq in H3.
  rewrite H1, H2, H3. reflexivity.
Qed.

Lemma choose_repeated_sound s n hint : s <> [] ->
  let ms := choose_repeated s n hint in
  (forall m, In m ms -> In m s) /\ List.length ms = n.
Proof.
  intros N. cbn zeta. unfold choose_repeated. cbv zeta beta.
  destruct s as [|x s]; [congruence|].
  assert (D : (forall m, In m (repeat x n) -> In m (x :: s)) /\ List.length (repeat x n) = n).
  { split; [|apply repeat_length]. intros m Hm. apply repeat_spec in Hm. left. congruence. }
  destruct (bulks hint) as [ms|]; [|exact D].
  destruct (subsetb ms (x :: s) && Nat.eqb (List.length ms) n) eqn:E; [|exact D].
  apply andb_true_iff in E as [E1 E2].
  split; [apply subsetb_incl; exact E1|apply Nat.eqb_eq; exact E2].
Qed.

Lemma choose_repeated_complete s n ms :
  (forall m, In m ms -> In m s) -> List.length ms = n ->
  choose_repeated s n (RArr (map RBulk ms)) = ms.
Proof.
  intros H2 H3. unfold choose_repeated. cbv zeta beta. rewrite bulks_map.
  apply subsetb_incl in H2. apply Nat.eqb_eq in H3. rewrite H2, H3. reflexivity.
Qed.

Lemma accept_repeated_sound s n hint ms : accept_repeated s n hint = Some ms ->
  (forall m, In m ms -> In m s) /\ zlength ms = n.
Proof.
  unfold accept_repeated. destruct (bulks hint) as [l|]; [|discriminate].
  destruct (subsetb l s && (zlength l =? n)) eqn:E; [|discriminate]. intros H. inversion H; subst.
  apply andb_true_iff in E as [E1 E2]. split; [apply subsetb_incl; exact E1|apply Z.eqb_eq; exact E2].
Qed.

Lemma accept_repeated_complete s n ms :
  (forall m, In m ms -> In m s) -> zlength ms = n ->
  accept_repeated s n (RArr (map RBulk ms)) = Some ms.
Proof.
  intros H2 H3. unfold accept_repeated. rewrite bulks_map.
  apply subsetb_incl in H2. apply Z.eqb_eq in H3. rewrite H2, H3. reflexivity.
Qed.

(* ================================================================== B. the keyspace under the set updates *)
Lemma db_get_set d k v k' : db_get (db_set d k v) k' = if bytes_eqb k' k then Some v else db_get d k'.
Proof.
  unfold db_get, db_set. cbn. destruct (bytes_eqb_spec k' k) as [->|N].
  - apply alookup_aset_same.
  - apply alookup_aset_other. exact N.
Qed.
Lemma db_get_del d k k' : db_get (db_del d k) k' = if bytes_eqb k' k then None else db_get d k'.
Proof.
  unfold db_get, db_del. cbn. destruct (bytes_eqb_spec k' k) as [->|N].
  - apply alookup_aremove_same.
  - apply alookup_aremove_other. exact N.
Qed.
Lemma db_ttl_set d k v k' : db_ttl (db_set d k v) k' = db_ttl d k'.
Proof. reflexivity. Qed.
Lemma db_ttl_del d k k' : db_ttl (db_del d k) k' = if bytes_eqb k' k then None else db_ttl d k'.
Proof.
  unfold db_ttl, db_del. cbn. destruct (bytes_eqb_spec k' k) as [->|N].
  - apply alookup_aremove_same.
  - apply alookup_aremove_other. exact N.
Qed.

(* what a view holds, read as a set *)
Definition vset (o : option (value * option Z)) : list bytes :=
  match o with Some (VSet s, _) => s | _ => [] end.
Definition vkind (o : option (value * option Z)) : lookup_set :=
  match o with None => SMissing | Some (VSet s, _) => SFound s | Some _ => SWrong end.
(* the key holds a value of another type *)
Definition vwrong (o : option (value * option Z)) : bool :=
  match vkind o with SWrong => true | _ => false end.

Definition rset (d : db) (k : bytes) : list bytes := vset (raw_view d k).

Lemma get_set_raw d k : get_set d k = vkind (raw_view d k).
Proof. unfold get_set, raw_view, vkind. destruct (db_get d k) as [[]|]; reflexivity. Qed.

Lemma rset_get d k : rset d k = match get_set d k with SFound s => s | _ => [] end.
Proof. unfold rset, get_set, raw_view, vset. destruct (db_get d k) as [[]|]; reflexivity. Qed.

Lemma vset_kind o : vset o = match vkind o with SFound s => s | _ => [] end.
Proof. destruct o as [[[] ?]|]; reflexivity. Qed.

Lemma raw_view_put_same d k s :
  raw_view (put_set d k s) k = match s with [] => None | _ => Some (VSet s, db_ttl d k) end.
Proof. destruct s; cbn [put_set]; [apply raw_view_del_same|apply raw_view_set_same]. Qed.
Lemma raw_view_put_other d k s k' : k' <> k -> raw_view (put_set d k s) k' = raw_view d k'.
Proof. intros N. destruct s; cbn [put_set]; [apply raw_view_del_other|apply raw_view_set_other]; exact N. Qed.

Lemma raw_view_store_same d k s :
  raw_view (store_set d k s) k = match s with [] => None | _ => Some (VSet s, None) end.
Proof.
  destruct s; cbn [store_set]; [apply raw_view_del_same|].
  rewrite raw_view_set_same. rewrite db_ttl_del, bytes_eqb_refl. reflexivity.
Qed.
Lemma raw_view_store_other d k s k' : k' <> k -> raw_view (store_set d k s) k' = raw_view d k'.
Proof.
  intros N. destruct s; cbn [store_set]; [apply raw_view_del_other; exact N|].
  rewrite raw_view_set_other by exact N. apply raw_view_del_other. exact N.
Qed.

Lemma rset_put_same d k s : rset (put_set d k s) k = s.
Proof. unfold rset. rewrite raw_view_put_same. destruct s; reflexivity. Qed.
Lemma rset_store_same d k s : rset (store_set d k s) k = s.
Proof. unfold rset. rewrite raw_view_store_same. destruct s; reflexivity. Qed.

(* ---- the family's value invariant: a stored set is duplicate-free and not empty ---- *)
Definition value_ok_set (v : value) : Prop :=
  match v with VSet s => NoDup s /\ s <> [] | _ => True end.
Definition sets_ok (d : db) : Prop := forall k v, db_get d k = Some v -> value_ok_set v.

Lemma sets_ok_empty : sets_ok empty_db.
Proof. intros k v H. discriminate. Qed.

Lemma sets_ok_get d k s : sets_ok d -> get_set d k = SFound s -> NoDup s /\ s <> [].
Proof.
  intros OK H. unfold get_set in H. destruct (db_get d k) as [[]|] eqn:E; try discriminate.
  inversion H; subst. exact (OK k _ E).
Qed.

Lemma sets_ok_rset d k : sets_ok d -> NoDup (rset d k).
Proof.
  intros OK. rewrite rset_get. destruct (get_set d k) eqn:E; try constructor.
  apply (sets_ok_get d k s OK E).
Qed.

Lemma sets_ok_set d k v : sets_ok d -> value_ok_set v -> sets_ok (db_set d k v).
Proof.
  intros OK Hv k' v' H. rewrite db_get_set in H. destruct (bytes_eqb k' k).
  - inversion H; subst. exact Hv.
  - exact (OK k' v' H).
Qed.
Lemma sets_ok_del d k : sets_ok d -> sets_ok (db_del d k).
Proof.
  intros OK k' v' H. rewrite db_get_del in H. destruct (bytes_eqb k' k); [discriminate|exact (OK k' v' H)].
Qed.
Lemma sets_ok_put d k s : sets_ok d -> NoDup s -> sets_ok (put_set d k s).
Proof.
  intros OK ND. destruct s as [|x s]; cbn [put_set]; [apply sets_ok_del; exact OK|].
  apply sets_ok_set; [exact OK|]. split; [exact ND|discriminate].
Qed.
Lemma sets_ok_store d k s : sets_ok d -> NoDup s -> sets_ok (store_set d k s).
Proof.
  intros OK ND. destruct s as [|x s]; cbn [store_set]; [apply sets_ok_del; exact OK|].
  apply sets_ok_set; [apply sets_ok_del; exact OK|]. split; [exact ND|discriminate].
Qed.
Lemma sets_ok_purge d now : sets_ok d -> sets_ok (purge d now).
Proof.
  intros OK k v H. rewrite db_get_purge in H. destruct (expired d now k); [discriminate|exact (OK k v H)].
Qed.

(* ---- no set command creates or moves a deadline ---- *)
Definition ttl_le (d' d : db) : Prop := forall k t, db_ttl d' k = Some t -> db_ttl d k = Some t.
Lemma ttl_le_refl d : ttl_le d d.
Proof. intros k t H. exact H. Qed.
Lemma ttl_le_trans d1 d2 d3 : ttl_le d1 d2 -> ttl_le d2 d3 -> ttl_le d1 d3.
Proof. intros A C k t H. apply C. apply A. exact H. Qed.
Lemma ttl_le_set d k v : ttl_le (db_set d k v) d.
Proof. intros k' t H. exact H. Qed.
Lemma ttl_le_del d k : ttl_le (db_del d k) d.
Proof. intros k' t H. rewrite db_ttl_del in H. destruct (bytes_eqb k' k); [discriminate|exact H]. Qed.
Lemma ttl_le_put d k s : ttl_le (put_set d k s) d.
Proof. destruct s; cbn [put_set]; [apply ttl_le_del|apply ttl_le_set]. Qed.
Lemma ttl_le_store d k s : ttl_le (store_set d k s) d.
Proof.
  destruct s; cbn [store_set]; [apply ttl_le_del|].
  eapply ttl_le_trans; [apply ttl_le_set|apply ttl_le_del].
Qed.

Lemma db_wf_put d k s : db_wf d -> db_wf (put_set d k s).
Proof. intros W. destruct s; cbn [put_set]; [apply db_wf_del|apply db_wf_set]; exact W. Qed.
Lemma db_wf_store d k s : db_wf d -> db_wf (store_set d k s).
Proof.
  intros W. destruct s; cbn [store_set]; [apply db_wf_del; exact W|].
  apply db_wf_set. apply db_wf_del. exact W.
Qed.

(* ---- operand collection ---- *)
Lemma operands_ok d ks :
  (forall k, In k ks -> get_set d k <> SWrong) -> operands d ks = Some (map (rset d) ks).
Proof.
  induction ks as [|k ks IH]; intros H; cbn; [reflexivity|].
  rewrite IH by (intros k' Hk'; apply H; right; exact Hk').
  rewrite rset_get. pose proof (H k (or_introl eq_refl)) as Hk.
  destruct (get_set d k); [reflexivity|congruence|reflexivity].
Qed.

Lemma operands_wrong d ks :
  (exists k, In k ks /\ get_set d k = SWrong) -> operands d ks = None.
Proof.
  induction ks as [|k ks IH]; intros (k0 & Hin & Hw); [destruct Hin|]. cbn.
  destruct Hin as [->|Hin].
  - rewrite Hw. reflexivity.
  - rewrite IH by (exists k0; split; assumption). destruct (get_set d k); reflexivity.
Qed.

Lemma operands_cases d ks :
  (operands d ks = Some (map (rset d) ks) /\ forall k, In k ks -> get_set d k <> SWrong) \/
  (operands d ks = None /\ exists k, In k ks /\ get_set d k = SWrong).
Proof.
  induction ks as [|k ks IH].
  - left. split; [reflexivity|intros k []].
  - destruct (get_set d k) eqn:E.
    + destruct IH as [[E1 H1]|[E1 (k0 & H0 & W0)]].
      * left. split.
        -- apply operands_ok. intros k' [<-|Hk']; [congruence|apply H1; exact Hk'].
        -- intros k' [<-|Hk']; [congruence|apply H1; exact Hk'].
      * right. split; [|exists k0; split; [right; exact H0|exact W0]].
        apply operands_wrong. exists k0. split; [right; exact H0|exact W0].
    + right. split; [|exists k; split; [left; reflexivity|exact E]].
      apply operands_wrong. exists k. split; [left; reflexivity|exact E].
    + destruct IH as [[E1 H1]|[E1 (k0 & H0 & W0)]].
      * left. split.
        -- apply operands_ok. intros k' [<-|Hk']; [congruence|apply H1; exact Hk'].
        -- intros k' [<-|Hk']; [congruence|apply H1; exact Hk'].
      * right. split; [|exists k0; split; [right; exact H0|exact W0]].
        apply operands_wrong. exists k0. split; [right; exact H0|exact W0].
Qed.

Lemma operands_NoDup d ks ss : sets_ok d -> operands d ks = Some ss -> forall s, In s ss -> NoDup s.
Proof.
  intros OK H s Hs. destruct (operands_cases d ks) as [[E _]|[E _]]; [|congruence].
  rewrite E in H. inversion H; subst. apply in_map_iff in Hs as (k & <- & _).
  apply sets_ok_rset. exact OK.
Qed.

(* ================================================================== C. what every set command preserves *)
(* [good d d']: d' keeps the shared invariant, has no deadline d did not have, and keeps the
   family's value invariant *)
Definition good (d d' : db) : Prop :=
  (db_wf d -> db_wf d') /\ ttl_le d' d /\ (sets_ok d -> sets_ok d').

Lemma good_refl d : good d d.
Proof. split; [tauto|]. split; [apply ttl_le_refl|tauto]. Qed.
Lemma good_trans d1 d2 d3 : good d1 d2 -> good d2 d3 -> good d1 d3.
Proof.
  intros (A1 & A2 & A3) (B1 & B2 & B3). split; [tauto|]. split; [|tauto].
  eapply ttl_le_trans; eassumption.
Qed.
Lemma good_set d k s : (sets_ok d -> NoDup s /\ s <> []) -> good d (db_set d k (VSet s)).
Proof.
  intros H. split; [apply db_wf_set|]. split; [apply ttl_le_set|].
  intros OK. apply sets_ok_set; [exact OK|exact (H OK)].
Qed.
Lemma good_put d k s : (sets_ok d -> NoDup s) -> good d (put_set d k s).
Proof.
  intros H. split; [apply db_wf_put|]. split; [apply ttl_le_put|].
  intros OK. apply sets_ok_put; [exact OK|exact (H OK)].
Qed.
Lemma good_store d k s : (sets_ok d -> NoDup s) -> good d (store_set d k s).
Proof.
  intros H. split; [apply db_wf_store|]. split; [apply ttl_le_store|].
  intros OK. apply sets_ok_store; [exact OK|exact (H OK)].
Qed.

(* the three facts every executor satisfies, for all arguments (and hints):
   a well-framed reply, a good successor state, and no change at all when the reply is an error *)
Definition basic (d : db) (res : reply * db) : Prop :=
  reply_wf (fst res) = true /\ good d (snd res) /\ (forall e, fst res = RErr e -> snd res = d).

Lemma basic_same r d : reply_wf r = true -> basic d (r, d).
Proof. intros H. split; [exact H|]. split; [apply good_refl|reflexivity]. Qed.
Lemma basic_change r d d' : reply_wf r = true -> (forall e, r <> RErr e) -> good d d' -> basic d (r, d').
Proof. intros H N G. split; [exact H|]. split; [exact G|]. intros e E. cbn in E. exfalso. exact (N e E). Qed.

Lemma reply_wf_bulks l : reply_wf (RArr (map RBulk l)) = true.
Proof. cbn. induction l as [|x l IH]; cbn; [reflexivity|exact IH]. Qed.
Lemma reply_wf_wrongtype : reply_wf err_wrongtype = true.
Proof. reflexivity. Qed.
Lemma reply_wf_other : reply_wf err_other = true.
Proof. reflexivity. Qed.

Ltac same := apply basic_same; first [reflexivity | apply reply_wf_bulks].
Ltac changed := apply basic_change; [first [reflexivity | apply reply_wf_bulks] | intros e; discriminate | ].

Lemma sadd_all_nonempty s m ms : sadd_all s (m :: ms) <> [].
Proof.
  intros E. assert (H : In m (sadd_all s (m :: ms))) by (apply In_sadd_all; right; left; reflexivity).
  rewrite E in H. destruct H.
Qed.
Lemma sadd_nonempty s m : sadd s m <> [].
Proof. apply (sadd_all_nonempty s m []). Qed.

Lemma exec_sadd_basic d args : basic d (exec_sadd d args).
Proof.
  unfold exec_sadd. destruct args as [|c [|k [|m ms]]]; try same.
  destruct (get_set d k) eqn:E; try same; changed; apply good_set; intros OK.
  - split; [apply NoDup_sadd_all; constructor|apply sadd_all_nonempty].
  - split; [apply NoDup_sadd_all; apply (sets_ok_get d k s OK E)|apply sadd_all_nonempty].
Qed.

Lemma exec_srem_basic d args : basic d (exec_srem d args).
Proof.
  unfold exec_srem. destruct args as [|c [|k [|m ms]]]; try same.
  destruct (get_set d k) eqn:E; try same; changed; apply good_put; intros OK.
  apply NoDup_srem_all. apply (sets_ok_get d k s OK E).
Qed.

Lemma exec_sismember_basic d args : basic d (exec_sismember d args).
Proof.
  unfold exec_sismember. destruct args as [|c [|k [|m [|x r]]]]; try same.
  destruct (get_set d k); same.
Qed.
Lemma exec_scard_basic d args : basic d (exec_scard d args).
Proof.
  unfold exec_scard. destruct args as [|c [|k [|x r]]]; try same.
  destruct (get_set d k); same.
Qed.
Lemma exec_smembers_basic d args : basic d (exec_smembers d args).
Proof.
  unfold exec_smembers. destruct args as [|c [|k [|x r]]]; try same.
  destruct (get_set d k); same.
Qed.

Lemma exec_smove_basic d args : basic d (exec_smove d args).
Proof.
  unfold exec_smove. destruct args as [|c [|src [|dst [|m [|x r]]]]]; try same.
  destruct (get_set d src) eqn:E; try same.
  assert (G : forall t, (sets_ok d -> NoDup t) ->
              good d (db_set (put_set d src (srem s m)) dst (VSet (sadd t m)))).
  { intros t Ht. split; [intros W; apply db_wf_set; apply db_wf_put; exact W|]. split.
    - eapply ttl_le_trans; [apply ttl_le_set|apply ttl_le_put].
    - intros OK. apply sets_ok_set.
      + apply sets_ok_put; [exact OK|]. apply NoDup_srem. apply (sets_ok_get d src s OK E).
      + split; [apply NoDup_sadd; apply Ht; exact OK|apply sadd_nonempty]. }
  destruct (get_set d dst) eqn:E2; try same;
    destruct (negb (smem m s)); try same; destruct (bytes_eqb src dst); try same; changed; apply G.
  - intros _. constructor.
  - intros OK. apply (sets_ok_get d dst s0 OK E2).
Qed.

Lemma exec_algebra_basic op d args : basic d (exec_algebra op d args).
Proof.
  unfold exec_algebra. destruct args as [|c [|k ks]]; try same.
  destruct (operands d (k :: ks)); same.
Qed.

(* the result of an n-ary operation over operands taken from a good database is duplicate-free *)
Definition op_nodup (op : list (list bytes) -> list bytes) : Prop :=
  forall ss, (forall s, In s ss -> NoDup s) -> NoDup (op ss).
Lemma union_all_nodup : op_nodup union_all.
Proof. intros ss _. apply NoDup_union_all. Qed.
Lemma inter_all_nodup : op_nodup inter_all.
Proof. intros ss H. apply NoDup_inter_all. exact H. Qed.
Lemma diff_all_nodup : op_nodup diff_all.
Proof. intros ss H. apply NoDup_diff_all. exact H. Qed.

Lemma exec_algebra_store_basic op d args : op_nodup op -> basic d (exec_algebra_store op d args).
Proof.
  intros Hop. unfold exec_algebra_store. destruct args as [|c [|dst [|k ks]]]; try same.
  destruct (operands d (k :: ks)) as [ss|] eqn:E; try same.
  changed. apply good_store. intros OK. apply Hop. apply (operands_NoDup d (k :: ks) ss OK E).
Qed.

Lemma exec_spop_basic d args hint : basic d (exec_spop d args hint).
Proof.
  unfold exec_spop. destruct args as [|c [|k [|n [|x r]]]]; try same.
  - destruct (get_set d k) eqn:E; try same.
    destruct (choose_one s hint); try same.
    changed. apply good_put. intros OK. apply NoDup_srem. apply (sets_ok_get d k s OK E).
  - destruct (atoi64 n) as [z|]; try same. destruct (z <? 0); try same.
    destruct (get_set d k) eqn:E; try same.
    changed. apply good_put. intros OK. apply NoDup_srem_all. apply (sets_ok_get d k s OK E).
Qed.

Lemma exec_srandmember_basic d args hint : basic d (exec_srandmember d args hint).
Proof.
  unfold exec_srandmember. destruct args as [|c [|k [|n [|x r]]]]; try same.
  - destruct (get_set d k) eqn:E; try same. destruct (choose_one s hint); same.
  - destruct (atoi64 n) as [z|]; try same.
    destruct ((z <? - max_random_repeat) && refused hint); try same.
    destruct (get_set d k) eqn:E; try same. destruct (z >=? 0); try same.
    destruct (z <? - max_random_repeat); try same.
    destruct (accept_repeated s (- z) hint); same.
Qed.

Lemma exec_member_basic d args : basic d (exec_member d args).
Proof. unfold exec_member. destruct args as [|a [|b [|c r]]]; same. Qed.

Lemma sets_dispatch_basic d now nowms n args hint res :
  sets_dispatch d now nowms n args hint = Some res -> basic d res.
Proof.
  unfold sets_dispatch. intros H.
  repeat match type of H with
         | (if ?b then _ else _) = _ => destruct b
         end;
    try discriminate; inversion H; subst;
    auto using exec_sadd_basic, exec_srem_basic, exec_sismember_basic, exec_scard_basic,
      exec_smembers_basic, exec_smove_basic, exec_spop_basic, exec_srandmember_basic,
      exec_algebra_basic, exec_member_basic.
  - apply exec_algebra_store_basic. exact union_all_nodup.
  - apply exec_algebra_store_basic. exact inter_all_nodup.
  - apply exec_algebra_store_basic. exact diff_all_nodup.
Qed.

(* CONVENTIONS: the two lemmas every keyspace family owes the global theorems *)
Theorem sets_dispatch_wf_pres d now nowms n args hint r d' :
  db_wf d -> sets_dispatch d now nowms n args hint = Some (r, d') -> db_wf d'.
Proof. intros W H. apply sets_dispatch_basic in H as (_ & (G & _) & _). exact (G W). Qed.

Theorem sets_dispatch_reply_wf d now nowms n args hint r d' :
  sets_dispatch d now nowms n args hint = Some (r, d') -> reply_wf r = true.
Proof. intros H. apply sets_dispatch_basic in H as (R & _). exact R. Qed.

Theorem sets_dispatch_sets_ok d now nowms n args hint r d' :
  sets_ok d -> sets_dispatch d now nowms n args hint = Some (r, d') -> sets_ok d'.
Proof. intros OK H. apply sets_dispatch_basic in H as (_ & (_ & _ & G) & _). exact (G OK). Qed.

Theorem sets_dispatch_ttl_le d now nowms n args hint r d' :
  sets_dispatch d now nowms n args hint = Some (r, d') -> ttl_le d' d.
Proof. intros H. apply sets_dispatch_basic in H as (_ & (_ & G & _) & _). exact G. Qed.

(* an error reply -- WRONGTYPE in particular -- changes nothing *)
Theorem sets_dispatch_error_unchanged d now nowms n args hint e d' :
  sets_dispatch d now nowms n args hint = Some (RErr e, d') -> d' = d.
Proof. intros H. apply sets_dispatch_basic in H as (_ & _ & G). exact (G e eq_refl). Qed.

(* ================================================================== D. what each command does (raw keyspace)
   These lemmas speak about a database [d] as the executors see it (expired keys already purged)
   through [raw_view]; section E restates them for any database and clock through [view]. *)
Lemma bool_iff (a b : bool) : (a = true <-> b = true) -> a = b.
Proof. destruct a, b; intros [H1 H2]; try reflexivity; [symmetry; apply H1|apply H2]; reflexivity. Qed.

Lemma pair_eq {A C} (a a' : A) (b b' : C) : (a, b) = (a', b') -> a' = a /\ b' = b.
Proof. intros H. inversion H. split; reflexivity. Qed.

Lemma smem_sadd x s m : smem x (sadd s m) = smem x s || bytes_eqb x m.
Proof.
  apply bool_iff. rewrite orb_true_iff, !smem_In, In_sadd, bytes_eqb_eq. tauto.
Qed.
Lemma smem_srem x s m : smem x (srem s m) = smem x s && negb (bytes_eqb x m).
Proof.
  apply bool_iff. rewrite andb_true_iff, negb_true_iff, !smem_In, In_srem, bytes_eqb_neq. tauto.
Qed.
Lemma smem_sadd_all x s ms : smem x (sadd_all s ms) = smem x s || smem x ms.
Proof.
  apply bool_iff. rewrite orb_true_iff, !smem_In, In_sadd_all. tauto.
Qed.
Lemma smem_srem_all x s ms : smem x (srem_all s ms) = smem x s && negb (smem x ms).
Proof.
  apply bool_iff. rewrite andb_true_iff, negb_true_iff, smem_false, !smem_In, In_srem_all. tauto.
Qed.

Lemma vwrong_get d k : vwrong (raw_view d k) = false -> get_set d k <> SWrong.
Proof. rewrite get_set_raw. unfold vwrong. destruct (vkind (raw_view d k)); congruence. Qed.
Lemma get_vwrong d k : get_set d k = SWrong -> vwrong (raw_view d k) = true.
Proof. rewrite get_set_raw. unfold vwrong. intros ->. reflexivity. Qed.

Lemma rset_missing d k : get_set d k = SMissing -> rset d k = [].
Proof. intros E. rewrite rset_get, E. reflexivity. Qed.
Lemma rset_found d k s : get_set d k = SFound s -> rset d k = s.
Proof. intros E. rewrite rset_get, E. reflexivity. Qed.
Lemma raw_view_missing d k : get_set d k = SMissing -> raw_view d k = None.
Proof.
  rewrite get_set_raw. destruct (raw_view d k) as [[[] ?]|]; cbn; congruence.
Qed.
Lemma raw_view_found d k s : get_set d k = SFound s -> raw_view d k = Some (VSet s, db_ttl d k).
Proof.
  unfold get_set, raw_view. destruct (db_get d k) as [[]|]; try discriminate. intros H. inversion H. reflexivity.
Qed.
Lemma rset_set_same d k s : rset (db_set d k (VSet s)) k = s.
Proof. unfold rset. rewrite raw_view_set_same. reflexivity. Qed.

Lemma rset_set_other d k v k' : k' <> k -> rset (db_set d k v) k' = rset d k'.
Proof. intros N. unfold rset. rewrite raw_view_set_other by exact N. reflexivity. Qed.

(* ---- SADD ---- *)
Lemma sadd_raw d c k ms r d' :
  ms <> [] -> vwrong (raw_view d k) = false ->
  exec_sadd d (c :: k :: ms) = (r, d') ->
  (forall m, smem m (rset d' k) = smem m (rset d k) || smem m ms) /\
  (forall k', k' <> k -> raw_view d' k' = raw_view d k') /\
  r = RInt (zlength (rset d' k) - zlength (rset d k)) /\
  raw_view d' k = Some (VSet (rset d' k), db_ttl d k).
Proof.
  intros Hms Hw H. apply vwrong_get in Hw. unfold exec_sadd in H.
  destruct ms as [|m0 ms]; [congruence|].
  assert (G : forall s, rset d k = s ->
              (RInt (zlength (sadd_all s (m0 :: ms)) - zlength s), db_set d k (VSet (sadd_all s (m0 :: ms)))) = (r, d') ->
              (forall m, smem m (rset d' k) = smem m (rset d k) || smem m (m0 :: ms)) /\
              (forall k', k' <> k -> raw_view d' k' = raw_view d k') /\
              r = RInt (zlength (rset d' k) - zlength (rset d k)) /\
              raw_view d' k = Some (VSet (rset d' k), db_ttl d k)).
  { intros s Es E. apply pair_eq in E as [Hr Hd]; subst r d'. rewrite rset_set_same. rewrite Es. repeat split.
    - intros m. apply smem_sadd_all.
    - intros k' N. apply raw_view_set_other. exact N.
    - apply raw_view_set_same. }
  destruct (get_set d k) eqn:E; [|congruence|].
  - apply (G []); [apply rset_missing; exact E|exact H].
  - apply (G s); [apply rset_found; exact E|exact H].
Qed.

(* one member: the reply says whether it was new *)
Lemma sadd_one_raw d c k m r d' :
  vwrong (raw_view d k) = false -> exec_sadd d [c; k; m] = (r, d') ->
  r = RInt (if smem m (rset d k) then 0 else 1).
Proof.
  intros Hw H. apply vwrong_get in Hw. unfold exec_sadd in H.
  destruct (get_set d k) eqn:E; [|congruence|]; apply pair_eq in H as [Hr Hd]; subst r d'; f_equal.
  - rewrite (rset_missing d k E). reflexivity.
  - rewrite (rset_found d k s E). apply (zlength_sadd s m).
Qed.

(* ---- SREM ---- *)
Lemma srem_raw d c k ms r d' :
  ms <> [] -> vwrong (raw_view d k) = false ->
  exec_srem d (c :: k :: ms) = (r, d') ->
  (forall m, smem m (rset d' k) = smem m (rset d k) && negb (smem m ms)) /\
  (forall k', k' <> k -> raw_view d' k' = raw_view d k') /\
  r = RInt (zlength (rset d k) - zlength (rset d' k)) /\
  (rset d' k = [] -> raw_view d' k = None).
Proof.
  intros Hms Hw H. apply vwrong_get in Hw. unfold exec_srem in H.
  destruct ms as [|m0 ms]; [congruence|].
  destruct (get_set d k) eqn:E; [|congruence|]; apply pair_eq in H as [Hr Hd]; subst r d'.
  - rewrite (rset_missing d k E). repeat split; try reflexivity.
    intros _. apply raw_view_missing. exact E.
  - rewrite rset_put_same, (rset_found d k s E). repeat split.
    + intros m. apply smem_srem_all.
    + intros k' N. apply raw_view_put_other. exact N.
    + intros E0. rewrite raw_view_put_same, E0. reflexivity.
Qed.

Lemma srem_one_raw d c k m r d' :
  sets_ok d -> vwrong (raw_view d k) = false -> exec_srem d [c; k; m] = (r, d') ->
  r = RInt (if smem m (rset d k) then 1 else 0).
Proof.
  intros OK Hw H. apply vwrong_get in Hw. unfold exec_srem in H.
  destruct (get_set d k) eqn:E; [|congruence|]; apply pair_eq in H as [Hr Hd]; subst r d'; f_equal.
  - rewrite (rset_missing d k E). reflexivity.
  - rewrite (rset_found d k s E). apply (zlength_srem s m). apply (sets_ok_get d k s OK E).
Qed.

(* ---- SISMEMBER / SCARD / SMEMBERS ---- *)
Lemma sismember_raw d c k m :
  vwrong (raw_view d k) = false ->
  exec_sismember d [c; k; m] = (RInt (if smem m (rset d k) then 1 else 0), d).
Proof.
  intros Hw. apply vwrong_get in Hw. unfold exec_sismember.
  destruct (get_set d k) eqn:E; [|congruence|].
  - rewrite (rset_missing d k E). reflexivity.
  - rewrite (rset_found d k s E). reflexivity.
Qed.

Lemma scard_raw d c k :
  vwrong (raw_view d k) = false -> exec_scard d [c; k] = (RInt (zlength (rset d k)), d).
Proof.
  intros Hw. apply vwrong_get in Hw. unfold exec_scard.
  destruct (get_set d k) eqn:E; [|congruence|].
  - rewrite (rset_missing d k E). reflexivity.
  - rewrite (rset_found d k s E). reflexivity.
Qed.

Lemma smembers_raw d c k :
  vwrong (raw_view d k) = false -> exec_smembers d [c; k] = (RArr (map RBulk (rset d k)), d).
Proof.
  intros Hw. apply vwrong_get in Hw. unfold exec_smembers.
  destruct (get_set d k) eqn:E; [|congruence|].
  - rewrite (rset_missing d k E). reflexivity.
  - rewrite (rset_found d k s E). reflexivity.
Qed.


(* ---- a key of another type: WRONGTYPE and no change ---- *)
Lemma wrongtype_key_raw d c k m ms dst hint :
  vwrong (raw_view d k) = true ->
  exec_sadd d (c :: k :: m :: ms) = (err_wrongtype, d) /\
  exec_srem d (c :: k :: m :: ms) = (err_wrongtype, d) /\
  exec_sismember d [c; k; m] = (err_wrongtype, d) /\
  exec_scard d [c; k] = (err_wrongtype, d) /\
  exec_smembers d [c; k] = (err_wrongtype, d) /\
  exec_smove d [c; k; dst; m] = (err_wrongtype, d) /\
  exec_spop d [c; k] hint = (err_wrongtype, d) /\
  exec_srandmember d [c; k] hint = (err_wrongtype, d).
Proof.
  intros Hw. assert (E : get_set d k = SWrong).
  { rewrite get_set_raw. unfold vwrong in Hw. destruct (vkind (raw_view d k)); congruence. }
  unfold exec_sadd, exec_srem, exec_sismember, exec_scard, exec_smembers, exec_smove, exec_spop,
    exec_srandmember. rewrite E. repeat split; reflexivity.
Qed.

Lemma wrongtype_count_raw d c k cnt n hint :
  vwrong (raw_view d k) = true -> atoi64 cnt = Some n ->
  (0 <= n -> exec_spop d [c; k; cnt] hint = (err_wrongtype, d)) /\
  (- max_random_repeat <= n -> exec_srandmember d [c; k; cnt] hint = (err_wrongtype, d)).
Proof.
  intros Hw Hn. assert (E : get_set d k = SWrong).
  { rewrite get_set_raw. unfold vwrong in Hw. destruct (vkind (raw_view d k)); congruence. }
  unfold exec_spop, exec_srandmember. rewrite Hn, E. split; intros H.
  - destruct (n <? 0) eqn:L; [lia|reflexivity].
  - destruct (n <? - max_random_repeat) eqn:L; [lia|reflexivity].
Qed.

(* ---- SMOVE ---- *)
Lemma smove_raw d c src dst m r d' :
  vwrong (raw_view d src) = false -> vwrong (raw_view d dst) = false ->
  exec_smove d [c; src; dst; m] = (r, d') ->
  if smem m (rset d src) then
    r = RInt 1 /\
    (src = dst -> d' = d) /\
    (src <> dst ->
       (forall x, smem x (rset d' src) = smem x (rset d src) && negb (bytes_eqb x m)) /\
       (forall x, smem x (rset d' dst) = smem x (rset d dst) || bytes_eqb x m) /\
       (rset d' src = [] -> raw_view d' src = None) /\
       (forall k', k' <> src -> k' <> dst -> raw_view d' k' = raw_view d k'))
  else r = RInt 0 /\ d' = d.
Proof.
  intros Hs Hd H. apply vwrong_get in Hs. apply vwrong_get in Hd. unfold exec_smove in H.
  destruct (get_set d src) eqn:E; [|congruence|].
  - rewrite (rset_missing d src E). cbn. apply pair_eq in H as [Hr Hd']; subst r d'. split; reflexivity.
  - rewrite (rset_found d src s E).
    assert (G : (if negb (smem m s) then (RInt 0, d)
                 else if bytes_eqb src dst then (RInt 1, d)
                 else (RInt 1, db_set (put_set d src (srem s m)) dst (VSet (sadd (rset d dst) m)))) = (r, d')).
    { destruct (get_set d dst) eqn:E2; [|congruence|].
      - rewrite (rset_missing d dst E2). exact H.
      - rewrite (rset_found d dst s0 E2). exact H. }
    clear H. destruct (smem m s) eqn:M; cbn [negb] in G.
    + destruct (bytes_eqb_spec src dst) as [->|N]; apply pair_eq in G as [Hr Hd']; subst r d'.
      * split; [reflexivity|]. split; [reflexivity|]. intros X. congruence.
      * split; [reflexivity|]. split; [intros X; congruence|]. intros _.
        assert (R1 : raw_view (db_set (put_set d src (srem s m)) dst (VSet (sadd (rset d dst) m))) src
                     = raw_view (put_set d src (srem s m)) src) by (apply raw_view_set_other; exact N).
        repeat split.
        -- intros x. rewrite rset_set_other by exact N. rewrite rset_put_same. apply smem_srem.
        -- intros x. rewrite rset_set_same. apply smem_sadd.
        -- rewrite rset_set_other by exact N. rewrite rset_put_same.
           intros E0. rewrite R1, raw_view_put_same, E0. reflexivity.
        -- intros k' N1 N2. rewrite raw_view_set_other by exact N2. apply raw_view_put_other. exact N1.
    + apply pair_eq in G as [Hr Hd']; subst r d'. split; reflexivity.
Qed.

(* a missing source answers 0 whatever the destination holds; a set source with a destination
   of another type is a WRONGTYPE error *)
Lemma smove_missing_src_raw d c src dst m :
  raw_view d src = None -> exec_smove d [c; src; dst; m] = (RInt 0, d).
Proof.
  intros H. unfold exec_smove. rewrite get_set_raw, H. reflexivity.
Qed.
Lemma smove_wrong_dst_raw d c src dst m s t :
  raw_view d src = Some (VSet s, t) -> vwrong (raw_view d dst) = true ->
  exec_smove d [c; src; dst; m] = (err_wrongtype, d).
Proof.
  intros H Hw. unfold exec_smove. rewrite !get_set_raw, H. cbn [vkind].
  unfold vwrong in Hw. destruct (vkind (raw_view d dst)); try discriminate. reflexivity.
Qed.

(* ---- SUNION / SINTER / SDIFF and the STORE forms ---- *)
Lemma all_right_operands d ks :
  (forall k, In k ks -> vwrong (raw_view d k) = false) ->
  operands d ks = Some (map (rset d) ks).
Proof. intros H. apply operands_ok. intros k Hk. apply vwrong_get. apply H. exact Hk. Qed.

Lemma some_wrong_operand d ks :
  (exists k, In k ks /\ vwrong (raw_view d k) = true) -> operands d ks = None.
Proof.
  intros (k & Hk & Hw). apply operands_wrong. exists k. split; [exact Hk|].
  rewrite get_set_raw. unfold vwrong in Hw. destruct (vkind (raw_view d k)); congruence.
Qed.

Lemma algebra_raw op d c ks :
  ks <> [] -> (forall k, In k ks -> vwrong (raw_view d k) = false) ->
  exec_algebra op d (c :: ks) = (RArr (map RBulk (op (map (rset d) ks))), d).
Proof.
  intros N H. unfold exec_algebra. destruct ks as [|k ks]; [congruence|].
  rewrite (all_right_operands d (k :: ks) H). reflexivity.
Qed.

Lemma algebra_wrong_raw op d c ks :
  (exists k, In k ks /\ vwrong (raw_view d k) = true) ->
  exec_algebra op d (c :: ks) = (err_wrongtype, d).
Proof.
  intros H. unfold exec_algebra. destruct ks as [|k ks]; [destruct H as (k & [] & _)|].
  rewrite (some_wrong_operand d (k :: ks) H). reflexivity.
Qed.

Lemma store_raw op d c dst ks :
  ks <> [] -> (forall k, In k ks -> vwrong (raw_view d k) = false) ->
  exec_algebra_store op d (c :: dst :: ks) =
  (RInt (zlength (op (map (rset d) ks))), store_set d dst (op (map (rset d) ks))).
Proof.
  intros N H. unfold exec_algebra_store. destruct ks as [|k ks]; [congruence|].
  rewrite (all_right_operands d (k :: ks) H). reflexivity.
Qed.

Lemma store_wrong_raw op d c dst ks :
  (exists k, In k ks /\ vwrong (raw_view d k) = true) ->
  exec_algebra_store op d (c :: dst :: ks) = (err_wrongtype, d).
Proof.
  intros H. unfold exec_algebra_store. destruct ks as [|k ks]; [destruct H as (k & [] & _)|].
  rewrite (some_wrong_operand d (k :: ks) H). reflexivity.
Qed.

(* the mathematics of the three results, over the sets the keys hold ([f] = rset d) *)
Lemma union_keys (f : bytes -> list bytes) ks m :
  In m (union_all (map f ks)) <-> exists k, In k ks /\ In m (f k).
Proof.
  rewrite In_union_all. split.
  - intros (s & Hs & Hm). apply in_map_iff in Hs as (k & <- & Hk). exists k. split; assumption.
  - intros (k & Hk & Hm). exists (f k). split; [apply in_map; exact Hk|exact Hm].
Qed.

Lemma inter_keys (f : bytes -> list bytes) ks m : ks <> [] ->
  (In m (inter_all (map f ks)) <-> forall k, In k ks -> In m (f k)).
Proof.
  intros N. rewrite In_inter_all by (destruct ks; [congruence|discriminate]). split.
  - intros H k Hk. apply H. apply in_map. exact Hk.
  - intros H s Hs. apply in_map_iff in Hs as (k & <- & Hk). apply H. exact Hk.
Qed.

Lemma diff_keys (f : bytes -> list bytes) k ks m :
  In m (diff_all (map f (k :: ks))) <-> In m (f k) /\ forall k', In k' ks -> ~ In m (f k').
Proof.
  cbn [map]. rewrite In_diff_all. split; intros [H1 H2]; split; try exact H1.
  - intros k' Hk'. apply H2. apply in_map. exact Hk'.
  - intros t Ht. apply in_map_iff in Ht as (k' & <- & Hk'). apply H2. exact Hk'.
Qed.

Lemma op_keys_nodup op d ks : op_nodup op -> sets_ok d -> NoDup (op (map (rset d) ks)).
Proof.
  intros Hop OK. apply Hop. intros s Hs. apply in_map_iff in Hs as (k & <- & _).
  apply sets_ok_rset. exact OK.
Qed.

(* ---- SPOP ---- *)
Lemma to_nat_min_le n (s : list bytes) : (Z.to_nat (Z.min n (zlength s)) <= List.length s)%nat.
Proof. unfold zlength. lia. Qed.

Lemma spop_count_raw d c k cnt n hint r d' :
  sets_ok d -> atoi64 cnt = Some n -> 0 <= n -> vwrong (raw_view d k) = false ->
  exec_spop d [c; k; cnt] hint = (r, d') ->
  exists ms,
    r = RArr (map RBulk ms) /\ NoDup ms /\
    (forall m, In m ms -> smem m (rset d k) = true) /\
    zlength ms = Z.min n (zlength (rset d k)) /\
    (forall x, smem x (rset d' k) = smem x (rset d k) && negb (smem x ms)) /\
    (rset d' k = [] -> raw_view d' k = None) /\
    (forall k', k' <> k -> raw_view d' k' = raw_view d k').
Proof.
  intros OK Hc Hn Hw H. apply vwrong_get in Hw. unfold exec_spop in H. rewrite Hc in H.
  destruct (n <? 0) eqn:L; [lia|].
  destruct (get_set d k) eqn:E; [|congruence|]; apply pair_eq in H as [Hr Hd]; subst r d'.
  - exists []. rewrite (rset_missing d k E). repeat split; try constructor.
    + intros m [].
    + unfold zlength. cbn. lia.
    + intros _. apply raw_view_missing. exact E.
  - rewrite (rset_found d k s E).
    destruct (sets_ok_get d k s OK E) as [ND _].
    destruct (choose_distinct_sound s (Z.to_nat (Z.min n (zlength s))) hint ND (to_nat_min_le n s))
      as (A1 & A2 & A3).
    exists (choose_distinct s (Z.to_nat (Z.min n (zlength s))) hint).
    rewrite rset_put_same. repeat split.
    + exact A1.
    + intros m Hm. apply smem_In. apply A2. exact Hm.
    + unfold zlength at 1. rewrite A3. unfold zlength. lia.
    + intros x. apply smem_srem_all.
    + intros E0. rewrite raw_view_put_same, E0. reflexivity.
    + intros k' N. apply raw_view_put_other. exact N.
Qed.

(* every reply the reference allows is accepted as it is *)
Lemma spop_count_accepts d c k cnt n ms :
  atoi64 cnt = Some n -> 0 <= n -> vwrong (raw_view d k) = false ->
  NoDup ms -> (forall m, In m ms -> smem m (rset d k) = true) ->
  zlength ms = Z.min n (zlength (rset d k)) ->
  fst (exec_spop d [c; k; cnt] (RArr (map RBulk ms))) = RArr (map RBulk ms).
Proof.
  intros Hc Hn Hw ND Hin Hlen. apply vwrong_get in Hw. unfold exec_spop. rewrite Hc.
  destruct (n <? 0) eqn:L; [lia|].
  destruct (get_set d k) eqn:E; [|congruence|]; cbn [fst].
  - rewrite (rset_missing d k E) in Hlen. destruct ms; [reflexivity|]. unfold zlength in Hlen. cbn in Hlen. lia.
  - rewrite (rset_found d k s E) in *. rewrite choose_distinct_complete; [reflexivity|exact ND| |].
    + intros m Hm. apply smem_In. apply Hin. exact Hm.
    + unfold zlength in *. lia.
Qed.

Lemma spop_bad_count_raw d c k cnt hint :
  (atoi64 cnt = None \/ exists n, atoi64 cnt = Some n /\ n < 0) ->
  exec_spop d [c; k; cnt] hint = (err_other, d).
Proof.
  intros [H|(n & H & L)]; unfold exec_spop; rewrite H; [reflexivity|].
  destruct (n <? 0) eqn:L'; [reflexivity|lia].
Qed.

Lemma spop_one_raw d c k hint r d' :
  vwrong (raw_view d k) = false ->
  exec_spop d [c; k] hint = (r, d') ->
  (rset d k = [] -> r = RNil /\ d' = d) /\
  (rset d k <> [] ->
     exists m, r = RBulk m /\ smem m (rset d k) = true /\
       (forall x, smem x (rset d' k) = smem x (rset d k) && negb (bytes_eqb x m)) /\
       (rset d' k = [] -> raw_view d' k = None) /\
       (forall k', k' <> k -> raw_view d' k' = raw_view d k')).
Proof.
  intros Hw H. apply vwrong_get in Hw. unfold exec_spop in H.
  destruct (get_set d k) eqn:E; [|congruence|].
  - rewrite (rset_missing d k E). apply pair_eq in H as [Hr Hd]; subst r d'.
    split; [intros _; split; reflexivity|congruence].
  - rewrite (rset_found d k s E). destruct (choose_one s hint) as [m|] eqn:C;
      apply pair_eq in H as [Hr Hd]; subst r d'.
    + pose proof (choose_one_sound s hint m C) as Hm. split.
      * intros ->. destruct Hm.
      * intros _. exists m. rewrite rset_put_same. repeat split.
        -- apply smem_In. exact Hm.
        -- intros x. apply smem_srem.
        -- intros E0. rewrite raw_view_put_same, E0. reflexivity.
        -- intros k' N. apply raw_view_put_other. exact N.
    + apply choose_one_none in C. subst s. split; [intros _; split; reflexivity|congruence].
Qed.

Lemma spop_one_accepts d c k m :
  vwrong (raw_view d k) = false -> smem m (rset d k) = true ->
  fst (exec_spop d [c; k] (RBulk m)) = RBulk m.
Proof.
  intros Hw Hm. apply vwrong_get in Hw. unfold exec_spop.
  destruct (get_set d k) eqn:E; [|congruence|].
  - rewrite (rset_missing d k E) in Hm. discriminate.
  - rewrite (rset_found d k s E) in Hm. rewrite choose_one_complete by (apply smem_In; exact Hm). reflexivity.
Qed.

(* ---- SRANDMEMBER ---- *)
Lemma srandmember_one_raw d c k hint r d' :
  vwrong (raw_view d k) = false ->
  exec_srandmember d [c; k] hint = (r, d') ->
  d' = d /\
  (rset d k = [] -> r = RNil) /\
  (rset d k <> [] -> exists m, r = RBulk m /\ smem m (rset d k) = true).
Proof.
  intros Hw H. apply vwrong_get in Hw. unfold exec_srandmember in H.
  destruct (get_set d k) eqn:E; [|congruence|].
  - rewrite (rset_missing d k E). apply pair_eq in H as [Hr Hd]; subst r d'.
    split; [reflexivity|]. split; [reflexivity|congruence].
  - rewrite (rset_found d k s E). destruct (choose_one s hint) as [m|] eqn:C;
      apply pair_eq in H as [Hr Hd]; subst r d'; (split; [reflexivity|]).
    + pose proof (choose_one_sound s hint m C) as Hm. split.
      * intros ->. destruct Hm.
      * intros _. exists m. split; [reflexivity|apply smem_In; exact Hm].
    + apply choose_one_none in C. subst s. split; [reflexivity|congruence].
Qed.

Lemma srandmember_count_raw d c k cnt n hint r d' :
  sets_ok d -> atoi64 cnt = Some n -> - max_random_repeat <= n -> vwrong (raw_view d k) = false ->
  exec_srandmember d [c; k; cnt] hint = (r, d') ->
  d' = d /\
  exists ms,
    r = RArr (map RBulk ms) /\
    (forall m, In m ms -> smem m (rset d k) = true) /\
    (0 <= n -> NoDup ms /\ zlength ms = Z.min n (zlength (rset d k))) /\
    (n < 0 -> zlength ms = if zlength (rset d k) =? 0 then 0 else - n).
Proof.
  intros OK Hc Hn Hw H. apply vwrong_get in Hw. unfold exec_srandmember in H. rewrite Hc in H.
  destruct (n <? - max_random_repeat) eqn:L; [lia|]. cbn [andb] in H.
  destruct (get_set d k) eqn:E; [|congruence|].
  - apply pair_eq in H as [Hr Hd]; subst r d'. split; [reflexivity|].
    exists []. rewrite (rset_missing d k E). repeat split; try constructor.
    + intros m [].
    + unfold zlength. cbn. lia.
  - rewrite (rset_found d k s E). destruct (sets_ok_get d k s OK E) as [ND NE].
    destruct (n >=? 0) eqn:G; apply pair_eq in H as [Hr Hd]; subst r d'; (split; [reflexivity|]).
    + destruct (choose_distinct_sound s (Z.to_nat (Z.min n (zlength s))) hint ND (to_nat_min_le n s))
        as (A1 & A2 & A3).
      exists (choose_distinct s (Z.to_nat (Z.min n (zlength s))) hint). repeat split.
      * intros m Hm. apply smem_In. apply A2. exact Hm.
      * exact A1.
      * unfold zlength at 1. rewrite A3. unfold zlength. lia.
      * intros X. lia.
    + destruct (choose_repeated_sound s (Z.to_nat (- n)) hint NE) as (A1 & A2).
      exists (choose_repeated s (Z.to_nat (- n)) hint). repeat split.
      * intros m Hm. apply smem_In. apply A1. exact Hm.
      * lia.
      * lia.
      * intros _. unfold zlength at 1. rewrite A2.
        destruct (zlength s =? 0) eqn:Z0.
        -- destruct s; [congruence|]. unfold zlength in Z0. cbn in Z0. lia.
        -- lia.
Qed.

Lemma srandmember_count_accepts d c k cnt n ms :
  atoi64 cnt = Some n -> - max_random_repeat <= n -> vwrong (raw_view d k) = false ->
  (forall m, In m ms -> smem m (rset d k) = true) ->
  (0 <= n -> NoDup ms /\ zlength ms = Z.min n (zlength (rset d k))) ->
  (n < 0 -> zlength ms = if zlength (rset d k) =? 0 then 0 else - n) ->
  fst (exec_srandmember d [c; k; cnt] (RArr (map RBulk ms))) = RArr (map RBulk ms).
Proof.
  intros Hc Hn Hw Hin Hpos Hneg. apply vwrong_get in Hw. unfold exec_srandmember. rewrite Hc.
  destruct (n <? - max_random_repeat) eqn:L; [lia|]. cbn [andb].
  assert (Z0 : forall l : list bytes, zlength l = 0 -> l = []).
  { intros l. destruct l; [reflexivity|]. unfold zlength. cbn. lia. }
  destruct (get_set d k) eqn:E; [|congruence|]; cbn [fst].
  - rewrite (rset_missing d k E) in *. destruct (Z_lt_ge_dec n 0) as [N|N].
    + rewrite (Z0 ms); [reflexivity|]. rewrite (Hneg N). reflexivity.
    + destruct (Hpos ltac:(lia)) as [_ Hl]. rewrite (Z0 ms); [reflexivity|]. rewrite Hl. unfold zlength. cbn. lia.
  - rewrite (rset_found d k s E) in *. destruct (n >=? 0) eqn:G; cbn [fst].
    + destruct (Hpos ltac:(lia)) as [ND Hl].
      rewrite choose_distinct_complete; [reflexivity|exact ND| |].
      * intros m Hm. apply smem_In. apply Hin. exact Hm.
      * unfold zlength in *. lia.
    + assert (N : n < 0) by lia. specialize (Hneg N).
      destruct (zlength s =? 0) eqn:Zs.
      * rewrite (Z0 ms Hneg). rewrite (Z0 s) by lia. cbn. destruct (Z.to_nat (- n)); reflexivity.
      * rewrite choose_repeated_complete; [reflexivity| |].
        -- intros m Hm. apply smem_In. apply Hin. exact Hm.
        -- unfold zlength in *. lia.
Qed.

Lemma srandmember_bad_count_raw d c k cnt hint :
  atoi64 cnt = None -> exec_srandmember d [c; k; cnt] hint = (err_other, d).
Proof. intros H. unfold exec_srandmember. rewrite H. reflexivity. Qed.

(* beyond the bound of the repaired code: the refusal, or what the reference demands *)
Lemma srandmember_beyond_raw d c k cnt n hint r d' :
  atoi64 cnt = Some n -> n < - max_random_repeat -> vwrong (raw_view d k) = false ->
  exec_srandmember d [c; k; cnt] hint = (r, d') ->
  d' = d /\
  (r = err_other \/
   exists ms, r = RArr (map RBulk ms) /\
     (forall m, In m ms -> smem m (rset d k) = true) /\
     zlength ms = if zlength (rset d k) =? 0 then 0 else - n).
Proof.
  intros Hc Hn Hw H. apply vwrong_get in Hw. unfold exec_srandmember in H. rewrite Hc in H.
  assert (Hmax : 0 < max_random_repeat) by reflexivity.
  destruct (n <? - max_random_repeat) eqn:L; [|lia]. cbn [andb] in H.
  destruct (refused hint); [apply pair_eq in H as [Hr Hd]; subst r d'; split; [reflexivity|left; reflexivity]|].
  destruct (get_set d k) eqn:E; [|congruence|].
  - apply pair_eq in H as [Hr Hd]; subst r d'. split; [reflexivity|]. right. exists [].
    rewrite (rset_missing d k E). repeat split. intros m [].
  - destruct (n >=? 0) eqn:G; [lia|].
    destruct (accept_repeated s (- n) hint) as [ms|] eqn:A;
      apply pair_eq in H as [Hr Hd]; subst r d'; (split; [reflexivity|]); [|left; reflexivity].
    right. exists ms. rewrite (rset_found d k s E).
    destruct (accept_repeated_sound s (- n) hint ms A) as [A1 A2]. repeat split.
    + intros m Hm. apply smem_In. apply A1. exact Hm.
    + rewrite A2. destruct (zlength s =? 0) eqn:Z0; [|reflexivity].
      exfalso. apply Z.eqb_eq in Z0. assert (ms = []).
      { destruct ms as [|x ms]; [reflexivity|]. destruct s; [destruct (A1 x (or_introl eq_refl))|].
        unfold zlength in Z0. cbn in Z0. lia. }
      subst ms. unfold zlength in A2. cbn in A2. lia.
Qed.

(* ---- what the deadline / footprint proofs of Mem/TtlProofs.v need from this family ----
   Every set executor reaches the database through db_get (via [get_set]) and writes it through
   db_set / db_del (via [put_set], [store_set]) on keys taken from its arguments.  The only
   place where the database is read inside a Fixpoint is [operands] (SUNION/SINTER/SDIFF and
   their STORE forms); the lemmas below are the induction that the generic tactics cannot do. *)
Lemma get_set_ext a b k : db_get a k = db_get b k -> get_set a k = get_set b k.
Proof. unfold get_set. intros ->. reflexivity. Qed.

(* the operand collection depends only on what the listed keys hold *)
Lemma operands_ext a b ks :
  (forall k, In k ks -> db_get a k = db_get b k) -> operands a ks = operands b ks.
Proof.
  induction ks as [|k ks IH]; intros H; cbn; [reflexivity|].
  rewrite (get_set_ext a b k (H k (or_introl eq_refl))).
  rewrite IH by (intros k' Hk'; apply H; right; exact Hk'). reflexivity.
Qed.

Lemma store_set_cases d k s :
  store_set d k s = match s with [] => db_del d k | _ => db_set (db_del d k) k (VSet s) end.
Proof. reflexivity. Qed.

Lemma db_get_store_set d k s k' :
  db_get (store_set d k s) k' =
  if bytes_eqb k' k then match s with [] => None | _ => Some (VSet s) end else db_get d k'.
Proof.
  destruct s; cbn [store_set]; rewrite ?db_get_set, db_get_del; destruct (bytes_eqb k' k); reflexivity.
Qed.

(* the *STORE forms are the only set commands that touch a deadline: the destination loses its *)
Lemma db_ttl_store_set d k s k' :
  db_ttl (store_set d k s) k' = if bytes_eqb k' k then None else db_ttl d k'.
Proof. destruct s; cbn [store_set]; rewrite ?db_ttl_set, db_ttl_del; reflexivity. Qed.

(* SUNION/SINTER/SDIFF: the reply depends only on what the argument keys hold; no write *)
Lemma exec_algebra_snd op d args : snd (exec_algebra op d args) = d.
Proof.
  unfold exec_algebra. destruct args as [|c [|k ks]]; try reflexivity.
  destruct (operands d (k :: ks)); reflexivity.
Qed.

Lemma exec_algebra_ext op a b args :
  (forall k, In k (tl args) -> db_get a k = db_get b k) ->
  fst (exec_algebra op a args) = fst (exec_algebra op b args).
Proof.
  intros H. unfold exec_algebra. destruct args as [|c [|k ks]]; try reflexivity.
  rewrite (operands_ext a b (k :: ks) H). destruct (operands b (k :: ks)); reflexivity.
Qed.

(* the STORE forms: same reply on databases that agree on the operand keys, and the only write
   is [store_set] on the destination -- the second argument -- with the same result *)
Lemma exec_algebra_store_ext op a b args :
  (forall k, In k (tl args) -> db_get a k = db_get b k) ->
  fst (exec_algebra_store op a args) = fst (exec_algebra_store op b args) /\
  ((snd (exec_algebra_store op a args) = a /\ snd (exec_algebra_store op b args) = b) \/
   exists dst r, In dst (tl args) /\
     snd (exec_algebra_store op a args) = store_set a dst r /\
     snd (exec_algebra_store op b args) = store_set b dst r).
Proof.
  intros H. unfold exec_algebra_store.
  destruct args as [|c [|dst [|k ks]]]; try (split; [reflexivity|left; split; reflexivity]).
  assert (E : operands a (k :: ks) = operands b (k :: ks)).
  { apply operands_ext. intros k' Hk'. apply H. right. exact Hk'. }
  rewrite E. destruct (operands b (k :: ks)) as [ss|]; [|split; [reflexivity|left; split; reflexivity]].
  split; [reflexivity|]. right. exists dst, (op ss). split; [left; reflexivity|split; reflexivity].
Qed.

Lemma exec_algebra_store_snd op d args :
  snd (exec_algebra_store op d args) = d \/
  exists dst r, In dst (tl args) /\ snd (exec_algebra_store op d args) = store_set d dst r.
Proof.
  destruct (exec_algebra_store_ext op d d args (fun _ _ => eq_refl)) as [_ [[E _]|(dst & r & I & E & _)]];
    [left; exact E|right; exists dst, r; split; assumption].
Qed.

(* the eleven other commands never touch a deadline of a key that is still there *)
Definition sets_store_names : list bytes := [B "sunionstore"; B "sinterstore"; B "sdiffstore"].

(* [keeps d d']: every key still present in d' has the deadline it had in d (this is
   TtlProofs.ttl_keep, restated here so that this file does not depend on TtlProofs.v) *)
Definition keeps (d d' : db) : Prop := forall k, db_get d' k = None \/ db_ttl d' k = db_ttl d k.

Lemma keeps_refl d : keeps d d.
Proof. intros k. right. reflexivity. Qed.
Lemma keeps_set d k v : keeps d (db_set d k v).
Proof. intros k0. right. apply db_ttl_set. Qed.
Lemma keeps_del_after d d1 k : keeps d d1 -> keeps d (db_del d1 k).
Proof.
  intros H k0. rewrite db_get_del, db_ttl_del. destruct (bytes_eqb k0 k); [left; reflexivity|apply H].
Qed.
Lemma keeps_put d k s : keeps d (put_set d k s).
Proof. destruct s; cbn [put_set]; [apply keeps_del_after, keeps_refl|apply keeps_set]. Qed.
Lemma keeps_set_after d d1 k v : keeps d d1 -> db_ttl d1 k = db_ttl d k -> keeps d (db_set d1 k v).
Proof.
  intros H E k0. rewrite db_get_set, db_ttl_set. destruct (bytes_eqb_spec k0 k) as [->|N].
  - right. exact E.
  - apply H.
Qed.

Lemma db_ttl_put_other d k s k' : k' <> k -> db_ttl (put_set d k s) k' = db_ttl d k'.
Proof.
  intros N. destruct s; cbn [put_set]; [|reflexivity]. rewrite db_ttl_del.
  destruct (bytes_eqb_spec k' k); [contradiction|reflexivity].
Qed.

Lemma exec_smove_keeps d args : keeps d (snd (exec_smove d args)).
Proof.
  unfold exec_smove. destruct args as [|c [|src [|dst [|m [|x r]]]]]; try apply keeps_refl.
  destruct (get_set d src); try apply keeps_refl.
  assert (G : forall t, bytes_eqb src dst = false ->
              keeps d (db_set (put_set d src (srem s m)) dst (VSet (sadd t m)))).
  { intros t N. apply keeps_set_after; [apply keeps_put|]. apply db_ttl_put_other.
    intros E. subst dst. rewrite bytes_eqb_refl in N. discriminate. }
  destruct (get_set d dst); try apply keeps_refl;
    (destruct (negb (smem m s)); [apply keeps_refl|]);
    (destruct (bytes_eqb src dst) eqn:N; [apply keeps_refl|]); cbn [snd]; apply G; reflexivity.
Qed.

(* every set command except the three STORE forms leaves the deadlines alone *)
Theorem sets_dispatch_keeps d now nowms n args hint r d' :
  existsb (bytes_eqb n) sets_store_names = false ->
  sets_dispatch d now nowms n args hint = Some (r, d') -> keeps d d'.
Proof.
  intros C. unfold sets_dispatch.
  repeat match goal with
  | |- context [if is n ?c then _ else _] =>
    let Q := fresh "Q" in
    destruct (is n c) eqn:Q; [apply bytes_eqb_eq in Q; subst n; try discriminate C|clear Q]
  end; intros E; try discriminate; injection E as E;
  apply (f_equal snd) in E; cbn [snd] in E; subst d'.
  - unfold exec_sadd. destruct args as [|c [|k [|m ms]]]; try apply keeps_refl.
    destruct (get_set d k); cbn [snd]; first [apply keeps_refl|apply keeps_set].
  - unfold exec_srem. destruct args as [|c [|k [|m ms]]]; try apply keeps_refl.
    destruct (get_set d k); cbn [snd]; first [apply keeps_refl|apply keeps_put].
  - unfold exec_sismember. destruct args as [|c [|k [|m [|x r0]]]]; try apply keeps_refl.
    destruct (get_set d k); apply keeps_refl.
  - unfold exec_scard. destruct args as [|c [|k [|x r0]]]; try apply keeps_refl.
    destruct (get_set d k); apply keeps_refl.
  - unfold exec_smembers. destruct args as [|c [|k [|x r0]]]; try apply keeps_refl.
    destruct (get_set d k); apply keeps_refl.
  - apply exec_smove_keeps.
  - unfold exec_spop. destruct args as [|c [|k [|cnt [|x r0]]]]; try apply keeps_refl.
    + destruct (get_set d k); try apply keeps_refl.
      destruct (choose_one s hint); cbn [snd]; first [apply keeps_refl|apply keeps_put].
    + destruct (atoi64 cnt) as [z|]; try apply keeps_refl. destruct (z <? 0); try apply keeps_refl.
      destruct (get_set d k); cbn [snd]; first [apply keeps_refl|apply keeps_put].
  - assert (X : snd (exec_srandmember d args hint) = d).
    { pose proof (exec_srandmember_basic d args hint) as (_ & _ & _).
      unfold exec_srandmember. destruct args as [|c [|k [|cnt [|x r0]]]]; try reflexivity.
      - destruct (get_set d k); try reflexivity. destruct (choose_one s hint); reflexivity.
      - destruct (atoi64 cnt) as [z|]; try reflexivity.
        destruct ((z <? - max_random_repeat) && refused hint); try reflexivity.
        destruct (get_set d k); try reflexivity. destruct (z >=? 0); try reflexivity.
        destruct (z <? - max_random_repeat); try reflexivity.
        destruct (accept_repeated s (- z) hint); reflexivity. }
    rewrite X. apply keeps_refl.
  - rewrite exec_algebra_snd. apply keeps_refl.
  - rewrite exec_algebra_snd. apply keeps_refl.
  - rewrite exec_algebra_snd. apply keeps_refl.
  - unfold exec_member. destruct args as [|a0 [|b0 [|c0 r0]]]; apply keeps_refl.
Qed.

(* ================================================================== E. the same, for any database and clock
   [sets_step] is one set command on an arbitrary database at clock [now]: exactly what
   Exec.exec does for the names of this family (expired keys are purged first).  Everything
   is stated through the shared semantic [view]. *)
Definition sets_step (d : db) (now nowms : Z) (n : bytes) (args : list bytes) (hint : reply)
  : option (reply * db) :=
  sets_dispatch (purge d now) now nowms n args hint.

(* the set a key holds at clock [now]: empty for a missing (or expired) key *)
Definition set_of (d : db) (now : Z) (k : bytes) : list bytes := vset (view d now k).
(* membership semantics: false for a missing key *)
Definition mem_of (d : db) (now : Z) (k m : bytes) : bool := smem m (set_of d now k).
Definition card_of (d : db) (now : Z) (k : bytes) : Z := zlength (set_of d now k).
(* the key holds a value of another type *)
Definition wrong_at (d : db) (now : Z) (k : bytes) : bool := vwrong (view d now k).

Definition fresh (d : db) (now : Z) : Prop := forall k, expired d now k = false.

Lemma view_fresh d now k : fresh d now -> view d now k = raw_view d k.
Proof. intros F. unfold view, raw_view. rewrite (F k). reflexivity. Qed.
Lemma fresh_purge d now : db_wf d -> fresh (purge d now) now.
Proof. intros W k. apply expired_purge_false. exact W. Qed.
Lemma fresh_ttl_le d d' now : ttl_le d' d -> fresh d now -> fresh d' now.
Proof.
  intros L F k. unfold expired. destruct (db_ttl d' k) as [t|] eqn:E; [|reflexivity].
  apply L in E. specialize (F k). unfold expired in F. rewrite E in F. exact F.
Qed.

Lemma view_purge_same d now k : db_wf d -> view (purge d now) now k = view d now k.
Proof. intros W. rewrite view_fresh by (apply fresh_purge; exact W). apply raw_view_purge. exact W. Qed.

(* the bridge used by every theorem below *)
Lemma step_bridge d now nowms n args hint r d' :
  db_wf d -> sets_step d now nowms n args hint = Some (r, d') ->
  sets_dispatch (purge d now) now nowms n args hint = Some (r, d') /\
  db_wf (purge d now) /\
  (forall k, raw_view (purge d now) k = view d now k) /\
  (forall k, raw_view d' k = view d' now k) /\
  (sets_ok d -> sets_ok (purge d now)).
Proof.
  intros W H. unfold sets_step in H. split; [exact H|]. split; [apply db_wf_purge; exact W|].
  split; [intros k; apply raw_view_purge; exact W|]. split; [|apply sets_ok_purge].
  intros k. symmetry. apply view_fresh.
  eapply fresh_ttl_le; [eapply sets_dispatch_ttl_le; exact H|apply fresh_purge; exact W].
Qed.

(* dispatch by name *)
Lemma dispatch_sadd d now nowms args hint : sets_dispatch d now nowms (B "sadd") args hint = Some (exec_sadd d args).
Proof. reflexivity. Qed.
Lemma dispatch_srem d now nowms args hint : sets_dispatch d now nowms (B "srem") args hint = Some (exec_srem d args).
Proof. reflexivity. Qed.
Lemma dispatch_sismember d now nowms args hint : sets_dispatch d now nowms (B "sismember") args hint = Some (exec_sismember d args).
Proof. reflexivity. Qed.
Lemma dispatch_scard d now nowms args hint : sets_dispatch d now nowms (B "scard") args hint = Some (exec_scard d args).
Proof. reflexivity. Qed.
Lemma dispatch_smembers d now nowms args hint : sets_dispatch d now nowms (B "smembers") args hint = Some (exec_smembers d args).
Proof. reflexivity. Qed.
Lemma dispatch_smove d now nowms args hint : sets_dispatch d now nowms (B "smove") args hint = Some (exec_smove d args).
Proof. reflexivity. Qed.
Lemma dispatch_spop d now nowms args hint : sets_dispatch d now nowms (B "spop") args hint = Some (exec_spop d args hint).
Proof. reflexivity. Qed.
Lemma dispatch_srandmember d now nowms args hint : sets_dispatch d now nowms (B "srandmember") args hint = Some (exec_srandmember d args hint).
Proof. reflexivity. Qed.
Lemma dispatch_sunion d now nowms args hint : sets_dispatch d now nowms (B "sunion") args hint = Some (exec_algebra union_all d args).
Proof. reflexivity. Qed.
Lemma dispatch_sinter d now nowms args hint : sets_dispatch d now nowms (B "sinter") args hint = Some (exec_algebra inter_all d args).
Proof. reflexivity. Qed.
Lemma dispatch_sdiff d now nowms args hint : sets_dispatch d now nowms (B "sdiff") args hint = Some (exec_algebra diff_all d args).
Proof. reflexivity. Qed.
Lemma dispatch_sunionstore d now nowms args hint : sets_dispatch d now nowms (B "sunionstore") args hint = Some (exec_algebra_store union_all d args).
Proof. reflexivity. Qed.
Lemma dispatch_sinterstore d now nowms args hint : sets_dispatch d now nowms (B "sinterstore") args hint = Some (exec_algebra_store inter_all d args).
Proof. reflexivity. Qed.
Lemma dispatch_sdiffstore d now nowms args hint : sets_dispatch d now nowms (B "sdiffstore") args hint = Some (exec_algebra_store diff_all d args).
Proof. reflexivity. Qed.

Lemma some_eq {A} (a b : A) : Some a = Some b -> a = b.
Proof. intros H. inversion H. reflexivity. Qed.

(* the deadline a key carries at clock [now] *)
Definition ttl_of (d : db) (now : Z) (k : bytes) : option Z :=
  match view d now k with Some (_, t) => t | None => None end.

Lemma db_ttl_raw d k : db_wf d ->
  db_ttl d k = match raw_view d k with Some (_, t) => t | None => None end.
Proof.
  intros (_ & _ & W3). unfold raw_view. destruct (db_get d k) eqn:E; [reflexivity|].
  destruct (db_ttl d k) eqn:T; [|reflexivity]. exfalso.
  unfold db_ttl in T. apply alookup_Some_in in T. apply W3 in T.
  unfold db_get in E. apply alookup_None_notin in E. contradiction.
Qed.

Ltac bridge W H lem :=
  let D := fresh "D" in let W0 := fresh "W0" in let V0 := fresh "V0" in let V1 := fresh "V1" in
  let OK0 := fresh "OK0" in
  destruct (step_bridge _ _ _ _ _ _ _ _ W H) as (D & W0 & V0 & V1 & OK0);
  rewrite lem in D; apply some_eq in D;
  unfold mem_of, card_of, set_of, wrong_at, ttl_of in *.

(* ---- SADD ---- *)
Theorem step_sadd d now nowms c k ms hint r d' :
  db_wf d -> ms <> [] -> wrong_at d now k = false ->
  sets_step d now nowms (B "sadd") (c :: k :: ms) hint = Some (r, d') ->
  (forall m, mem_of d' now k m = mem_of d now k m || smem m ms) /\
  (forall k', k' <> k -> view d' now k' = view d now k') /\
  r = RInt (card_of d' now k - card_of d now k) /\
  view d' now k = Some (VSet (set_of d' now k), ttl_of d now k).
Proof.
  intros W Hms Hw H. bridge W H dispatch_sadd. rewrite <- V0 in Hw.
  destruct (sadd_raw (purge d now) c k ms r d' Hms Hw D) as (A1 & A2 & A3 & A4).
  repeat split.
  - intros m. rewrite <- V0, <- V1. apply A1.
  - intros k' N. rewrite <- V0, <- V1. apply A2. exact N.
  - rewrite <- V0, <- V1. exact A3.
  - rewrite <- V0, <- !V1. rewrite <- (db_ttl_raw _ k W0). exact A4.
Qed.

Theorem step_sadd_one d now nowms c k m hint r d' :
  db_wf d -> wrong_at d now k = false ->
  sets_step d now nowms (B "sadd") [c; k; m] hint = Some (r, d') ->
  r = RInt (if mem_of d now k m then 0 else 1).
Proof.
  intros W Hw H. bridge W H dispatch_sadd. rewrite <- V0 in Hw. rewrite <- V0.
  apply (sadd_one_raw (purge d now) c k m r d' Hw D).
Qed.

(* ---- SREM ---- *)
Theorem step_srem d now nowms c k ms hint r d' :
  db_wf d -> ms <> [] -> wrong_at d now k = false ->
  sets_step d now nowms (B "srem") (c :: k :: ms) hint = Some (r, d') ->
  (forall m, mem_of d' now k m = mem_of d now k m && negb (smem m ms)) /\
  (forall k', k' <> k -> view d' now k' = view d now k') /\
  r = RInt (card_of d now k - card_of d' now k) /\
  (set_of d' now k = [] -> view d' now k = None).
Proof.
  intros W Hms Hw H. bridge W H dispatch_srem. rewrite <- V0 in Hw.
  destruct (srem_raw (purge d now) c k ms r d' Hms Hw D) as (A1 & A2 & A3 & A4).
  repeat split.
  - intros m. rewrite <- V0, <- V1. apply A1.
  - intros k' N. rewrite <- V0, <- V1. apply A2. exact N.
  - rewrite <- V0, <- V1. exact A3.
  - rewrite <- !V1. exact A4.
Qed.

Theorem step_srem_one d now nowms c k m hint r d' :
  db_wf d -> sets_ok d -> wrong_at d now k = false ->
  sets_step d now nowms (B "srem") [c; k; m] hint = Some (r, d') ->
  r = RInt (if mem_of d now k m then 1 else 0).
Proof.
  intros W OK Hw H. bridge W H dispatch_srem. rewrite <- V0 in Hw. rewrite <- V0.
  apply (srem_one_raw (purge d now) c k m r d' (OK0 OK) Hw D).
Qed.

(* ---- the reading commands: the reply is the membership / cardinality / member list, and
   nothing observable changes ---- *)
Definition unchanged (d d' : db) (now : Z) : Prop := forall k, view d' now k = view d now k.

Lemma unchanged_purge d now : db_wf d -> unchanged d (purge d now) now.
Proof. intros W k. apply view_purge_same. exact W. Qed.

Theorem step_sismember d now nowms c k m hint :
  db_wf d -> wrong_at d now k = false ->
  exists d', sets_step d now nowms (B "sismember") [c; k; m] hint
             = Some (RInt (if mem_of d now k m then 1 else 0), d') /\ unchanged d d' now.
Proof.
  intros W Hw. exists (purge d now). split; [|apply unchanged_purge; exact W].
  unfold sets_step. rewrite dispatch_sismember. unfold wrong_at, mem_of, set_of in *.
  rewrite <- (raw_view_purge d now k W) in *. rewrite (sismember_raw _ c k m Hw). reflexivity.
Qed.

Theorem step_scard d now nowms c k hint :
  db_wf d -> wrong_at d now k = false ->
  exists d', sets_step d now nowms (B "scard") [c; k] hint = Some (RInt (card_of d now k), d') /\
             unchanged d d' now.
Proof.
  intros W Hw. exists (purge d now). split; [|apply unchanged_purge; exact W].
  unfold sets_step. rewrite dispatch_scard. unfold wrong_at, card_of, set_of in *.
  rewrite <- (raw_view_purge d now k W) in *. rewrite (scard_raw _ c k Hw). reflexivity.
Qed.

Theorem step_smembers d now nowms c k hint :
  db_wf d -> sets_ok d -> wrong_at d now k = false ->
  exists d', sets_step d now nowms (B "smembers") [c; k] hint
             = Some (RArr (map RBulk (set_of d now k)), d') /\
             unchanged d d' now /\ NoDup (set_of d now k) /\
             (forall m, In m (set_of d now k) <-> mem_of d now k m = true).
Proof.
  intros W OK Hw. exists (purge d now). split; [|split; [apply unchanged_purge; exact W|]].
  - unfold sets_step. rewrite dispatch_smembers. unfold wrong_at, set_of in *.
    rewrite <- (raw_view_purge d now k W) in *. rewrite (smembers_raw _ c k Hw). reflexivity.
  - unfold mem_of, set_of. rewrite <- (raw_view_purge d now k W). split.
    + apply (sets_ok_rset (purge d now) k). apply sets_ok_purge. exact OK.
    + intros m. symmetry. apply smem_In.
Qed.

(* ---- SMOVE ---- *)
Theorem step_smove d now nowms c src dst m hint r d' :
  db_wf d -> wrong_at d now src = false -> wrong_at d now dst = false ->
  sets_step d now nowms (B "smove") [c; src; dst; m] hint = Some (r, d') ->
  if mem_of d now src m then
    r = RInt 1 /\
    (src = dst -> unchanged d d' now) /\
    (src <> dst ->
       (forall x, mem_of d' now src x = mem_of d now src x && negb (bytes_eqb x m)) /\
       (forall x, mem_of d' now dst x = mem_of d now dst x || bytes_eqb x m) /\
       (set_of d' now src = [] -> view d' now src = None) /\
       (forall k', k' <> src -> k' <> dst -> view d' now k' = view d now k'))
  else r = RInt 0 /\ unchanged d d' now.
Proof.
  intros W Hs Hd H. bridge W H dispatch_smove. rewrite <- V0 in Hs, Hd.
  pose proof (smove_raw (purge d now) c src dst m r d' Hs Hd D) as A.
  rewrite <- (V0 src). fold (rset (purge d now) src). destruct (smem m (rset (purge d now) src)).
  - destruct A as (A1 & A2 & A3). split; [exact A1|]. split.
    + intros E. rewrite (A2 E). apply unchanged_purge. exact W.
    + intros N. destruct (A3 N) as (B1 & B2 & B3 & B4). repeat split.
      * intros x. rewrite <- ?V0, <- ?V1. apply B1.
      * intros x. rewrite <- ?V0, <- ?V1. apply B2.
      * rewrite <- !V1. exact B3.
      * intros k' N1 N2. rewrite <- ?V0, <- ?V1. apply B4; assumption.
  - destruct A as (A1 & A2). split; [exact A1|]. rewrite A2. apply unchanged_purge. exact W.
Qed.

Theorem step_smove_missing_src d now nowms c src dst m hint :
  db_wf d -> view d now src = None ->
  exists d', sets_step d now nowms (B "smove") [c; src; dst; m] hint = Some (RInt 0, d') /\
             unchanged d d' now.
Proof.
  intros W Hv. exists (purge d now). split; [|apply unchanged_purge; exact W].
  unfold sets_step. rewrite dispatch_smove. rewrite <- (raw_view_purge d now src W) in Hv.
  rewrite (smove_missing_src_raw _ c src dst m Hv). reflexivity.
Qed.

(* ---- SUNION / SINTER / SDIFF: the reply is the mathematical result over the sets the keys
   hold (missing = empty), duplicate-free, and nothing changes ---- *)
Definition none_wrong (d : db) (now : Z) (ks : list bytes) : Prop :=
  forall k, In k ks -> wrong_at d now k = false.
Definition some_wrong (d : db) (now : Z) (ks : list bytes) : Prop :=
  exists k, In k ks /\ wrong_at d now k = true.

Lemma map_rset_purge d now ks : db_wf d -> map (rset (purge d now)) ks = map (set_of d now) ks.
Proof.
  intros W. apply map_ext. intros k. unfold rset, set_of. rewrite raw_view_purge by exact W. reflexivity.
Qed.

Lemma none_wrong_raw d now ks : db_wf d -> none_wrong d now ks ->
  forall k, In k ks -> vwrong (raw_view (purge d now) k) = false.
Proof. intros W H k Hk. rewrite raw_view_purge by exact W. apply H. exact Hk. Qed.
Lemma some_wrong_raw d now ks : db_wf d -> some_wrong d now ks ->
  exists k, In k ks /\ vwrong (raw_view (purge d now) k) = true.
Proof. intros W (k & Hk & Hw). exists k. rewrite raw_view_purge by exact W. split; assumption. Qed.

Lemma step_algebra n op d now nowms c ks hint :
  (forall d0 args, sets_dispatch d0 now nowms n args hint = Some (exec_algebra op d0 args)) ->
  db_wf d -> ks <> [] -> none_wrong d now ks ->
  exists d', sets_step d now nowms n (c :: ks) hint
             = Some (RArr (map RBulk (op (map (set_of d now) ks))), d') /\ unchanged d d' now.
Proof.
  intros Hn W N H. exists (purge d now). split; [|apply unchanged_purge; exact W].
  unfold sets_step. rewrite Hn. rewrite (algebra_raw op _ c ks N (none_wrong_raw d now ks W H)).
  rewrite map_rset_purge by exact W. reflexivity.
Qed.

Lemma step_algebra_wrong n op d now nowms c ks hint :
  (forall d0 args, sets_dispatch d0 now nowms n args hint = Some (exec_algebra op d0 args)) ->
  db_wf d -> some_wrong d now ks ->
  exists d', sets_step d now nowms n (c :: ks) hint = Some (err_wrongtype, d') /\ unchanged d d' now.
Proof.
  intros Hn W H. exists (purge d now). split; [|apply unchanged_purge; exact W].
  unfold sets_step. rewrite Hn. rewrite (algebra_wrong_raw op _ c ks (some_wrong_raw d now ks W H)).
  reflexivity.
Qed.

Lemma set_of_nodup d now k : sets_ok d -> NoDup (set_of d now k).
Proof.
  intros OK. unfold set_of, view. destruct (db_get d k) as [v|] eqn:E; [|constructor].
  destruct (expired d now k); [constructor|]. destruct v; try constructor. apply (OK k _ E).
Qed.

Theorem step_sunion d now nowms c ks hint :
  db_wf d -> ks <> [] -> none_wrong d now ks ->
  exists res d',
    sets_step d now nowms (B "sunion") (c :: ks) hint = Some (RArr (map RBulk res), d') /\
    unchanged d d' now /\ NoDup res /\
    (forall m, In m res <-> exists k, In k ks /\ mem_of d now k m = true).
Proof.
  intros W N H. destruct (step_algebra (B "sunion") union_all d now nowms c ks hint
                            (fun d0 args => dispatch_sunion d0 now nowms args hint) W N H) as (d' & E & U).
  exists (union_all (map (set_of d now) ks)), d'. split; [exact E|]. split; [exact U|].
  split; [apply NoDup_union_all|]. intros m. rewrite union_keys. unfold mem_of.
  split; intros (k & Hk & Hm); exists k; (split; [exact Hk|]); apply smem_In; exact Hm.
Qed.

Theorem step_sinter d now nowms c ks hint :
  db_wf d -> sets_ok d -> ks <> [] -> none_wrong d now ks ->
  exists res d',
    sets_step d now nowms (B "sinter") (c :: ks) hint = Some (RArr (map RBulk res), d') /\
    unchanged d d' now /\ NoDup res /\
    (forall m, In m res <-> forall k, In k ks -> mem_of d now k m = true).
Proof.
  intros W OK N H. destruct (step_algebra (B "sinter") inter_all d now nowms c ks hint
                            (fun d0 args => dispatch_sinter d0 now nowms args hint) W N H) as (d' & E & U).
  exists (inter_all (map (set_of d now) ks)), d'. split; [exact E|]. split; [exact U|]. split.
  - apply NoDup_inter_all. intros s Hs. apply in_map_iff in Hs as (k & <- & _). apply set_of_nodup. exact OK.
  - intros m. rewrite (inter_keys _ ks m N). unfold mem_of.
    split; intros Hm k Hk; apply smem_In; apply Hm; exact Hk.
Qed.

Theorem step_sdiff d now nowms c k ks hint :
  db_wf d -> sets_ok d -> none_wrong d now (k :: ks) ->
  exists res d',
    sets_step d now nowms (B "sdiff") (c :: k :: ks) hint = Some (RArr (map RBulk res), d') /\
    unchanged d d' now /\ NoDup res /\
    (forall m, In m res <-> mem_of d now k m = true /\ forall k', In k' ks -> mem_of d now k' m = false).
Proof.
  intros W OK H. destruct (step_algebra (B "sdiff") diff_all d now nowms c (k :: ks) hint
                            (fun d0 args => dispatch_sdiff d0 now nowms args hint) W ltac:(discriminate) H)
    as (d' & E & U).
  exists (diff_all (map (set_of d now) (k :: ks))), d'. split; [exact E|]. split; [exact U|]. split.
  - apply NoDup_diff_all. intros s Hs. apply in_map_iff in Hs as (k0 & <- & _). apply set_of_nodup. exact OK.
  - intros m. rewrite diff_keys. unfold mem_of. rewrite smem_In. split; intros [H1 H2]; (split; [exact H1|]).
    + intros k' Hk'. apply smem_false. apply H2. exact Hk'.
    + intros k' Hk'. apply smem_false. apply H2. exact Hk'.
Qed.

Theorem step_algebra_wrongtype d now nowms n c ks hint :
  In n [B "sunion"; B "sinter"; B "sdiff"] -> db_wf d -> some_wrong d now ks ->
  exists d', sets_step d now nowms n (c :: ks) hint = Some (err_wrongtype, d') /\ unchanged d d' now.
Proof.
  intros Hn W H. cbn in Hn. destruct Hn as [<-|[<-|[<-|[]]]].
  - apply (step_algebra_wrong _ union_all); [intros; apply dispatch_sunion|exact W|exact H].
  - apply (step_algebra_wrong _ inter_all); [intros; apply dispatch_sinter|exact W|exact H].
  - apply (step_algebra_wrong _ diff_all); [intros; apply dispatch_sdiff|exact W|exact H].
Qed.

(* ---- the STORE forms: the destination afterwards holds exactly the result (no key when it is
   empty, no deadline otherwise), no other key changes, the reply is the cardinality ---- *)
Lemma step_store n op d now nowms c dst ks hint r d' :
  (forall d0 args, sets_dispatch d0 now nowms n args hint = Some (exec_algebra_store op d0 args)) ->
  db_wf d -> ks <> [] -> none_wrong d now ks ->
  sets_step d now nowms n (c :: dst :: ks) hint = Some (r, d') ->
  let res := op (map (set_of d now) ks) in
  r = RInt (zlength res) /\
  view d' now dst = match res with [] => None | _ => Some (VSet res, None) end /\
  (forall m, mem_of d' now dst m = smem m res) /\
  (forall k', k' <> dst -> view d' now k' = view d now k').
Proof.
  intros Hn W N H E. cbn zeta.
  destruct (step_bridge _ _ _ _ _ _ _ _ W E) as (D & W0 & V0 & V1 & OK0).
  rewrite Hn in D. apply some_eq in D.
  rewrite (store_raw op _ c dst ks N (none_wrong_raw d now ks W H)) in D.
  rewrite map_rset_purge in D by exact W.
  apply pair_eq in D as [Hr Hd]. split; [exact Hr|]. split; [|split].
  - rewrite <- V1, Hd. apply raw_view_store_same.
  - intros m. unfold mem_of, set_of. rewrite <- V1, Hd. fold (rset (store_set (purge d now) dst (op (map (set_of d now) ks))) dst).
    rewrite rset_store_same. reflexivity.
  - intros k' Nk. rewrite <- V1, <- V0, Hd. apply raw_view_store_other. exact Nk.
Qed.

Lemma step_store_wrong n op d now nowms c dst ks hint :
  (forall d0 args, sets_dispatch d0 now nowms n args hint = Some (exec_algebra_store op d0 args)) ->
  db_wf d -> some_wrong d now ks ->
  exists d', sets_step d now nowms n (c :: dst :: ks) hint = Some (err_wrongtype, d') /\ unchanged d d' now.
Proof.
  intros Hn W H. exists (purge d now). split; [|apply unchanged_purge; exact W].
  unfold sets_step. rewrite Hn. rewrite (store_wrong_raw op _ c dst ks (some_wrong_raw d now ks W H)).
  reflexivity.
Qed.

Definition stored (d d' : db) (now : Z) (dst : bytes) (res : list bytes) (r : reply) : Prop :=
  r = RInt (zlength res) /\
  view d' now dst = match res with [] => None | _ => Some (VSet res, None) end /\
  (forall m, mem_of d' now dst m = smem m res) /\
  (forall k', k' <> dst -> view d' now k' = view d now k').

Theorem step_sunionstore d now nowms c dst ks hint r d' :
  db_wf d -> ks <> [] -> none_wrong d now ks ->
  sets_step d now nowms (B "sunionstore") (c :: dst :: ks) hint = Some (r, d') ->
  exists res, stored d d' now dst res r /\ NoDup res /\
    (forall m, In m res <-> exists k, In k ks /\ mem_of d now k m = true).
Proof.
  intros W N H E. exists (union_all (map (set_of d now) ks)). split.
  - apply (step_store (B "sunionstore") union_all d now nowms c dst ks hint r d'
             (fun d0 args => dispatch_sunionstore d0 now nowms args hint) W N H E).
  - split; [apply NoDup_union_all|]. intros m. rewrite union_keys. unfold mem_of.
    split; intros (k & Hk & Hm); exists k; (split; [exact Hk|]); apply smem_In; exact Hm.
Qed.

Theorem step_sinterstore d now nowms c dst ks hint r d' :
  db_wf d -> sets_ok d -> ks <> [] -> none_wrong d now ks ->
  sets_step d now nowms (B "sinterstore") (c :: dst :: ks) hint = Some (r, d') ->
  exists res, stored d d' now dst res r /\ NoDup res /\
    (forall m, In m res <-> forall k, In k ks -> mem_of d now k m = true).
Proof.
  intros W OK N H E. exists (inter_all (map (set_of d now) ks)). split.
  - apply (step_store (B "sinterstore") inter_all d now nowms c dst ks hint r d'
             (fun d0 args => dispatch_sinterstore d0 now nowms args hint) W N H E).
  - split.
    + apply NoDup_inter_all. intros s Hs. apply in_map_iff in Hs as (k & <- & _). apply set_of_nodup. exact OK.
    + intros m. rewrite (inter_keys _ ks m N). unfold mem_of.
      split; intros Hm k Hk; apply smem_In; apply Hm; exact Hk.
Qed.

Theorem step_sdiffstore d now nowms c dst k ks hint r d' :
  db_wf d -> sets_ok d -> none_wrong d now (k :: ks) ->
  sets_step d now nowms (B "sdiffstore") (c :: dst :: k :: ks) hint = Some (r, d') ->
  exists res, stored d d' now dst res r /\ NoDup res /\
    (forall m, In m res <-> mem_of d now k m = true /\ forall k', In k' ks -> mem_of d now k' m = false).
Proof.
  intros W OK H E. exists (diff_all (map (set_of d now) (k :: ks))). split.
  - apply (step_store (B "sdiffstore") diff_all d now nowms c dst (k :: ks) hint r d'
             (fun d0 args => dispatch_sdiffstore d0 now nowms args hint) W ltac:(discriminate) H E).
  - split.
    + apply NoDup_diff_all. intros s Hs. apply in_map_iff in Hs as (k0 & <- & _). apply set_of_nodup. exact OK.
    + intros m. rewrite diff_keys. unfold mem_of. rewrite smem_In. split; intros [H1 H2]; (split; [exact H1|]).
      * intros k' Hk'. apply smem_false. apply H2. exact Hk'.
      * intros k' Hk'. apply smem_false. apply H2. exact Hk'.
Qed.

Theorem step_store_wrongtype d now nowms n c dst ks hint :
  In n [B "sunionstore"; B "sinterstore"; B "sdiffstore"] -> db_wf d -> some_wrong d now ks ->
  exists d', sets_step d now nowms n (c :: dst :: ks) hint = Some (err_wrongtype, d') /\ unchanged d d' now.
Proof.
  intros Hn W H. cbn in Hn. destruct Hn as [<-|[<-|[<-|[]]]].
  - apply (step_store_wrong _ union_all); [intros; apply dispatch_sunionstore|exact W|exact H].
  - apply (step_store_wrong _ inter_all); [intros; apply dispatch_sinterstore|exact W|exact H].
  - apply (step_store_wrong _ diff_all); [intros; apply dispatch_sdiffstore|exact W|exact H].
Qed.

(* ---- SPOP: the accepted reply consists of distinct current members, of the right number, and
   exactly those are gone afterwards ---- *)
Theorem step_spop_count d now nowms c k cnt n hint r d' :
  db_wf d -> sets_ok d -> atoi64 cnt = Some n -> 0 <= n -> wrong_at d now k = false ->
  sets_step d now nowms (B "spop") [c; k; cnt] hint = Some (r, d') ->
  exists ms,
    r = RArr (map RBulk ms) /\ NoDup ms /\
    (forall m, In m ms -> mem_of d now k m = true) /\
    zlength ms = Z.min n (card_of d now k) /\
    (forall x, mem_of d' now k x = mem_of d now k x && negb (smem x ms)) /\
    (set_of d' now k = [] -> view d' now k = None) /\
    (forall k', k' <> k -> view d' now k' = view d now k').
Proof.
  intros W OK Hc Hn Hw H. bridge W H dispatch_spop. rewrite <- V0 in Hw.
  destruct (spop_count_raw (purge d now) c k cnt n hint r d' (OK0 OK) Hc Hn Hw D)
    as (ms & A1 & A2 & A3 & A4 & A5 & A6 & A7).
  exists ms. split; [exact A1|]. split; [exact A2|]. repeat split.
  - intros m Hm. rewrite <- V0. apply A3. exact Hm.
  - rewrite <- V0. exact A4.
  - intros x. rewrite <- V0, <- V1. apply A5.
  - rewrite <- !V1. exact A6.
  - intros k' N. rewrite <- V0, <- V1. apply A7. exact N.
Qed.

(* the acceptor refuses nothing the reference allows *)
Theorem step_spop_count_accepts d now nowms c k cnt n ms :
  db_wf d -> atoi64 cnt = Some n -> 0 <= n -> wrong_at d now k = false ->
  NoDup ms -> (forall m, In m ms -> mem_of d now k m = true) ->
  zlength ms = Z.min n (card_of d now k) ->
  exists d', sets_step d now nowms (B "spop") [c; k; cnt] (RArr (map RBulk ms))
             = Some (RArr (map RBulk ms), d').
Proof.
  intros W Hc Hn Hw ND Hin Hl. unfold sets_step. rewrite dispatch_spop.
  unfold wrong_at, mem_of, card_of, set_of in *. rewrite <- (raw_view_purge d now k W) in *.
  pose proof (spop_count_accepts (purge d now) c k cnt n ms Hc Hn Hw ND Hin Hl) as A.
  destruct (exec_spop (purge d now) [c; k; cnt] (RArr (map RBulk ms))) as [r d'].
  cbn [fst] in A. subst r. exists d'. reflexivity.
Qed.

Theorem step_spop_bad_count d now nowms c k cnt hint :
  db_wf d -> (atoi64 cnt = None \/ exists n, atoi64 cnt = Some n /\ n < 0) ->
  exists d', sets_step d now nowms (B "spop") [c; k; cnt] hint = Some (err_other, d') /\ unchanged d d' now.
Proof.
  intros W H. exists (purge d now). split; [|apply unchanged_purge; exact W].
  unfold sets_step. rewrite dispatch_spop, (spop_bad_count_raw _ c k cnt hint H). reflexivity.
Qed.

Theorem step_spop_one d now nowms c k hint r d' :
  db_wf d -> wrong_at d now k = false ->
  sets_step d now nowms (B "spop") [c; k] hint = Some (r, d') ->
  (set_of d now k = [] -> r = RNil /\ unchanged d d' now) /\
  (set_of d now k <> [] ->
     exists m, r = RBulk m /\ mem_of d now k m = true /\
       (forall x, mem_of d' now k x = mem_of d now k x && negb (bytes_eqb x m)) /\
       (set_of d' now k = [] -> view d' now k = None) /\
       (forall k', k' <> k -> view d' now k' = view d now k')).
Proof.
  intros W Hw H. bridge W H dispatch_spop. rewrite <- V0 in Hw.
  destruct (spop_one_raw (purge d now) c k hint r d' Hw D) as (A & C). rewrite <- V0. split.
  - intros E. destruct (A E) as [-> ->]. split; [reflexivity|apply unchanged_purge; exact W].
  - intros N. destruct (C N) as (m & B1 & B2 & B3 & B4 & B5). exists m.
    split; [exact B1|]. split; [exact B2|]. repeat split.
    + intros x. rewrite <- ?V0, <- V1. apply B3.
    + rewrite <- !V1. exact B4.
    + intros k' Nk. rewrite <- V0, <- V1. apply B5. exact Nk.
Qed.

Theorem step_spop_one_accepts d now nowms c k m :
  db_wf d -> wrong_at d now k = false -> mem_of d now k m = true ->
  exists d', sets_step d now nowms (B "spop") [c; k] (RBulk m) = Some (RBulk m, d').
Proof.
  intros W Hw Hm. unfold sets_step. rewrite dispatch_spop.
  unfold wrong_at, mem_of, set_of in *. rewrite <- (raw_view_purge d now k W) in *.
  pose proof (spop_one_accepts (purge d now) c k m Hw Hm) as A.
  destruct (exec_spop (purge d now) [c; k] (RBulk m)) as [r d'].
  cbn [fst] in A. subst r. exists d'. reflexivity.
Qed.

(* ---- SRANDMEMBER: only current members, the right number, nothing changes ---- *)
Theorem step_srandmember_one d now nowms c k hint r d' :
  db_wf d -> wrong_at d now k = false ->
  sets_step d now nowms (B "srandmember") [c; k] hint = Some (r, d') ->
  unchanged d d' now /\
  (set_of d now k = [] -> r = RNil) /\
  (set_of d now k <> [] -> exists m, r = RBulk m /\ mem_of d now k m = true).
Proof.
  intros W Hw H. bridge W H dispatch_srandmember. rewrite <- V0 in Hw.
  destruct (srandmember_one_raw (purge d now) c k hint r d' Hw D) as (A1 & A2 & A3).
  rewrite <- V0. split; [rewrite A1; apply unchanged_purge; exact W|]. split; [exact A2|exact A3].
Qed.

Theorem step_srandmember_count d now nowms c k cnt n hint r d' :
  db_wf d -> sets_ok d -> atoi64 cnt = Some n -> - max_random_repeat <= n -> wrong_at d now k = false ->
  sets_step d now nowms (B "srandmember") [c; k; cnt] hint = Some (r, d') ->
  unchanged d d' now /\
  exists ms,
    r = RArr (map RBulk ms) /\
    (forall m, In m ms -> mem_of d now k m = true) /\
    (0 <= n -> NoDup ms /\ zlength ms = Z.min n (card_of d now k)) /\
    (n < 0 -> zlength ms = if card_of d now k =? 0 then 0 else - n).
Proof.
  intros W OK Hc Hn Hw H. bridge W H dispatch_srandmember. rewrite <- V0 in Hw.
  destruct (srandmember_count_raw (purge d now) c k cnt n hint r d' (OK0 OK) Hc Hn Hw D)
    as (A1 & ms & A2 & A3 & A4 & A5).
  split; [rewrite A1; apply unchanged_purge; exact W|].
  exists ms. rewrite <- V0. split; [exact A2|]. split; [exact A3|]. split; [exact A4|exact A5].
Qed.

Theorem step_srandmember_count_accepts d now nowms c k cnt n ms :
  db_wf d -> atoi64 cnt = Some n -> - max_random_repeat <= n -> wrong_at d now k = false ->
  (forall m, In m ms -> mem_of d now k m = true) ->
  (0 <= n -> NoDup ms /\ zlength ms = Z.min n (card_of d now k)) ->
  (n < 0 -> zlength ms = if card_of d now k =? 0 then 0 else - n) ->
  exists d', sets_step d now nowms (B "srandmember") [c; k; cnt] (RArr (map RBulk ms))
             = Some (RArr (map RBulk ms), d').
Proof.
  intros W Hc Hn Hw Hin Hp Hneg. unfold sets_step. rewrite dispatch_srandmember.
  unfold wrong_at, mem_of, card_of, set_of in *. rewrite <- (raw_view_purge d now k W) in *.
  pose proof (srandmember_count_accepts (purge d now) c k cnt n ms Hc Hn Hw Hin Hp Hneg) as A.
  destruct (exec_srandmember (purge d now) [c; k; cnt] (RArr (map RBulk ms))) as [r d'].
  cbn [fst] in A. subst r. exists d'. reflexivity.
Qed.

(* a count that is not an integer is refused; a count beyond the bound of the repaired code
   (memdb: maxRandomRepeat) is refused too -- or, the reference knowing no bound, answered as
   the reference demands; either way nothing changes *)
Theorem step_srandmember_bad_count d now nowms c k cnt hint :
  db_wf d -> atoi64 cnt = None ->
  exists d', sets_step d now nowms (B "srandmember") [c; k; cnt] hint = Some (err_other, d') /\
             unchanged d d' now.
Proof.
  intros W H. exists (purge d now). split; [|apply unchanged_purge; exact W].
  unfold sets_step. rewrite dispatch_srandmember, (srandmember_bad_count_raw _ c k cnt hint H). reflexivity.
Qed.

Theorem step_srandmember_beyond d now nowms c k cnt n hint r d' :
  db_wf d -> atoi64 cnt = Some n -> n < - max_random_repeat -> wrong_at d now k = false ->
  sets_step d now nowms (B "srandmember") [c; k; cnt] hint = Some (r, d') ->
  unchanged d d' now /\
  (r = err_other \/
   exists ms, r = RArr (map RBulk ms) /\
     (forall m, In m ms -> mem_of d now k m = true) /\
     zlength ms = if card_of d now k =? 0 then 0 else - n).
Proof.
  intros W Hc Hn Hw H. bridge W H dispatch_srandmember. rewrite <- V0 in Hw.
  destruct (srandmember_beyond_raw (purge d now) c k cnt n hint r d' Hc Hn Hw D) as (A1 & A2).
  split; [rewrite A1; apply unchanged_purge; exact W|]. rewrite <- V0. exact A2.
Qed.

(* the repaired code's refusal is the model's answer whenever it is what was observed *)
Theorem step_srandmember_refusal_accepted d now nowms c k cnt n e :
  db_wf d -> atoi64 cnt = Some n -> n < - max_random_repeat -> e <> B "WRONGTYPE" ->
  exists d', sets_step d now nowms (B "srandmember") [c; k; cnt] (RErr e) = Some (err_other, d') /\
             unchanged d d' now.
Proof.
  intros W Hc Hn He. exists (purge d now). split; [|apply unchanged_purge; exact W].
  unfold sets_step. rewrite dispatch_srandmember. unfold exec_srandmember. rewrite Hc.
  destruct (n <? - max_random_repeat) eqn:L; [|lia]. cbn [andb refused].
  destruct (bytes_eqb_spec e (B "WRONGTYPE")); [contradiction|reflexivity].
Qed.

(* ---- WRONGTYPE: a key of another type gives that error; an error never changes anything ---- *)
Theorem step_error_unchanged d now nowms n args hint e d' :
  db_wf d -> sets_step d now nowms n args hint = Some (RErr e, d') -> unchanged d d' now.
Proof.
  intros W H. unfold sets_step in H. apply sets_dispatch_error_unchanged in H. subst d'.
  apply unchanged_purge. exact W.
Qed.

Theorem step_wrongtype_key d now nowms c k m ms dst hint :
  db_wf d -> wrong_at d now k = true ->
  let wt n args := sets_step d now nowms n args hint = Some (err_wrongtype, purge d now) in
  wt (B "sadd") (c :: k :: m :: ms) /\ wt (B "srem") (c :: k :: m :: ms) /\
  wt (B "sismember") [c; k; m] /\ wt (B "scard") [c; k] /\ wt (B "smembers") [c; k] /\
  wt (B "smove") [c; k; dst; m] /\ wt (B "spop") [c; k] /\ wt (B "srandmember") [c; k].
Proof.
  intros W Hw. cbn zeta. unfold wrong_at in Hw. rewrite <- (raw_view_purge d now k W) in Hw.
  destruct (wrongtype_key_raw (purge d now) c k m ms dst hint Hw) as (A1 & A2 & A3 & A4 & A5 & A6 & A7 & A8).
  unfold sets_step.
  rewrite dispatch_sadd, dispatch_srem, dispatch_sismember, dispatch_scard, dispatch_smembers,
    dispatch_smove, dispatch_spop, dispatch_srandmember.
  rewrite A1, A2, A3, A4, A5, A6, A7, A8. repeat split; reflexivity.
Qed.

Theorem step_smove_wrong_dst d now nowms c src dst m s t hint :
  db_wf d -> view d now src = Some (VSet s, t) -> wrong_at d now dst = true ->
  sets_step d now nowms (B "smove") [c; src; dst; m] hint = Some (err_wrongtype, purge d now).
Proof.
  intros W Hs Hd. unfold sets_step, wrong_at in *. rewrite dispatch_smove.
  rewrite <- (raw_view_purge d now src W) in Hs. rewrite <- (raw_view_purge d now dst W) in Hd.
  rewrite (smove_wrong_dst_raw _ c src dst m s t Hs Hd). reflexivity.
Qed.

(* ---- the invariants, for every step and every program ---- *)
Theorem step_invariants d now nowms n args hint r d' :
  db_wf d -> sets_ok d -> sets_step d now nowms n args hint = Some (r, d') ->
  db_wf d' /\ sets_ok d' /\ reply_wf r = true.
Proof.
  intros W OK H. unfold sets_step in H. split; [|split].
  - eapply sets_dispatch_wf_pres; [apply db_wf_purge; exact W|exact H].
  - eapply sets_dispatch_sets_ok; [apply sets_ok_purge; exact OK|exact H].
  - eapply sets_dispatch_reply_wf; exact H.
Qed.

(* a program: any sequence of commands with their clocks and observed replies; a step whose
   name is not a set command leaves the database alone *)
Definition sstep := (Z * Z * bytes * list bytes * reply)%type.
Definition run_step (d : db) (s : sstep) : db :=
  let '(now, nowms, n, args, hint) := s in
  match sets_step d now nowms n args hint with Some (_, d') => d' | None => d end.
Definition run (prog : list sstep) (d : db) : db := fold_left run_step prog d.

Lemma run_step_invariants d s : db_wf d -> sets_ok d -> db_wf (run_step d s) /\ sets_ok (run_step d s).
Proof.
  intros W OK. destruct s as [[[[now nowms] n] args] hint]. unfold run_step.
  destruct (sets_step d now nowms n args hint) as [[r d']|] eqn:E; [|split; assumption].
  destruct (step_invariants d now nowms n args hint r d' W OK E) as (W' & OK' & _). split; assumption.
Qed.

Theorem run_invariants prog : forall d, db_wf d -> sets_ok d -> db_wf (run prog d) /\ sets_ok (run prog d).
Proof.
  unfold run. induction prog as [|s prog IH]; intros d W OK; cbn [fold_left]; [split; assumption|].
  destruct (run_step_invariants d s W OK) as [W' OK']. apply IH; assumption.
Qed.

(* an emptied set ceases to exist: whatever the program, a key that holds a set holds a
   duplicate-free set with at least one member *)
Theorem emptied_set_removed prog d now k s t :
  db_wf d -> sets_ok d -> view (run prog d) now k = Some (VSet s, t) -> NoDup s /\ s <> [].
Proof.
  intros W OK H. destruct (run_invariants prog d W OK) as (_ & OK').
  unfold view in H. destruct (db_get (run prog d) k) as [v|] eqn:E; [|discriminate].
  destruct (expired (run prog d) now k); [discriminate|]. inversion H; subst.
  apply (OK' k _ E).
Qed.

(* ---- the family inside Exec.exec ---- *)
Definition sets_names : list bytes :=
  [B "sadd"; B "srem"; B "sismember"; B "scard"; B "smembers"; B "smove"; B "spop"; B "srandmember";
   B "sunion"; B "sinter"; B "sdiff"; B "sunionstore"; B "sinterstore"; B "sdiffstore"].

Lemma sets_names_handled n d now nowms args hint :
  In n sets_names -> sets_dispatch d now nowms n args hint <> None.
Proof.
  intros H. cbn in H.
  repeat (destruct H as [<-|H]; [discriminate|]). destruct H.
Qed.
