(* Command dispatch (server.Manager.ExecCommand / memdb.CmdTable) over the keyspace model. *)
Require Import Base.Bytes Base.GoInt Base.Reply Mem.Types Mem.Strings Mem.Lists.
Local Open Scope Z_scope.

(* [hint] is the reply observed on the implementation; only commands whose result depends on
   Go map iteration order / randomness consult it (acceptor form), all others ignore it. *)
Definition exec_cmd (d : db) (now nowms : Z) (args : list bytes) (hint : reply) : reply * db :=
  match args with
  | [] => (err_other, d)
  | name :: _ =>
    let n := lower name in
    if is n (B "set") then exec_set d now args
    else if is n (B "get") then exec_get d args
    else if is n (B "getrange") then exec_getrange d args
    else if is n (B "setrange") then exec_setrange d args
    else if is n (B "mget") then exec_mget d args
    else if is n (B "mset") then exec_mset d args
    else if is n (B "setex") then exec_setex d now args
    else if is n (B "setnx") then exec_setnx d args
    else if is n (B "strlen") then exec_strlen d args
    else if is n (B "incr") then exec_incr d args
    else if is n (B "decr") then exec_decr d args
    else if is n (B "incrby") then exec_incrby d args
    else if is n (B "decrby") then exec_decrby d args
    else if is n (B "append") then exec_append d args
    else if is n (B "del") then exec_del d args
    else if is n (B "exists") then exec_exists d args
    else if is n (B "keys") then exec_keys d args
    else if is n (B "expire") then exec_expire d now args
    else if is n (B "persist") then exec_persist d args
    else if is n (B "ttl") then exec_ttl d now args
    else if is n (B "type") then exec_type d args
    else if is n (B "rename") then exec_rename d args
    else if is n (B "ping") then exec_ping d args
    else if is n (B "llen") then exec_llen d args
    else if is n (B "lindex") then exec_lindex d args
    else if is n (B "lpos") then exec_lpos d args
    else if is n (B "lpop") then pop_cmd true d args
    else if is n (B "rpop") then pop_cmd false d args
    else if is n (B "lpush") then push_cmd true true d args
    else if is n (B "lpushx") then push_cmd true false d args
    else if is n (B "rpush") then push_cmd false true d args
    else if is n (B "rpushx") then push_cmd false false d args
    else if is n (B "lset") then exec_lset d args
    else if is n (B "lrem") then exec_lrem d args
    else if is n (B "ltrim") then exec_ltrim d args
    else if is n (B "lrange") then exec_lrange d args
    else if is n (B "lmove") then exec_lmove d args
    else if is n (B "blpop") then exec_bpop true d nowms args
    else if is n (B "brpop") then exec_bpop false d nowms args
    else (err_other, d)
  end.

(* one step at clock [now]: expired keys are invisible to every command *)
Definition exec (d : db) (now nowms : Z) (args : list bytes) (hint : reply) : reply * db :=
  exec_cmd (purge d now) now nowms args hint.
