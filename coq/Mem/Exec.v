(* Command dispatch (server.Manager.ExecCommand / memdb.CmdTable) over the keyspace model. *)
Require Import Base.Bytes Base.GoInt Base.Reply Mem.Types Mem.Strings Mem.Lists.
Require Import Mem.Hashes.
Require Import Mem.Avl Mem.ZSets.
Require Import Mem.Streams.
Require Import Mem.Sets.
Local Open Scope Z_scope.

(* A command family: given the (already purged) database, the clock in s and ms, the
   lower-cased command name, the full argument vector and the reply observed on the
   implementation ([hint]: consulted only by commands whose result depends on Go map iteration
   order / randomness -- acceptor form), returns None when the name is not one of its commands.
   Each family file under Mem/ defines its own [<family>_dispatch]; [families] lists them. *)
Definition family := db -> Z -> Z -> bytes -> list bytes -> reply -> option (reply * db).

Definition strings_dispatch : family := fun d now nowms n args hint =>
  if is n (B "set") then Some (exec_set d now args)
  else if is n (B "get") then Some (exec_get d args)
  else if is n (B "getrange") then Some (exec_getrange d args)
  else if is n (B "setrange") then Some (exec_setrange d args)
  else if is n (B "mget") then Some (exec_mget d args)
  else if is n (B "mset") then Some (exec_mset d args)
  else if is n (B "setex") then Some (exec_setex d now args)
  else if is n (B "setnx") then Some (exec_setnx d args)
  else if is n (B "strlen") then Some (exec_strlen d args)
  else if is n (B "incr") then Some (exec_incr d args)
  else if is n (B "decr") then Some (exec_decr d args)
  else if is n (B "incrby") then Some (exec_incrby d args)
  else if is n (B "decrby") then Some (exec_decrby d args)
  else if is n (B "incrbyfloat") then Some (exec_incrbyfloat d args hint)
  else if is n (B "append") then Some (exec_append d args)
  else if is n (B "del") then Some (exec_del d args)
  else if is n (B "exists") then Some (exec_exists d args)
  else if is n (B "keys") then Some (exec_keys d args)
  else if is n (B "expire") then Some (exec_expire d now args)
  else if is n (B "persist") then Some (exec_persist d args)
  else if is n (B "ttl") then Some (exec_ttl d now args)
  else if is n (B "type") then Some (exec_type d args)
  else if is n (B "rename") then Some (exec_rename d args)
  else if is n (B "ping") then Some (exec_ping d args)
  else None.

Definition lists_dispatch : family := fun d now nowms n args hint =>
  if is n (B "llen") then Some (exec_llen d args)
  else if is n (B "lindex") then Some (exec_lindex d args)
  else if is n (B "lpos") then Some (exec_lpos d args)
  else if is n (B "lpop") then Some (pop_cmd true d args)
  else if is n (B "rpop") then Some (pop_cmd false d args)
  else if is n (B "lpush") then Some (push_cmd true true d args)
  else if is n (B "lpushx") then Some (push_cmd true false d args)
  else if is n (B "rpush") then Some (push_cmd false true d args)
  else if is n (B "rpushx") then Some (push_cmd false false d args)
  else if is n (B "lset") then Some (exec_lset d args)
  else if is n (B "lrem") then Some (exec_lrem d args)
  else if is n (B "ltrim") then Some (exec_ltrim d args)
  else if is n (B "lrange") then Some (exec_lrange d args)
  else if is n (B "lmove") then Some (exec_lmove d args)
  else if is n (B "blpop") then Some (exec_bpop true d nowms args)
  else if is n (B "brpop") then Some (exec_bpop false d nowms args)
  else None.

Definition families : list family := [strings_dispatch; lists_dispatch; hashes_dispatch; sets_dispatch; zsets_dispatch; streams_dispatch].

Fixpoint dispatch (fs : list family) (d : db) (now nowms : Z) (n : bytes) (args : list bytes)
         (hint : reply) : reply * db :=
  match fs with
  | [] => (err_other, d)                              (* unknown command *)
  | f :: r => match f d now nowms n args hint with
              | Some res => res
              | None => dispatch r d now nowms n args hint
              end
  end.

Definition exec_cmd (d : db) (now nowms : Z) (args : list bytes) (hint : reply) : reply * db :=
  match args with
  | [] => (err_other, d)
  | name :: _ => dispatch families d now nowms (lower name) args hint
  end.

(* one step at clock [now]: expired keys are invisible to every command *)
Definition exec (d : db) (now nowms : Z) (args : list bytes) (hint : reply) : reply * db :=
  exec_cmd (purge d now) now nowms args hint.
