(* C03, command-model half: every reply the command model produces is [reply_wf], i.e. bytes
   chosen by a client reach a reply only inside a bulk string (length-prefixed), never inside a
   simple string or an error line.

   Structure: one lemma [<family>_dispatch_wf : family_wf <family>_dispatch] per command family,
   collected in [families_wf]; [dispatch_wf] is generic over the list of families, so a new
   family (hashes, sets, sorted sets, streams) plugs in by proving its own
   [<family>_dispatch_wf] and adding ONE line to [families_wf].  A family whose command uses the
   [hint] (observed reply, acceptor form) and echoes it must test [reply_wf hint] in the model,
   otherwise its lemma is not provable. *)
Require Import Base.Bytes Base.GoInt Base.Reply Mem.Types Mem.Strings Mem.Lists Mem.Exec Mem.Server.
Require Mem.StringsProofs.
(* the other families: each owner proves <family>_dispatch_reply_wf unconditionally *)
Require Mem.HashesProofs Mem.SetsProofs Mem.ZSetsProofs Mem.StreamsProofs.
Local Open Scope Z_scope.

Definition wf (r : reply) : Prop := reply_wf r = true.

(* what each family has to prove *)
Definition family_wf (f : family) : Prop :=
  forall d now nowms n args hint r d', f d now nowms n args hint = Some (r, d') -> wf r.

(* ---------------------------------------------------------------- building blocks *)

Lemma wf_err_other : wf err_other. Proof. reflexivity. Qed.
Lemma wf_err_wrongtype : wf err_wrongtype. Proof. reflexivity. Qed.
Lemma wf_rOK : wf rOK. Proof. reflexivity. Qed.

Lemma wf_arr_map {A} (f : A -> reply) (l : list A) :
  (forall x, wf (f x)) -> wf (RArr (map f l)).
Proof.
  intros H. unfold wf. cbn [reply_wf]. induction l as [|x l IH]; [reflexivity|].
  cbn [map forallb]. rewrite (H x), IH. reflexivity.
Qed.

Lemma wf_arr_bulk (l : list bytes) : wf (RArr (map RBulk l)).
Proof. apply wf_arr_map. intros x. reflexivity. Qed.

Lemma wf_arr_int (l : list Z) : wf (RArr (map RInt l)).
Proof. apply wf_arr_map. intros x. reflexivity. Qed.

Lemma wf_type_name v : wf (RSimple (type_name v)).
Proof. destruct v; reflexivity. Qed.

(* destruct whatever the reply still depends on; every leaf is a constant-shaped reply *)
Ltac wf_step :=
  match goal with
  | |- wf (fst (let '(_, _) := ?p in _)) => destruct p eqn:?
  | |- wf (fst (match ?x with _ => _ end)) => destruct x eqn:?
  | |- wf (fst (if ?x then _ else _)) => destruct x eqn:?
  | |- wf (if ?x then _ else _) => destruct x eqn:?
  | |- wf (match ?x with _ => _ end) => destruct x eqn:?
  end.

Ltac wf_leaf :=
  cbn [fst];
  first [ reflexivity
        | apply wf_arr_bulk
        | apply wf_arr_int
        | apply wf_type_name ].

Ltac wf_auto := repeat (cbn [fst]; wf_step); try wf_leaf.

(* ---------------------------------------------------------------- strings and keys *)

Lemma exec_set_wf d now args : wf (fst (exec_set d now args)).
Proof. unfold exec_set. wf_auto. Qed.

Lemma exec_get_wf d args : wf (fst (exec_get d args)).
Proof. unfold exec_get. wf_auto. Qed.

Lemma exec_getrange_wf d args : wf (fst (exec_getrange d args)).
Proof. unfold exec_getrange. wf_auto. Qed.

Lemma exec_setrange_wf d args : wf (fst (exec_setrange d args)).
Proof. unfold exec_setrange. wf_auto. Qed.

Lemma exec_mget_wf d args : wf (fst (exec_mget d args)).
Proof.
  unfold exec_mget. wf_auto.
  apply wf_arr_map. intros k. destruct (db_get d k) as [[]|]; reflexivity.
Qed.

Lemma exec_mset_wf d args : wf (fst (exec_mset d args)).
Proof. unfold exec_mset. wf_auto. Qed.

Lemma exec_setex_wf d now args : wf (fst (exec_setex d now args)).
Proof. unfold exec_setex. wf_auto. Qed.

Lemma exec_setnx_wf d args : wf (fst (exec_setnx d args)).
Proof. unfold exec_setnx. wf_auto. Qed.

Lemma exec_strlen_wf d args : wf (fst (exec_strlen d args)).
Proof. unfold exec_strlen. wf_auto. Qed.

Lemma incr_by_wf d k delta : wf (fst (incr_by d k delta)).
Proof. unfold incr_by. wf_auto. Qed.

Lemma exec_incr_wf d args : wf (fst (exec_incr d args)).
Proof. unfold exec_incr. repeat wf_step; try apply incr_by_wf; reflexivity. Qed.

Lemma exec_decr_wf d args : wf (fst (exec_decr d args)).
Proof. unfold exec_decr. repeat wf_step; try apply incr_by_wf; reflexivity. Qed.

Lemma exec_incrby_wf d args : wf (fst (exec_incrby d args)).
Proof. unfold exec_incrby. repeat wf_step; try apply incr_by_wf; reflexivity. Qed.

Lemma exec_decrby_wf d args : wf (fst (exec_decrby d args)).
Proof. unfold exec_decrby. repeat wf_step; try apply incr_by_wf; reflexivity. Qed.

Lemma exec_append_wf d args : wf (fst (exec_append d args)).
Proof. unfold exec_append. wf_auto. Qed.

Lemma exec_del_wf d args : wf (fst (exec_del d args)).
Proof. unfold exec_del. wf_auto. Qed.

Lemma exec_exists_wf d args : wf (fst (exec_exists d args)).
Proof. unfold exec_exists. wf_auto. Qed.

Lemma exec_keys_wf d args : wf (fst (exec_keys d args)).
Proof. unfold exec_keys. wf_auto. Qed.

Lemma exec_expire_wf d now args : wf (fst (exec_expire d now args)).
Proof. unfold exec_expire. wf_auto. Qed.

Lemma exec_persist_wf d args : wf (fst (exec_persist d args)).
Proof. unfold exec_persist. wf_auto. Qed.

Lemma exec_ttl_wf d now args : wf (fst (exec_ttl d now args)).
Proof. unfold exec_ttl. wf_auto. Qed.

Lemma exec_type_wf d args : wf (fst (exec_type d args)).
Proof. unfold exec_type. wf_auto. Qed.

Lemma exec_rename_wf d args : wf (fst (exec_rename d args)).
Proof. unfold exec_rename. wf_auto. Qed.

(* PING with an argument echoes it: as a bulk string *)
Lemma exec_ping_wf d args : wf (fst (exec_ping d args)).
Proof. unfold exec_ping. wf_auto. Qed.

(* a family lemma follows from the per-command lemmas: peel the name tests one by one *)
Lemma wf_of_fst (p : reply * db) r d' : p = (r, d') -> wf (fst p) -> wf r.
Proof. intros ->. exact (fun H => H). Qed.

Lemma strings_dispatch_wf : family_wf strings_dispatch.
Proof.
  intros d now nowms n args hint r d' H.
  exact (StringsProofs.strings_dispatch_reply_wf d now nowms n args hint r d' H).
Qed.

(* ---------------------------------------------------------------- lists *)

Lemma exec_llen_wf d args : wf (fst (exec_llen d args)).
Proof. unfold exec_llen. wf_auto. Qed.

Lemma exec_lindex_wf d args : wf (fst (exec_lindex d args)).
Proof. unfold exec_lindex. wf_auto. Qed.

Lemma push_cmd_wf l c d args : wf (fst (push_cmd l c d args)).
Proof. unfold push_cmd. wf_auto. Qed.

Lemma pop_cmd_wf l d args : wf (fst (pop_cmd l d args)).
Proof. unfold pop_cmd. wf_auto. Qed.

Lemma exec_lset_wf d args : wf (fst (exec_lset d args)).
Proof. unfold exec_lset. wf_auto. Qed.

Lemma exec_lrem_wf d args : wf (fst (exec_lrem d args)).
Proof. unfold exec_lrem. wf_auto. Qed.

Lemma exec_ltrim_wf d args : wf (fst (exec_ltrim d args)).
Proof. unfold exec_ltrim. wf_auto. Qed.

Lemma exec_lrange_wf d args : wf (fst (exec_lrange d args)).
Proof. unfold exec_lrange. wf_auto. Qed.

Lemma exec_lmove_wf d args : wf (fst (exec_lmove d args)).
Proof. unfold exec_lmove. wf_auto. Qed.

Lemma exec_lpos_wf d args : wf (fst (exec_lpos d args)).
Proof. unfold exec_lpos. wf_auto. Qed.

(* BLPOP/BRPOP reply with the key name and the element: both as bulk strings.  The blocking
   loop (Lists.block) only ever returns what one polling round (bpop_try) produced, or nil. *)
Lemma bpop_try_wf l : forall keys d r d', bpop_try l d keys = Some (r, d') -> wf r.
Proof.
  induction keys as [|k keys IH]; intros d r d' H; cbn [bpop_try] in H; [discriminate|].
  destruct (get_list d k) as [| |l0]; [exact (IH _ _ _ H)|injection H as <- _; reflexivity|].
  destruct l; [destruct l0|destruct (rev l0)];
    first [exact (IH _ _ _ H)|injection H as <- _; reflexivity].
Qed.

Lemma iter_until_inl {X Y : Type} (P : Y -> Prop) (f : X -> Y + X) :
  (forall x y, f x = inl y -> P y) ->
  forall p x y, iter_until p f x = inl y -> P y.
Proof.
  intros Hf. induction p as [q IH|q IH|]; intros x y H; cbn [iter_until] in H.
  - destruct (f x) as [y0|x0] eqn:E0; [injection H as <-; exact (Hf _ _ E0)|].
    destruct (iter_until q f x0) as [y1|x1] eqn:E1; [injection H as <-; exact (IH _ _ E1)|].
    exact (IH _ _ H).
  - destruct (iter_until q f x) as [y1|x1] eqn:E1; [injection H as <-; exact (IH _ _ E1)|].
    exact (IH _ _ H).
  - exact (Hf _ _ H).
Qed.

Lemma btick_inl_poll {S O R : Type} (poll : S -> Z -> option (R * S)) (P : R -> Prop) :
  (forall s t r s', poll s t = Some (r, s') -> P r) ->
  forall t0 (st : bst (S := S) (O := O)) r st', btick poll t0 st = inl (r, st') -> P r.
Proof.
  intros Hp t0 st r st' H. unfold btick in H.
  destruct (run_due _ (b_evs st) (b_s st)) as [[evs s] os].
  destruct (poll s _) as [[r0 s0]|] eqn:E; [|discriminate H].
  injection H as <- _. exact (Hp _ _ _ _ E).
Qed.

Lemma exec_bpop_wf l d nowms args : wf (fst (exec_bpop l d nowms args)).
Proof.
  unfold exec_bpop, bpop_run.
  destruct (bpop_parse args) as [[keys t]|]; [|reflexivity].
  unfold block, block_n.
  destruct (iter_until _ _ _) as [[r st]|st] eqn:E.
  - cbn [fst].
    refine (iter_until_inl (fun y => wf (fst y)) _ _ _ _ _ E).
    intros x [r0 st0] Hx. cbn [fst].
    refine (btick_inl_poll (bpop_poll l keys) wf _ _ _ _ _ Hx).
    intros s tm r1 s' Hp. unfold bpop_poll in Hp. exact (bpop_try_wf _ _ _ _ _ Hp).
  - destruct (run_due _ (b_evs st) (b_s st)) as [[evs s] os]. reflexivity.
Qed.

Lemma lists_dispatch_wf : family_wf lists_dispatch.
Proof.
  intros d now nowms n args hint r d' H. unfold lists_dispatch in H.
  repeat match type of H with
         | (if ?c then _ else _) = Some _ => destruct c
         end;
    try discriminate H;
    (injection H as H; eapply wf_of_fst; [exact H|]);
    first [ apply exec_llen_wf | apply exec_lindex_wf | apply exec_lpos_wf | apply pop_cmd_wf
          | apply push_cmd_wf | apply exec_lset_wf | apply exec_lrem_wf | apply exec_ltrim_wf
          | apply exec_lrange_wf | apply exec_lmove_wf | apply exec_bpop_wf ].
Qed.

(* ---------------------------------------------------------------- all families *)

(* ONE line per family: <family>_dispatch_wf, in the order of Exec.families *)
Lemma families_wf : Forall family_wf families.
Proof.
  unfold families.
  repeat constructor.
  - exact strings_dispatch_wf.
  - exact lists_dispatch_wf.
  - exact Mem.HashesProofs.hashes_dispatch_reply_wf.
  - exact Mem.SetsProofs.sets_dispatch_reply_wf.
  - exact Mem.ZSetsProofs.zsets_dispatch_reply_wf.
  - exact Mem.StreamsProofs.streams_dispatch_reply_wf.
Qed.

Lemma dispatch_wf fs : Forall family_wf fs ->
  forall d now nowms n args hint, wf (fst (dispatch fs d now nowms n args hint)).
Proof.
  induction 1 as [|f fs Hf _ IH]; intros d now nowms n args hint; cbn [dispatch].
  - reflexivity.
  - destruct (f d now nowms n args hint) as [[r d']|] eqn:E.
    + exact (Hf _ _ _ _ _ _ _ _ E).
    + apply IH.
Qed.

Lemma exec_cmd_wf d now nowms args hint : wf (fst (exec_cmd d now nowms args hint)).
Proof.
  unfold exec_cmd. destruct args as [|name rest]; [reflexivity|].
  apply dispatch_wf. exact families_wf.
Qed.

Lemma exec_wf d now nowms args hint : wf (fst (exec d now nowms args hint)).
Proof. unfold exec. apply exec_cmd_wf. Qed.

Lemma exec_select_wf s conn args : wf (fst (exec_select s conn args)).
Proof. unfold exec_select. wf_auto. Qed.

Theorem srv_exec_wf s conn now nowms args hint :
  reply_wf (fst (srv_exec s conn now nowms args hint)) = true.
Proof.
  change (wf (fst (srv_exec s conn now nowms args hint))).
  unfold srv_exec. destruct args as [|name rest]; [reflexivity|].
  destruct (is (lower name) _); [apply exec_select_wf|].
  destruct (nth_error (sdbs s) _) as [d|]; [|reflexivity].
  pose proof (exec_wf d now nowms (name :: rest) hint) as H.
  destruct (exec d now nowms (name :: rest) hint) as [r d']. exact H.
Qed.

(* the condition is not vacuous: a reply that carries client bytes in a simple string is not wf *)
Example not_wf_example : reply_wf (RArr [RSimple ["a"; "013"; "010"; "b"]%byte]) = false.
Proof. reflexivity. Qed.
